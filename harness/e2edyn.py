"""C01, dynamic: the CLOSED root of Props/C01S.lean (decoder model in front of bridge and SRAM models, driver
kind `root`) against the real hierarchy, cycle by cycle: root acknowledge and read data, the CSR-side outputs of
every Wishbone-CSR bridge, and the final contents of every SRAM. The CSR side of each bridge (decoders,
multiplexers, register bridges, event monitors, GPIO) is the real one: what it returns (`csr_bus.r_data`) is fed
to the model as the bridge's CSR read data. The initiator mostly follows the handshake (requests held until the
acknowledge, with back-to-back and idle gaps), gives up on addresses nobody acknowledges, and for a fifth of the
cases toggles everything at random."""
from . import lib, simutil, e2e
from .muxsim import El


def gen_case(seed, idx):
    return {"seed": seed, "idx": idx}


def run_impl(case):
    rnd = lib.rng_for(case["seed"], case["idx"], 101)
    h = e2e.build(rnd, lib.rng_for(case["seed"], case["idx"], 111))
    rs = lib.rng_for(case["seed"], case["idx"], 131)            # stimulus
    root, gb, cdw, ratio = h.root, h.gb, h.cdw, h.ratio
    mmap = root.bus.memory_map
    wst = {id(w): s_ for w, n_, (s_, e_, r_) in mmap.windows()}
    subs = sorted(h.subs, key=lambda t: wst[id(t[0].memory_map)])
    lines = [f"case {h.aw} {gb} {len(subs)}"]
    brs = []
    for k, (sub, ld) in enumerate(subs):
        head = f"{wst[id(sub.memory_map)]} {sub.memory_map.addr_width} {len(sub.adr)} {len(sub.dat_w)} {len(sub.sel)}"
        if ld[0] == "sram":
            s = ld[1]
            depth = s._mem_data.depth
            lines.append(f"sub sram {head} {cdw} {int(s.writable)} {depth} " + " ".join(str(int(v)) for v in s.init))
        else:
            lines.append(f"sub bridge {head} {cdw} {ratio}")
            brs.append((k, ld[2]))
    infos = list(mmap.all_resources())
    naddr = 1 << mmap.addr_width
    assigned = [a for i in infos for a in range(i.start, i.end)]
    els = [i.resource for i in infos if isinstance(i.resource, El) and i.resource.element.access.readable()]
    obs, fails = [], []
    stats = {"cycles": 0, "acks": 0, "transfers": 0, "gave_up": 0, "random_mode": 0, "bridges": len(brs), "srams": len(h.srams),
             "csr_strobes": 0}
    bus = root.bus
    sim = simutil.simulator(h.top, case)
    sim.add_clock(1e-6)
    chaotic = rs.random() < 0.2
    stats["random_mode"] = int(chaotic)
    N = 260

    async def tb(ctx):
        state = {"prev_read": False, "prev_adr": None}

        async def tick():
            # ---- one line per cycle: what the root presents + what every bridge's CSR side returns
            cyc, stb, we = ctx.get(bus.cyc), ctx.get(bus.stb), ctx.get(bus.we)
            adr, sel, datw = ctx.get(bus.adr), ctx.get(bus.sel), ctx.get(bus.dat_w)
            csr_r = ["0"] * len(subs)
            for k, br in brs:
                csr_r[k] = str(ctx.get(br.csr_bus.r_data))
            lines.append(f"cyc {cyc} {stb} {we} {adr} {sel} {datw} " + " ".join(csr_r))
            ack = ctx.get(bus.ack)
            shown = str(ctx.get(bus.dat_r)) if ack and state["prev_read"] and state["prev_adr"] == adr else "-"
            outs = []
            for k, br in brs:
                cb = br.csr_bus
                outs.append(f"{k}: {ctx.get(cb.addr)} {ctx.get(cb.r_stb)} {ctx.get(cb.w_stb)} {ctx.get(cb.w_data)}")
                stats["csr_strobes"] += ctx.get(cb.r_stb) + ctx.get(cb.w_stb)
            obs.append(f"{ack} {shown} | {' , '.join(outs)}")
            state["prev_read"], state["prev_adr"] = bool(cyc and stb and not we), adr
            stats["cycles"] += 1
            stats["acks"] += ack
            await ctx.tick()

        t = 0
        while stats["cycles"] < N:
            for e in els:
                if rs.random() < .3:
                    ctx.set(e.element.r_data, lib.bits(rs, e.element.width) if e.element.width else 0)
            if chaotic:
                ctx.set(bus.cyc, int(rs.random() < .7)); ctx.set(bus.stb, int(rs.random() < .7)); ctx.set(bus.we, rs.getrandbits(1))
                if rs.random() < .5:
                    a = rs.choice(assigned) if assigned and rs.random() < .7 else rs.randrange(naddr)
                    ctx.set(bus.adr, a >> gb)
                ctx.set(bus.sel, rs.getrandbits(ratio)); ctx.set(bus.dat_w, lib.bits(rs, cdw * ratio))
                await tick()
                continue
            # ---- a transfer held until acknowledged (or given up), then possibly the next one back-to-back
            a = rs.choice(assigned) if assigned and rs.random() < .8 else rs.randrange(naddr)
            sel = (1 << ratio) - 1 if rs.random() < .4 else (1 << (a & ((1 << gb) - 1))) if rs.random() < .6 else rs.getrandbits(ratio)
            ctx.set(bus.adr, a >> gb); ctx.set(bus.sel, sel); ctx.set(bus.we, int(rs.random() < .5))
            ctx.set(bus.dat_w, lib.bits(rs, cdw * ratio)); ctx.set(bus.cyc, 1); ctx.set(bus.stb, 1)
            stats["transfers"] += 1
            for _ in range(ratio + 5):
                acked = ctx.get(bus.ack)
                await tick()
                if acked:
                    break
            else:
                stats["gave_up"] += 1
            if rs.random() < .6:
                ctx.set(bus.cyc, 0 if rs.random() < .7 else 1); ctx.set(bus.stb, 0)
                if rs.random() < .3:
                    ctx.set(bus.adr, rs.randrange(1 << len(bus.adr))); ctx.set(bus.dat_w, lib.bits(rs, cdw * ratio))   # lines move while idle
                for _ in range(rs.randint(1, 3)):
                    await tick()
        ctx.set(bus.cyc, 0); ctx.set(bus.stb, 0)
        await tick(); await tick()
        for k, (sub, ld) in enumerate(subs):
            if ld[0] == "sram":
                s = ld[1]
                lines.append(f"mem {k}")
                obs.append("mem " + " ".join(str(ctx.get(s._mem_data[j])) for j in range(s._mem_data.depth)))

    sim.add_testbench(tb)
    sim.run()
    lines.append("end")
    return {"lines": lines, "obs": obs, "fails": fails, "stats": stats, "key": f"{len(subs)}/{case['idx']}",
            "descr": f"root aw={h.aw} wb_dw={cdw * ratio} csr_dw={cdw}: {len(brs)} bridges, {len(h.srams)} SRAMs"}
