"""C12: real field actions in amaranth.sim vs the Lean model `action`, plus the documented
closed forms evaluated on the real trace."""
from . import lib, simutil
from amaranth import Shape, Module, unsigned, signed
from amaranth.hdl import Value
from amaranth.lib import enum as aenum
from amaranth.sim import Simulator
from amaranth_soc.csr import action
from amaranth_soc import gpio


class Color(aenum.Enum, shape=unsigned(2)):
    A = 0
    B = 1
    C = 2
    D = 3


class Sparse(aenum.Enum, shape=unsigned(3)):
    """an enumeration that names only some of the values its shape can hold"""
    IDLE = 0
    RUN = 1
    HALT = 2
    FAULT = 5


class Flags(aenum.Flag, shape=unsigned(4)):
    A = 1
    B = 2
    C = 8


KINDS = ["R", "W", "RW", "RW1C", "RW1S", "RES"]


def gen_case(seed, idx, ncycles):
    return {"seed": seed, "idx": idx, "ncycles": ncycles}


def to_signed(v, w):
    return v - (1 << w) if w and v >= (1 << (w - 1)) else v


def run_impl(case):
    rnd = lib.rng_for(case["seed"], case["idx"], 1212)
    kind = KINDS[case["idx"] % len(KINDS)]
    shp = rnd.choice(["u", "u", "u", "s", "e"])
    if shp == "e":
        w, shape = 2, rnd.choice([Color, gpio.PinMode])
        xe = lib.rng_for(case["seed"], case["idx"], 1232).random()
        if xe < 0.35:
            w, shape = (3, Sparse) if xe < 0.2 else (4, Flags)      # values without a name are values all the same
    else:
        w = rnd.choice([0, 1, 2, 3, 3, 4, 5, 8, 9])
        if shp == "s" and w == 0:
            shp = "u"
        shape = unsigned(w) if shp == "u" else signed(w)
    mask = (1 << w) - 1
    init = lib.bits(rnd, w) if w else 0
    conv = (lambda v: to_signed(v, w)) if shp == "s" else (lambda v: v)
    # ---- aggregate shapes (own random stream): an array or struct layout of the same total width is a shape
    # like any other — the actions work on its bits, not on its elements
    layout_init = None
    xl = lib.rng_for(case["seed"], case["idx"], 1242)
    if shp == "u" and w >= 2 and xl.random() < 0.3:
        from amaranth.lib import data
        fact = [(a, w // a) for a in range(2, w) if w % a == 0]
        if fact and xl.random() < 0.7:
            a, b = xl.choice(fact)
            shape = data.ArrayLayout(unsigned(a), b)
            layout_init = lambda v: [(v >> (k * a)) & ((1 << a) - 1) for k in range(b)]
            shp = "arr"
        else:
            a = xl.randint(1, w - 1)
            shape = data.StructLayout({"x": unsigned(a), "y": unsigned(w - a)})
            layout_init = lambda v: {"x": v & ((1 << a) - 1), "y": v >> a}
            shp = "struct"
    if shape is Sparse:
        init = [0, 1, 2, 5][init % 4]             # an initial value must be a member …
    elif shape is Flags:
        init &= 0b1011                            # … or a combination of flags
    cls = {"R": action.R, "W": action.W, "RW": action.RW, "RW1C": action.RW1C, "RW1S": action.RW1S,
           "RES": rnd.choice([action.ResRAW0, action.ResRAWL, action.ResR0WA, action.ResR0W0])}[kind]
    if kind in ("RW", "RW1C", "RW1S"):
        dut = cls(shape, init=(shape(init) if shape in (Sparse, Flags) else layout_init(init) if layout_init else conv(init)))
    else:
        dut = cls(shape)
        init = 0
    # ---- variant (own random stream): the same action as a field of a csr.Register among sibling fields
    # (one sibling path joins to the same `__` name as the field under test), driven and read through
    # the register's element — "a field's data output equals what a bus read of it returns"
    rnd2 = lib.rng_for(case["seed"], case["idx"], 1222)
    inreg = rnd2.random() < 0.3
    reg, off = None, 0
    if inreg:
        from amaranth_soc import csr
        kw = {"init": (shape(init) if shape in (Sparse, Flags) else layout_init(init) if layout_init else conv(init))} if kind in ("RW", "RW1C", "RW1S") else {}
        w0, w1 = rnd2.randint(0, 5), rnd2.randint(0, 5)
        coll = rnd2.random() < 0.5
        first = rnd2.random() < 0.5           # the field under test comes before / after the sibling it collides with
        mine = csr.Field(cls, shape, **kw)
        # the same field collection may describe several register instances (an annotated register class instantiated for
        # every channel): what is simulated is then the SECOND instance built from the very same Field objects
        twice = lib.rng_for(case["seed"], case["idx"], 1252).random() < 0.4

        def mkreg_(spec):
            if twice:
                csr.Register(spec, access="rw")
            return csr.Register(spec, access="rw")
        if rnd2.random() < 0.3:
            # an array whose items have different widths
            reg = mkreg_({"l": [csr.Field(action.RW, w0), mine, csr.Field(action.RW1C, w1)], "z": csr.Field(action.RW, 2)})
            dut, off = [f for p, f in reg if p == ("l", 1)][0], w0
        elif first:
            reg = mkreg_({"a": {"b": mine}, ("a__b" if coll else "t"): csr.Field(action.RW, w0),
                          "z": csr.Field(action.RW, w1)})
            dut, off = [f for p, f in reg if p == ("a", "b")][0], 0
        else:
            reg = mkreg_({"a": {"b": csr.Field(action.RW, w0)}, ("a__b" if coll else "t"): mine,
                          "z": csr.Field(action.RW, w1)})
            dut, off = [f for p, f in reg if p == (("a__b",) if coll else ("t",))][0], w0
    top = simutil.wrap(reg if inreg else dut)
    sim = simutil.simulator(top, case)
    sim.add_clock(1e-6)
    lines = [f"case {kind if kind != 'RES' else 'RES'} {w} {init}"]
    obs, fails = [], []
    stats = {"cycles": 0, "writes": 0, "ties": 0, kind: 1, "shape_" + shp: 1, "inside_register": int(inreg)}
    readable = kind in ("R", "RW", "RW1C", "RW1S")
    N = case["ncycles"]
    exhaustive = w <= 2 and kind in ("RW1C", "RW1S") and rnd.random() < 0.5

    def setv(ctx, sig, v):
        ctx.set(Value.cast(sig), conv(v))

    async def tb(ctx):
        st = init
        for t in range(N):
            rstb, wstb = int(rnd.random() < .4), int(rnd.random() < .5)
            wdata, aux = lib.bits(rnd, w) if w else 0, lib.bits(rnd, w) if w else 0
            if exhaustive:
                code = t % (1 << (2 * w + 1))
                wstb, wdata, aux = code & 1, (code >> 1) & mask, (code >> (1 + w)) & mask
            if rnd.random() < .2:
                aux = wdata            # provoke set/clear ties
            if inreg:
                ctx.set(reg.element.r_stb, rstb)
                ctx.set(reg.element.w_stb, wstb)
                ctx.set(reg.element.w_data, (wdata << off) | lib.bits(rnd2, off) | (lib.bits(rnd2, 6) << (off + w)))
            else:
                ctx.set(dut.port.r_stb, rstb)
                ctx.set(dut.port.w_stb, wstb)
                setv(ctx, dut.port.w_data, wdata)
            if kind == "R":
                setv(ctx, dut.r_data, aux)
            elif kind == "RW1C":
                setv(ctx, dut.set, aux)
            elif kind == "RW1S":
                setv(ctx, dut.clear, aux)
            else:
                aux = 0
            lines.append(f"cyc {rstb} {wstb} {wdata} {aux}")
            portr = simutil.getv(ctx, dut.port.r_data)
            if inreg and readable:
                busr = (ctx.get(reg.element.r_data) >> off) & mask
                if busr != portr:
                    fails.append(("C12", f"{kind} width {w} cycle {t}: a bus read of the field returns {busr}, its port.r_data is {portr}", t))
            if inreg:
                # … and the same for its siblings: no field's data may leak into another field's bit range
                er, o2 = ctx.get(reg.element.r_data), 0
                for p2, f2 in reg:
                    w2 = Shape.cast(f2.port.shape).width
                    if f2 is not dut and f2.port.access.readable():
                        if (er >> o2) & ((1 << w2) - 1) != simutil.getv(ctx, f2.port.r_data):
                            fails.append(("C12", f"{kind} width {w} cycle {t}: a bus read of sibling field {p2} returns "
                                                 f"{(er >> o2) & ((1 << w2) - 1)}, its data is {simutil.getv(ctx, f2.port.r_data)}", t))
                    o2 += w2
            if kind == "R":
                d, s = 0, ctx.get(dut.r_stb)
            elif kind == "W":
                d, s = simutil.getv(ctx, dut.w_data), ctx.get(dut.w_stb)
            elif kind == "RES":
                d, s = 0, 0
            else:
                d, s = simutil.getv(ctx, dut.data), 0
            obs.append(f"{portr} {d} {s}")
            stats["cycles"] += 1
            stats["writes"] += wstb
            # ---- documented behaviour, evaluated on the real trace
            if kind == "R" and (portr != aux or s != rstb):
                fails.append(("C12", f"R cycle {t}: port.r_data={portr} r_stb={s}, expected {aux} {rstb}", t))
            if kind == "W" and (d != wdata or s != wstb):
                fails.append(("C12", f"W cycle {t}: w_data={d} w_stb={s}, expected {wdata} {wstb}", t))
            if kind == "RES" and portr != 0:
                fails.append(("C12", f"reserved field drives port.r_data={portr}", t))
            if kind in ("RW", "RW1C", "RW1S"):
                if portr != st or d != st:
                    fails.append(("C12", f"{kind} width {w} cycle {t}: data={d} port.r_data={portr}, expected storage {st}", t))
                wr = wdata if wstb else 0
                if kind == "RW":
                    st = wdata if wstb else st
                elif kind == "RW1C":
                    if wr & aux: stats["ties"] += 1
                    st = ((st & ~wr) | aux) & mask
                else:
                    if wr & aux: stats["ties"] += 1
                    st = ((st & ~aux) | wr) & mask
            await ctx.tick()

    sim.add_testbench(tb)
    sim.run()
    lines.append("end")
    return {"lines": lines, "obs": obs, "fails": fails, "stats": stats,
            "key": f"{kind}/{shp}/{w}/{init}/{case['idx']}", "descr": f"{kind} shape={shp}{w} init={init}"}
