"""Source anchors: which files of /repo each property's model mirrors, and a formatting-insensitive
fingerprint of them (AST without docstrings). A fingerprint that differs from the committed
baseline (`anchors.json`, written on the tree the models were validated against) is NOT an alarm —
a harmless rewrite changes it too. It only makes the quick tier look harder (more generated cases)
at exactly the properties whose code changed, and is recorded in the evidence."""
import ast, hashlib, json, os, sys
from . import lib

M, E, G, P = "amaranth_soc/memory.py", "amaranth_soc/event.py", "amaranth_soc/gpio.py", "amaranth_soc/periph.py"
CB, CR, CA, CE, CW = ("amaranth_soc/csr/bus.py", "amaranth_soc/csr/reg.py", "amaranth_soc/csr/action.py",
                      "amaranth_soc/csr/event.py", "amaranth_soc/csr/wishbone.py")
WB, WS = "amaranth_soc/wishbone/bus.py", "amaranth_soc/wishbone/sram.py"
ALL = [M, E, G, P, CB, CR, CA, CE, CW, WB, WS]
FILES = {
    "C01": ALL, "C02": [M, CR, P], "C03": [M], "C04": [CB, M], "C05": [CB, M], "C06": [CB, M], "C07": [WB, M],
    "C08": [WB], "C09": [WB], "C10": [CW, CB, M], "C11": [CR], "C12": [CA, CR], "C13": [E],
    "C14": [CE, E, CB, CR, CA, M], "C15": [WS, WB, M], "C16": [G, CB, CR, CA, M], "C17": [CR, M], "C18": [M],
    "C19": ALL, "C20": ALL,
}
BASELINE = os.path.join(lib.VERIF, "anchors.json")
FACTOR = 8


def _strip(node):
    for n in ast.walk(node):
        body = getattr(n, "body", None)
        if isinstance(body, list) and body and isinstance(body[0], ast.Expr) and isinstance(getattr(body[0], "value", None), ast.Constant) \
                and isinstance(body[0].value.value, str):
            n.body = body[1:] or [ast.Pass()]
    return node


def fingerprint(path):
    try:
        src = open(os.path.join(lib.REPO, path)).read()
        return hashlib.sha256(ast.dump(_strip(ast.parse(src))).encode()).hexdigest()[:16]
    except (OSError, SyntaxError) as e:
        return f"unreadable:{type(e).__name__}"


def current():
    return {f: fingerprint(f) for f in ALL}


def changed(prop):
    """anchored files of `prop` whose fingerprint differs from the baseline"""
    try:
        base = json.load(open(BASELINE))
    except OSError:
        return []
    cur = current()
    return [f for f in FILES.get(prop, ALL) if cur.get(f) != base.get(f)]


if __name__ == "__main__":
    if "--write" in sys.argv:
        json.dump(current(), open(BASELINE, "w"), indent=1, sort_keys=True)
    print(json.dumps({p: changed(p) for p in FILES}, indent=1))
