"""./check <Cxx> [quick|thorough]  — exit 0 held / 1 VIOLATION / 2 infrastructure"""
import sys, os, importlib, json, traceback
from . import lib


def main(argv):
    if len(argv) >= 2 and argv[0] == "--replay":
        obj = json.load(open(argv[1]))
        prop = obj["property"]
        print(json.dumps({k: obj[k] for k in ("property", "kind", "summary", "seed", "case_index", "first_diff") if k in obj}, indent=1))
        # re-run exactly that case of that property on the current working tree
        os.environ["VERIF_SEED"] = str(obj.get("seed", 0))
        if obj.get("case_index") is not None:
            os.environ["VERIF_ONLY_INDEX"] = str(obj["case_index"])
        os.environ["VERIF_OUT"] = os.environ.get("VERIF_OUT", "/tmp/verif_replay_out")
        importlib.reload(lib)
        rep = lib.Report(prop, obj.get("tier", "quick"), lib.seed_of())
        mod = importlib.import_module(f"harness.props.{prop.lower()}")
        mod.run(rep, obj.get("tier", "quick"))
        rc = rep.finish()
        print("REPLAY: " + ("the violation reproduces on the current tree" if rc == 1 else "no violation on the current tree"))
        return rc
    if not argv:
        print(__doc__)
        return 2
    prop = argv[0].upper()
    tier = argv[1] if len(argv) > 1 else os.environ.get("VERIF_TIER", "quick")
    if tier not in ("quick", "thorough"):
        tier = "quick"
    seed = lib.seed_of()
    rep = lib.Report(prop, tier, seed)
    try:
        mod = importlib.import_module(f"harness.props.{prop.lower()}")
        mod.run(rep, tier)
        return rep.finish()
    except lib.Infra as e:
        print(f"INFRASTRUCTURE-FAILURE property={prop}: {e}", file=sys.stderr)
        return 2
    except Exception:
        traceback.print_exc()
        print(f"INFRASTRUCTURE-FAILURE property={prop}: harness crashed", file=sys.stderr)
        return 2


if __name__ == "__main__":
    sys.exit(main(sys.argv[1:]))
