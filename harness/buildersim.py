"""C17: real csr.Builder programs vs the Lean model `builder`; the layout rule of the property
evaluated directly on what as_memory_map() reports."""
from . import lib
from amaranth_soc import csr
from .mm import enc_name

BAD = "!"


def exh_alphabet(k):
    full = k <= 2
    A = []
    for w in ((0, 1, 8, 9, 17, 33) if full else (1, 9, 17)):
        for off in ((None, 0, 1, 2, 3, 6, 7, 8) if full else (None, 0, 2, 7)):
            for nm in ("a", "b"):
                A.append(("add", nm, w, off))
    A += [("cluster", "c"), ("index", 0), ("exit",), ("freeze",)]
    return A


def exh_count(k):
    return 2 * len(exh_alphabet(k)) ** k


def gen_exh(idx, k):
    """bounded-exhaustive builder programs: every sequence of k operations over `exh_alphabet(k)`,
    then as_memory_map(); geometry 8/8 or 16/8 (top digit) on an 8-word address space"""
    A = exh_alphabet(k)
    ops, x, nreg = [], idx, 0
    for _ in range(k):
        a = A[x % len(A)]
        x //= len(A)
        if a[0] == "add":
            ops.append(("add", nreg, a[1], a[2], a[3]))
            nreg += 1
        else:
            ops.append(a)
    ops.append(("asmap",))
    dw = 8 if x % 2 == 0 else 16
    return {"aw": 3, "dw": dw, "gran": 8, "ops": ops, "nreg": nreg, "seed": 0, "idx": idx}


def gen_case(seed, idx, exh_k=None):
    if exh_k is not None:
        return gen_exh(idx, exh_k)
    rnd = lib.rng_for(seed, idx, 1717)
    dw = rnd.choice([8, 8, 16, 32])
    gran = rnd.choice([g for g in (1, 2, 4, 8, 16, 32) if dw % g == 0])
    rnd2 = lib.rng_for(seed, idx, 1727)
    if rnd2.random() < 0.2:
        # geometries whose data_width/granularity ratio is not a power of two (legal: any divisor)
        dw, gran = rnd2.choice([(24, 8), (12, 4), (40, 8), (48, 8), (56, 8), (6, 2), (24, 4), (9, 3), (15, 3)])
    aw = rnd.choice([2, 3, 4, 5, 6, 8])
    huge = rnd2.random() < 0.05
    if huge:
        aw = rnd2.choice([54, 58, 62])          # address spaces beyond 2**53 words
    ops, depth, nreg = [], 0, 0
    names = ["a", "b", "c", "r0", "r1", "x"]
    for _ in range(rnd.randint(2, 14)):
        k = rnd.choice(["add"] * 6 + ["cluster", "index", "exit", "exit", "freeze", "badscope"])
        if k == "add":
            w = rnd.choice([0, 1, dw - 1, dw, dw + 1, 2 * dw, 2 * dw + 1, 3 * dw, 4 * dw, 5 * dw])
            nm = rnd.choice(names) if rnd.random() < .95 else BAD
            if rnd.random() < .45:
                step = dw // gran
                top = (1 << aw) * step
                off = rnd.choice([rnd.randrange(0, top + step, step), rnd.randrange(0, top + 2),
                                  rnd.randrange(0, max(1, (1 << aw) // 2) * step, step), 0, 0,
                                  max(0, top - step * rnd.randint(1, 5)), max(0, top - step * rnd.randint(1, 5))])
                if rnd.random() < .05:
                    off = BAD
            else:
                off = None
            rid = nreg
            nreg += 1
            if rnd.random() < .05 and rid > 0:
                rid = rnd.randrange(rid)
            if huge and rnd2.random() < 0.5:
                # an explicit offset high up whose word address is not a round number, then implicit placement
                step_ = dw // gran
                off = ((1 << (aw - 1)) + rnd2.randrange(1, 1 << 12) * 2 + 1) * step_
            ops.append(("add", rid, nm, w, off))
        elif k == "cluster":
            cn = rnd.choice(names) if rnd.random() < .9 else BAD
            if cn != BAD and rnd2.random() < .25:
                cn = rnd2.choice(["0", "1", "2", "3"])      # a cluster called "1" is not the index 1
            ops.append(("cluster", cn)); depth += 1
        elif k == "index":
            ops.append(("index", rnd.randint(0, 3) if rnd.random() < .9 else BAD)); depth += 1
        elif k == "exit":
            if depth > 0:
                ops.append(("exit",)); depth -= 1
        elif k == "freeze":
            if rnd.random() < .1:
                ops.append(("freeze",))
    ops.append(("asmap",))
    if rnd2.random() < .35:
        ops.append(("asmap",))           # asking again gives the same answer (the same map, or the same refusal)
    if rnd.random() < .3:
        ops.append(("add", nreg, "late", 8, None))
        nreg += 1
    return {"aw": aw, "dw": dw, "gran": gran, "ops": ops, "nreg": nreg, "seed": seed, "idx": idx}


class EqReg(csr.Register):
    """a value-like register class: instances with the same width compare and hash equal"""
    def __eq__(self, other):
        return isinstance(other, EqReg) and other.element.width == self.element.width

    def __hash__(self):
        return hash(("EqReg", self.element.width))


def clog2(n):
    return 0 if n <= 1 else (n - 1).bit_length()


def run_impl(case):
    aw, dw, gran = case["aw"], case["dw"], case["gran"]
    b = csr.Builder(addr_width=aw, data_width=dw, granularity=gran)
    regs, widths = {}, {}
    lines, obs, fails = [f"case {aw} {dw} {gran}"], [], []
    stats = {"ops": 0, "refused": 0, "explicit": 0, "implicit_after_explicit": 0, "scoped": 0, "asmap_refused": 0, "regs_placed": 0}
    unwind_rnd = lib.rng_for(case.get("seed", 0), case.get("idx", 0), 1718)
    eq_rnd = lib.rng_for(case.get("seed", 0), case.get("idx", 0), 1738)
    stack = []          # entered context managers (None for refused scopes)
    scope = []
    accepted = []       # (rid, name tuple, width, offset) in insertion order — the oracle's view
    frozen = False

    def bad(x):
        return -1 if x == BAD else x

    # usage variation (own random stream): the scope objects are prepared up front — `ch = b.Cluster("ch")`,
    # `idx = [b.Index(i) for i in …]` — and entered later, possibly inside other scopes
    prepared = {}
    if lib.rng_for(case.get("seed", 0), case.get("idx", 0), 1751).random() < 0.3:
        stats["prepared_scopes"] = 1
        for n_, op_ in enumerate(case["ops"]):
            try:
                if op_[0] == "cluster":
                    prepared[n_] = b.Cluster("" if op_[1] == BAD else op_[1])
                elif op_[0] == "index":
                    prepared[n_] = b.Index(-1 if op_[1] == BAD else op_[1])
            except (ValueError, TypeError) as ex_:
                prepared[n_] = ex_
    # usage variation (own random stream): a second, independent builder is filled in between — also while scopes of the
    # first one are open; its registers carry exactly the names they were given
    sib_rnd = lib.rng_for(case.get("seed", 0), case.get("idx", 0), 1761)
    sib = csr.Builder(addr_width=8, data_width=dw, granularity=gran) if sib_rnd.random() < 0.3 else None
    sib_names = []
    for opn, op in enumerate(case["ops"]):
        stats["ops"] += 1
        k = op[0]
        if sib is not None and sib_rnd.random() < 0.4 and len(sib_names) < 6:
            nm_ = f"sib{len(sib_names)}"
            try:
                sib.add(nm_, csr.Register(csr.Field(csr.action.RW, 1), access="rw"))
                sib_names.append((nm_,))
                stats["sibling_adds_with_open_scopes"] = stats.get("sibling_adds_with_open_scopes", 0) + int(bool(scope))
            except Exception as ex_:
                fails.append(("C17", f"an independent second builder refuses a plain add(): {type(ex_).__name__}: {str(ex_)[:80]}", len(obs)))
                sib = None
        if k == "add":
            _, rid, nm, w, off = op
            if rid not in regs:
                regs[rid] = (EqReg if eq_rnd.random() < 0.15 else csr.Register)(csr.Field(csr.action.RW, w), access="rw")
                widths[rid] = w
            lines.append(f"add {rid} {nm} {widths[rid]} {'-' if off is None else off}")
            try:
                b.add("" if nm == BAD else nm, regs[rid], offset=bad(off))
                obs.append("ok")
                accepted.append((rid, tuple(scope) + (nm,), widths[rid], off))
                if frozen:
                    fails.append(("C17", "frozen builder accepted a register", len(obs)))
                if off not in (None, BAD) and (off * gran) % dw != 0:
                    fails.append(("C17", f"offset {off} accepted although {off} x {gran} / {dw} is not a whole address "
                                         f"(the register cannot be at exactly offset x granularity / data_width)", len(obs)))
            except (ValueError, TypeError) as ex:
                obs.append("refused")
                stats["refused"] += 1
                if (off not in (None, BAD) and (off * gran) % dw == 0 and nm != BAD and not frozen
                        and "multiple" in str(ex)):
                    fails.append(("C17", f"offset {off} refused as misaligned ({ex}) although {off} x {gran} / {dw} "
                                         f"is the whole address {off * gran // dw}", len(obs)))
                if stack and any(cm is not None for cm in stack) and unwind_rnd.random() < 0.35:
                    # the exception leaves the enclosing `with` blocks (the caller catches it outside):
                    # every open scope must be closed on the way out
                    stats["unwinds"] = stats.get("unwinds", 0) + 1
                    while stack:
                        cm = stack.pop()
                        if cm is not None:
                            try:
                                cm.__exit__(type(ex), ex, ex.__traceback__)
                            except Exception:
                                pass
                            scope.pop()
                            lines.append("exit")
                            obs.append("ok")
        elif k == "cluster":
            lines.append(f"cluster {op[1]}")
            try:
                cm = prepared.get(opn) or b.Cluster("" if op[1] == BAD else op[1])
                if isinstance(cm, Exception):
                    raise cm
                cm.__enter__()
                stack.append(cm); scope.append(op[1]); obs.append("ok"); stats["scoped"] += 1
            except (ValueError, TypeError):
                stack.append(None); obs.append("refused")
        elif k == "index":
            lines.append(f"index {op[1]}")
            try:
                cm = prepared.get(opn) or b.Index(-1 if op[1] == BAD else op[1])
                if isinstance(cm, Exception):
                    raise cm
                cm.__enter__()
                stack.append(cm); scope.append(op[1]); obs.append("ok"); stats["scoped"] += 1
            except (ValueError, TypeError):
                stack.append(None); obs.append("refused")
        elif k == "exit":
            if not stack:
                continue
            cm = stack.pop()
            if cm is not None:
                lines.append("exit")
                cm.__exit__(None, None, None)
                scope.pop()
                obs.append("ok")
        elif k == "freeze":
            lines.append("freeze"); b.freeze(); frozen = True; obs.append("ok")
        elif k == "asmap":
            lines.append("asmap")
            ids = {id(r): rid for rid, r in regs.items()}
            try:
                mm = b.as_memory_map()
                got = [(ids[id(r)], tuple(n), s, e) for r, n, (s, e) in mm.resources()]
                obs.append("resources " + " ".join(f"{rid}@{enc_name(n)}:{s}-{e}" for rid, n, s, e in got))
                stats["regs_placed"] += len(got)
            except (ValueError, TypeError):
                got = None
                obs.append("refused")
                stats["asmap_refused"] += 1
            frozen = True
            # ---- the property's layout rule, evaluated directly
            cursor, placed, ok = 0, [], True
            for rid, name, w, off in accepted:
                size = (w + dw - 1) // dw
                span = 1 << clog2(size)
                if off is not None:
                    start = off * gran // dw
                    stats["explicit"] += 1
                else:
                    start = (cursor + span - 1) // span * span
                    if any(p[3] is not None for p in placed):
                        stats["implicit_after_explicit"] += 1
                end = start + span
                rel = lambda a, c: a[:min(len(a), len(c))] == c[:min(len(a), len(c))]
                if end > (1 << aw) or any(s < end and start < e for _, _, s, e, *_ in [(p[0], p[1], p[4], p[5]) for p in placed]) \
                        or any(rel(name, p[1]) for p in placed):
                    ok = False
                    break
                placed.append((rid, name, w, off, start, end))
                cursor = end
            want = sorted(((p[0], p[1], p[4], p[5]) for p in placed), key=lambda x: x[2]) if ok else None
            if want != got:
                fails.append(("C17", f"as_memory_map() gave {got}; the promised layout is {want}", len(obs)))
    for cm in reversed(stack):
        if cm is not None:
            cm.__exit__(None, None, None)
    if sib is not None and sib_names:
        try:
            got_ = [tuple(n_) for _, n_, _ in sib.as_memory_map().resources()]
            if sorted(got_) != sorted(sib_names):
                fails.append(("C17", f"an independent second builder, filled while the first one had scopes open, names its registers {got_}; "
                                     f"they were added as {sib_names}", len(obs)))
        except Exception as ex_:
            fails.append(("C17", f"an independent second builder cannot produce its memory map: {type(ex_).__name__}: {str(ex_)[:80]}", len(obs)))
    lines.append("end")
    return {"lines": lines, "obs": obs, "fails": fails, "stats": stats, "key": "|".join(lines)}
