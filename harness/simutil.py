"""Amaranth simulator helpers"""
import warnings
warnings.simplefilter("ignore")
from amaranth import Module, Signal
from amaranth.sim import Simulator
from amaranth.hdl import Value


def wrap(*components):
    """neutral wrapper Module with a dummy sync register (so that a clock domain exists)"""
    top = Module()
    for i, c in enumerate(components):
        top.submodules[f"dut{i}"] = c
    d = Signal(name="verif_dummy")
    top.d.sync += d.eq(~d)
    return top


def run_tb(top, tb, *, deadline=None):
    sim = Simulator(top)
    sim.add_clock(1e-6)
    sim.add_testbench(tb)
    sim.run()


def getv(ctx, sig):
    """read a port as a plain unsigned integer (enum/signed shapes included)"""
    return ctx.get(Value.cast(sig).as_unsigned())


def simulator(top, case, stats=None, p=0.2):
    """Simulator for `top`; for a fifth of the cases (own random stream) the design has already been
    elaborated once before (a throw-away Simulator): a component may be elaborated as often as the
    user wishes, so what the testbench then sees is a repeated elaboration of the same instances"""
    from . import lib
    if lib.rng_for(case.get("seed", 0), case.get("idx", 0), 4242).random() < p:
        Simulator(top)
        if stats is not None:
            stats["pre_elaborated"] = stats.get("pre_elaborated", 0) + 1
    if lib.rng_for(case.get("seed", 0), case.get("idx", 0), 4343).random() < 0.12:
        # the design is elaborated for a platform object (as a real build does) instead of `platform=None`:
        # what the components generate — their cycle-level behaviour — does not depend on that
        from amaranth.hdl import Fragment
        if stats is not None:
            stats["elaborated_for_a_platform"] = stats.get("elaborated_for_a_platform", 0) + 1
        return Simulator(Fragment.get(top, BarePlatform()))
    return Simulator(top)


class BarePlatform:
    """a platform object without any of the optional hooks (get_memory, get_ff_sync, …)"""


def mk_source(mode, us):
    """an event source with trigger `mode`, created the way the caller happens to prefer (own random stream): the
    constructor with a string or a Trigger member, or `Source.Signature(...).create()`"""
    from amaranth_soc import event
    x = us.random()
    if x < .55:
        return event.Source(trigger=mode)
    if x < .75:
        return event.Source(trigger=event.Source.Trigger(mode))
    if x < .9:
        return event.Source.Signature(trigger=mode).create()
    return event.Source.Signature(trigger=event.Source.Trigger(mode)).create(path=("src",))


def mk_event_map(us):
    """an EventMap, or (own random stream) an instance of a user's subclass that lists its sources in another order —
    the same (source, index) pairs, numbered exactly as before — e.g. by priority; and sources of the same name"""
    from amaranth_soc import event
    x = us.random()
    if x < .8:
        return event.EventMap()

    class ByPriority(event.EventMap):
        def sources(self):
            yield from sorted(super().sources(), key=lambda t: -t[1])
    return ByPriority()
