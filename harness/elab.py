"""C19 runtime part: every component class × generated accepted parameters, elaborated three
times inside a neutral wrapper with explicit ports; RTLIL text and metadata compared."""
import math, signal, traceback, contextlib, os
from . import lib
from amaranth import Module, Signal, unsigned, signed
from amaranth.back import rtlil
from amaranth.lib import wiring, enum as aenum
from amaranth_soc import csr, event, wishbone, gpio
from amaranth_soc.csr import action
from amaranth_soc.memory import MemoryMap
from amaranth_soc.csr.wishbone import WishboneCSRBridge
from amaranth_soc.wishbone.sram import WishboneSRAM

F = ["err", "rty", "stall", "lock", "cti", "bte"]
KINDS = ["Multiplexer", "Bridge", "csr.Decoder", "wb.Decoder", "Arbiter", "SRAM", "WishboneCSRBridge",
         "event.Monitor", "csr.EventMonitor", "gpio", "Register", "FieldAction"]


class El(wiring.Component):
    def __init__(self, w, acc):
        super().__init__({"element": wiring.Out(csr.Element.Signature(w, acc))})

    def elaborate(self, p):
        return Module()


class Color(aenum.Enum, shape=unsigned(2)):
    A = 0
    B = 1
    C = 2


def flat_ports(c):
    return [(v.as_value() if hasattr(v, "as_value") else v) for _, _, v in c.signature.flatten(c)]


def convert(c, extra=()):
    m = Module()
    m.submodules.dut = c
    for i, e in enumerate(extra):
        m.submodules[f"x{i}"] = e
    return rtlil.convert(m, ports=flat_ports(c))


def rfields(rnd, depth=0):
    def leaf():
        k = rnd.choice(["R", "W", "RW", "RW1C", "RW1S", "Res"])
        sh = rnd.choice([0, 1, 2, 5, 8, unsigned(3), signed(4), Color, gpio.PinMode])
        cls = {"R": action.R, "W": action.W, "RW": action.RW, "RW1C": action.RW1C, "RW1S": action.RW1S}.get(k)
        if cls is None:
            cls = rnd.choice([action.ResRAW0, action.ResRAWL, action.ResR0WA, action.ResR0W0])
        return csr.Field(cls, sh)
    r = rnd.random()
    if depth >= 2 or r < .5:
        return leaf()
    if r < .75:
        return {f"f{i}": rfields(rnd, depth + 1) for i in range(rnd.randint(1, 3))}
    return [rfields(rnd, depth + 1) for i in range(rnd.randint(1, 3))]


def mkreg(rnd):
    x = rnd.random()
    if x < .06:      # nested names that are joined to the same submodule name
        return csr.Register({"a": {"b__c": csr.Field(action.R, 1)}, "a__b": {"c": csr.Field(action.RW, 2)}}, access="rw")
    if x < .10:      # three paths with the same joined name, the middle one without bits; names that look like disambiguated ones
        mid = rnd.choice([0, 1])
        return csr.Register({"a": {"b": {"c": csr.Field(action.RW, 4)}, "b__c": csr.Field(action.RW, mid)}, "a__b": {"c": csr.Field(action.R, 2)},
                             "a__b__c_4": csr.Field(action.RW, 1), "a__b__c_": csr.Field(action.RW, 1)}, access="rw")
    if x < .14:      # field names that are not identifiers, and that coincide once non-word characters are replaced
        return csr.Register({"rx-en": csr.Field(action.RW, 1), "rx_en": csr.Field(action.RW, 2), "rx en": csr.Field(action.R, 1),
                             "rx.en": {"x": csr.Field(action.RW, 1)}, "ü": csr.Field(action.RW, 1)}, access="rw")
    return csr.Register(rfields(rnd), access="rw")


def make(kind, rnd, hook=None, extra_names=()):
    """returns (component, extra submodules, description, memory_map or None); `hook(component)` is
    called before every add() of a container (decoders, arbiter)"""
    hook = hook or (lambda c: None)
    if kind == "Multiplexer":
        dw = rnd.choice([1, 2, 7, 8, 16, 32]); aw = rnd.randint(1, 6); al = rnd.choice([0, 0, 1, 2, 3])
        mm = MemoryMap(addr_width=aw, data_width=dw, alignment=al); regs = []
        for i in range(rnd.randint(0, 5)):
            e = El(rnd.choice([0, 1, dw, dw + 1, 3 * dw]), rnd.choice(["r", "w", "rw"]))
            try:
                kw = {}
                if rnd.random() < .5:
                    kw["addr"] = rnd.randrange(0, 1 << aw, 1 << al)
                mm.add_resource(e, name=f"r{i}", size=(e.element.width + dw - 1) // dw, **kw); regs.append(e)
            except ValueError:
                pass
        ov = rnd.choice([None, None, 0, 1, 2, 5])
        c = csr.Multiplexer(mm, shadow_overlaps=ov)
        return c, regs, ("mux", dw, aw, al, ov, sorted((s, e) for _, _, (s, e) in mm.resources())), mm
    if kind == "Bridge":
        dw = rnd.choice([8, 16, 32])
        b = csr.Builder(addr_width=rnd.randint(1, 8), data_width=dw,
                        granularity=rnd.choice([g for g in (1, 2, 4, 8, 16, 32) if dw % g == 0]))
        scopes = []
        family = rnd.random() < .15
        if family:
            # a family of names around one collision, in random order at consecutive addresses: the cluster a/b, "a__b",
            # and names that look like a disambiguated "a__b" (suffix, counter, address)
            pool = ["a__b", "a__b_", "a__b__", "a__b_0", "a__b_1", "a__b_2", "a__b_3", "a__b_4", ("a", "b")]
            for nm_ in rnd.sample(pool, rnd.randint(3, 6)):
                try:
                    if isinstance(nm_, tuple):
                        with b.Cluster(nm_[0]):
                            b.add(nm_[1], csr.Register({"f": csr.Field(action.RW, 1)}, access="rw"))
                    else:
                        b.add(nm_, csr.Register({"f": csr.Field(action.RW, 1)}, access="rw"))
                    scopes.append([str(nm_)])
                except ValueError:
                    pass
        for i in range(0 if family else rnd.randint(0, 5)):
            with contextlib.ExitStack() as st:
                sc = []
                for _ in range(rnd.randint(0, 2)):
                    if rnd.random() < .5:
                        n = rnd.choice(["a", "b"]); st.enter_context(b.Cluster(n)); sc.append(n)
                    else:
                        n = rnd.randint(0, 2); st.enter_context(b.Index(n)); sc.append(n)
                kw = {}
                if rnd.random() < .3:
                    kw["offset"] = rnd.randrange(0, 64) * (dw // b.granularity)
                b.add(f"r{i}", mkreg(rnd), **kw); scopes.append(sc)
        if rnd.random() < .2:
            # legal names that are joined to the same submodule name
            try:
                if rnd.random() < .5:
                    b.add("mux", mkreg(rnd)); scopes.append(["mux"])
                else:
                    with b.Cluster("a"):
                        with b.Index(0):
                            b.add("x", mkreg(rnd))
                    b.add("a__0__x", mkreg(rnd)); scopes.append(["a/0/x", "a__0__x"])
                    if rnd.random() < .5:
                        # … and registers whose names look like what a disambiguation might produce
                        for extra_name in rnd.sample(["a__0__x_", "a__0__x_1", "a__0__x_2", "a__0__x__", "mux_", "mux"], 3):
                            try:
                                b.add(extra_name, mkreg(rnd)); scopes.append([extra_name])
                            except ValueError:
                                pass
            except ValueError:
                pass
        for en in extra_names:
            try:
                b.add(en, csr.Register({"f": csr.Field(action.RW, 1)}, access="rw")); scopes.append([en])
            except ValueError:
                pass
        mm = b.as_memory_map()
        return csr.Bridge(mm), [], ("bridge", dw, scopes), mm
    if kind == "csr.Decoder":
        aw = rnd.randint(1, 8); dw = rnd.choice([8, 16])
        d = csr.Decoder(addr_width=aw, data_width=dw, alignment=rnd.choice([0, 0, 1, 2]))
        for i in range(rnd.randint(0, 4)):
            saw = rnd.randint(1, aw); s = csr.Interface(addr_width=saw, data_width=dw)
            s.memory_map = MemoryMap(addr_width=saw, data_width=dw)
            hook(d)
            try:
                d.add(s, name=None if rnd.random() < .5 else f"s{i}",
                      addr=None if rnd.random() < .6 else (rnd.randrange(1 << aw) >> saw) << saw)
            except ValueError:
                pass
        return d, [], ("cdec", aw, dw), d.bus.memory_map
    if kind == "wb.Decoder":
        dw = rnd.choice([8, 16, 32, 64]); g = rnd.choice([x for x in (8, 16, 32, 64) if x <= dw])
        aw = rnd.randint(0, 8); gb = int(math.log2(dw // g))
        feats = set(f for f in F if rnd.random() < .5)
        d = wishbone.Decoder(addr_width=aw, data_width=dw, granularity=g, features=feats, alignment=rnd.choice([0, 0, 1, 3]))
        descr = [("wdec", aw, dw, g, sorted(feats))]
        for i in range(rnd.randint(0, 4)):
            sparse = rnd.random() < .3
            if sparse:
                sdw = rnd.choice([x for x in (8, 16, 32, 64) if x <= g]); sg = sdw
            else:
                sdw = dw; sg = g        # dense windows between buses of equal granularity (C07's domain)
            saw = rnd.randint(0, aw)
            sf = set(f for f in F if rnd.random() < .5) - ({"err", "rty", "stall"} - feats)
            s = wishbone.Interface(addr_width=saw, data_width=sdw, granularity=sg, features=sf)
            maw = max(1, saw + int(math.log2(sdw // sg)))
            s.memory_map = MemoryMap(addr_width=maw, data_width=sg, alignment=rnd.choice([0, 1, 2, 3]))
            hook(d)
            try:
                r = d.add(s, sparse=sparse, addr=None if rnd.random() < .6 else (rnd.randrange(1 << (aw + gb)) >> maw) << maw)
                descr.append((saw, sdw, sg, sparse, r, sorted(sf)))
            except ValueError:
                pass
        return d, [], descr, d.bus.memory_map
    if kind == "Arbiter":
        dw = rnd.choice([8, 16, 32, 64]); g = rnd.choice([x for x in (8, 16, 32, 64) if x <= dw])
        aw = rnd.randint(0, 6); feats = set(f for f in F if rnd.random() < .5)
        a = wishbone.Arbiter(addr_width=aw, data_width=dw, granularity=g, features=feats)
        n = rnd.randint(1, 5)
        for i in range(n):
            sf = set(f for f in F if rnd.random() < .5) | (feats & {"err", "rty"})
            hook(a)
            a.add(wishbone.Interface(addr_width=aw, data_width=dw,
                                     granularity=rnd.choice([x for x in (8, 16, 32, 64) if g <= x <= dw]), features=sf))
        return a, [], ("arb", aw, dw, g, sorted(feats), n), None
    if kind == "SRAM":
        dw = rnd.choice([8, 16, 32, 64]); g = rnd.choice([x for x in (8, 16, 32, 64) if x <= dw])
        size = rnd.choice([1, 2, 4, 8, 64])
        c = WishboneSRAM(size=size, data_width=dw, granularity=g, writable=rnd.random() < .6,
                         init=[1, 2] if rnd.random() < .3 and size * g // dw >= 2 else ())
        return c, [], ("sram", size, dw, g), c.wb_bus.memory_map
    if kind == "WishboneCSRBridge":
        cdw = rnd.choice([8, 16, 32, 64]); caw = rnd.randint(1, 6)
        cb = csr.Interface(addr_width=caw, data_width=cdw); cb.memory_map = MemoryMap(addr_width=caw, data_width=cdw)
        dw = rnd.choice([None] + [x for x in (8, 16, 32, 64) if x >= cdw])
        c = WishboneCSRBridge(cb, data_width=dw, name=None if rnd.random() < .5 else "csr")
        return c, [], ("wbcsr", cdw, caw, dw), c.wb_bus.memory_map
    if kind == "event.Monitor":
        em = event.EventMap()
        n = rnd.randint(0, 5)
        for i in range(n):
            em.add(event.Source(trigger=rnd.choice(["level", "rise", "fall"])))
        return event.Monitor(em, trigger=rnd.choice(["level", "rise", "fall"])), [], ("mon", n), None
    if kind == "csr.EventMonitor":
        em = event.EventMap(); n = rnd.choice([0, 1, 2, 8, 9, 17, 33])
        for i in range(n):
            em.add(event.Source(trigger=rnd.choice(["level", "rise", "fall"])))
        dw = rnd.choice([1, 8, 16, 32]); al = rnd.choice([0, 1, 2, 4])
        c = csr.EventMonitor(em, trigger=rnd.choice(["level", "rise", "fall"]), data_width=dw, alignment=al)
        return c, [], ("cmon", n, dw, al), c.bus.memory_map
    if kind == "gpio":
        p = dict(pin_count=rnd.randint(1, 20), addr_width=rnd.randint(1, 8), data_width=rnd.choice([8, 16, 32, 4, 2]),
                 input_stages=rnd.randint(0, 3))
        c = gpio.Peripheral(**p)
        return c, [], ("gpio", p), c.bus.memory_map
    if kind == "Register":
        return mkreg(rnd), [], ("reg",), None
    if kind == "FieldAction":
        cls = rnd.choice([action.R, action.W, action.RW, action.RW1C, action.RW1S, action.ResRAW0, action.ResR0WA])
        sh = rnd.choice([0, 1, 3, 8, unsigned(5), signed(4), Color, gpio.PinMode])
        return cls(sh), [], ("field", cls.__name__, repr(sh)), None
    raise KeyError(kind)


class Timeout(Exception):
    pass


def _alarm(signum, frame):
    raise Timeout()


def descriptive(e, own_only=False):
    """ValueError/TypeError raised by an explicit `raise` statement (argument validation). With
    `own_only` the `raise` must be the library's own: an exception that Amaranth raises from its
    internals during `elaborate()` because the library handed it something unusable is an internal
    error of the library, not a refusal of the user's parameters."""
    if not isinstance(e, (ValueError, TypeError)):
        return False
    tb = traceback.extract_tb(e.__traceback__)
    if not tb:
        return False
    last = tb[-1]
    if own_only and not last.filename.startswith(lib.REPO + "/amaranth_soc"):
        return False
    return (last.line or "").strip().startswith("raise")


def fmt_map(mm):
    if mm is None:
        return None
    try:
        return [(type(i.resource).__name__, tuple(map(tuple, i.path)), i.start, i.end, i.width) for i in mm.all_resources()]
    except Exception as e:
        return f"all_resources raised {type(e).__name__}"


def probe_add(mm):
    try:
        return ("ok",) + tuple(mm.add_resource(object(), name=("verif_probe",), size=1))
    except (ValueError, TypeError) as e:
        return ("refused", type(e).__name__)


def gen_case(seed, idx):
    return {"seed": seed, "idx": idx, "kind": KINDS[idx % len(KINDS)]}


def run_case(case):
    rnd = lib.rng_for(case["seed"], case["idx"], 1919)
    kind = case["kind"]
    out = {"kind": kind, "status": None, "fails": [], "descr": None, "lines": [], "obs": []}
    signal.signal(signal.SIGALRM, _alarm)
    signal.alarm(int(os.environ.get("VERIF_ELAB_TIMEOUT", "120")))
    try:
        try:
            c, extra, descr, mm = make(kind, rnd)
        except (ValueError, TypeError) as e:
            if descriptive(e):
                out["status"] = "refused-ctor"
            else:
                out["status"] = "internal-ctor"
                out["fails"].append(("C19", f"{kind}: constructor failed with non-descriptive {type(e).__name__}: {str(e)[:120]}",
                                     f"{type(e).__name__}@ctor"))
            return out
        out["descr"] = descr
        before = fmt_map(mm)
        texts = []
        for n in range(3):
            try:
                texts.append(convert(c, extra))
            except Timeout:
                raise
            except BaseException as e:
                where = traceback.extract_tb(e.__traceback__)[-1]
                site = f"{os.path.basename(where.filename)}:{where.name}"
                if descriptive(e, own_only=True) and n == 0:
                    # a refusal must be repeatable as well: the same instance, elaborated again, is refused
                    # again in the same way (no stale state left behind by the refused attempt)
                    first = (type(e).__name__, str(e))
                    for again in range(2):
                        try:
                            convert(c, extra)
                            out["fails"].append(("C19", f"{kind} {descr}: elaboration was refused ({first[0]}) the first time but succeeded when repeated", "refusal-not-repeatable"))
                            break
                        except Timeout:
                            raise
                        except BaseException as e2:
                            if (type(e2).__name__, str(e2)) != first:
                                out["fails"].append(("C19", f"{kind} {descr}: first elaboration refused with {first[0]}: {first[1][:60]}; repeated elaboration "
                                                            f"fails with {type(e2).__name__}: {str(e2)[:80]}", f"refusal-changes:{type(e2).__name__}"))
                                break
                    out["status"] = "refused-elab"
                    return out
                out["status"] = "internal"
                out["fails"].append(("C19", f"{kind} {descr}: elaboration #{n + 1} failed with {type(e).__name__} "
                                            f"at {site}: {str(e)[:100]}", f"{type(e).__name__}@{site}#{min(n, 1)}"))
                return out
        if texts[0] != texts[1] or texts[1] != texts[2]:
            out["fails"].append(("C19", f"{kind} {descr}: repeated elaboration yields different RTLIL", "rtlil-differs"))
        after = fmt_map(mm)
        if before != after:
            out["fails"].append(("C19", f"{kind} {descr}: elaboration changed the memory map", "map-changed"))
        if kind not in ("event.Monitor", "Register") and isinstance(c, wiring.Component) and lib.rng_for(case["seed"], case["idx"], 1939).random() < 0.5:
            # the component itself as the top level of a design (`rtlil.convert(component)`: its ports are derived from its
            # signature) — every port is driven from the side its direction says. (event.Monitor and csr.Register are left
            # out: on the unchanged tree they declare `pending` / `element.r_data` as inputs and drive them; see DESIGN §7.)
            try:
                rtlil.convert(c)
                out["top_level"] = True
            except Timeout:
                raise
            except BaseException as e:
                where = traceback.extract_tb(e.__traceback__)[-1]
                out["fails"].append(("C19", f"{kind} {descr}: the component cannot be converted as the top level of a design: {type(e).__name__} "
                                            f"at {os.path.basename(where.filename)}:{where.name}: {str(e)[:100]}", f"top-level:{type(e).__name__}"))
        if lib.rng_for(case["seed"], case["idx"], 1929).random() < 0.3:
            # two instances with the same parameters in one design (two identical peripherals): they share nothing
            try:
                c2, extra2, _, _ = make(kind, lib.rng_for(case["seed"], case["idx"], 1919))
                m2 = Module()
                m2.submodules.a = c
                m2.submodules.b = c2
                for i_, e_ in enumerate(list(extra) + list(extra2)):
                    m2.submodules[f"x{i_}"] = e_
                rtlil.convert(m2, ports=flat_ports(c) + flat_ports(c2))
                out["twin_instances"] = True
            except Timeout:
                raise
            except BaseException as e:
                where = traceback.extract_tb(e.__traceback__)[-1]
                out["fails"].append(("C19", f"{kind} {descr}: a design with TWO instances built from the same parameters cannot be elaborated: "
                                            f"{type(e).__name__} at {os.path.basename(where.filename)}:{where.name}: {str(e)[:100]}",
                                     f"twin:{type(e).__name__}"))
        if kind == "Multiplexer" and mm is not None:
            # csr.Multiplexer does not freeze its map: a register may be added after the multiplexer has been
            # elaborated; the next elaboration either includes it or is refused descriptively — never an internal error
            try:
                late = El(1, "rw")
                late_at = mm.add_resource(late, name=("verif_late",), size=1)[0]
                added = True
            except (ValueError, TypeError):
                added = False
            if added:
                out["late_register"] = True
                try:
                    convert(c, list(extra) + [late])
                    # it elaborated: then the register is served like any other (a write to its address strobes it)
                    from amaranth.sim import Simulator
                    m2 = Module()
                    m2.submodules.dut = c
                    for i_, e_ in enumerate(list(extra) + [late]):
                        m2.submodules[f"x{i_}"] = e_
                    d_ = Signal(name="verif_dummy"); m2.d.sync += d_.eq(~d_)
                    sim = Simulator(m2)
                    sim.add_clock(1e-6)
                    seen = []

                    async def tb(ctx):
                        ctx.set(c.bus.addr, late_at); ctx.set(c.bus.w_stb, 1); ctx.set(c.bus.w_data, 1)
                        await ctx.tick()
                        ctx.set(c.bus.w_stb, 0)
                        seen.append(ctx.get(late.element.w_stb))
                        await ctx.tick()
                    sim.add_testbench(tb)
                    sim.run()
                    if seen != [1]:
                        out["fails"].append(("C19", f"{kind} {descr}: a register added to the map after the first elaborations is accepted by the "
                                                    f"next elaboration but not served by it (a bus write to its address {late_at} does not strobe it): "
                                                    f"the elaboration silently works from a stale register set", "late-register:not-served"))
                except Timeout:
                    raise
                except BaseException as e:
                    if not descriptive(e, own_only=True):
                        where = traceback.extract_tb(e.__traceback__)[-1]
                        out["fails"].append(("C19", f"{kind} {descr}: a register added to the (unfrozen) map after the first elaborations makes "
                                                    f"the next elaboration fail with {type(e).__name__} at {os.path.basename(where.filename)}:{where.name}: "
                                                    f"{str(e)[:80]}", f"late-register:{type(e).__name__}"))
        if kind == "Bridge":
            # whatever scheme gives colliding registers their submodule names: a further register that is CALLED
            # like one of the names the scheme produced is legal too, and the bridge must still elaborate
            try:
                from amaranth.hdl import Fragment
                joined = {"__".join(str(p_) for p_ in n_) for _, n_, _ in mm.resources()} | {"mux"}
                made = [n_ for _, n_, *_ in Fragment.get(c, None).subfragments if isinstance(n_, str) and n_ not in joined]
                if made:
                    c2, extra2, descr2, _ = make(kind, lib.rng_for(case["seed"], case["idx"], 1919), extra_names=made[:3])
                    out["adversarial_names"] = made[:3]
                    try:
                        convert(c2, extra2)
                    except Timeout:
                        raise
                    except BaseException as e:
                        if not descriptive(e, own_only=True):
                            out["fails"].append(("C19", f"Bridge {descr2}: with a register named like a generated submodule name "
                                                        f"({made[:3]}) elaboration fails with {type(e).__name__}: {str(e)[:100]}",
                                                 f"adversarial-name:{type(e).__name__}"))
            except Timeout:
                raise
            except (ValueError, TypeError):
                pass
        if kind in ("csr.Decoder", "wb.Decoder", "Arbiter"):
            # an elaboration in the middle of construction (before later add() calls) must not change the
            # hardware that the finished component elaborates to: compare with an identical twin that
            # was elaborated early
            hr = lib.rng_for(case["seed"], case["idx"], 1929)
            early = [0]

            def hook(c_):
                if hr.random() < .4:
                    convert(c_)
                    early[0] += 1
            try:
                cB, extraB, _, _ = make(kind, lib.rng_for(case["seed"], case["idx"], 1919), hook)
                if early[0] and convert(cB, extraB) != texts[0]:
                    out["fails"].append(("C19", f"{kind} {descr}: an elaboration before later add() calls changed the hardware the "
                                                f"finished component elaborates to", "early-elaboration-changes-hardware"))
                out["early_elaborations"] = early[0]
            except Timeout:
                raise
            except BaseException as e:
                if early[0]:
                    out["fails"].append(("C19", f"{kind} {descr}: after an elaboration in the middle of construction, construction or "
                                                f"elaboration fails with {type(e).__name__}: {str(e)[:100]}", f"early-elaboration:{type(e).__name__}"))
        if before != after:
            pass
        elif mm is not None:
            # metadata that queries do not show (is the map still open?): an identical twin that was never
            # elaborated must answer one further `add_resource` exactly as the elaborated instance does
            try:
                c2, _, _, mm2 = make(kind, lib.rng_for(case["seed"], case["idx"], 1919))
                if fmt_map(mm2) == before:
                    pa, pb = probe_add(mm2), probe_add(mm)
                    if pa != pb:
                        out["fails"].append(("C19", f"{kind} {descr}: after elaboration the memory map answers add_resource with {pb}, "
                                                    f"a never-elaborated twin with {pa}", "map-openness-changed"))
                    if kind == "WishboneCSRBridge":
                        # … and the metadata of what the component was GIVEN: the memory map of the CSR bus behind the bridge
                        pa, pb = probe_add(c2.csr_bus.memory_map), probe_add(c.csr_bus.memory_map)
                        if pa != pb:
                            out["fails"].append(("C19", f"{kind} {descr}: after the bridge's elaboration the memory map of the CSR bus behind it answers "
                                                        f"add_resource with {pb}, that of a never-elaborated twin with {pa}", "neighbour-map-openness-changed"))
            except Timeout:
                raise
            except (ValueError, TypeError):
                pass
        out["status"] = "ok"
        out["rtlil_len"] = len(texts[0])
        return out
    except Timeout:
        out["status"] = "timeout"
        out["fails"].append(("C19", f"{kind} {out['descr']}: no termination within the watchdog", "timeout"))
        return out
    finally:
        signal.alarm(0)


def run_idx(seed, idx):
    return run_case(gen_case(seed, idx))
