"""re-run a few generated cases in a fresh interpreter (used twice by runner.correspondence: with and without
`python -O`, same PYTHONHASHSEED) and print what the real code did — a library whose behaviour depends on an
`assert` statement being executed behaves differently in the two"""
import sys, json, importlib


def main():
    req = json.load(sys.stdin)
    mod = importlib.import_module(req["mod"])
    out = []
    for seed, idx, extra in req["jobs"]:
        try:
            case = mod.gen_case(seed, idx, *extra)
            r = getattr(mod, req["fn"])(case)
            out.append({"seed": seed, "idx": idx, "skip": bool(r.get("skip")), "lines": r.get("lines"), "obs": r.get("obs"),
                        "fails": [list(f[:2]) for f in r.get("fails", [])]})
        except BaseException as e:
            import re
            out.append({"seed": seed, "idx": idx, "raised": re.sub(r"0x[0-9a-fA-F]+", "0x…", f"{type(e).__name__}: {str(e)[:200]}")})
    json.dump(out, sys.stdout)


main()
