"""C10: real WishboneCSRBridge in amaranth.sim (CSR side stubbed: random r_data every cycle) vs the
Lean model `bridge`; the transfer clauses evaluated on the real trace for every abiding transfer."""
from . import lib, simutil
from amaranth.sim import Simulator
from amaranth_soc import csr
from amaranth_soc.memory import MemoryMap
from amaranth_soc.csr.wishbone import WishboneCSRBridge


def gen_case(seed, idx, ncycles):
    return {"seed": seed, "idx": idx, "ncycles": ncycles}


GEOMS = [(8, 8), (8, 16), (8, 32), (8, 64), (16, 16), (16, 32), (16, 64), (32, 32), (32, 64), (64, 64)]


def run_impl(case):
    rnd = lib.rng_for(case["seed"], case["idx"], 1010)
    cdw, wdw = GEOMS[case["idx"] % len(GEOMS)]
    ratio = wdw // cdw
    lr = ratio.bit_length() - 1
    caw = rnd.randint(max(1, lr), lr + 5)
    tiny = lr >= 2 and lib.rng_for(case["seed"], case["idx"], 1020).random() < .2
    if tiny:
        caw = lib.rng_for(case["seed"], case["idx"], 1021).randint(1, lr - 1)    # a CSR bus smaller than one Wishbone word
    cbus = csr.Interface(addr_width=caw, data_width=cdw)
    cbus.memory_map = MemoryMap(addr_width=caw, data_width=cdw)
    try:
        dut = WishboneCSRBridge(cbus, data_width=wdw if rnd.random() < .8 or ratio > 1 else None)
    except ValueError:
        if tiny:
            return {"skip": True}        # refused: fine. If it is accepted it has to behave like any other bridge
        raise
    wb = dut.wb_bus
    aw = len(wb.adr)
    sim = simutil.simulator(simutil.wrap(dut), case)
    sim.add_clock(1e-6)
    style = rnd.choice(["abiding", "abiding", "abiding", "random"])
    lines = [f"case {ratio} {cdw} {int(style == 'abiding')}"]
    obs, fails = [], []
    stats = {"cycles": 0, "transfers": 0, "back_to_back": 0, "partial_sel": 0, "cyc_without_stb": 0, "released_in_ack_cycle": 0, "ratio": ratio}
    gmask = (1 << cdw) - 1

    async def tb(ctx):
        cur = None              # current held request (we, adr, sel, datw) or None
        t0 = None
        rlog = {}               # cycle -> csr r_data presented
        gap = 0
        just_acked = False
        rel = lib.rng_for(case["seed"], case["idx"], 1030)     # own stream: how the initiator behaves in the acknowledge cycle
        for t in range(case["ncycles"]):
            csr_r = lib.bits(rnd, cdw)
            if style == "random":
                cyc, stb = int(rnd.random() < .7), int(rnd.random() < .7)
                we, adr, sel, datw = rnd.getrandbits(1), lib.bits(rnd, aw) if aw else 0, lib.bits(rnd, ratio), lib.bits(rnd, wdw)
            else:
                if cur is None and gap == 0:
                    cur = (rnd.getrandbits(1), lib.bits(rnd, aw) if aw else 0,
                           rnd.choice([(1 << ratio) - 1, (1 << ratio) - 1, lib.bits(rnd, ratio), 0]), lib.bits(rnd, wdw))
                    t0 = t
                    stats["transfers"] += 1
                    if just_acked:
                        stats["back_to_back"] += 1
                    if cur[2] != (1 << ratio) - 1:
                        stats["partial_sel"] += 1
                if cur is not None:
                    cyc = stb = 1
                    we, adr, sel, datw = cur
                    if t - t0 == ratio + 1:
                        # the acknowledge cycle (ack is registered: it does not depend on this cycle's inputs). An initiator
                        # written as an Amaranth test bench sees ack after the clock edge and releases the bus at once — stb
                        # alone, or cyc and stb — in the very cycle ack is high; a registered one holds the request through it
                        how = rel.choice(["hold", "hold", "stb", "cyc+stb"])
                        if how != "hold":
                            cyc, stb = (1, 0) if how == "stb" else (0, 0)
                            stats["released_in_ack_cycle"] += 1
                else:
                    gap -= 1
                    cyc, stb = rnd.choice([(0, 0), (1, 0), (0, 0)])
                    if cyc and not stb:
                        stats["cyc_without_stb"] += 1
                    we, adr, sel, datw = rnd.getrandbits(1), lib.bits(rnd, aw) if aw else 0, lib.bits(rnd, ratio), lib.bits(rnd, wdw)
            just_acked = False
            ctx.set(wb.cyc, cyc); ctx.set(wb.stb, stb); ctx.set(wb.we, we); ctx.set(wb.adr, adr)
            ctx.set(wb.sel, sel); ctx.set(wb.dat_w, datw); ctx.set(cbus.r_data, csr_r)
            rlog[t] = csr_r
            lines.append(f"cyc {cyc} {stb} {we} {adr} {sel} {datw} {csr_r}")
            a, rs, ws, wd = ctx.get(cbus.addr), ctx.get(cbus.r_stb), ctx.get(cbus.w_stb), ctx.get(cbus.w_data)
            ack, datr = ctx.get(wb.ack), ctx.get(wb.dat_r)
            o_csr = f"{a if (rs or ws) else '-'} {rs} {ws} {wd if ws else '-'}"
            is_read_ack = ack and (style == "abiding" and cur is not None and not cur[0])
            obs.append(f"{o_csr} | {ack} {datr if is_read_ack else '-'}")
            stats["cycles"] += 1
            # ---- clauses on the real trace
            if not (cyc and stb) and (rs or ws):
                fails.append(("C10", f"cycle {t}: CSR strobe (r={rs} w={ws}) outside a transfer", t))
            if style == "abiding" and cur is not None:
                i = t - t0
                cwe, cadr, csel, cdat = cur
                if i < ratio:
                    exp_r = int((csel >> i) & 1 and not cwe)
                    exp_w = int((csel >> i) & 1 and cwe)
                    if (rs, ws) != (exp_r, exp_w):
                        fails.append(("C10", f"cycle {t} (granule {i} of transfer at {t0}): strobes r={rs} w={ws}, expected r={exp_r} w={exp_w}", t))
                    if (rs or ws) and a != ((cadr << lr) | i) & ((1 << caw) - 1):
                        fails.append(("C10", f"cycle {t}: CSR address {a}, expected {cadr}*{ratio}+{i}", t))
                    if ws and wd != (cdat >> (i * cdw)) & gmask:
                        fails.append(("C10", f"cycle {t}: CSR w_data {wd:#x} is not granule {i} of {cdat:#x}", t))
                elif rs or ws:
                    fails.append(("C10", f"cycle {t}: CSR strobe after the last granule of the transfer started at {t0}", t))
                if ack != int(i == ratio + 1):
                    fails.append(("C10", f"cycle {t}: ack={ack} at {i} cycles after the transfer start (ratio {ratio})", t))
                if i == ratio + 1:
                    if not cwe:
                        for l in range(ratio):
                            if (csel >> l) & 1 and (datr >> (l * cdw)) & gmask != rlog[t0 + l + 1]:
                                fails.append(("C10", f"cycle {t}: lane {l} of dat_r is {(datr >> (l * cdw)) & gmask:#x}, CSR returned {rlog[t0 + l + 1]:#x}", t))
                    cur = None
                    just_acked = True
                    gap = rnd.choice([0, 0, 1, 2, 3])
            elif style == "abiding" and ack:
                fails.append(("C10", f"cycle {t}: acknowledge without a transfer", t))
            await ctx.tick()

    sim.add_testbench(tb)
    sim.run()
    lines.append("end")
    return {"lines": lines, "obs": obs, "fails": fails, "stats": stats, "key": f"{cdw}/{wdw}/{caw}/{style}/{case['idx']}",
            "descr": f"csr_dw={cdw} wb_dw={wdw} csr_aw={caw} style={style}", "style": style}
