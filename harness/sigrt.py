"""C20 runtime part: wiring.connect() between every bus-facing port and the complementary standard
interface; create() round trip, `==` ⇔ parameter equality, member presence/width for every
signature class over a parameter grid."""
import itertools, traceback
from . import lib
from amaranth import Module, Shape, unsigned, signed
from amaranth.lib import wiring
from amaranth.lib.wiring import connect, flipped
from amaranth_soc import csr, wishbone, event, gpio
from amaranth_soc.memory import MemoryMap
from amaranth_soc.csr.wishbone import WishboneCSRBridge
from amaranth_soc.wishbone.sram import WishboneSRAM

FEATS = ["err", "rty", "stall", "lock", "cti", "bte"]

from amaranth.lib import enum as _aenum


class OneHot(_aenum.Enum, shape=unsigned(3)):
    """an enumeration without a member of value 0"""
    IDLE = 1
    BUSY = 2
    DONE = 4



def components(rnd, n):
    """yields (description, component, port name, role, maker of the complementary interface)"""
    out = []

    def add(descr, mk, port, role):
        try:
            out.append((descr, mk(), port, role))
        except Exception as e:            # a legal configuration that cannot even be constructed
            out.append((descr, e, port, role))
    for _ in range(n):
        aw, dw = rnd.randint(1, 8), rnd.choice([8, 16, 32])
        mm = MemoryMap(addr_width=aw, data_width=dw)
        add(f"csr.Multiplexer(aw={aw},dw={dw})", lambda: csr.Multiplexer(mm), "bus", "target")
        add(f"csr.Decoder(aw={aw},dw={dw})", lambda: csr.Decoder(addr_width=aw, data_width=dw), "bus", "target")
        b = csr.Builder(addr_width=aw, data_width=dw)
        b.add("r", csr.Register(csr.Field(csr.action.RW, rnd.randint(1, dw)), access="rw"))
        add(f"csr.Bridge(aw={aw},dw={dw})", lambda: csr.Bridge(b.as_memory_map()), "bus", "target")
        p = dict(pin_count=rnd.randint(1, 9), addr_width=rnd.randint(4, 8), data_width=rnd.choice([8, 16, 32]), input_stages=rnd.randint(0, 3))
        add(f"gpio.Peripheral({p})", lambda: gpio.Peripheral(**p), "bus", "target")
        em = event.EventMap()
        n_ev = rnd.choice([0, 1, 3, 9, 20])
        for _ in range(n_ev):
            em.add(event.Source(trigger=rnd.choice(["level", "rise", "fall"])))
        q = dict(data_width=rnd.choice([8, 16, 32]), alignment=rnd.choice([0, 1, 2]), trigger=rnd.choice(["level", "rise", "fall"]))
        add(f"csr.EventMonitor(events={n_ev},{q})", lambda: csr.EventMonitor(em, **q), "bus", "target")
        cdw = rnd.choice([8, 16, 32, 64]); wdw = rnd.choice([x for x in (8, 16, 32, 64) if x >= cdw]); caw = rnd.randint(4, 8)
        ratio_bits = (wdw // cdw).bit_length() - 1
        if rnd.random() < .4:
            caw = max(1, ratio_bits + rnd.choice([0, 0, 1]))      # the whole CSR space is one or two Wishbone words
        cb = csr.Interface(addr_width=caw, data_width=cdw); cb.memory_map = MemoryMap(addr_width=caw, data_width=cdw)
        add(f"WishboneCSRBridge(csr_dw={cdw},csr_aw={caw},wb_dw={wdw})", lambda: WishboneCSRBridge(cb, data_width=wdw), "wb_bus", "target")
        dw2 = rnd.choice([8, 16, 32, 64]); g2 = rnd.choice([x for x in (8, 16, 32, 64) if x <= dw2]); size = rnd.choice([s for s in (2, 8, 64) if s * g2 >= dw2])
        add(f"WishboneSRAM(size={size},dw={dw2},gran={g2})", lambda: WishboneSRAM(size=size, data_width=dw2, granularity=g2, writable=rnd.random() < .7), "wb_bus", "target")
        fs = {f for f in FEATS if rnd.random() < .5}; aw3 = rnd.randint(0, 8)
        add(f"wishbone.Decoder(aw={aw3},dw={dw2},gran={g2},features={sorted(fs)})",
            lambda: wishbone.Decoder(addr_width=aw3, data_width=dw2, granularity=g2, features=fs), "bus", "target")
        add(f"wishbone.Arbiter(aw={aw3},dw={dw2},gran={g2},features={sorted(fs)})",
            lambda: wishbone.Arbiter(addr_width=aw3, data_width=dw2, granularity=g2, features=fs), "bus", "initiator")
    # the granularity left out (it defaults to the data width), on every component that takes one
    for dw_ in (16, 32):
        add(f"wishbone.Arbiter(aw=4,dw={dw_},granularity omitted)", lambda dw_=dw_: wishbone.Arbiter(addr_width=4, data_width=dw_), "bus", "initiator")
        add(f"wishbone.Decoder(aw=4,dw={dw_},granularity omitted)", lambda dw_=dw_: wishbone.Decoder(addr_width=4, data_width=dw_), "bus", "target")
        add(f"WishboneSRAM(size=8,dw={dw_},granularity omitted)", lambda dw_=dw_: WishboneSRAM(size=8, data_width=dw_), "wb_bus", "target")
    # fixed corners: the whole CSR space is exactly one Wishbone word (the Wishbone port has no address bits)
    for cdw, wdw in ((8, 16), (8, 32), (16, 64), (8, 64)):
        caw = (wdw // cdw).bit_length() - 1

        def mk(cdw=cdw, wdw=wdw, caw=caw):
            cb = csr.Interface(addr_width=caw, data_width=cdw)
            cb.memory_map = MemoryMap(addr_width=caw, data_width=cdw)
            return WishboneCSRBridge(cb, data_width=wdw)
        add(f"WishboneCSRBridge(csr_dw={cdw},csr_aw={caw},wb_dw={wdw})", mk, "wb_bus", "target")
    return out


def complementary(port_sig_unflipped):
    return port_sig_unflipped.create()


def try_connect(comp, port, role):
    """connect a freshly created standard interface of the same parameters to the port"""
    p = getattr(comp, port)
    sig = p.signature
    base = sig.flip() if isinstance(sig, wiring.FlippedSignature) else sig     # the standard signature
    m = Module()
    if role == "target":
        other = base.create()                      # an initiator
    else:
        other = flipped(base.create())             # a target seen from outside
    connect(m, other, p)
    return True


def connect_cases(seed, n):
    rnd = lib.rng_for(seed, 0, 2020)
    res = []
    for descr, comp, port, role in components(rnd, n):
        if isinstance(comp, Exception):
            res.append((descr, port, role, f"cannot be constructed: {type(comp).__name__}: {str(comp)[:160]}"))
            continue
        try:
            try_connect(comp, port, role)
            res.append((descr, port, role, None))
        except Exception as e:
            res.append((descr, port, role, f"{type(e).__name__}: {str(e)[:160]}"))
    return res


def default_granularity_cases():
    """components built with the granularity left out must present the port the standard signature with the
    same parameters (granularity left out too) describes, and connect to an interface created from it"""
    res = []
    for dw_ in (16, 32, 64):
        for descr, mk, port, role in (
                (f"wishbone.Arbiter(dw={dw_})", lambda: wishbone.Arbiter(addr_width=4, data_width=dw_), "bus", "initiator"),
                (f"wishbone.Decoder(dw={dw_})", lambda: wishbone.Decoder(addr_width=4, data_width=dw_), "bus", "target"),
                (f"wishbone.Interface(dw={dw_})", lambda: wishbone.Interface(addr_width=4, data_width=dw_), None, "initiator")):
            try:
                c = mk()
                p_ = c if port is None else getattr(c, port)
                std = wishbone.Signature(addr_width=4, data_width=dw_)
                got = {n: Shape.cast(m_.shape).width for n, m_ in (p_.signature.flip() if isinstance(p_.signature, wiring.FlippedSignature) else p_.signature).members.items()}
                want = {n: Shape.cast(m_.shape).width for n, m_ in std.members.items()}
                if got != want:
                    res.append((descr, f"member widths {got}, the standard signature with the same (defaulted) parameters has {want}"))
                    continue
                if port is not None:
                    m = Module()
                    connect(m, std.create() if role == "target" else flipped(std.create()), p_)
            except Exception as e:
                res.append((descr, f"{type(e).__name__}: {str(e)[:160]}"))
    return res


def param_signature_cases():
    """the port of a component is the one the standard signature WITH THE COMPONENT'S OWN CONSTRUCTOR PARAMETERS
    describes (address width, data width, granularity, features as documented for each class), and an interface
    created from that signature connects to it — a fixed grid including the one-row / one-word corners"""
    import math
    res, n = [], 0
    rows = []
    for aw, dw in itertools.product([1, 3, 8], [8, 16, 32]):
        rows.append((f"csr.Multiplexer(aw={aw},dw={dw})", lambda aw=aw, dw=dw: csr.Multiplexer(MemoryMap(addr_width=aw, data_width=dw)), "bus", "target",
                     lambda aw=aw, dw=dw: csr.Signature(addr_width=aw, data_width=dw)))
        rows.append((f"csr.Decoder(aw={aw},dw={dw})", lambda aw=aw, dw=dw: csr.Decoder(addr_width=aw, data_width=dw), "bus", "target",
                     lambda aw=aw, dw=dw: csr.Signature(addr_width=aw, data_width=dw)))
        rows.append((f"csr.Bridge(aw={aw},dw={dw})", lambda aw=aw, dw=dw: csr.Bridge(MemoryMap(addr_width=aw, data_width=dw)), "bus", "target",
                     lambda aw=aw, dw=dw: csr.Signature(addr_width=aw, data_width=dw)))
        rows.append((f"gpio.Peripheral(pin_count=2,aw={aw + 3},dw={dw})", lambda aw=aw, dw=dw: gpio.Peripheral(pin_count=2, addr_width=aw + 3, data_width=dw),
                     "bus", "target", lambda aw=aw, dw=dw: csr.Signature(addr_width=aw + 3, data_width=dw)))
    for dw, g in [(8, 8), (16, 8), (32, 8), (32, 16), (32, 32), (64, 8)]:
        for rows_ in (1, 2, 4, 32):
            size = rows_ * dw // g
            for wr in (True, False):
                rows.append((f"WishboneSRAM(size={size},dw={dw},gran={g},writable={wr})",
                             lambda size=size, dw=dw, g=g, wr=wr: WishboneSRAM(size=size, data_width=dw, granularity=g, writable=wr), "wb_bus", "target",
                             lambda rows_=rows_, dw=dw, g=g: wishbone.Signature(addr_width=int(math.log2(rows_)), data_width=dw, granularity=g)))
        for aw, fs in itertools.product([0, 1, 7], [(), ("err",), ("stall", "lock"), tuple(FEATS)]):
            rows.append((f"wishbone.Decoder(aw={aw},dw={dw},gran={g},features={fs})",
                         lambda aw=aw, dw=dw, g=g, fs=fs: wishbone.Decoder(addr_width=aw, data_width=dw, granularity=g, features=fs), "bus", "target",
                         lambda aw=aw, dw=dw, g=g, fs=fs: wishbone.Signature(addr_width=aw, data_width=dw, granularity=g, features=fs)))
            rows.append((f"wishbone.Arbiter(aw={aw},dw={dw},gran={g},features={fs})",
                         lambda aw=aw, dw=dw, g=g, fs=fs: wishbone.Arbiter(addr_width=aw, data_width=dw, granularity=g, features=fs), "bus", "initiator",
                         lambda aw=aw, dw=dw, g=g, fs=fs: wishbone.Signature(addr_width=aw, data_width=dw, granularity=g, features=fs)))
    # … the feature set given as a one-shot iterable (e.g. filtered from another bus's features)
    for fs in [("err",), ("lock", "cti"), tuple(FEATS)]:
        rows.append((f"wishbone.Decoder(aw=4,dw=32,gran=8,features=<generator over {fs}>)",
                     lambda fs=fs: wishbone.Decoder(addr_width=4, data_width=32, granularity=8, features=(f for f in fs)), "bus", "target",
                     lambda fs=fs: wishbone.Signature(addr_width=4, data_width=32, granularity=8, features=fs)))
        rows.append((f"wishbone.Arbiter(aw=4,dw=32,gran=8,features=<generator over {fs}>)",
                     lambda fs=fs: wishbone.Arbiter(addr_width=4, data_width=32, granularity=8, features=(f for f in fs)), "bus", "initiator",
                     lambda fs=fs: wishbone.Signature(addr_width=4, data_width=32, granularity=8, features=fs)))
    for cdw, wdw, caw in itertools.product([8, 16], [8, 16, 32, 64], [1, 2, 3, 6]):
        rb = (wdw // cdw).bit_length() - 1
        if wdw < cdw or caw < rb:
            continue

        def mk(cdw=cdw, wdw=wdw, caw=caw):
            cb = csr.Interface(addr_width=caw, data_width=cdw)
            cb.memory_map = MemoryMap(addr_width=caw, data_width=cdw)
            return WishboneCSRBridge(cb, data_width=wdw)
        rows.append((f"WishboneCSRBridge(csr_dw={cdw},csr_aw={caw},wb_dw={wdw})", mk, "wb_bus", "target",
                     lambda cdw=cdw, wdw=wdw, caw=caw, rb=rb: wishbone.Signature(addr_width=max(0, caw - rb), data_width=wdw, granularity=cdw)))
    for descr, mk, port, role, std_ in rows:
        n += 1
        try:
            try:
                c = mk()
            except (ValueError, TypeError):
                continue                       # parameters the class refuses (a one-granule SRAM has no address space)
            p_ = getattr(c, port)
            std = std_()
            have = p_.signature.flip() if isinstance(p_.signature, wiring.FlippedSignature) else p_.signature
            got = {k: Shape.cast(m_.shape).width for k, m_ in have.members.items()}
            want = {k: Shape.cast(m_.shape).width for k, m_ in std.members.items()}
            if got != want:
                res.append((descr, f"port {port} has member widths {got}; the standard signature with the component's parameters has {want}"))
                continue
            m = Module()
            connect(m, std.create() if role == "target" else flipped(std.create()), p_)
        except Exception as e:
            res.append((descr, f"{type(e).__name__}: {str(e)[:160]}"))
    return res, n


def signature_grid():
    """(class name, params dict, constructor) over the grid"""
    rows = []
    for aw, dw in itertools.product([1, 4, 16], [1, 8, 32]):
        rows.append(("csr.Signature", {"addr_width": aw, "data_width": dw}, lambda aw=aw, dw=dw: csr.Signature(addr_width=aw, data_width=dw)))
    for w, acc in itertools.product([0, 1, 8, 12, 300, 512], ["r", "w", "rw"]):
        # (the width is a fresh int object on every construction: equality is by value)
        rows.append(("csr.Element.Signature", {"width": w, "access": acc}, lambda w=w, acc=acc: csr.Element.Signature(int(str(w)), str(acc))))
    # the same cast shape in several spellings (an enum and its width, an int and unsigned(n), a range): equal signatures
    for shp, acc in itertools.product([unsigned(0), 0, unsigned(5), range(32), signed(5), range(-16, 16), gpio.PinMode, unsigned(2), range(4), 8, unsigned(8), OneHot, unsigned(3)],
                                      ["r", "w", "rw", "nc"]):
        rows.append(("csr.FieldPort.Signature", {"shape": repr(Shape.cast(shp)), "access": acc}, lambda shp=shp, acc=acc: csr.FieldPort.Signature(shp, acc)))
    for aw, (dw, gran), f in itertools.product([0, 5], [(8, 8), (32, 8), (32, 32)], range(64)):
        fs = frozenset(x for k, x in enumerate(FEATS) if (f >> k) & 1)
        rows.append(("wishbone.Signature", {"addr_width": aw, "data_width": dw, "granularity": gran, "features": tuple(sorted(fs))},
                     lambda aw=aw, dw=dw, gran=gran, fs=fs: wishbone.Signature(addr_width=aw, data_width=dw, granularity=gran, features=fs)))
        if gran == dw:
            # the granularity may be left out: it then defaults to the data width
            rows.append(("wishbone.Signature", {"addr_width": aw, "data_width": dw, "granularity": gran, "features": tuple(sorted(fs))},
                         lambda aw=aw, dw=dw, fs=fs: wishbone.Signature(addr_width=aw, data_width=dw, features=fs)))
        if aw == 5 and (dw, gran) == (32, 8):
            # the same feature set in other spellings: Feature members, a list, a frozenset of strings
            for spell in (lambda fs: {wishbone.Feature(x) for x in fs}, lambda fs: sorted(fs), lambda fs: frozenset(str(x) for x in fs),
                          lambda fs: (x for x in sorted(fs)), lambda fs: iter(sorted(fs, reverse=True)), lambda fs: dict.fromkeys(sorted(fs)).keys()):
                rows.append(("wishbone.Signature", {"addr_width": aw, "data_width": dw, "granularity": gran, "features": tuple(sorted(fs))},
                             lambda aw=aw, dw=dw, gran=gran, fs=fs, spell=spell: wishbone.Signature(addr_width=aw, data_width=dw, granularity=gran, features=spell(fs))))
    # coincidences: parameter tuples that differ in TWO places while a derived quantity (address width in granules, total
    # bits, the multiset of values) is the same — (aw=0, 32/8) vs (aw=2, 32/32), (aw=4, dw=8) vs (aw=8, dw=4), …
    for aw, (dw, gran), fs in itertools.product([1, 2, 3, 7], [(16, 8), (16, 16), (32, 8), (32, 16), (32, 32), (64, 8), (64, 64)],
                                                [frozenset(), frozenset({"err"}), frozenset(FEATS)]):
        rows.append(("wishbone.Signature", {"addr_width": aw, "data_width": dw, "granularity": gran, "features": tuple(sorted(fs))},
                     lambda aw=aw, dw=dw, gran=gran, fs=fs: wishbone.Signature(addr_width=aw, data_width=dw, granularity=gran, features=fs)))
    for aw, dw in itertools.product([2, 8, 32], [2, 4, 16]):
        rows.append(("csr.Signature", {"addr_width": aw, "data_width": dw}, lambda aw=aw, dw=dw: csr.Signature(addr_width=aw, data_width=dw)))
    for trg in ["level", "rise", "fall"]:
        rows.append(("event.Source.Signature", {"trigger": trg}, lambda trg=trg: event.Source.Signature(trigger=trg)))
    rows.append(("gpio.PinSignature", {}, lambda: gpio.PinSignature()))
    return rows


def signature_checks():
    fails, stats = [], {"signatures": 0, "pairs": 0, "roundtrips": 0}
    rows = signature_grid()
    sigs = []
    for c, p, mk in rows:
        try:
            sigs.append((c, p, mk()))
        except Exception as e:
            fails.append(("C20", f"{c}{p}: the signature cannot be constructed: {type(e).__name__}: {str(e)[:120]}", f"ctor:{c}"))
    stats["signatures"] = len(sigs)
    for c, p, s in sigs:
        try:
            i = s.create()
            stats["roundtrips"] += 1
            if not (i.signature == s):
                fails.append(("C20", f"{c}{p}: create().signature != the original signature", f"roundtrip:{c}"))
        except Exception as e:
            fails.append(("C20", f"{c}{p}: create() raised {type(e).__name__}: {e}", f"create:{c}"))
        # the interface may be an array member of a larger signature: Amaranth then passes a path with an integer part
        try:
            i2 = s.create(path=("bank", 3, "bus"))
            if not (i2.signature == s):
                fails.append(("C20", f"{c}{p}: create(path=('bank', 3, 'bus')).signature != the original signature", f"roundtrip-path:{c}"))
        except Exception as e:
            fails.append(("C20", f"{c}{p}: create(path=('bank', 3, 'bus')) raised {type(e).__name__}: {str(e)[:100]}", f"create-path:{c}"))
        # member presence and widths follow the parameters
        if c == "wishbone.Signature":
            names = set(s.members.keys())
            want = {"adr", "dat_w", "dat_r", "sel", "cyc", "stb", "we", "ack"} | set(p["features"])
            if names != want:
                fails.append(("C20", f"{c}{p}: members {sorted(names)}, expected {sorted(want)}", f"members:{c}"))
            elif (Shape.cast(s.members["adr"].shape).width, Shape.cast(s.members["dat_w"].shape).width, Shape.cast(s.members["sel"].shape).width) != \
                    (p["addr_width"], p["data_width"], p["data_width"] // p["granularity"]):
                fails.append(("C20", f"{c}{p}: adr/dat_w/sel widths do not follow the parameters", f"widths:{c}"))
        if c == "csr.Element.Signature":
            want = ({"r_data", "r_stb"} if "r" in p["access"] else set()) | ({"w_data", "w_stb"} if "w" in p["access"] else set())
            if set(s.members.keys()) != want:
                fails.append(("C20", f"{c}{p}: members {sorted(s.members.keys())}, expected {sorted(want)}", f"members:{c}"))
    # equality ⇔ equality of the defining parameters, all pairs of the same class
    for (c1, p1, s1), (c2, p2, s2) in itertools.combinations(sigs, 2):
        if c1 != c2:
            continue
        stats["pairs"] += 2
        if (s1 == s2) != (p1 == p2):
            fails.append(("C20", f"{c1}: == is {s1 == s2} for parameters {p1} vs {p2}", f"eq:{c1}"))
        if (s2 == s1) != (p1 == p2):                       # == must not depend on the operand order
            fails.append(("C20", f"{c1}: == is {s2 == s1} for parameters {p2} vs {p1}", f"eq:{c1}"))
    # a user's own subclass of a signature class (one that only adds a helper method): its instances round-trip through
    # create() and are equal to signatures of the library's class with the same parameters, in both operand orders
    sub_rows = {
        "csr.Signature": (csr.Signature, [dict(addr_width=4, data_width=8), dict(addr_width=1, data_width=32)]),
        "csr.Element.Signature": (csr.Element.Signature, [dict(width=8, access="rw"), dict(width=0, access="r")]),
        "csr.FieldPort.Signature": (csr.FieldPort.Signature, [dict(shape=4, access="rw"), dict(shape=signed(3), access="r")]),
        "wishbone.Signature": (wishbone.Signature, [dict(addr_width=4, data_width=32, granularity=8, features={"err", "cti"}), dict(addr_width=0, data_width=8)]),
        "event.Source.Signature": (event.Source.Signature, [dict(trigger="rise"), dict(trigger="level")]),
        "gpio.PinSignature": (gpio.PinSignature, [{}]),
    }
    for c, (cls, kws) in sub_rows.items():
        Sub = type("My" + cls.__name__, (cls,), {"helper": lambda self: 1})
        for kw in kws:
            try:
                a, b = Sub(**kw), cls(**kw)
                stats["pairs"] += 2
                if not (a.create().signature == a):
                    fails.append(("C20", f"{c}{kw}: for an instance of a user subclass of the signature class, create().signature != the original", f"subclass-roundtrip:{c}"))
                if not (a == b) or not (b == a):
                    fails.append(("C20", f"{c}{kw}: an instance of a user subclass is not equal to the library's signature with the same parameters "
                                         f"(a == b: {a == b}, b == a: {b == a})", f"subclass-eq:{c}"))
                other = [k2 for k2 in kws if k2 != kw]
                if other and (a == cls(**other[0])):
                    fails.append(("C20", f"{c}: a subclass instance with parameters {kw} equals the signature with {other[0]}", f"subclass-eq:{c}"))
            except Exception as e:
                fails.append(("C20", f"{c}{kw}: a trivial subclass cannot be used: {type(e).__name__}: {str(e)[:100]}", f"subclass:{c}"))
    # a caller may hang an attribute of its own on a signature object (a tag, an owner): the defining parameters are what
    # equality looks at
    for c, p, mk in rows[::7]:
        try:
            a, b = mk(), mk()
            try:
                a.verif_owner = "tagged"
            except AttributeError:
                continue
            stats["pairs"] += 2
            if not (a == b) or not (b == a) or not (a.create().signature == a):
                fails.append(("C20", f"{c}{p}: after `sig.verif_owner = ...` on one of two signatures with the same parameters: a == b is {a == b}, "
                                     f"b == a is {b == a}, create() round trip is {a.create().signature == a}", f"tagged-eq:{c}"))
        except Exception as e:
            fails.append(("C20", f"{c}{p}: tagging a signature object: {type(e).__name__}: {str(e)[:100]}", f"tagged:{c}"))
    # a signature does not change when the caller goes on using (and changing) the collection it passed in
    for fs0 in ({"err"}, {"lock", "cti"}, set()):
        for conv in (lambda x: set(x), lambda x: {wishbone.Feature(f) for f in x}, lambda x: sorted(x)):
            given = conv(fs0)
            sig = wishbone.Signature(addr_width=4, data_width=16, granularity=8, features=given)
            ref = wishbone.Signature(addr_width=4, data_width=16, granularity=8, features=frozenset(fs0))
            before = (set(sig.members.keys()), set(str(getattr(f, "value", f)) for f in sig.features))
            (given.update if isinstance(given, set) else given.extend)([wishbone.Feature("stall"), wishbone.Feature("bte")])
            after = (set(sig.members.keys()), set(str(getattr(f, "value", f)) for f in sig.features))
            stats["pairs"] += 1
            if before != after or not (sig == ref) or not (ref == sig) or set(sig.create().signature.members.keys()) != before[0]:
                fails.append(("C20", f"wishbone.Signature built from the {type(given).__name__} {sorted(fs0)} changed when the caller's collection "
                                     f"was modified afterwards: members/features {before} -> {after}, == reference: {sig == ref}", "alias:wishbone.Signature"))
    for c, p, mk in rows:
        try:
            a_, b_ = mk(), mk()
        except Exception:
            continue
        if not (a_ == b_):
            fails.append(("C20", f"{c}{p}: two signatures with equal parameters compare unequal", f"eq-self:{c}"))
    return fails, stats
