"""C19: arguments of the wrong type or out of range.  Every constructor (and every add()-style method) of the
library, called with one argument replaced by a junk value and all others valid, either accepts the call or
refuses it with a ValueError or TypeError; any other exception class (AttributeError, KeyError, AssertionError,
IndexError, ...) is an internal error.  Deterministic; the table is a fixed grid, not a sample."""
import warnings
warnings.simplefilter("ignore")
from amaranth_soc import csr, wishbone, event, gpio
from amaranth_soc.memory import MemoryMap
from amaranth_soc.csr import action
from amaranth_soc.csr.wishbone import WishboneCSRBridge
from amaranth_soc.wishbone.sram import WishboneSRAM


def _em(n=3):
    m = event.EventMap()
    for _ in range(n):
        m.add(event.Source())
    return m


def _cbus():
    b = csr.Interface(addr_width=4, data_width=8)
    b.memory_map = MemoryMap(addr_width=4, data_width=8)
    return b


def _wbus():
    b = wishbone.Interface(addr_width=2, data_width=32, granularity=8)
    b.memory_map = MemoryMap(addr_width=4, data_width=8)
    return b


def _mm():
    return MemoryMap(addr_width=4, data_width=8)


def _reg():
    return csr.Register({"a": csr.Field(action.RW, 4)}, access="rw")


# name -> (callable taking **kw, valid kwargs factory, names of positional parameters in order)
TABLE = {
    "csr.EventMonitor": (lambda: csr.EventMonitor, lambda: dict(event_map=_em(), trigger="level", data_width=8, alignment=0), ("event_map",)),
    "event.Monitor": (lambda: event.Monitor, lambda: dict(event_map=_em(), trigger="level"), ("event_map",)),
    "event.Source": (lambda: event.Source, lambda: dict(trigger="level"), ()),
    "event.EventMap.add": (lambda: event.EventMap().add, lambda: dict(src=event.Source()), ("src",)),
    "gpio.Peripheral": (lambda: gpio.Peripheral, lambda: dict(pin_count=4, addr_width=4, data_width=8, input_stages=2), ()),
    "WishboneSRAM": (lambda: WishboneSRAM, lambda: dict(size=16, data_width=32, granularity=8, writable=True, init=()), ()),
    "WishboneCSRBridge": (lambda: WishboneCSRBridge, lambda: dict(csr_bus=_cbus(), data_width=32, name="x"), ("csr_bus",)),
    "csr.Multiplexer": (lambda: csr.Multiplexer, lambda: dict(memory_map=_mm(), shadow_overlaps=None), ("memory_map",)),
    "csr.Bridge": (lambda: csr.Bridge, lambda: dict(memory_map=_mm()), ("memory_map",)),
    "csr.Decoder": (lambda: csr.Decoder, lambda: dict(addr_width=4, data_width=8, alignment=0), ()),
    "csr.Decoder.add": (lambda: csr.Decoder(addr_width=6, data_width=8).add, lambda: dict(sub_bus=_cbus(), addr=None, name="s"), ("sub_bus",)),
    "wishbone.Decoder": (lambda: wishbone.Decoder, lambda: dict(addr_width=4, data_width=32, granularity=8, features=(), alignment=0), ()),
    "wishbone.Decoder.add": (lambda: wishbone.Decoder(addr_width=6, data_width=32, granularity=8).add,
                             lambda: dict(sub_bus=_wbus(), addr=None, sparse=False, name="s"), ("sub_bus",)),
    "wishbone.Arbiter": (lambda: wishbone.Arbiter, lambda: dict(addr_width=4, data_width=32, granularity=8, features=()), ()),
    "wishbone.Arbiter.add": (lambda: wishbone.Arbiter(addr_width=4, data_width=32, granularity=8).add,
                             lambda: dict(intr_bus=wishbone.Interface(addr_width=4, data_width=32, granularity=8)), ("intr_bus",)),
    "csr.Builder": (lambda: csr.Builder, lambda: dict(addr_width=4, data_width=8, granularity=8), ()),
    "csr.Builder.add": (lambda: csr.Builder(addr_width=4, data_width=8).add, lambda: dict(name="r", reg=_reg(), offset=None), ("name", "reg")),
    "csr.Register": (lambda: csr.Register, lambda: dict(fields={"a": csr.Field(action.RW, 4)}, access="rw"), ("fields",)),
    "csr.Field": (lambda: csr.Field, lambda: dict(action_cls=action.RW, shape=4), ("action_cls", "shape")),
    "action.R": (lambda: action.R, lambda: dict(shape=4), ("shape",)),
    "action.W": (lambda: action.W, lambda: dict(shape=4), ("shape",)),
    "action.RW": (lambda: action.RW, lambda: dict(shape=4, init=0), ("shape",)),
    "action.RW1C": (lambda: action.RW1C, lambda: dict(shape=4, init=0), ("shape",)),
    "action.RW1S": (lambda: action.RW1S, lambda: dict(shape=4, init=0), ("shape",)),
    "action.ResRAW0": (lambda: action.ResRAW0, lambda: dict(shape=4), ("shape",)),
    "MemoryMap": (lambda: MemoryMap, lambda: dict(addr_width=4, data_width=8, alignment=0), ()),
    "csr.Interface": (lambda: csr.Interface, lambda: dict(addr_width=4, data_width=8), ()),
    "csr.Signature": (lambda: csr.Signature, lambda: dict(addr_width=4, data_width=8), ()),
    "csr.Element": (lambda: csr.Element, lambda: dict(width=8, access="rw"), ("width", "access")),
    "wishbone.Interface": (lambda: wishbone.Interface, lambda: dict(addr_width=4, data_width=32, granularity=8, features=()), ()),
    "wishbone.Signature": (lambda: wishbone.Signature, lambda: dict(addr_width=4, data_width=32, granularity=8, features=()), ()),
}
JUNK = [None, "x", -1, 1.5, object(), [1], 0, 3, True, b"ab", {"k": 1}, ()]


def probe():
    """returns (fails, stats); a fail is (component, argument, junk repr, exception class, message)"""
    fails, stats = [], {"calls": 0, "accepted": 0, "refused": 0}
    for name, (target, mk, pos) in TABLE.items():
        for arg in mk():
            for j in JUNK:
                kw = mk()
                kw[arg] = j
                args = [kw.pop(p) for p in pos]
                stats["calls"] += 1
                try:
                    target()(*args, **kw)
                    stats["accepted"] += 1
                except (ValueError, TypeError):
                    stats["refused"] += 1
                except MemoryError:
                    stats["refused"] += 1
                except Exception as e:
                    fails.append((name, arg, repr(j)[:24], type(e).__name__, str(e)[:100]))
    return fails, stats


if __name__ == "__main__":
    f, s = probe()
    print(s)
    for x in f:
        print(x)
