"""regenerates MANIFEST.json from the table below (kept in one place so it stays valid)"""
import json, os
V = os.path.dirname(os.path.dirname(os.path.abspath(__file__)))
props = [json.loads(l) for l in open(os.path.join(V, "properties.jsonl"))]
from harness.claims import CLAIMS, NOT_APPLICABLE
checks = []
for p in props:
    c = CLAIMS.get(p["id"])
    if not c:
        continue
    checks.append({
        "property_id": p["id"],
        "quick_cmd": f"./check {p['id']} quick",
        "thorough_cmd": f"./check {p['id']} thorough",
        "evidence_file": f"evidence/{p['id']}.json",
        "replay_cmd_template": "./check --replay {path}",
        "engine": "lean4-proof+correspondence",
        "level_claimed": {"category": "proof", "text": c["text"], "design_ref": c.get("design_ref", "DESIGN.md §6")},
        "level_note": c["note"],
        "technique": c["technique"],
    })
m = {
    "version": 1,
    "setup_cmd": "./setup.sh",
    "hooks": {"guard": "AMARANTH_SOC_VERIF", "enable": "AMARANTH_SOC_VERIF=1 (set by the harness; no hook is needed: observation is through public ports, queries and the simulator)",
              "baseline_off_cmd": "cd /repo && /venv/bin/python -m pytest -ra -q -p no:cacheprovider --timeout=900 --continue-on-collection-errors",
              "source_commits": [], "add_only": True},
    "engines": [{"name": "lean4-proof+correspondence", "path": "lean/ + harness/",
                 "serves_properties": [c["property_id"] for c in checks],
                 "kind_free_text": "Lean 4 theorems about hand-written executable models; the models are run by a compiled driver against the real classes (Amaranth simulator / API calls) on generated inputs on every run"}],
    "checks": checks,
    "not_applicable": [{"property_id": k, "reason": v} for k, v in NOT_APPLICABLE.items()],
    "notes": "see DESIGN.md; known_findings.json lists genuine defects (fixed / known)",
}
json.dump(m, open(os.path.join(V, "MANIFEST.json"), "w"), indent=1)
print("checks:", [c["property_id"] for c in checks], "n/a:", list(NOT_APPLICABLE))
