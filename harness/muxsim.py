"""C04/C05: real csr.Multiplexer in the Amaranth simulator vs the Lean model `mux`; direct
oracles for the read-side (C04) and write-side (C05) clauses evaluated on the real trace."""
from . import lib, simutil
from amaranth import Module
from amaranth.lib import wiring
from amaranth.lib.wiring import Out
from amaranth_soc import csr
from amaranth_soc.memory import MemoryMap


class El(wiring.Component):
    def __init__(self, w, acc):
        super().__init__({"element": Out(csr.Element.Signature(w, acc))})

    def elaborate(self, platform):
        return Module()


class EqEl(El):
    """register objects of a value-like class: distinct instances with the same parameters compare and
    hash equal (a memory map and a multiplexer tell registers apart by identity)"""
    def __eq__(self, other):
        return isinstance(other, EqEl) and other.element.width == self.element.width and other.element.access == self.element.access

    def __hash__(self):
        return hash(("EqEl", self.element.width, self.element.access.value))


def gen_case(seed, idx, side, ncycles):
    return {"seed": seed, "idx": idx, "side": side, "ncycles": ncycles}


JOIN_POOL = [("spi", "rx_data"), ("spi_rx", "data"), ("spi", "rx", "data"), ("spi_rx_data",), ("spi__rx", "data"), ("spi", "rx__data")]


def build_layout(rnd, late=None, more=0, more_rnd=None, joinable=False):
    """`late`: if given (a list), a call-back `late[0]()` is invoked once at `late[1]` registers — the
    caller constructs the Multiplexer there, so the remaining registers are added to the (still
    open) map after the multiplexer exists and before it is elaborated"""
    dw = rnd.choice([1, 3, 8, 8, 16, 32])
    aw = rnd.randint(2, 6)
    al = rnd.choice([0, 0, 0, 1, 2])
    mm = MemoryMap(addr_width=aw, data_width=dw, alignment=al)
    mm._verif_placed = placed = {}         # what add_resource() returned (the harness does not rely on listings for it)

    def rname(i):
        # distinct legal names that become the same string when their parts are joined with "_" or "__"
        return JOIN_POOL[i] if joinable and i < len(JOIN_POOL) else f"r{i}"
    regs = []
    for i in range(rnd.randint(1, 6)):
        if late is not None and i == late[1]:
            late[0](mm)
        w = rnd.choice([0, 1, max(dw - 1, 1), dw, dw + 1, 2 * dw, 2 * dw + 3, 3 * dw, 4 * dw + 3])
        r = El(w, rnd.choice(["r", "w", "rw", "rw"]))
        size = (w + dw - 1) // dw
        try:
            if rnd.random() < 0.5:
                placed[id(r)] = mm.add_resource(r, name=rname(i), size=size, addr=rnd.randrange(0, 1 << aw, 1 << al))
            else:
                placed[id(r)] = mm.add_resource(r, name=rname(i), size=size, alignment=rnd.choice([None, None, 0, 1, 2]))
            regs.append(r)
        except ValueError:
            pass
    if more_rnd is not None and more_rnd.random() < 0.15 and len(regs) >= 1:
        # two registers of a value-like class with the same parameters (equal, yet two registers)
        for i in range(2):
            r = EqEl(dw, "rw")
            try:
                placed[id(r)] = mm.add_resource(r, name=f"q{i}", size=1)
                regs.append(r)
            except ValueError:
                break
    if more:
        for i in range(more):                       # a few more one-chunk registers wherever there is room (own stream)
            r = El(more_rnd.choice([1, dw, max(dw - 1, 1)]), more_rnd.choice(["r", "w", "rw"]))
            try:
                placed[id(r)] = mm.add_resource(r, name=f"x{i}", size=1)
                regs.append(r)
            except ValueError:
                break
    ov = rnd.choice([None, None, None, 0, 1, 2, 3])
    return mm, regs, dw, aw, ov


def run_impl(case):
    rnd = lib.rng_for(case["seed"], case["idx"], 404)
    side = case["side"]                      # "r" (C04) or "w" (C05)
    rnd2 = lib.rng_for(case["seed"], case["idx"], 414)
    early = {}
    late = None
    if rnd2.random() < 0.15:
        # the multiplexer does not freeze its map: registers may still be added between its construction
        # and its elaboration, and must be decoded like the others
        probe = lib.random.Random()
        probe.setstate(rnd.getstate())
        ov_pre = build_layout(probe)[4]           # dry run: the sharing limit this case will draw (extra registers do not change it)
        pre_elab = lib.rng_for(case["seed"], case["idx"], 424).random() < 0.5

        def mk_early(mm_):
            mx = early.setdefault("mux", csr.Multiplexer(mm_, shadow_overlaps=ov_pre))
            if pre_elab:
                # … and it may even have been elaborated once already: the registers that follow are then either refused
                # by the next elaboration (descriptively) or served by it
                try:
                    from amaranth.hdl import Fragment
                    Fragment.get(mx, None)
                    early["elaborated_at"] = len(mm_._verif_placed)
                except ValueError:
                    pass
            return mx
        late = [mk_early, rnd2.randint(0, 2)]
    more = rnd2.choice([4, 6, 9, 12]) if rnd2.random() < 0.06 else 0
    joinable = lib.rng_for(case["seed"], case["idx"], 434).random() < 0.2
    mm, regs, dw, aw, ov = build_layout(rnd, late, more, rnd2, joinable=joinable)
    if not regs:
        return {"skip": True}
    # a look at the first entries of the map only (own random stream), BEFORE anything lists it in full
    peeked = lib.peek_map(mm, (case["seed"], case["idx"], 50))
    layout = dict(mm._verif_placed)
    listed = {id(r): (s, e) for r, _, (s, e) in mm.resources()}
    pre_fails = []
    if listed != layout:
        pre_fails.append(("C04" if side == "r" else "C05", f"resources() lists {sorted(listed.values())} but add_resource() placed registers at "
                          f"{sorted(layout.values())}" + (" (after a partly consumed listing)" if peeked else ""), 0))
    regs.sort(key=lambda r: layout[id(r)])
    lines = [f"case {dw} {'-' if ov is None else ov} {'-' if ov is None else ov} {len(regs)}"]
    for r in regs:
        s, e = layout[id(r)]
        lines.append(f"reg {s} {e - s} {r.element.width} {int(r.element.access.readable())} {int(r.element.access.writable())}")
    stats = {"layouts": 1, "cycles": 0, "shared_chunks": 0, "rd_strobes": 0, "wr_strobes": 0,
             "rd_snap_checked": 0, "wr_concat_checked": 0, "multi_chunk_done": 0, "refused_layouts": 0,
             "unaligned": 0, "padded": 0, "unmapped_access": 0, "registers_added_after_construction": int("mux" in early)}
    try:
        lib.peek_map(mm, (case["seed"], case["idx"], 51))
        mux = early.get("mux") or csr.Multiplexer(mm, shadow_overlaps=ov)
        if "elaborated_at" in early and early["elaborated_at"] < len(mm._verif_placed) and lib.rng_for(case["seed"], case["idx"], 444).random() < .5:
            # the first multiplexer (built and elaborated when the map was still incomplete) is dropped; a SECOND one over
            # the same, now complete, map is what gets simulated: it owes nothing to the first
            mux = csr.Multiplexer(mm, shadow_overlaps=ov)
            early.pop("elaborated_at")
            stats["second_multiplexer_over_the_same_map"] = 1
        lib.peek_map(mm, (case["seed"], case["idx"], 52), p=0.15)
        top = simutil.wrap(mux)
        from amaranth.sim import Simulator
        sim = simutil.simulator(top, case)
    except ValueError:
        if "elaborated_at" in early and early["elaborated_at"] < len(mm._verif_placed):
            return {"skip": True}       # registers added after a first elaboration: refused by the next one (descriptively)
        # descriptive refusal of an unbalanceable layout: the model must refuse too
        stats["refused_layouts"] = 1
        return {"lines": lines + ["end"], "obs": ["shadow refused"], "fails": [], "stats": stats,
                "key": "refused:" + "|".join(lines)}
    except RecursionError:
        return {"skip": True}           # C19's finding (unbounded _Shadow.prepare), not this property's
    # sharing statistics (public layout only)
    for r in regs:
        s, e = layout[id(r)]
        n = e - s
        rsz = 1 << (n - 1).bit_length() if n > 1 else 1
        if s % rsz:
            stats["unaligned"] += 1
        if n > max(1, (r.element.width + dw - 1) // dw):
            stats["padded"] += 1
    N = case["ncycles"]
    mode = rnd.choice(["random", "txn", "txn"])
    obs, fails, cyc_lines = [], list(pre_fails), []
    rd = [r for r in regs if r.element.access.readable()]
    wr = [r for r in regs if r.element.access.writable()]

    def sl(v, k):
        return (v >> (k * dw)) & ((1 << dw) - 1)

    async def tb(ctx):
        cur = []
        live = None              # (reg, value) of the live read snapshot
        exp_rdata = None         # expected bus.r_data in this cycle (None = unconstrained)
        zero_ok = False          # did the previous cycle read a chunk of a readable register?
        wtx = {}                 # id(reg) -> list of chunk values written in order so far
        exp_w = {}               # id(reg) -> (strobe expected this cycle, data or None)
        addr = rstb = wstb = 0
        for t in range(N):
            if mode == "random" or not cur:
                if mode == "txn" and rnd.random() < 0.75:
                    r = rnd.choice(regs)
                    s, e = layout[id(r)]
                    k = rnd.choice(["r", "w", "rw"])
                    upto = e - s if rnd.random() < 0.8 else rnd.randint(0, e - s)
                    cur = [(s + j, k) for j in range(upto)]
                addr = rnd.randrange(1 << aw)
                rstb = int(rnd.random() < 0.4)
                wstb = int(rnd.random() < 0.4)
                if mode == "txn":
                    rstb = wstb = 0
                    if rnd.random() < 0.1:           # stray access to a possibly unmapped address
                        rstb, wstb = rnd.choice([(1, 0), (0, 1)])
                        cur = []
            if mode == "txn" and cur and rnd.random() < 0.7:
                addr, k = cur.pop(0)
                rstb, wstb = int("r" in k), int("w" in k)
            elif mode == "txn" and cur:
                rstb = wstb = 0
            wdata = lib.bits(rnd, dw)
            rv = []
            for r in regs:
                v = lib.bits(rnd, r.element.width) if r.element.width else 0
                rv.append(v)
                if r.element.access.readable():
                    ctx.set(r.element.r_data, v)
            ctx.set(mux.bus.addr, addr)
            ctx.set(mux.bus.r_stb, rstb)
            ctx.set(mux.bus.w_stb, wstb)
            ctx.set(mux.bus.w_data, wdata)
            cyc_lines.append(f"cyc {addr} {rstb} {wstb} {wdata} " + " ".join(map(str, rv)))
            # ---- observe
            busr = ctx.get(mux.bus.r_data)
            rst = [(str(ctx.get(r.element.r_stb)) if r.element.access.readable() else "x") for r in regs]
            wo = []
            for r in regs:
                if r.element.access.writable():
                    wo.append(f"1:{ctx.get(r.element.w_data)}" if ctx.get(r.element.w_stb) else "0")
                else:
                    wo.append("x")
            if side == "r":
                obs.append(f"{busr} | {' '.join(rst)}")
            else:
                obs.append(" ".join(wo))
            stats["cycles"] += 1
            # ---- oracles on the real trace
            if side == "r":
                for i, r in enumerate(regs):
                    if r.element.access.readable():
                        want = int(bool(rstb) and addr == layout[id(r)][0])
                        if int(rst[i]) != want:
                            fails.append(("C04", f"cycle {t}: r_stb of register at {layout[id(r)]} is {rst[i]}, expected {want}", t))
                if not zero_ok and busr != 0:
                    fails.append(("C04", f"cycle {t}: bus.r_data={busr} although the previous cycle read no readable register", t))
                if exp_rdata is not None and busr != exp_rdata:
                    fails.append(("C04", f"cycle {t}: bus.r_data={busr}, snapshot slice expected {exp_rdata}", t))
                exp_rdata, zero_ok = None, False
                if rstb:
                    hit = [r for r in rd if layout[id(r)][0] <= addr < layout[id(r)][1]]
                    if hit:
                        zero_ok = True
                        stats["rd_strobes"] += 1
                        r = hit[0]
                        if addr == layout[id(r)][0]:
                            live = (r, rv[next(k_ for k_, q_ in enumerate(regs) if q_ is r)])
                        if live is not None and live[0] is r:
                            exp_rdata = sl(live[1], addr - layout[id(r)][0])
                            stats["rd_snap_checked"] += 1
                            if addr == layout[id(r)][1] - 1 and layout[id(r)][1] - layout[id(r)][0] > 1:
                                stats["multi_chunk_done"] += 1
                    else:
                        stats["unmapped_access"] += 1
                        exp_rdata = 0
                        first = [q for q in rd if layout[id(q)][0] == addr]
                    # a read of another register's first chunk replaces the live snapshot (handled above)
            else:
                for i, r in enumerate(regs):
                    if r.element.access.writable():
                        stb_now = wo[i] != "0"
                        want, data = exp_w.get(id(r), (False, None))
                        if stb_now != want:
                            fails.append(("C05", f"cycle {t}: w_stb of register at {layout[id(r)]} is {int(stb_now)}, expected {int(want)}", t))
                        elif stb_now and data is not None and int(wo[i][2:]) != data:
                            fails.append(("C05", f"cycle {t}: w_data of register at {layout[id(r)]} is {wo[i][2:]}, expected {data}", t))
                exp_w = {}
                if wstb:
                    hitw = [r for r in wr if layout[id(r)][0] <= addr < layout[id(r)][1]]
                    if not hitw:
                        stats["unmapped_access"] += 1
                    for r in wr:
                        s, e = layout[id(r)]
                        buf = wtx.get(id(r))
                        if s <= addr < e:
                            k = addr - s
                            if k == 0:
                                buf = [wdata]
                            elif buf is not None and len(buf) == k:
                                buf = buf + [wdata]
                            else:
                                buf = None
                            if addr == e - 1:
                                stats["wr_strobes"] += 1
                                data = None
                                if buf is not None and len(buf) == e - s:
                                    data = sum(v << (j * dw) for j, v in enumerate(buf)) & ((1 << r.element.width) - 1)
                                    stats["wr_concat_checked"] += 1
                                    if e - s > 1:
                                        stats["multi_chunk_done"] += 1
                                exp_w[id(r)] = (True, data)
                                buf = None
                            wtx[id(r)] = buf
                        else:
                            wtx[id(r)] = None      # a foreign write strobe ends r's transaction prefix
            await ctx.tick()

    sim.add_clock(1e-6)
    sim.add_testbench(tb)
    sim.run()
    lines.extend(cyc_lines)
    lines.append("end")
    obs = ["shadow ok"] + obs
    return {"lines": lines, "obs": obs, "fails": fails, "stats": stats, "mode": mode,
            "key": "|".join(lines[: 1 + len(regs)]) + mode,
            "layout": [lines[0]] + lines[1:1 + len(regs)]}


def mask_r(line):
    if line.startswith("shadow"):
        return "shadow refused" if "refused" in line else "shadow ok"
    p = line.split(" | ")
    return p[0] + " | " + p[1] if len(p) == 3 else line


def mask_w(line):
    if line.startswith("shadow"):
        return "shadow refused" if "refused" in line else "shadow ok"
    p = line.split(" | ")
    return p[2] if len(p) == 3 else line
