"""C15: real WishboneSRAM in amaranth.sim vs the Lean model `sram`; the property's clauses
(ack exactly one cycle after a presented transfer, read-your-writes, masked single write,
read-only immutable) evaluated on the real trace and the real memory contents."""
from . import lib, simutil
from amaranth.sim import Simulator
from amaranth_soc.wishbone.sram import WishboneSRAM


def gen_case(seed, idx, ncycles):
    return {"seed": seed, "idx": idx, "ncycles": ncycles}


def run_impl(case):
    rnd = lib.rng_for(case["seed"], case["idx"], 1515)
    dw = rnd.choice([8, 16, 32, 64])
    gran = rnd.choice([g for g in (8, 16, 32, 64) if g <= dw])
    lanes = dw // gran
    size = rnd.choice([s for s in (2, 4, 8, 16, 64) if s * gran >= dw])
    depth = size * gran // dw
    writable = rnd.random() < 0.75
    init = [lib.bits(rnd, dw) for _ in range(depth)] if rnd.random() < 0.7 else []
    # the image is "an iterable of initial values": a list, a tuple, or a one-shot iterator / generator
    how = lib.rng_for(case["seed"], case["idx"], 1535).choice(["list", "list", "tuple", "iter", "gen", "map", "bytes", "bytearray", "range"])
    if how in ("bytes", "bytearray"):
        init = [v & 0xff for v in init]            # a bytes-like image is an iterable of row values 0..255 like any other
    elif how == "range":
        init = list(range(len(init)))
    given = {"list": lambda: list(init), "tuple": lambda: tuple(init), "iter": lambda: iter(init),
             "gen": lambda: (v for v in init), "map": lambda: map(int, init), "bytes": lambda: bytes(init),
             "bytearray": lambda: bytearray(init), "range": lambda: range(len(init))}[how]()
    dut = WishboneSRAM(size=size, data_width=dw, granularity=gran, writable=writable, init=given)
    if rnd.random() < 0.3:
        # the init image may also be (re)assigned through the `init` property after construction
        init = [lib.bits(rnd, dw) for _ in range(depth)]
        dut.init = init
    rnd2 = lib.rng_for(case["seed"], case["idx"], 1525)        # history variations, own stream
    reassigned = 0
    if rnd2.random() < 0.25:
        # further assignments before elaboration: a shorter image (the rest is zero again), and/or
        # an assignment that is refused (bad element) and must leave the previous image in place
        if rnd2.random() < 0.6:
            init = [lib.bits(rnd2, dw) for _ in range(rnd2.randint(0, depth - 1))]
            dut.init = init
            reassigned += 1
        if rnd2.random() < 0.6:
            bad = [lib.bits(rnd2, dw) for _ in range(depth)]
            bad[rnd2.randrange(depth)] = "x"
            try:
                dut.init = bad
                dut.init = init          # not refused at assignment time (not required by C15): put the good image back
            except (TypeError, ValueError):
                reassigned += 1
    init = list(init) + [0] * (depth - len(init))
    if rnd2.random() < 0.2:
        # `init` is the memory's live image: rows patched in place before elaboration are part of it
        for _ in range(rnd2.randint(1, 3)):
            k = rnd2.randrange(depth)
            init[k] = lib.bits(rnd2, dw)
            dut.init[k] = init[k]
        reassigned += 1
    mem0 = list(init)
    lines = [f"case {depth} {dw} {gran} {int(writable)} " + " ".join(map(str, mem0))]
    sim = simutil.simulator(simutil.wrap(dut), case)
    sim.add_clock(1e-6)
    obs, fails = [], []
    stats = {"cycles": 0, "writes": 0, "reads": 0, "held_through_ack": 0, "partial_sel": 0, "readonly": int(not writable), "init_reassigned": reassigned, "init_given_as_" + how: 1,
             "cyc_or_stb_alone": 0}
    style = rnd.choice(["random", "transfers", "transfers"])
    bus = dut.wb_bus
    aw = len(bus.adr)
    if (1 << aw) != depth:
        fails.append(("C15", f"WishboneSRAM(size={size}, data_width={dw}, granularity={gran}) holds {depth} word(s) but its bus has {aw} address "
                             f"bit(s): " + ("several word addresses reach the same word (a write to one changes what another reads)" if (1 << aw) > depth
                                            else "some words cannot be addressed"), 0))
    final = {}

    async def tb(ctx):
        amem = list(mem0)
        ack_exp = 0
        pend = None            # (we, adr, value expected with the ack)
        hold = 0
        cur = None
        for t in range(case["ncycles"]):
            if style == "random" or cur is None or hold == 0:
                cyc, stb = int(rnd.random() < .7), int(rnd.random() < .7)
                we = rnd.getrandbits(1)
                adr = (lib.bits(rnd, aw) if aw else 0) % depth     # a word of the memory (the port may be wider than needed)
                sel = lib.bits(rnd, lanes) if rnd.random() < .6 else (1 << lanes) - 1
                datw = lib.bits(rnd, dw)
                if style == "transfers":
                    cyc = stb = int(rnd.random() < .8)
                    if rnd.random() < .1:
                        cyc, stb = rnd.choice([(1, 0), (0, 1)])
                    hold = rnd.choice([1, 2, 2, 3])     # 2 = held until the ack, 3 = through the ack cycle
                cur = (cyc, stb, we, adr, sel, datw)
            else:
                cyc, stb, we, adr, sel, datw = cur
                if rnd.random() < .3:                  # change data while held (must not matter after the request cycle)
                    datw = lib.bits(rnd, dw)
                    sel = lib.bits(rnd, lanes)
            hold = max(0, hold - 1)
            ctx.set(bus.cyc, cyc); ctx.set(bus.stb, stb); ctx.set(bus.we, we)
            ctx.set(bus.adr, adr); ctx.set(bus.sel, sel); ctx.set(bus.dat_w, datw)
            lines.append(f"cyc {cyc} {stb} {we} {adr} {sel} {datw}")
            ack = ctx.get(bus.ack)
            datr = ctx.get(bus.dat_r)
            shown = datr if (ack and pend is not None and not pend[0]) else "-"
            obs.append(f"{ack} {shown}")
            stats["cycles"] += 1
            # ---- clauses on the real trace
            if ack != ack_exp:
                fails.append(("C15", f"cycle {t}: ack={ack}, expected {ack_exp} (ack exactly one cycle after a presented transfer)", t))
            if ack and pend is not None and not pend[0] and datr != pend[2]:
                fails.append(("C15", f"cycle {t}: read of word {pend[1]} returned {datr:#x} with the ack, memory holds {pend[2]:#x}", t))
            presented = (not ack) and cyc and stb
            if ack and cyc and stb:
                stats["held_through_ack"] += 1
            if cyc != stb:
                stats["cyc_or_stb_alone"] += 1
            pend = None
            if presented:
                if we:
                    stats["writes"] += 1
                    if sel != (1 << lanes) - 1:
                        stats["partial_sel"] += 1
                    if writable:
                        old = amem[adr]
                        new = 0
                        for i in range(lanes):
                            src = datw if (sel >> i) & 1 else old
                            new |= ((src >> (i * gran)) & ((1 << gran) - 1)) << (i * gran)
                        amem[adr] = new
                    pend = (1, adr, None)
                else:
                    stats["reads"] += 1
                    pend = (0, adr, amem[adr])
            ack_exp = int(presented)
            await ctx.tick()
        final["mem"] = [ctx.get(dut._mem_data[i]) for i in range(depth)] if hasattr(dut, "_mem_data") else None
        final["abs"] = amem

    sim.add_testbench(tb)
    sim.run()
    if final.get("mem") is not None:
        lines.append("mem")
        obs.append("mem " + " ".join(map(str, final["mem"])))
        if final["mem"] != final["abs"]:
            fails.append(("C15", f"final memory contents {final['mem']} differ from the writes performed {final['abs']}", len(obs)))
        if not writable and final["mem"] != mem0:
            fails.append(("C15", "read-only SRAM changed its contents", len(obs)))
    lines.append("end")
    return {"lines": lines, "obs": obs, "fails": fails, "stats": stats, "key": lines[0] + style + str(case["idx"]),
            "descr": f"size={size} dw={dw} gran={gran} writable={writable} style={style}"}


def mask_model_factory():
    """the model prints `ack dat_r` every cycle; dat_r is compared only together with the ack of
    a read transfer (the harness decides that from the inputs; the model line is reduced alike)"""
    state = {"pend_read": False, "ack": 0}

    def mask(line):
        return line
    return mask
