"""C19 (a): `_Shadow.prepare()` — real shadow sizes / refusal vs the Lean model"""
from . import lib
from .muxsim import El
from amaranth_soc import csr
from amaranth_soc.memory import MemoryMap
from .elab import convert, descriptive


def balancing_size(ranges, ov):
    """smallest power-of-two shadow size for which no chunk offset is used by more than ov+1 of the
    registers `ranges` (the documented decoding: low bits from the address, higher bits from the
    register start); None if there is none. Sizes beyond all address bits change nothing."""
    if not ranges:
        return 1
    size = max(1 << max(0, (e - s - 1).bit_length()) for s, e in ranges)
    top = 1 << (max(e for s, e in ranges)).bit_length()
    while size <= 2 * top:
        use = {}
        for s, e in ranges:
            rsz = 1 << max(0, (e - s - 1).bit_length())
            for a in range(s, e):
                off = (s & (size - 1) & ~(rsz - 1)) | (a & (rsz - 1))
                use.setdefault(off, set()).add((s, e))
        if all(len(v) <= ov + 1 for v in use.values()):
            return size
        size *= 2
    return None


def small_layouts(aw=3, maxn=3):
    """every layout of up to `maxn` registers of 1..3 words in 2**aw addresses (ascending, disjoint)"""
    top, out = 1 << aw, []

    def rec(start, cur):
        if cur:
            out.append(tuple(cur))
        if len(cur) == maxn:
            return
        for s_ in range(start, top):
            for n in (1, 2, 3):
                if s_ + n <= top:
                    rec(s_ + n, cur + [(s_, n)])
    rec(0, [])
    return out


_SMALL = small_layouts()
_OVS = [None, 0, 1, 2]
_DIRS = ["rw", "r", "w"]


def exh_count():
    return len(_SMALL) * len(_OVS) * 3


def gen_case(seed, idx, mode=None):
    return {"seed": seed, "idx": idx, "mode": mode}


def run_impl(case):
    rnd = lib.rng_for(case["seed"], case["idx"], 1920)
    mode = case.get("mode")
    regs = []
    if mode == "exh":
        # bounded-exhaustive: EVERY layout of up to three registers in eight addresses x sharing limit x one
        # of three direction patterns (all rw / alternating r,w / first register w, the others r)
        x = case["idx"]
        lay = _SMALL[x % len(_SMALL)]; x //= len(_SMALL)
        ov = _OVS[x % len(_OVS)]; x //= len(_OVS)
        pat = x % 3
        dw, aw = 8, 3
        mm = MemoryMap(addr_width=aw, data_width=dw, alignment=0)
        for k, (s_, n) in enumerate(lay):
            acc = "rw" if pat == 0 else (("r", "w")[k % 2] if pat == 1 else ("w" if k == 0 else "r"))
            r = El(n * dw, acc)
            mm.add_resource(r, name=f"r{k}", size=n, addr=s_)
            regs.append(r)
    elif mode == "big":
        # large address spaces: a few registers far apart (the shadow may have to span all address bits)
        dw, aw = 8, rnd.choice([16, 24, 32, 32])
        mm = MemoryMap(addr_width=aw, data_width=dw, alignment=0)
        for i in range(rnd.randint(2, 4)):
            n = rnd.choice([1, 2, 3, 4])
            r = El(n * dw, rnd.choice(["rw", "rw", "r", "w"]))
            try:
                mm.add_resource(r, name=f"r{i}", size=n, addr=rnd.choice([0, 1, 1 << (aw - 1), (1 << aw) - 4, rnd.randrange(0, 1 << aw)]))
                regs.append(r)
            except ValueError:
                pass
        if not regs:
            return {"skip": True}
        ov = rnd.choice([0, 0, 1, None])
    else:
        dw = rnd.choice([1, 8, 8, 16])
        aw = rnd.randint(2, 6)
        mm = MemoryMap(addr_width=aw, data_width=dw, alignment=0)
        for i in range(rnd.randint(1, 6)):
            n = rnd.choice([1, 1, 2, 2, 3, 4, 5, 6])
            r = El(n * dw - rnd.choice([0, 0, 1]) if n * dw > 1 else 1, rnd.choice(["r", "w", "rw", "rw"]))
            try:
                mm.add_resource(r, name=f"r{i}", size=n, addr=rnd.randrange(0, 1 << aw) if rnd.random() < 0.8 else None)
                regs.append(r)
            except ValueError:
                pass
        if not regs:
            return {"skip": True}
        ov = rnd.choice([None, 0, 0, 1, 1, 2, 3])
    if mode in ("exh", "big"):
        from amaranth.hdl import Fragment
        import resource as _res
        soft, hard = _res.getrlimit(_res.RLIMIT_AS)

        def convert(c, extra=()):            # elaboration only (no RTLIL), under a 6 GiB address-space cap
            _res.setrlimit(_res.RLIMIT_AS, (min(6 << 30, hard) if hard != _res.RLIM_INFINITY else 6 << 30, hard))
            try:
                return Fragment.get(c, None)
            finally:
                _res.setrlimit(_res.RLIMIT_AS, (soft, hard))
    else:
        from .elab import convert
    layout = sorted((s, e, r) for r, _, (s, e) in mm.resources())
    lines = [f"case {dw} {'-' if ov is None else ov} {'-' if ov is None else ov} {len(layout)}"]
    for s, e, r in layout:
        lines.append(f"reg {s} {e - s} {r.element.width} {int(r.element.access.readable())} {int(r.element.access.writable())}")
    lines.append("end")
    fails = []
    stats = {"refused": 0, "grown": 0, "unaligned": sum(1 for s, e, r in layout if e - s > 1 and s % (1 << (e - s - 1).bit_length()))}
    mux = csr.Multiplexer(mm, shadow_overlaps=ov)
    try:
        convert(mux, regs)
        rs, ws = getattr(mux, "_r_shadow", None), getattr(mux, "_w_shadow", None)
        if rs is None or ws is None or not hasattr(rs, "size"):
            return {"skip": True, "stats": {"internals_missing": 1}}
        obs = f"shadow {rs.size} {ws.size}"
        nat = max([1] + [1 << (e - s - 1).bit_length() for s, e, r in layout if e - s > 1])
        if max(rs.size, ws.size) > nat:
            stats["grown"] = 1
    except Exception as e:
        if descriptive(e) and isinstance(e, ValueError):
            obs = "shadow refused"
            stats["refused"] = 1
            # independent of the model: the refusal is only right if, for the read side or the write side, NO
            # power-of-two shadow size keeps every chunk within the sharing limit
            if ov is not None:
                sides = [[(s_, e_) for s_, e_, r_ in layout if r_.element.access.readable()],
                         [(s_, e_) for s_, e_, r_ in layout if r_.element.access.writable()]]
                fit = [balancing_size(side, ov) for side in sides]
                if all(f is not None for f in fit):
                    fails.append(("C19", f"Multiplexer layout {[(s_, e_) for s_, e_, _ in layout]} shadow_overlaps={ov} is refused although "
                                         f"shadow sizes {fit} (read, write) keep every chunk within the limit", 0))
            # the refusal must be repeatable: the same instance, elaborated again, is refused the same way
            try:
                convert(mux, regs)
                fails.append(("C19", f"Multiplexer layout {[(s, e_) for s, e_, _ in layout]} shadow_overlaps={ov}: refused the first time, elaborates the second time", 0))
            except Exception as e2:
                if type(e2) is not type(e) or str(e2) != str(e):
                    fails.append(("C19", f"Multiplexer layout {[(s, e_) for s, e_, _ in layout]} shadow_overlaps={ov}: first elaboration refused with "
                                         f"{type(e).__name__}, the second fails with {type(e2).__name__}: {str(e2)[:80]}", 0))
        else:
            obs = f"internal:{type(e).__name__}"
            fails.append(("C19", f"Multiplexer layout {[(s, e) for s, e, _ in layout]} shadow_overlaps={ov}: "
                                 f"elaboration failed with {type(e).__name__}", 0))
    return {"lines": lines, "obs": [obs], "fails": fails, "stats": stats,
            "match": {"component": "Multiplexer", "signature": obs if obs.startswith("internal") else "shadow-size"}}
