"""C01: generated bus hierarchies (wishbone.Decoder over SRAMs and WishboneCSRBridges over nested
csr.Decoders over csr.Bridge / csr.Multiplexer / csr.EventMonitor / gpio.Peripheral), elaborated
and simulated; every address of the root bus is exercised and what the hardware does is compared
with what the root memory map says (decode_address / all_resources / find_resource)."""
import math
from . import lib, simutil
from amaranth.hdl import Fragment
from .muxsim import El
from amaranth import Module, Signal
from amaranth.sim import Simulator
from amaranth_soc import csr, wishbone, event, gpio
from amaranth_soc.memory import MemoryMap
from amaranth_soc.csr.wishbone import WishboneCSRBridge
from amaranth_soc.wishbone.sram import WishboneSRAM


def gen_case(seed, idx):
    return {"seed": seed, "idx": idx}


class Hier:
    pass


def build(rnd, rnd2=None):
    rnd2 = rnd2 or lib.random.Random(0)
    """returns a Hier with .top (Module), .root (wishbone.Decoder), .regs (list of register-like
    resources with .element), .srams, and a structural description for the Lean model"""
    h = Hier()
    cdw = rnd.choice([8, 8, 16])                    # CSR data width = Wishbone granularity
    ratio = rnd.choice([1, 2, 4])
    wdw = cdw * ratio
    gb = ratio.bit_length() - 1
    m = Module()
    subs = []                                       # description of the root's windows
    keep = []

    def csr_leaf(aw_max, depth):
        """returns (bus, description) of a CSR subtree with address width <= aw_max"""
        kind = rnd.choice(["mux", "mux", "bridge", "monitor", "gpio", "dec"]) if depth > 0 and aw_max >= 3 else rnd.choice(["mux", "bridge", "mux"])
        if kind == "dec":
            aw = rnd.randint(3, aw_max)
            dec = csr.Decoder(addr_width=aw, data_width=cdw, alignment=rnd.choice([0, 0, 1, 2, 3]))
            kids = []
            for i in range(rnd.randint(1, 3)):
                b, d = csr_leaf(aw - 1, depth - 1)
                if rnd2.random() < .1:
                    Fragment.get(dec, None)          # a decoder elaborated before a later add() still decodes everything
                try:
                    if rnd.random() < .45:
                        st = dec.add(b, name=None if rnd.random() < .3 else f"k{i}")[0]
                    else:
                        unit = max(len(b.addr), dec.bus.memory_map.alignment)
                        st = dec.add(b, name=f"k{i}", addr=(rnd.randrange(1 << aw) >> unit) << unit)[0]
                    kids.append((st, d))
                except ValueError:
                    pass
            m.submodules[f"cdec{len(keep)}"] = dec; keep.append(dec)
            return dec.bus, ("dec", dec.bus, kids)
        if kind == "monitor":
            em = event.EventMap()
            n = rnd.choice([1, 3, 9])
            for _ in range(n):
                em.add(event.Source())
            mon = csr.EventMonitor(em, data_width=cdw, alignment=rnd.choice([0, 1]))
            if mon.bus.memory_map.addr_width <= aw_max:
                m.submodules[f"mon{len(keep)}"] = mon; keep.append(mon)
                return mon.bus, ("leaf", mon.bus)
        if kind == "gpio":
            n = rnd.choice([1, 3, 5])
            try:
                g = gpio.Peripheral(pin_count=n, addr_width=rnd.randint(2, aw_max), data_width=cdw, input_stages=0)
                m.submodules[f"gpio{len(keep)}"] = g; keep.append(g)
                return g.bus, ("leaf", g.bus)
            except ValueError:
                pass
        aw = rnd.randint(1, aw_max)
        if kind == "bridge":
            b = csr.Builder(addr_width=aw, data_width=cdw)
            clustered, used_mux = [], False
            for i in range(rnd.randint(1, 3)):
                w = rnd.choice([1, cdw, cdw + 3, 2 * cdw, 3 * cdw])
                try:
                    incl = rnd.random() < .3
                    nm = f"r{i}"
                    # legal names whose `__`-joined form is already taken inside the bridge (own random stream)
                    x = rnd2.random()
                    if x < .12 and not used_mux and not incl:
                        nm, used_mux = "mux", True
                    elif x < .24 and clustered and not incl:
                        nm = f"c__{clustered[-1]}"
                    with b.Cluster("c") if incl else _null():
                        b.add(nm, csr.Register(csr.Field(csr.action.RW, w), access="rw"))
                    if incl:
                        clustered.append(nm)
                except ValueError:
                    pass
            try:
                br = csr.Bridge(b.as_memory_map())
                m.submodules[f"br{len(keep)}"] = br; keep.append(br)
                return br.bus, ("leaf", br.bus)
            except ValueError:
                pass
        mm = MemoryMap(addr_width=aw, data_width=cdw, alignment=rnd.choice([0, 0, 1]))
        early_at = rnd2.randint(0, 1) if rnd2.random() < .15 else None
        mux = None
        for i in range(rnd.randint(1, 4)):
            if i == early_at:
                # the multiplexer does not freeze its map: registers added after its construction are decoded too
                mux = csr.Multiplexer(mm, shadow_overlaps=rnd2.choice([None, None, 2]))
            w = rnd.choice([1, cdw, cdw + 1, 2 * cdw, 3 * cdw])
            if rnd2.random() < .08:
                w = 0                      # a register without data bits (a strobe-only "doorbell") is still a leaf
            e = El(w, rnd.choice(["r", "w", "rw", "rw"]))
            try:
                kw = {"addr": rnd.randrange(0, 1 << aw, 1 << mm.alignment)} if rnd.random() < .4 else {}
                mm.add_resource(e, name=f"e{i}", size=(w + cdw - 1) // cdw, **kw)
                keep.append(e)
            except ValueError:
                pass
        ov = rnd.choice([None, None, 2])
        lib.peek_map(mm, (id(rnd2) & 0, len(keep), aw, cdw, 54), p=0.2)
        if mux is None:
            mux = csr.Multiplexer(mm, shadow_overlaps=ov)
        m.submodules[f"mux{len(keep)}"] = mux; keep.append(mux)
        return mux.bus, ("leaf", mux.bus)

    aw = rnd.randint(4, 8 - gb)                      # root word-address width; granule addresses = aw + gb <= 8..10
    root = wishbone.Decoder(addr_width=aw, data_width=wdw, granularity=cdw, alignment=rnd.choice([0, 0, 1, 3, 4]))
    srams = []
    for i in range(rnd.randint(2, 4)):
        if rnd.random() < .35:
            size = rnd.choice([s for s in (4, 8, 16, 32) if s >= ratio and s <= (1 << (aw + gb - 1))])
            s = WishboneSRAM(size=size, data_width=wdw, granularity=cdw, writable=rnd.random() < .8,
                             init=[lib.bits(rnd, wdw) for _ in range(size * cdw // wdw)])
            sub = s.wb_bus
            m.submodules[f"sram{i}"] = s
            srams.append(s)
            leafdesc = ("sram", s)
        else:
            cbus, d = csr_leaf(min(6, aw + gb - 1), 2)
            if len(cbus.addr) < gb:
                continue
            br = WishboneCSRBridge(cbus, data_width=wdw, name=None if rnd.random() < .4 else f"csr{i}")
            sub = br.wb_bus
            m.submodules[f"wbbr{i}"] = br
            leafdesc = ("bridge", d, br)
        if rnd2.random() < .1:
            Fragment.get(root, None)                 # the root decoder was already elaborated once before this add()
        try:
            if rnd.random() < .45:
                root.add(sub, name=None if rnd.random() < .3 else f"w{i}")
            else:
                unit = max(sub.memory_map.addr_width, root.bus.memory_map.alignment)
                root.add(sub, name=f"w{i}", addr=(rnd.randrange(1 << (aw + gb)) >> unit) << unit)
            subs.append((sub, leafdesc))
        except ValueError:
            pass
    m.submodules.root = root
    d = Signal(name="verif_dummy"); m.d.sync += d.eq(~d)
    h.top, h.root, h.srams, h.cdw, h.ratio, h.gb, h.aw, h.keep, h.subs = m, root, srams, cdw, ratio, gb, aw, keep, subs
    return h


def is_storage(info):
    """registers documented as plain read/write storage: every field a csr.action.RW, or the `enable`
    register of a csr.EventMonitor — what is written to them through the root is what the root reads back,
    until they are written again"""
    r = info.resource
    if not isinstance(r, csr.Register):
        return False
    if type(r).__name__ == "_EventMaskRegister":
        return tuple(info.path[-1]) == ("enable",)
    try:
        fs = [f for _, f in r]
    except Exception:
        return False
    return bool(fs) and all(isinstance(f, csr.action.RW) for f in fs)


class _null:
    def __enter__(self): return None
    def __exit__(self, *a): return False


def run_impl(case):
    rnd = lib.rng_for(case["seed"], case["idx"], 101)
    rnd2 = lib.rng_for(case["seed"], case["idx"], 121)
    h = build(rnd, lib.rng_for(case["seed"], case["idx"], 111))
    root, gb, cdw, ratio = h.root, h.gb, h.cdw, h.ratio
    mmap = root.bus.memory_map
    lib.peek_map(mmap, (case["seed"], case["idx"], 53))        # a look at the first entries only, before anything else
    infos = list(mmap.all_resources())
    naddr = 1 << mmap.addr_width
    owner = [None] * naddr
    for i in infos:
        for a in range(i.start, i.end):
            owner[a] = i
    regs = [i for i in infos if hasattr(i.resource, "element")]
    mems = {id(s._mem): s for s in h.srams}
    # ---- structure for the Lean routing model, read back from the real memory maps
    rid = {id(i.resource): k for k, i in enumerate(infos)}

    def csr_tokens(d):
        if d[0] == "leaf":
            mmp = d[1].memory_map
            items = [(rid[id(r)], s_, e_ - s_) for r, n_, (s_, e_) in mmp.resources()]
            return ["M", str(mmp.addr_width), str(len(items))] + [str(x) for it in items for x in it]
        mmp = d[1].memory_map
        st = {id(w): s_ for w, n_, (s_, e_, r_) in mmp.windows()}
        kids = sorted(((st[id(kd[1].memory_map)], kd) for _, kd in d[2]), key=lambda t: t[0])
        toks = ["D", str(mmp.addr_width), str(len(kids))]
        for s_, kd in kids:
            toks += [str(s_)] + csr_tokens(kd)
        return toks

    wst = {id(w): s_ for w, n_, (s_, e_, r_) in mmap.windows()}
    lines = [f"case {gb} {h.aw}"]
    unlisted = []
    try:
        for sub, ld in sorted(h.subs, key=lambda t: wst[id(t[0].memory_map)]):
            s_ = wst[id(sub.memory_map)]
            if ld[0] == "sram":
                lines.append(f"leaf sram {s_} {rid[id(ld[1]._mem)]} {sub.memory_map.addr_width}")
            else:
                lines.append(f"leaf bridge {s_} " + " ".join(csr_tokens(ld[1])))
    except KeyError:
        # a register or memory that a map of the hierarchy lists locally is missing from the root's all_resources()
        unlisted.append(("C01", "a register or memory listed by a sub-map of the hierarchy (resources()) is missing from "
                                "root.memory_map.all_resources(): software is not told about a leaf the hardware reaches", 0))
        lines = lines[:1]
    lines += ["routeall", "end"]
    obs = ["route " + " ".join("-" if o is None else f"{rid[id(o.resource)]}:{a - o.start}" for a, o in enumerate(owner))]
    sim = simutil.simulator(h.top, case)
    sim.add_clock(1e-6)
    fails = list(unlisted)
    stats = {"addresses": naddr, "assigned": sum(o is not None for o in owner), "registers": len(regs), "srams": len(h.srams),
             "reg_txns": 0, "unassigned_probes": 0, "sram_probes": 0, "acked_unassigned_in_bridge_window": 0, "depth": 0}
    gmask = (1 << cdw) - 1
    bus = root.bus
    # decode_address must agree with all_resources on every address (the map's own coherence, C03)
    for a in range(naddr):
        d = mmap.decode_address(a)
        if (d is None) != (owner[a] is None) or (d is not None and d is not owner[a].resource):
            fails.append(("C01", f"decode_address({a}) disagrees with all_resources()", a))
    bridge_windows = []
    for w, name, (s, e, r) in mmap.windows():
        if not any(w is x.wb_bus.memory_map for x in h.srams):
            bridge_windows.append((s, e))

    async def tb(ctx):
        elems = [(i, i.resource.element) for i in regs]

        async def transfer(a, we, data):
            """one single-granule Wishbone transfer at root granule address a; returns (acked, dat_r granule, strobes seen)"""
            adr, lane = a >> gb, a & ((1 << gb) - 1)
            ctx.set(bus.adr, adr); ctx.set(bus.sel, 1 << lane); ctx.set(bus.we, we)
            ctx.set(bus.dat_w, (data & gmask) << (lane * cdw)); ctx.set(bus.cyc, 1); ctx.set(bus.stb, 1)
            seen = []
            acked, val = False, None
            for _ in range(ratio + 4):
                for i, el in elems:
                    if el.access.readable() and ctx.get(el.r_stb):
                        seen.append(("r", id(i.resource)))
                    if el.access.writable() and ctx.get(el.w_stb):
                        seen.append(("w", id(i.resource), ctx.get(el.w_data)))
                if ctx.get(bus.ack):
                    acked, val = True, (ctx.get(bus.dat_r) >> (lane * cdw)) & gmask
                    break
                await ctx.tick()
            ctx.set(bus.cyc, 0); ctx.set(bus.stb, 0)
            await ctx.tick()
            for i, el in elems:                       # write strobes are registered: one more look
                if el.access.writable() and ctx.get(el.w_stb):
                    seen.append(("w", id(i.resource), ctx.get(el.w_data)))
            await ctx.tick()
            return acked, val, seen

        def mem_snapshot():
            return {id(s): [ctx.get(s._mem_data[k]) for k in range(s._mem_data.depth)] for s in h.srams}

        # ---- registers: one full read and one full write transaction each, through the root
        lastw = {}
        for i in regs:
            el = i.resource.element
            n = i.end - i.start
            val = lib.bits(rnd, el.width) if el.width else 0
            if el.access.readable() and isinstance(i.resource, El):
                ctx.set(el.r_data, val)
            got, strobes = [], []
            for k in range(n):
                acked, v, seen = await transfer(i.start + k, 0, 0)
                got.append(v if acked else None)
                strobes += seen
                if not acked:
                    fails.append(("C01", f"read of root address {i.start + k} (map: {i.path} chunk {k}) was not acknowledged", i.start + k))
            stats["reg_txns"] += 1
            want_strobes = [("r", id(i.resource))] if el.access.readable() else []
            if [s for s in strobes if s[0] == "r"] != want_strobes or [s for s in strobes if s[0] == "w"]:
                fails.append(("C01", f"reading {i.path} at {i.start}..{i.end}: element strobes {[(s[0], s[1] == id(i.resource)) for s in strobes]}, expected exactly one read strobe on that register" if el.access.readable() else f"reading write-only {i.path}: element strobes seen", i.start))
            if el.access.readable() and isinstance(i.resource, El):
                want = [(val >> (k * cdw)) & gmask for k in range(n)]
                if got != want:
                    fails.append(("C01", f"reading {i.path} through the root returned chunks {got}, the register presents {want} (value {val:#x})", i.start))
            if not el.access.readable() and any(g for g in got if g):
                fails.append(("C01", f"reading write-only {i.path} returned non-zero data {got}", i.start))
            # write transaction
            before = mem_snapshot()
            vals = [lib.bits(rnd, cdw) for _ in range(n)]
            strobes = []
            for k in range(n):
                acked, v, seen = await transfer(i.start + k, 1, vals[k])
                strobes += seen
            wst = [s for s in strobes if s[0] == "w"]
            if el.access.writable():
                want = sum(v << (k * cdw) for k, v in enumerate(vals)) & ((1 << el.width) - 1)
                if [(s[1], s[2]) for s in wst] != [(id(i.resource), want)]:
                    fails.append(("C01", f"writing {vals} to {i.path} at {i.start}..{i.end}: write strobes {[(s[1] == id(i.resource), s[2]) for s in wst]}, expected one on that register with data {want:#x}", i.start))
            elif wst:
                fails.append(("C01", f"writing read-only {i.path}: a register was strobed", i.start))
            if [s for s in strobes if s[0] == "r"]:
                fails.append(("C01", f"writing {i.path}: a read strobe was seen", i.start))
            if mem_snapshot() != before:
                fails.append(("C01", f"writing {i.path} changed SRAM contents", i.start))
            # a register made of one plain RW field: what was written through the root is what the root reads back
            if is_storage(i) and el.access.readable() and el.access.writable():
                want = sum(v << (k * cdw) for k, v in enumerate(vals)) & ((1 << el.width) - 1)
                got = []
                for k in range(n):
                    acked, v, seen = await transfer(i.start + k, 0, 0)
                    got.append(v if acked else None)
                stats["readbacks"] = stats.get("readbacks", 0) + 1
                if got != [(want >> (k * cdw)) & gmask for k in range(n)]:
                    fails.append(("C01", f"{i.path} at {i.start}..{i.end}: wrote {want:#x} through the root, read back chunks {got}", i.start))
                lastw[id(i.resource)] = (i, want)
        # ---- whole-word accesses: every lane selected at once (the bridge then walks all granules of the word,
        # assigned or not); what lane k returns is what the map says lives at that granule
        if ratio > 1:
            words = sorted({i.start >> gb for i in regs})[:8]
            for wadr in words:
                for i in regs:
                    el = i.resource.element
                    if el.access.readable() and isinstance(i.resource, El):
                        ctx.set(el.r_data, rnd2.getrandbits(el.width) if el.width else 0)
                vals = {id(i.resource): (ctx.get(i.resource.element.r_data) if (i.resource.element.access.readable() and isinstance(i.resource, El)) else None) for i in regs}
                ctx.set(bus.adr, wadr); ctx.set(bus.sel, (1 << ratio) - 1); ctx.set(bus.we, 0); ctx.set(bus.cyc, 1); ctx.set(bus.stb, 1)
                got = None
                for _ in range(ratio + 4):
                    if ctx.get(bus.ack):
                        got = ctx.get(bus.dat_r)
                        break
                    await ctx.tick()
                ctx.set(bus.cyc, 0); ctx.set(bus.stb, 0)
                await ctx.tick(); await ctx.tick()
                stats["word_reads"] = stats.get("word_reads", 0) + 1
                if got is None:
                    continue
                for lane in range(ratio):
                    a = (wadr << gb) + lane
                    o = owner[a] if a < naddr else None
                    lane_v = (got >> (lane * cdw)) & gmask
                    if o is None:
                        if lane_v and any(s_ <= a < e_ for s_, e_ in bridge_windows):
                            fails.append(("C01", f"word read at root word {wadr}: lane {lane} (unassigned root address {a}) returned {lane_v:#x}", a))
                    elif hasattr(o.resource, "element") and isinstance(o.resource, El) and o.resource.element.access.readable() \
                            and a == o.start and (o.end - o.start) == 1 and vals.get(id(o.resource)) is not None:
                        want = vals[id(o.resource)] & gmask
                        if lane_v != want:
                            fails.append(("C01", f"word read at root word {wadr}: lane {lane} (root address {a}, {o.path}) returned {lane_v:#x}, "
                                                 f"the register presents {want:#x}", a))
        # ---- block cycles: all chunks of a register written in consecutive transfers WITHOUT releasing cyc/stb
        # between them (the next transfer is presented in the cycle after the acknowledge)
        for i in [r for r in regs if r.resource.element.access.writable()][:6]:
            el = i.resource.element
            n = i.end - i.start
            vals = [lib.bits(rnd2, cdw) for _ in range(n)]
            events = []
            ctx.set(bus.we, 1); ctx.set(bus.cyc, 1); ctx.set(bus.stb, 1)
            ok = True
            for k in range(n):
                a = i.start + k
                lane = a & ((1 << gb) - 1)
                ctx.set(bus.adr, a >> gb); ctx.set(bus.sel, 1 << lane); ctx.set(bus.dat_w, (vals[k] & gmask) << (lane * cdw))
                acked = False
                for _ in range(ratio + 4):
                    for j, e2 in elems:
                        if e2.access.writable() and ctx.get(e2.w_stb):
                            events.append((id(j.resource), ctx.get(e2.w_data)))
                    if ctx.get(bus.ack):
                        acked = True
                        await ctx.tick()
                        break
                    await ctx.tick()
                ok = ok and acked
            ctx.set(bus.cyc, 0); ctx.set(bus.stb, 0)
            for _ in range(2):
                for j, e2 in elems:
                    if e2.access.writable() and ctx.get(e2.w_stb):
                        events.append((id(j.resource), ctx.get(e2.w_data)))
                await ctx.tick()
            stats["block_writes"] = stats.get("block_writes", 0) + 1
            want = sum(v << (k * cdw) for k, v in enumerate(vals)) & ((1 << el.width) - 1)
            if ok and id(i.resource) in lastw:
                lastw[id(i.resource)] = (i, want)
            if not ok:
                fails.append(("C01", f"block write of {i.path} at {i.start}..{i.end}: a transfer was not acknowledged", i.start))
            elif events != [(id(i.resource), want)]:
                fails.append(("C01", f"block write (cyc/stb held across {n} transfers) of {vals} to {i.path} at {i.start}..{i.end}: element write strobes "
                                     f"{[(x == id(i.resource), d_) for x, d_ in events]}, expected one on that register with data {want:#x}", i.start))
        # ---- back-to-back: an access to an unassigned address presented in the very cycle after the
        # acknowledge of a CSR or SRAM access (strobe held through the acknowledge, no idle cycle)
        free = [a for a in range(naddr) if owner[a] is None and not any(s_ <= a < e_ for s_, e_ in bridge_windows)]
        assigned = [a for a in range(naddr) if owner[a] is not None]
        for _ in range(min(6, len(free), len(assigned))):
            a1, a2 = rnd.choice(assigned), rnd.choice(free)
            ctx.set(bus.adr, a1 >> gb); ctx.set(bus.sel, 1 << (a1 & ((1 << gb) - 1))); ctx.set(bus.we, 0)
            ctx.set(bus.cyc, 1); ctx.set(bus.stb, 1)
            acked = False
            for _k in range(ratio + 4):
                if ctx.get(bus.ack):
                    acked = True
                    await ctx.tick()
                    break
                await ctx.tick()
            ctx.set(bus.adr, a2 >> gb); ctx.set(bus.sel, 1 << (a2 & ((1 << gb) - 1)))
            stats["back_to_back_probes"] = stats.get("back_to_back_probes", 0) + 1
            for _k in range(ratio + 4):
                if ctx.get(bus.ack):
                    fails.append(("C01", f"unassigned root address {a2}, accessed back-to-back after address {a1}, was acknowledged", a2))
                    break
                await ctx.tick()
            ctx.set(bus.cyc, 0); ctx.set(bus.stb, 0)
            await ctx.tick(); await ctx.tick()
        # ---- every other address: SRAM granules and unassigned addresses
        for a in range(naddr):
            o = owner[a]
            if o is not None and hasattr(o.resource, "element"):
                continue
            before = mem_snapshot()
            v = lib.bits(rnd, cdw) | 1
            acked_w, _, seen_w = await transfer(a, 1, v)
            after = mem_snapshot()
            acked_r, got, seen_r = await transfer(a, 0, 0)
            if o is None:
                stats["unassigned_probes"] += 1
                if seen_w or seen_r:
                    fails.append(("C01", f"unassigned root address {a}: a register element was strobed", a))
                if after != before:
                    fails.append(("C01", f"unassigned root address {a}: a write changed SRAM contents", a))
                inside_bridge = any(s <= a < e for s, e in bridge_windows)
                if acked_w or acked_r:
                    if inside_bridge:
                        stats["acked_unassigned_in_bridge_window"] += 1
                        if got:
                            fails.append(("C01", f"unassigned CSR address (root {a}) reads non-zero {got:#x}", a))
                    else:
                        fails.append(("C01", f"unassigned root address {a} (outside every bridge window) was acknowledged", a))
            else:
                stats["sram_probes"] += 1
                s = mems.get(id(o.resource))
                word, lane = (a - o.start) >> gb, (a - o.start) & ((1 << gb) - 1)
                exp = {k: list(vv) for k, vv in before.items()}
                if s is not None and s.writable:
                    old = exp[id(s)][word]
                    exp[id(s)][word] = (old & ~(gmask << (lane * cdw))) | (v << (lane * cdw))
                if not (acked_w and acked_r):
                    fails.append(("C01", f"SRAM address {a} (map: {o.path}) not acknowledged", a))
                if after != exp:
                    fails.append(("C01", f"write to root address {a} (map: {o.path} granule {a - o.start}): memory changed to {after}, expected only word {word} lane {lane}", a))
                elif s is not None and acked_r and got != (exp[id(s)][word] >> (lane * cdw)) & gmask:
                    fails.append(("C01", f"read of root address {a} returned {got:#x}, memory word {word} lane {lane} holds {(exp[id(s)][word] >> (lane * cdw)) & gmask:#x}", a))
                if seen_w or seen_r:
                    fails.append(("C01", f"SRAM access at root address {a} strobed a register element", a))

        # ---- after everything (writes to every other register, to SRAMs and to unassigned addresses): a
        # register made of one plain RW field still holds what was last written to its own addresses
        for i, want in lastw.values():
            n = i.end - i.start
            got = []
            for k in range(n):
                acked, v, seen = await transfer(i.start + k, 0, 0)
                got.append(v if acked else None)
            stats["final_readbacks"] = stats.get("final_readbacks", 0) + 1
            if got != [(want >> (k * cdw)) & gmask for k in range(n)]:
                fails.append(("C01", f"{i.path} at {i.start}..{i.end}: last write to its own addresses was {want:#x}, but after accesses to "
                                     f"other root addresses it reads back chunks {got}", i.start))

    sim.add_testbench(tb)
    sim.run()
    descr = " ".join(f"{'/'.join(str(tuple(p)) for p in i.path)}@{i.start}-{i.end}" for i in infos)[:600]
    return {"lines": lines, "obs": obs, "fails": fails, "stats": stats, "key": descr + str(case["idx"]),
            "descr": f"root aw={h.aw} wb_dw={cdw * ratio} csr_dw={cdw}: {descr}"}
