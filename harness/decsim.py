"""C06 / C07: real csr.Decoder and wishbone.Decoder (stub subordinates) in amaranth.sim vs the Lean
models `csrdec` / `wbdec`; routing clauses evaluated against the decoder's own memory map."""
import math
from . import lib, simutil
from amaranth.hdl import Value
from amaranth.sim import Simulator
from amaranth.lib import wiring
from amaranth_soc import csr, wishbone
from amaranth_soc.memory import MemoryMap

F = ["err", "rty", "stall", "lock", "cti", "bte"]
CTI = [0, 1, 2, 7]


def gen_case(seed, idx, kind, nvec):
    return {"seed": seed, "idx": idx, "kind": kind, "nvec": nvec}


def run_impl(case):
    return run_csr(case) if case["kind"] == "csr" else run_wb(case)


def fbits(fs):
    return " ".join(str(int(f in fs)) for f in F)


# ---------------------------------------------------------------------------------------------
def _history(rnd2, dec, stats, mk_iface, mmap, top, ghosts=None, mk_map=None, mk_big=None, fails=None, prop="C06", **kw):
    """legal but unusual histories before the next `add`: the decoder has already been elaborated
    (elaboration must leave it as it was), or an `add` of ANOTHER interface object carrying the same
    memory map has just been refused for its address (a refused call must leave nothing behind)"""
    from amaranth.hdl import Fragment
    if rnd2.random() < .12:
        Fragment.get(dec, None)
        stats["elaborated_before_add"] += 1
    if rnd2.random() < .10:
        old = mk_iface()
        old.memory_map = mmap
        try:
            dec.add(old, name="refused", addr=top, **kw)       # outside the address space: refused by the memory map
        except ValueError:
            stats["refused_then_other_interface"] += 1
    if mk_big is not None and fails is not None and rnd2.random() < .12:
        # an add() WITHOUT an address that is refused because the subordinate is as large as the whole address space (it does not
        # fit once anything is there, or collides with itself when tried twice): the next implicit placement is where it was
        big = mk_big()
        mm_ = dec.bus.memory_map
        for attempt in range(2):
            cur0 = mm_.align_to(0)
            n0 = len(list(mm_.windows()))
            try:
                dec.add(big, name=f"big{attempt}", **kw)
                break                                  # it fitted (empty decoder): the second attempt is then refused as a duplicate
            except ValueError:
                stats["refused_implicit_adds"] = stats.get("refused_implicit_adds", 0) + 1
                if mm_.align_to(0) != cur0 or len(list(mm_.windows())) != n0:
                    fails.append((prop, f"an add() without address that was refused moved the decoder's next implicit placement from {cur0} to "
                                        f"{mm_.align_to(0)} (or changed its windows)", 0))
    if ghosts is not None and rnd2.random() < .10:
        # an interface with a memory map of its own whose add() is refused is no subordinate of this
        # decoder: whatever it drives later must not show anywhere
        g = mk_iface()
        g.memory_map = mk_map()
        try:
            dec.add(g, name=f"ghost{len(ghosts)}", addr=top, **kw)
        except ValueError:
            ghosts.append(g)
            stats["refused_interfaces_kept_driving"] = stats.get("refused_interfaces_kept_driving", 0) + 1


def _dup_after(rnd2, dec, stats, mk_iface, mmap, **kw):
    """after an accepted add(): the add() of ANOTHER interface object carrying the same memory map is
    refused ("already a window") and must leave the decoder driving the interface that was accepted"""
    if rnd2.random() < .12:
        dup = mk_iface()
        dup.memory_map = mmap
        try:
            dec.add(dup, name="dup", **kw)
        except ValueError:
            stats["refused_duplicate_after_accept"] = stats.get("refused_duplicate_after_accept", 0) + 1


def run_csr(case):
    rnd = lib.rng_for(case["seed"], case["idx"], 606)
    rnd2 = lib.rng_for(case["seed"], case["idx"], 616)      # history variations, own stream
    us = lib.rng_for(case["seed"], case["idx"], 626)        # usage style, own stream

    def how_given(b):
        # a subordinate may be handed over as the interface object or as its flipped view (a component's `In` port,
        # `flipped(iface)`): add() accepts both, and the decoder drives/reads the same signals either way
        return wiring.flipped(b) if us.random() < .3 else b
    aw = rnd.randint(2, 8)
    dw = rnd.choice([8, 16, 32])
    al = rnd.choice([0, 0, 1, 2, 3])
    dec = csr.Decoder(addr_width=aw, data_width=dw, alignment=al)
    subs, ghosts = [], []
    hist_fails = []
    stats = {"subs": 0, "explicit": 0, "padded": 0, "unassigned_vectors": 0, "vectors": 0, "refused_adds": 0,
             "elaborated_before_add": 0, "refused_then_other_interface": 0}
    if us.random() < .12:
        # the designer gives the decoder's bus a memory map of their own (same geometry) before adding anything
        dec.bus.memory_map = MemoryMap(addr_width=aw, data_width=dw, alignment=al)
        stats["own_map_assigned"] = 1
    if us.random() < .15 and aw >= 3:
        # a reserved hole: a resource added directly to the decoder's map, below the windows that follow
        try:
            dec.bus.memory_map.add_resource(wiring.Component({}), name="reserved_hole", size=1)
            stats["direct_resource"] = 1
        except ValueError:
            pass
    align_pair = us.random() < .2          # align_to(k) once, then the following adds are all implicit
    if align_pair:
        dec.align_to(us.choice([3, 4, 4, 5, 6]))
    extra_subs = rnd2.choice([3, 5, 8]) if rnd2.random() < .06 else 0
    for i in range(rnd.randint(0, 5) + extra_subs):
        saw = rnd.randint(1, aw) if not extra_subs else rnd.randint(1, max(1, aw - 3))
        sb = csr.Interface(addr_width=saw, data_width=dw, path=(f"sub{i}",))
        sb.memory_map = MemoryMap(addr_width=saw, data_width=dw)
        def mk_big_():
            b_ = csr.Interface(addr_width=aw, data_width=dw, path=(f"big{i}",))
            b_.memory_map = MemoryMap(addr_width=aw, data_width=dw)
            return b_
        _history(rnd2, dec, stats, lambda: csr.Interface(addr_width=saw, data_width=dw, path=(f"old{i}",)), sb.memory_map, 1 << aw,
                 ghosts=ghosts, mk_map=lambda: MemoryMap(addr_width=saw, data_width=dw), mk_big=mk_big_, fails=hist_fails, prop="C06")
        try:
            how = rnd.random()
            if align_pair:
                how = min(how, .49)
            if how < .5:
                dec.add(how_given(sb), name=None if rnd.random() < .5 else f"s{i}")
            elif how < .85:
                unit = max(saw, al)
                addr = (rnd.randrange(1 << aw) >> unit) << unit
                dec.add(how_given(sb), name=f"s{i}", addr=addr)
                stats["explicit"] += 1
            else:
                dec.align_to(rnd.randint(0, 4))
                dec.add(how_given(sb), name=f"s{i}")
            subs.append(sb)
            _dup_after(rnd2, dec, stats, lambda: csr.Interface(addr_width=saw, data_width=dw, path=(f"dup{i}",)), sb.memory_map)
        except ValueError:
            stats["refused_adds"] += 1
    wins = {id(w): (s, e) for w, n, (s, e, r) in dec.bus.memory_map.windows()}
    pre_fails = []
    lost = [sb for sb in subs if id(sb.memory_map) not in wins]
    if lost:
        pre_fails.append(("C06", f"{len(lost)} subordinate(s) whose add() was accepted are missing from the windows() of the decoder's memory map "
                                 f"(bus.memory_map lists {len(wins)} windows for {len(subs)} accepted adds)", 0))
        subs = [sb for sb in subs if id(sb.memory_map) in wins]
    subs.sort(key=lambda sb: wins[id(sb.memory_map)][0])
    stats["subs"] = len(subs)
    lines = [f"case {len(subs)}"]
    for sb in subs:
        s, e = wins[id(sb.memory_map)]
        lines.append(f"sub {s} {sb.addr_width}")
        if e - s > (1 << sb.addr_width):
            stats["padded"] += 1
    sim = simutil.simulator(simutil.wrap(dec), case, stats)
    sim.add_clock(1e-6)
    obs, fails = [], list(pre_fails) + list(hist_fails)
    sweep = aw <= 6

    async def tb(ctx):
        for v in range(case["nvec"]):
            addr = (v % (1 << aw)) if sweep else rnd.randrange(1 << aw)
            rstb, wstb = rnd.getrandbits(1), rnd.getrandbits(1)
            wdata = lib.bits(rnd, dw)
            speaker = rnd.randrange(len(subs)) if subs and rnd.random() < .8 else None
            rs = [lib.bits(rnd, dw) if k == speaker else 0 for k in range(len(subs))]
            ctx.set(dec.bus.addr, addr); ctx.set(dec.bus.r_stb, rstb); ctx.set(dec.bus.w_stb, wstb); ctx.set(dec.bus.w_data, wdata)
            for k, sb in enumerate(subs):
                ctx.set(sb.r_data, rs[k])
            for g in ghosts:
                ctx.set(g.r_data, lib.bits(rnd2, dw) | 1)
            lines.append(f"cyc {addr} {rstb} {wstb} {wdata} " + " ".join(map(str, rs)))
            outs = []
            hit = None
            for k, sb in enumerate(subs):
                o = (ctx.get(sb.addr), ctx.get(sb.r_stb), ctx.get(sb.w_stb), ctx.get(sb.w_data))
                outs.append(" ".join(map(str, o)))
                s, _ = wins[id(sb.memory_map)]
                inside = s <= addr < s + (1 << sb.addr_width)
                if inside:
                    hit = k
                    if o != (addr - s, rstb, wstb, wdata):
                        fails.append(("C06", f"vector {v}: address {addr} lies in window {k} at {s}: subordinate sees (addr,r_stb,w_stb,w_data)={o}, expected {(addr - s, rstb, wstb, wdata)}", v))
                elif o[1] or o[2]:
                    fails.append(("C06", f"vector {v}: subordinate {k} (window at {s}, {1 << sb.addr_width} addresses) strobed for address {addr}", v))
            br = ctx.get(dec.bus.r_data)
            if br != (rs[speaker] if speaker is not None else 0):
                fails.append(("C06", f"vector {v}: upstream r_data {br}, subordinates drive {rs}", v))
            obs.append(f"{br} | {' , '.join(outs)}")
            stats["vectors"] += 1
            if hit is None:
                stats["unassigned_vectors"] += 1
            await ctx.tick()

    sim.add_testbench(tb)
    sim.run()
    lines.append("end")
    return {"lines": lines, "obs": obs, "fails": fails, "stats": stats, "key": "|".join(lines[:len(subs) + 1]) + str(case["idx"]),
            "descr": f"csr.Decoder aw={aw} dw={dw} alignment={al} windows={[wins[id(sb.memory_map)] for sb in subs]}"}


# ---------------------------------------------------------------------------------------------
def run_wb(case):
    rnd = lib.rng_for(case["seed"], case["idx"], 707)
    rnd2 = lib.rng_for(case["seed"], case["idx"], 717)      # history variations, own stream
    us = lib.rng_for(case["seed"], case["idx"], 727)        # usage style, own stream

    def how_given(b):
        return wiring.flipped(b) if us.random() < .3 else b
    dw = rnd.choice([8, 16, 32, 64])
    gran = rnd.choice([g for g in (8, 16, 32, 64) if g <= dw])
    gb = int(math.log2(dw // gran))
    aw = rnd.randint(1, 8) if rnd.random() < .95 else 0
    huge = rnd2.random() < .05
    if huge:
        aw = rnd2.choice([40, 54, 60])            # decoders over very large address spaces
    feats = set(f for f in F if rnd.random() < .5)
    al = rnd.choice([0, 0, 1, 2, 3])
    def spelled(fs):
        """the same feature set, spelled with strings or Feature members, as a set, list or tuple"""
        how = rnd2.choice(["str", "str", "enum", "list", "mixed"])
        return {"str": set(fs), "enum": {wishbone.Feature(f) for f in fs}, "list": sorted(fs),
                "mixed": tuple(wishbone.Feature(f) if k % 2 else f for k, f in enumerate(sorted(fs)))}[how]
    dec = wishbone.Decoder(addr_width=aw, data_width=dw, granularity=gran, features=spelled(feats), alignment=al)
    subs, ghosts = [], []
    hist_fails = []
    stats = {"subs": 0, "sparse": 0, "explicit": 0, "vectors": 0, "nobody_selected": 0, "responses": 0, "feature_mismatch": 0,
             "elaborated_before_add": 0, "refused_then_other_interface": 0}
    maw_dec = max(1, aw + gb)
    extra_subs = rnd2.choice([3, 5, 8]) if rnd2.random() < .06 else 0        # more than the usual handful of windows
    if us.random() < .15 and maw_dec >= 3:
        # a reserved hole: a resource added directly to the decoder's map, below the windows that follow
        try:
            dec.bus.memory_map.add_resource(wiring.Component({}), name="reserved_hole", size=1)
            stats["direct_resource"] = 1
        except ValueError:
            pass
    for i in range(rnd.randint(0, 5) + extra_subs):
        sparse = rnd.random() < .3
        small = False
        if sparse:
            sdw = sg = rnd.choice([x for x in (8, 16, 32, 64) if x <= gran])
            saw = rnd.randint(min(gb, max(0, aw)), max(0, aw)) if aw else 0
            small = gb > 0 and rnd2.random() < .12
            if small:
                saw = rnd2.randint(0, gb - 1)      # a sparse window smaller than one bus word: still at most one subordinate per word
        else:
            sdw, sg = dw, gran
            saw = rnd.randint(0, aw)
        sf = set(f for f in F if rnd.random() < .5) - ({"err", "rty", "stall"} - feats)
        sb = wishbone.Interface(addr_width=saw, data_width=sdw, granularity=sg, features=spelled(sf), path=(f"sub{i}",))
        maw = max(1, saw + int(math.log2(sdw // sg)))
        if maw > maw_dec:
            continue
        sb.memory_map = MemoryMap(addr_width=maw, data_width=sg)
        def mk_big_():
            b_ = wishbone.Interface(addr_width=aw, data_width=dw, granularity=gran, features=set(), path=(f"big{i}",))
            b_.memory_map = MemoryMap(addr_width=maw_dec, data_width=gran)
            return b_
        _history(rnd2, dec, stats, lambda: wishbone.Interface(addr_width=saw, data_width=sdw, granularity=sg, features=sf, path=(f"old{i}",)),
                 sb.memory_map, 1 << maw_dec, ghosts=ghosts, mk_map=lambda: MemoryMap(addr_width=maw, data_width=sg),
                 mk_big=(mk_big_ if not sparse else None), fails=hist_fails, prop="C07", sparse=sparse)
        try:
            if rnd.random() < .6:
                dec.add(how_given(sb), sparse=sparse, name=None if rnd.random() < .5 else f"s{i}")
            else:
                unit = max(maw, al)
                dec.add(how_given(sb), sparse=sparse, name=f"s{i}", addr=(rnd.randrange(1 << maw_dec) >> unit) << unit)
                stats["explicit"] += 1
            subs.append((sb, sparse, sf, maw))
            if small and rnd2.random() < .7:
                # … and a second one right behind it, in the same bus word
                sb2 = wishbone.Interface(addr_width=saw, data_width=sdw, granularity=sg, features=spelled(sf), path=(f"sub{i}b",))
                sb2.memory_map = MemoryMap(addr_width=maw, data_width=sg)
                try:
                    dec.add(how_given(sb2), sparse=True, name=f"s{i}b")
                    subs.append((sb2, True, sf, maw))
                    stats["sparse"] += 1
                except ValueError:
                    pass
            _dup_after(rnd2, dec, stats, lambda: wishbone.Interface(addr_width=saw, data_width=sdw, granularity=sg, features=sf, path=(f"dup{i}",)),
                       sb.memory_map, sparse=sparse)
            stats["sparse"] += int(sparse)
            if sf - feats or ({"lock", "cti", "bte"} & feats) - sf:
                stats["feature_mismatch"] += 1
        except ValueError as ex_:
            # refused for its place (no room, a name) is fine; refused for its FEATURES is not: the generator only draws feature
            # sets a decoder can serve (a subordinate may lack or exceed lock/cti/bte; it never has err/rty/stall the decoder lacks)
            if any(w_ in str(ex_).lower() for w_ in ("optional", "feature", "err", "rty", "stall", "lock", "cti", "bte")) and "address" not in str(ex_).lower():
                hist_fails.append(("C07", f"add() of a subordinate with features {sorted(sf)} (decoder: {sorted(feats)}"
                                          f"{', handed over as a flipped view' if False else ''}) is refused: {str(ex_)[:120]}", 0))
    wins = {id(w): (s, e) for w, n, (s, e, r) in dec.bus.memory_map.windows()}
    pre_fails = []
    lost = [t for t in subs if id(t[0].memory_map) not in wins]
    if lost:
        pre_fails.append(("C07", f"{len(lost)} subordinate(s) whose add() was accepted are missing from the windows() of the decoder's memory map "
                                 f"(bus.memory_map lists {len(wins)} windows for {len(subs)} accepted adds)", 0))
        subs = [t for t in subs if id(t[0].memory_map) in wins]
    subs.sort(key=lambda t: wins[id(t[0].memory_map)][0])
    stats["subs"] = len(subs)
    lines = [f"case {aw} {gb} {fbits(feats)} {len(subs)}"]
    for sb, sparse, sf, maw in subs:
        lines.append(f"sub {wins[id(sb.memory_map)][0]} {maw} {len(sb.adr)} {sb.data_width} {len(sb.sel)} {fbits(sf)}")
    sim = simutil.simulator(simutil.wrap(dec), case, stats)
    sim.add_clock(1e-6)
    obs, fails = [], list(pre_fails) + list(hist_fails)
    bus = dec.bus
    selw = dw // gran

    def opt(p, v):
        return str(v) if p else "x"

    def owner(adr):
        """index of the subordinate whose window contains bus word `adr` (map granule addresses)"""
        lo = adr << gb
        for k, (sb, sparse, sf, maw) in enumerate(subs):
            s, _ = wins[id(sb.memory_map)]
            if maw >= gb:
                if s <= lo < s + (1 << maw):
                    return k
            elif lo <= s < lo + (1 << gb):
                return k
        return None

    async def tb(ctx):
        for v in range(case["nvec"]):
            adr = (v % (1 << aw)) if aw <= 6 else rnd.randrange(1 << aw)
            if aw > 12 and subs and rnd.random() < .85:
                # a sweep is impossible: aim at the windows, their edges and just outside them
                sb_, _, _, maw_ = rnd.choice(subs)
                s0 = wins[id(sb_.memory_map)][0] >> gb
                span = max(1, (1 << maw_) >> gb)
                adr = max(0, min((1 << aw) - 1, s0 + rnd.choice([0, 1, span - 1, span, -1, rnd.randrange(span)])))
            cyc, stb, we, lock = int(rnd.random() < .8), rnd.getrandbits(1), rnd.getrandbits(1), rnd.getrandbits(1)
            datw, sel = lib.bits(rnd, dw), lib.bits(rnd, selw)
            cti, bte = rnd.choice(CTI), lib.bits(rnd, 2)
            ctx.set(bus.cyc, cyc); ctx.set(bus.stb, stb); ctx.set(bus.we, we); ctx.set(bus.adr, adr)
            ctx.set(bus.dat_w, datw); ctx.set(bus.sel, sel)
            if "lock" in feats: ctx.set(bus.lock, lock)
            else: lock = 0
            if "cti" in feats: ctx.set(Value.cast(bus.cti), cti)
            else: cti = 0
            if "bte" in feats: ctx.set(Value.cast(bus.bte), bte)
            else: bte = 0
            own = owner(adr)
            resp = []
            for k, (sb, sparse, sf, maw) in enumerate(subs):
                active = (k == own) and cyc          # subordinates respond only while selected
                r = [int(active and rnd.random() < .5), int(active and "err" in sf and rnd.random() < .3),
                     int(active and "rty" in sf and rnd.random() < .3), int(active and "stall" in sf and rnd.random() < .3),
                     lib.bits(rnd, sb.data_width)]
                ctx.set(sb.ack, r[0]); ctx.set(sb.dat_r, r[4])
                if "err" in sf: ctx.set(sb.err, r[1])
                if "rty" in sf: ctx.set(sb.rty, r[2])
                if "stall" in sf: ctx.set(sb.stall, r[3])
                resp.append(r)
                stats["responses"] += r[0]
            for g in ghosts:
                ctx.set(g.ack, 1); ctx.set(g.dat_r, lib.bits(rnd2, g.data_width) | 1)
                for nm in ("err", "rty", "stall"):
                    if hasattr(g, nm):
                        ctx.set(getattr(g, nm), 1)
            lines.append(f"cyc {cyc} {stb} {we} {lock} {adr} {datw} {sel} {cti} {bte} " + " ".join(" ".join(map(str, r)) for r in resp))
            up = (ctx.get(bus.ack), ctx.get(bus.err) if "err" in feats else None, ctx.get(bus.rty) if "rty" in feats else None,
                  ctx.get(bus.stall) if "stall" in feats else None, ctx.get(bus.dat_r))
            ups = f"{up[0]} {opt('err' in feats, up[1])} {opt('rty' in feats, up[2])} {opt('stall' in feats, up[3])} {up[4]}"
            outs = []
            cycs = []
            for k, (sb, sparse, sf, maw) in enumerate(subs):
                o = dict(cyc=ctx.get(sb.cyc), stb=ctx.get(sb.stb), we=ctx.get(sb.we), adr=ctx.get(sb.adr), datw=ctx.get(sb.dat_w), sel=ctx.get(sb.sel),
                         lock=ctx.get(sb.lock) if "lock" in sf else None,
                         cti=simutil.getv(ctx, sb.cti) if "cti" in sf else None, bte=simutil.getv(ctx, sb.bte) if "bte" in sf else None)
                outs.append(f"{o['cyc']} {o['stb']} {o['we']} {opt('lock' in sf, o['lock'])} {o['adr']} {o['datw']} {o['sel']} {opt('cti' in sf, o['cti'])} {opt('bte' in sf, o['bte'])}")
                cycs.append(o["cyc"])
                # ---- clauses on the real signals
                if o["cyc"] != int(k == own and cyc):
                    fails.append(("C07", f"vector {v}: word address {adr}: subordinate {k} sees cyc={o['cyc']}, the window containing the address is {own}", v))
                if k == own:
                    s, _ = wins[id(sb.memory_map)]
                    if (o["stb"], o["we"]) != (stb, we) or o["datw"] != datw & ((1 << sb.data_width) - 1):
                        fails.append(("C07", f"vector {v}: selected subordinate {k} got stb/we/dat_w {(o['stb'], o['we'], o['datw'])}", v))
                    # (a subordinate without address bits owns a 1-bit map: its empty adr is the offset truncated)
                    if not sparse and maw >= gb and o["adr"] != (adr - (s >> gb)) & ((1 << len(sb.adr)) - 1):
                        fails.append(("C07", f"vector {v}: selected subordinate {k} got adr {o['adr']}, offset within its window is {adr - (s >> gb)}", v))
                    if not sparse and o["sel"] != sel:
                        fails.append(("C07", f"vector {v}: selected subordinate {k} got sel {o['sel']:b}, decoder sel {sel:b}", v))
                    want = (lock if "lock" in feats else 0) if "lock" in sf else None, (cti if "cti" in feats else 0) if "cti" in sf else None, (bte if "bte" in feats else 0) if "bte" in sf else None
                    if (o["lock"], o["cti"], o["bte"]) != want:
                        fails.append(("C07", f"vector {v}: selected subordinate {k} got lock/cti/bte {(o['lock'], o['cti'], o['bte'])}, expected {want}", v))
            if own is None or not cyc:
                exp = (0, 0 if "err" in feats else None, 0 if "rty" in feats else None, 0 if "stall" in feats else None, 0 if own is None else None)
                stats["nobody_selected"] += int(own is None)
            else:
                r = resp[own]
                sf = subs[own][2]
                exp = (r[0], (r[1] if "err" in sf else 0) if "err" in feats else None, (r[2] if "rty" in sf else 0) if "rty" in feats else None,
                       (r[3] if "stall" in sf else 0) if "stall" in feats else None, r[4])
            cmp_up = up if exp[4] is not None else up[:4] + (None,)
            if cmp_up != exp:
                fails.append(("C07", f"vector {v}: upstream (ack,err,rty,stall,dat_r)={up}, selected subordinate {own} responds {exp}", v))
            obs.append(f"{ups} | {' , '.join(outs)}")
            stats["vectors"] += 1
            await ctx.tick()

    sim.add_testbench(tb)
    sim.run()
    lines.append("end")
    return {"lines": lines, "obs": obs, "fails": fails, "stats": stats, "key": "|".join(lines[:len(subs) + 1]) + str(case["idx"]),
            "descr": f"wishbone.Decoder aw={aw} dw={dw} gran={gran} features={sorted(feats)} alignment={al} windows={[(wins[id(t[0].memory_map)], 'sparse' if t[1] else 'dense', sorted(t[2])) for t in subs]}"}


# ---------------------------------------------------------------------------------------------
# C06 closing clause: registers spread over a tree of decoders vs the same registers on ONE
# multiplexer at the addresses the memory map reports — simulated side by side
def run_treeflat(case):
    from .muxsim import El
    from amaranth import Module, Signal
    rnd = lib.rng_for(case["seed"], case["idx"], 6606)
    dw = rnd.choice([8, 8, 16])
    aw = rnd.randint(4, 7)
    top = Module()
    keep = []

    rnd2 = lib.rng_for(case["seed"], case["idx"], 6616)

    def mk_mux(aw_max):
        a = rnd.randint(1, aw_max)
        mm = MemoryMap(addr_width=a, data_width=dw, alignment=rnd.choice([0, 0, 1]))
        regs = []
        early = rnd2.randint(0, 1) if rnd2.random() < .2 else None
        emux = None
        for i in range(rnd.randint(1, 3)):
            if i == early:
                emux = csr.Multiplexer(mm, shadow_overlaps=rnd2.choice([None, None, 1, 2]))    # registers may follow
            w = rnd.choice([1, dw, dw + 3, 2 * dw, 3 * dw])
            e = El(w, rnd.choice(["r", "w", "rw", "rw"]))
            try:
                kw = {"addr": rnd.randrange(0, 1 << a, 1 << mm.alignment)} if rnd.random() < .4 else {}
                mm.add_resource(e, name=f"e{len(keep)}_{i}", size=(w + dw - 1) // dw, **kw)
                regs.append(e)
            except ValueError:
                pass
        ov = rnd.choice([None, None, 1, 2])
        mux = emux or csr.Multiplexer(mm, shadow_overlaps=ov)
        top.submodules[f"mux{len(keep)}"] = mux
        keep.append(mux)
        return mux.bus

    def mk_dec(a, depth):
        dal = rnd.choice([0, 0, 1])
        if rnd2.random() < .25:
            dal = min(rnd2.choice([2, 3]), a - 1)       # windows wider than the subordinate behind them: padding addresses
        dec = csr.Decoder(addr_width=a, data_width=dw, alignment=dal)
        for i in range(rnd.randint(2, 3)):
            sub = mk_dec(a - 1, depth - 1) if depth > 0 and a > 3 and rnd.random() < .3 else mk_mux(a - 1)
            try:
                if rnd.random() < .5:
                    dec.add(sub, name=None if rnd.random() < .4 else f"s{len(keep)}_{i}")
                else:
                    unit = max(len(sub.addr), dec.bus.memory_map.alignment)
                    dec.add(sub, name=f"s{len(keep)}_{i}", addr=(rnd.randrange(1 << a) >> unit) << unit)
            except ValueError:
                pass
        top.submodules[f"dec{len(keep)}"] = dec
        keep.append(dec)
        return dec.bus

    tbus = mk_dec(aw, 1)
    infos = list(tbus.memory_map.all_resources())
    if not infos:
        return {"skip": True}
    pre_fails = []
    for a_ in range(1 << aw):
        d_ = tbus.memory_map.decode_address(a_)
        own = [i for i in infos if i.start <= a_ < i.end]
        if (d_ is None) != (not own) or (own and d_ is not own[0].resource):
            pre_fails.append(("C06", f"the decoder's memory map decodes address {a_} to {'nothing' if d_ is None else 'a register'} but its "
                                     f"all_resources() lists {'nothing' if not own else 'a register at %d..%d' % (own[0].start, own[0].end)} there "
                                     f"(padding of a window wider than its subordinate?)", a_))
            break
    # the flat twin
    fmm = MemoryMap(addr_width=aw, data_width=dw)
    twins = []
    for i in infos:
        el = i.resource.element
        t = El(el.width, el.access.value)
        fmm.add_resource(t, name="_".join(str(x) for p in i.path for x in p), addr=i.start, size=i.end - i.start)
        twins.append(t)
    flat = csr.Multiplexer(fmm)
    top.submodules.flat = flat
    d = Signal(name="verif_dummy"); top.d.sync += d.eq(~d)
    sim = simutil.simulator(top, case)
    sim.add_clock(1e-6)
    fails = list(pre_fails)
    stats = {"cycles": 0, "registers": len(infos), "txn_done": 0, "same_low_bits_other_window": 0}

    async def tb(ctx):
        txn = []
        last = None
        for t in range(case["nvec"]):
            if not txn and rnd.random() < .8:
                i = rnd.choice(infos)
                kind = rnd.choice(["r", "w", "rw"])
                upto = i.end - i.start if rnd.random() < .85 else rnd.randint(0, i.end - i.start)
                txn = [(i.start + j, kind) for j in range(upto)]
                if last is not None and rnd.random() < .5:
                    # provoke: same low address bits in another window right after
                    cands = [x for x in infos if x is not last and (x.start & 3) == (last.start & 3)]
                    if cands:
                        j = rnd.choice(cands)
                        txn = [(j.start + q, "r") for q in range(j.end - j.start)]
                        stats["same_low_bits_other_window"] += 1
                last = i
            if txn and rnd.random() < .8:
                addr, kind = txn.pop(0)
                rstb, wstb = int("r" in kind), int("w" in kind)
                if not txn:
                    stats["txn_done"] += 1
            else:
                addr, rstb, wstb = rnd.randrange(1 << aw), 0, 0
            wdata = lib.bits(rnd, dw)
            for bus in (tbus, flat.bus):
                ctx.set(bus.addr, addr); ctx.set(bus.r_stb, rstb); ctx.set(bus.w_stb, wstb); ctx.set(bus.w_data, wdata)
            for i, tw in zip(infos, twins):
                el = i.resource.element
                if el.access.readable():
                    v = lib.bits(rnd, el.width) if el.width else 0
                    ctx.set(el.r_data, v); ctx.set(tw.element.r_data, v)
            a, b = ctx.get(tbus.r_data), ctx.get(flat.bus.r_data)
            if a != b:
                fails.append(("C06", f"cycle {t}: decoder tree returns r_data {a:#x}, the flat multiplexer over the same registers {b:#x}", t))
            for i, tw in zip(infos, twins):
                el, fl = i.resource.element, tw.element
                if el.access.readable() and ctx.get(el.r_stb) != ctx.get(fl.r_stb):
                    fails.append(("C06", f"cycle {t}: r_stb of {i.path} differs between tree and flat multiplexer", t))
                if el.access.writable():
                    sa, sb = ctx.get(el.w_stb), ctx.get(fl.w_stb)
                    if sa != sb or (sa and ctx.get(el.w_data) != ctx.get(fl.w_data)):
                        fails.append(("C06", f"cycle {t}: w_stb/w_data of {i.path} differ between tree and flat multiplexer", t))
            stats["cycles"] += 1
            await ctx.tick()

    sim.add_testbench(tb)
    sim.run()
    return {"lines": [], "obs": [], "fails": fails[:10], "stats": stats, "idx": case["idx"],
            "descr": f"csr tree aw={aw} dw={dw}: " + " ".join(f"{'/'.join(str(tuple(p)) for p in i.path)}@{i.start}-{i.end}" for i in infos)[:300]}


def treeflat_idx(seed, idx, nvec):
    return run_treeflat({"seed": seed, "idx": idx, "nvec": nvec})
