"""C16 — GPIO pins follow their mode table, inputs are delayed exactly, pins independent"""
from .. import lib, runner

PROP = "C16"
THEOREMS = ["Gpio.pin_table", "Gpio.input_delay", "Gpio.output_step", "Gpio.pins_independent", "Gpio.untouched_registers_keep", "Gpio.layout_wf", "Gpio.mux_inside", "Gpio.setclr_codes", "Gpio.mode_written",
            "GpioT.regs_distinct", "GpioT.setclr_codes_behind", "GpioT.mode_written_behind", "GpioT.output_written_behind", "GpioT.untouched_keep_behind",
            "GpioT.input_delay_behind", "GpioT.input_read_atomic_behind", "GpioT.direct_is_closed", "GpioT.direct_meets_spec"]
IMPORTS = ["SocVerif.Props.C16", "SocVerif.Props.C16T"]


def run(rep, tier):
    lib.proof_gate(rep, PROP, THEOREMS, IMPORTS)
    n, cyc = (64, 400) if tier == "quick" else (3000, 700)
    n = rep.scale(n)
    agg = runner.correspondence(rep, prop=PROP, mod_name="harness.gpiosim", legal_only=True, driver_kind="gpio", ncases=n, extra=(cyc,),
                                nontrivial=lambda r: r["stats"]["mode_writes"] >= 2 and r["stats"]["setclr_writes"] >= 2 and r["stats"]["input_reads"] >= 1,
                                sample_fmt=lambda r: {"gpio": r["descr"], "layout": r["obs"][0], "cycles (addr r_stb w_stb w_data pins)": r["lines"][1:5], "observed (r_data | o oe alt_mode)": r["obs"][1:5]})
    rep.coverage.update(agg)
    rep.coverage["rule"] = ("gpio.Peripherals with 1-9 pins (mode bits spanning more than one bus word), data width 8/16/32, minimal..+2 "
                            "address width, input_stages 0-3, in amaranth.sim; register transactions on Mode/Input/Output/SetClr "
                            "(complete and aborted) interleaved with random pin levels every cycle, or uniformly random bus traffic; "
                            "register layout, bus.r_data, every pin's o/oe and alt_mode compared with the Lean model every cycle; for "
                            "conforming traffic the mode table, the exact input delay, the set/clear codes and read-back evaluated "
                            "against an abstract reference; non-trivial = >=2 Mode writes, >=2 SetClr writes and an Input read")
