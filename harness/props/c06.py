"""C06 — CSR decoder routes each access to exactly one subordinate, transparently"""
from .. import lib, runner

PROP = "C06"
THEOREMS = ["Dec.pattern_iff_range", "Dec.selected_iff_window", "Dec.unassigned_iff", "Dec.forward_exact", "Dec.nobody_else", "Dec.r_data_is_selected", "Dec.r_data_zero_when_all_idle"]
IMPORTS = ["SocVerif.Props.C06"]


def run(rep, tier):
    lib.proof_gate(rep, PROP, THEOREMS, IMPORTS)
    n, nv = (120, 160) if tier == "quick" else (8000, 400)
    agg = runner.correspondence(rep, prop=PROP, mod_name="harness.decsim", driver_kind="csrdec", ncases=n, extra=("csr", nv),
                                nontrivial=lambda r: r["stats"]["subs"] >= 2 and r["stats"]["unassigned_vectors"] >= 1,
                                sample_fmt=lambda r: {"decoder": r["descr"], "vectors (addr r_stb w_stb w_data sub r_data…)": r["lines"][r["stats"]["subs"] + 1:][:4], "observed": r["obs"][:4]})
    rep.coverage.update(agg)
    rep.coverage["rule"] = ("csr.Decoders with 0-5 subordinate buses of various sizes, orders and placements (implicit, explicit aligned "
                            "to the window size, align_to, decoder alignment 0-3 incl. padded windows, named/anonymous) in amaranth.sim; "
                            "every address swept (aw <= 6) with random strobes/data and one random subordinate driving read data; every "
                            "subordinate's addr/strobes/w_data and the upstream r_data compared with the Lean model and with the "
                            "decoder's own memory map; non-trivial = >= 2 windows and at least one unassigned address exercised")
