"""C06 — CSR decoder routes each access to exactly one subordinate, transparently"""
from .. import lib, runner

PROP = "C06"
THEOREMS = ["Dec.pattern_iff_range", "Dec.selected_iff_window", "Dec.unassigned_iff", "Dec.forward_exact", "Dec.nobody_else", "Dec.r_data_is_selected", "Dec.r_data_zero_when_all_idle", "CsrT.mux_meets_spec", "CsrT.decoder_meets_spec", "CsrT.decoder_over_muxes", "CsrT.tree_meets_spec", "CsrT.spec_rstb_agree", "CsrT.spec_wstb_agree", "CsrT.spec_rdata_agree", "CsrT.spec_rdata_both_zero", "CsrT.spec_wdata_agree", "CsrT.tree_like_flat_mux", "CsrT.tree_layout_wf", "CsrT.tree_like_flat_mux_closed", "DecBook.addFixed_refused_unchanged", "DecBook.subs_are_accepted", "DecBook.addOrig_refused_clobbers"]
IMPORTS = ["SocVerif.Props.C06", "SocVerif.Props.C06T", "SocVerif.Props.C06E", "SocVerif.Props.C06W", "SocVerif.Props.C06D"]


def run(rep, tier):
    lib.proof_gate(rep, PROP, THEOREMS, IMPORTS)
    n, nv = (120, 160) if tier == "quick" else (8000, 400)
    n = rep.scale(n)
    agg = runner.correspondence(rep, prop=PROP, mod_name="harness.decsim", driver_kind="csrdec", ncases=n, extra=("csr", nv),
                                nontrivial=lambda r: r["stats"]["subs"] >= 2 and r["stats"]["unassigned_vectors"] >= 1,
                                sample_fmt=lambda r: {"decoder": r["descr"], "vectors (addr r_stb w_stb w_data sub r_data…)": r["lines"][r["stats"]["subs"] + 1:][:4], "observed": r["obs"][:4]})
    rep.coverage.update(agg)
    # ---- closing clause, simulated side by side: decoder tree vs one flat multiplexer over all_resources()
    from .. import decsim
    nt, nc = (48, 300) if tier == "quick" else (2000, 500)
    nt = rep.scale(nt)
    res = lib.pmap(decsim.treeflat_idx, [(rep.seed, i, nc) for i in range(nt)])
    errs = [r for r in res if "harness_error" in r]
    if errs:
        raise lib.Infra("harness error: " + errs[0]["harness_error"] + errs[0].get("tb", ""))
    res, n_unusable = lib.unusable_guard(rep, PROP, res, "decoder trees")
    res = [r for r in res if not r.get("skip")]
    shown = 0
    for r in res:
        if r["fails"] and shown < 2:
            shown += 1
            rep.violation({"kind": "spec-violation", "experiment": "tree-vs-flat", "case_index": r["idx"], "hierarchy": r["descr"],
                           "failures": [list(f) for f in r["fails"][:6]],
                           "how_to_replay": f"harness.decsim.treeflat_idx({rep.seed}, {r['idx']}, {nc})"}, True,
                          "C06: " + r["fails"][0][1])
    rep.coverage["tree_vs_flat"] = {"trees": len(res), "cycles": sum(r["stats"]["cycles"] for r in res),
                                    "transactions": sum(r["stats"]["txn_done"] for r in res),
                                    "same_low_bits_other_window": sum(r["stats"]["same_low_bits_other_window"] for r in res)}
    rep.coverage["evaluations"] += len(res)
    rep.coverage["rule"] = ("csr.Decoders with 0-5 subordinate buses of various sizes, orders and placements (implicit, explicit aligned "
                            "to the window size, align_to, decoder alignment 0-3 incl. padded windows, named/anonymous) in amaranth.sim; "
                            "every address swept (aw <= 6) with random strobes/data and one random subordinate driving read data; every "
                            "subordinate's addr/strobes/w_data and the upstream r_data compared with the Lean model and with the "
                            "decoder's own memory map; non-trivial = >= 2 windows and at least one unassigned address exercised. Closing clause: trees of "
                            "real csr.Decoders over real csr.Multiplexers are simulated side by side with ONE flat multiplexer over the same "
                            "registers at all_resources() addresses under identical conforming transaction streams (incl. consecutive reads at "
                            "the same low address bits in different windows); r_data and every register's strobes/w_data compared each cycle")
