"""C02 — memory-map allocation never overlaps, overflows, misaligns or half-applies"""
from .. import lib, runner

PROP = "C02"
THEOREMS = ["MemMap.alignUp_spec", "MemMap.addResource_spec", "MemMap.addWindow_spec", "MemMap.inv_reachable", "MemMap.items_ascending", "MemMap.refusal_atomic", "MemMap.frozen_refuses_resource", "MemMap.frozen_refuses_window", "MemMap.window_freezes_child", "MemMap.frozen_forever", "MemMap.alignTo_spec", "RangeMap.overlaps_exact", "RangeMap.insert_inv"]
IMPORTS = ["SocVerif.Props.C02"]


def nontrivial(r):
    s = r["stats"]
    return s["refused"] >= 1 and s["inserted_not_last"] >= 1


def sample(r):
    return {"ops": [list(map(str, o)) for o in r["case"]["ops"][:12]], "answers": r["obs"][:12]}


def run(rep, tier):
    lib.proof_gate(rep, PROP, THEOREMS, IMPORTS)
    n = 400 if tier == "quick" else 160000
    n = rep.scale(n)
    agg = runner.correspondence(rep, prop=PROP, mod_name="harness.mm", legal_only=True, driver_kind="mmap", ncases=n,
                                extra=("alloc",), nontrivial=nontrivial, oracle_props={"C02"},
                                sample_fmt=sample)
    rep.coverage.update(agg)
    # ---- bounded-exhaustive validation of the model against the code (support for the tie, not a proof):
    # EVERY operation sequence of length k over a small alphabet on an 8-word map
    from .. import mm
    k = 2 if tier == "quick" else 3
    ex = runner.correspondence(rep, prop=PROP, mod_name="harness.mm", legal_only=True, driver_kind="mmap", ncases=mm.exh_count(k),
                               extra=("exh", k), oracle_props={"C02"})
    rep.coverage["bounded_exhaustive"] = {"sequence_length": k, "alphabet": len(mm.exh_alphabet(k)), "cases": ex["evaluations"],
                                          "correspondence_diffs": ex["correspondence_diffs"], "oracle_failures": ex["oracle_failures"],
                                          "distribution": ex["distribution"]}
    rep.coverage["evaluations"] = agg["evaluations"] + ex["evaluations"]
    rep.coverage["traces_validated_against_impl"] = agg["traces_validated_against_impl"] + ex["traces_validated_against_impl"]
    rep.coverage["rule"] = ("generated API histories on real MemoryMap objects (add_resource/add_window/align_to/"
                            "freeze/hand-off, valid and invalid arguments, nested children); after every call the "
                            "answer, resources(), windows() and a cursor probe are compared with the Lean model and "
                            "the property's clauses are evaluated on the real answers; non-trivial = history with "
                            ">=1 refusal and >=1 insertion that is not at the end of the range list; distinct = "
                            "distinct protocol transcripts; plus ALL operation sequences of length 2 (quick) / 3 (thorough) over a "
                            "small alphabet on an 8-word map (bounded_exhaustive)")
    rep.assumptions += ["bool name parts (True == 1) and maps containing themselves are outside the generator"]
