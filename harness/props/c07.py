"""C07 — Wishbone decoder selects one subordinate and relays only its responses"""
from .. import lib, runner

PROP = "C07"
THEOREMS = ["Dec.wb_pattern_iff_window", "Dec.wb_pattern_small_window", "Dec.at_most_one_cyc", "Dec.request_forwarded", "Dec.responses_of_selected", "Dec.nobody_selected_silent", "DecBook.addFixed_refused_unchanged", "DecBook.subs_are_accepted", "DecBook.addOrig_refused_clobbers"]
IMPORTS = ["SocVerif.Props.C07", "SocVerif.Props.C06D"]


def k1_probe(rep):
    """dense window onto a finer-granularity subordinate (outside the property's domain; listed known finding)"""
    import warnings
    from amaranth.sim import Simulator
    from amaranth_soc import wishbone
    from amaranth_soc.memory import MemoryMap
    from .. import simutil
    dec = wishbone.Decoder(addr_width=4, data_width=32, granularity=16)
    sub = wishbone.Interface(addr_width=3, data_width=32, granularity=8)
    sub.memory_map = MemoryMap(addr_width=5, data_width=8, alignment=1)
    res = {}
    try:
        s, e, ratio = dec.add(sub)
        sim = Simulator(simutil.wrap(dec)); sim.add_clock(1e-6)

        async def tb(ctx):
            bad = []
            for adr in range(16):
                ctx.set(dec.bus.adr, adr); ctx.set(dec.bus.cyc, 1)
                inside = s <= (adr << 1) < e
                if ctx.get(sub.cyc) != int(inside) or (inside and ctx.get(sub.adr) != adr - (s >> 1)):
                    bad.append((adr, ctx.get(sub.cyc), ctx.get(sub.adr)))
                await ctx.tick()
            res["bad"] = bad
        sim.add_testbench(tb); sim.run()
    except Exception as ex:
        res["bad"] = [f"{type(ex).__name__}"]
    if res.get("bad"):
        rep.violation({"kind": "spec-violation", "what": "dense window onto a finer-granularity subordinate: wrong select / address",
                       "probe": {"decoder": "aw=4 dw=32 gran=16", "subordinate": "aw=3 dw=32 gran=8", "mismatches (adr, cyc, sub.adr)": res["bad"][:6]},
                       "match": {"probe": "K1-dense-window-finer-granularity"}}, True,
                      "C07: dense window onto a finer-granularity subordinate mis-decodes")


def run(rep, tier):
    lib.proof_gate(rep, PROP, THEOREMS, IMPORTS)
    n, nv = (120, 160) if tier == "quick" else (8000, 400)
    n = rep.scale(n)
    agg = runner.correspondence(rep, prop=PROP, mod_name="harness.decsim", driver_kind="wbdec", ncases=n, extra=("wb", nv),
                                nontrivial=lambda r: r["stats"]["subs"] >= 2 and r["stats"]["responses"] >= 5,
                                sample_fmt=lambda r: {"decoder": r["descr"], "vectors": [l[:140] for l in r["lines"][r["stats"]["subs"] + 1:][:3]], "observed": [o[:160] for o in r["obs"][:3]]})
    rep.coverage.update(agg)
    k1_probe(rep)
    rep.coverage["rule"] = ("wishbone.Decoders over the geometry grid (aw 0-8, dw 8-64, granularity <= dw), random feature subsets on "
                            "decoder and subordinates (within add()'s rules), 0-5 windows: dense between equal granularities, sparse, "
                            "implicit / explicit aligned / decoder alignment; all word addresses swept (aw <= 6) with random requests; the "
                            "subordinate owning the address (by the memory map) responds randomly, the others keep response lines low "
                            "with random dat_r; every subordinate's request signals and the upstream responses compared with the Lean "
                            "model and with the memory map; non-trivial = >= 2 windows and >= 5 acknowledged vectors. One fixed probe of "
                            "the known finding K1 (dense window onto finer granularity), outside the generator")
