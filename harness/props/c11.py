"""C11 — register fields are packed LSB-first, contiguously, and strobed by access mode"""
from .. import lib, runner, regsim

PROP = "C11"
THEOREMS = ["RegPack.width_is_sum", "RegPack.access_guard", "RegPack.fields_contiguous", "RegPack.flatten_dict_order", "RegPack.flatten_list_order", "RegPack.read_value", "RegPack.read_value_bounded", "RegPack.write_slice", "RegPack.strobes_by_access", "RegBridge.field_write_through_bus", "RegBridge.bus_read_returns_packed_fields", "RegBridge.packed_field", "RegBridge.field_read_strobe", "RegBridge.nonwritable_field_inert", "RegBridge.packed_eq"]
IMPORTS = ["SocVerif.Props.C11", "SocVerif.Props.C11B"]


def run(rep, tier):
    lib.proof_gate(rep, PROP, THEOREMS, IMPORTS)
    n, cyc = (240, 40) if tier == "quick" else (80000, 60)
    n = rep.scale(n)
    agg = runner.correspondence(rep, prop=PROP, mod_name="harness.regsim", driver_kind="reg", ncases=n, extra=(cyc,),
                                nontrivial=lambda r: r["stats"]["nested"] and r["stats"]["fields"] >= 3,
                                sample_fmt=lambda r: {"register": r["lines"][0], "layout": r["obs"][0], "cycles": r["lines"][1:4], "observed": r["obs"][1:4]},
                                mask_model=regsim.mask_model)
    rep.coverage.update(agg)
    rep.coverage["rule"] = ("random nestings of field dicts/lists (depth <= 3; single field; dict-given and annotation-defined "
                            "registers) of probe fields with unsigned/signed/enum/zero-width shapes and every access mode, register "
                            "access r/w/rw (incompatible combinations included: refusal compared); in amaranth.sim random element "
                            "strobes/data and field read values every cycle; flatten order, paths, widths, element.r_data and every "
                            "field's strobes and write slice compared with the Lean model and with the packing clauses; "
                            "non-trivial = nested collection with >= 3 fields")
