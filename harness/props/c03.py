"""C03 — resource lookup through windows is coherent in every direction"""
from .. import lib, runner

PROP = "C03"
THEOREMS = ["MemMap.translate_arith", "MemMap.all_within", "MemMap.all_sorted", "MemMap.decode_iff_reported", "MemMap.decode_none_iff", "MemMap.decodeFuel_eq", "MemMap.all_ids", "MemMap.find_eq_all", "RangeMap.get_exact", "MemMap.ok_of_struct", "MemMap.reachable_struct", "MemMap.reachable_ok", "MemMap.allOk_of_ratioOne"]
IMPORTS = ["SocVerif.Props.C03", "SocVerif.Props.C03R"]


def nontrivial(r):
    s = r["stats"]
    return s["depth2"] >= 1 and s["win_not_at_0"] >= 1


def sample(r):
    return {"structure_and_queries": r["lines"][:14], "answers": [x[:160] for x in r["obs"][:3]]}


def run(rep, tier):
    lib.proof_gate(rep, PROP, THEOREMS, IMPORTS)
    n = 400 if tier == "quick" else 120000
    n = rep.scale(n)
    agg = runner.correspondence(rep, prop=PROP, mod_name="harness.mm", legal_only=True, driver_kind="tree", ncases=n,
                                extra=("tree",), nontrivial=nontrivial, oracle_props={"C03"},
                                sample_fmt=sample)
    rep.coverage.update(agg)
    rep.coverage["rule"] = ("random trees of real MemoryMaps (depth<=4, named/anonymous, sparse, ratio-1 and dense 2/4/8 "
                            "windows); the local structure reported by resources()/windows() is sent to the Lean model, "
                            "whose all_resources/decode_address/find_resource traversals are compared with the real ones: "
                            "every root address decoded, every resource and three never-added objects looked up; the "
                            "property's clauses (decode ⇔ reported range, ascending, disjoint, find = all) are evaluated "
                            "on the real answers; non-trivial = tree of depth>=2 with a window not at address 0")
    rep.assumptions += ["maps containing themselves (not a tree) are outside the generator"]
