"""C08 — Wishbone arbiter: one owner at a time, isolated, never pre-empted mid-cycle"""
from .. import lib, runner, arbsim

PROP = "C08"
THEOREMS = ["ArbF.grant_lt", "ArbF.shared_bus_is_owner", "ArbF.responses_isolated", "ArbF.no_preemption", "ArbF.arbiter_preserves_handshake"]
IMPORTS = ["SocVerif.Props.C08"]
ORACLE = {"C08"}
RULE = ("arbiters with 1-6 initiators, every feature subset on arbiter and initiators (respecting add()'s rules), granularities, in "
        "amaranth.sim; schedules: random, two initiators alternating to starve a third, lock held without strobe, owners idling with cyc "
        "high; target responses random every cycle; every shared-bus signal and every initiator response compared with the Lean model "
        "each cycle (the owner is identified by an address tag), and the property's clauses evaluated on the real trace")


def run(rep, tier, prop=PROP, oracle=ORACLE, nontriv=lambda r: r["stats"]["busy_with_waiter"] >= 3 and r["stats"]["handovers"] >= 3):
    lib.proof_gate(rep, prop, THEOREMS, IMPORTS)
    n, cyc = (96, 300) if tier == "quick" else (5000, 500)
    n = rep.scale(n)
    agg = runner.correspondence(rep, prop=prop, mod_name="harness.arbsim", legal_only=True, driver_kind="arbiter", ncases=n, extra=(cyc, prop),
                                nontrivial=nontriv, oracle_props=oracle, mask_model=arbsim.mask_c08 if prop == "C08" else arbsim.mask_c09,
                                sample_fmt=lambda r: {"arbiter": r["descr"], "cycles": [l[:120] for l in r["lines"][r["stats"]["n"] + 1:][:3]], "observed": [o[:160] for o in r["obs"][:3]]})
    rep.coverage.update(agg)
    rep.coverage["rule"] = RULE + "; non-trivial = run with >=3 hand-overs and >=3 cycles in which the owner holds the bus while another initiator requests"
