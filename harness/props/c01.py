"""C01 — the memory map tells the truth about the hardware, end to end"""
import collections
from .. import lib, e2e, runner

PROP = "C01"
THEOREMS = ["E2E.csr_route_eq_locate", "E2E.csr_items_ok", "E2E.route_eq_locate", "E2E.root_map_ok", "E2E.route_agrees_with_decode", "E2E.unassigned_reaches_nothing", "CsrT.tree_meets_spec", "Bridge.wb_read_through_tree", "Bridge.wb_write_is_atomic", "E2ED.root_read_through_bridge", "E2ED.root_write_through_bridge", "E2ED.root_unassigned_bridge_silent", "E2ED.root_sram_read", "E2ED.root_sram_write", "E2ED.root_unassigned_sram_untouched", "E2ED.route_via_selected", "E2ED.concat_slice",
            "E2ES.bridge_at", "E2ES.sram_at", "E2ES.respond_only_when_selected", "E2ES.others_quiet", "E2ES.held_while_unacknowledged",
            "E2ES.ack_only_from_selected", "E2ES.closed_unassigned_silent", "E2ES.closed_root_sram_read", "E2ES.closed_root_sram_write",
            "E2ES.closed_root_read_through_bridge", "E2ES.closed_root_write_through_bridge"]
IMPORTS = ["SocVerif.Props.C01", "SocVerif.Props.C10E", "SocVerif.Props.C01D", "SocVerif.Props.C01S"]


def _one(seed, idx):
    return e2e.run_impl(e2e.gen_case(seed, idx))


def run(rep, tier):
    if THEOREMS:
        lib.proof_gate(rep, PROP, THEOREMS, IMPORTS)
    n = 96 if tier == "quick" else 6000
    n = rep.scale(n)
    res = lib.pmap(_one, [(rep.seed, i) for i in range(n)])
    errs = [r for r in res if "harness_error" in r]
    if errs:
        raise lib.Infra("harness error: " + errs[0]["harness_error"] + errs[0].get("tb", ""))
    res, n_unusable = lib.unusable_guard(rep, PROP, res, "generated hierarchies")
    # ---- correspondence of the Lean routing model (hardware address path) with the real root memory map
    lines = [l for r in res for l in r["lines"]]
    outs = lib.split_cases(lib.run_driver("e2e", lines))
    diffs = 0
    for r, model in zip(res, outs):
        r["idx"] = res.index(r)
        if model != r["obs"]:
            diffs += 1
            a = next((k for k, (x, y) in enumerate(zip(model[0].split()[1:], r["obs"][0].split()[1:])) if x != y), None)
            if not r["fails"]:
                rep.violation({"kind": "correspondence", "model": "e2e", "hierarchy": r["descr"], "protocol_lines": r["lines"],
                               "first_diff": {"root_address": a, "model": model[0].split()[1:][a] if a is not None else None,
                                              "real_map": r["obs"][0].split()[1:][a] if a is not None else None}}, False,
                              f"C01: Lean routing model and the real root memory map disagree at root address {a}; the end-to-end "
                              f"experiments found no failing access in this hierarchy")
    tot = collections.Counter()
    reported = 0
    for r in res:
        for k, v in r["stats"].items():
            tot[k] += v
        if r["fails"] and reported < 3:
            reported += 1
            f = r["fails"][0]
            rep.violation({"kind": "spec-violation", "case_index": r.get("idx"), "hierarchy": r["descr"],
                           "failures": [list(x) for x in r["fails"][:8]],
                           "how_to_replay": f"harness.e2e.run_impl({{'seed': {rep.seed}, 'idx': <i>}})"}, True,
                          f"C01: hardware and root memory map disagree: {f[1]}")
    if tot["acked_unassigned_in_bridge_window"]:
        rep.violation({"kind": "spec-violation", "what": "Wishbone accesses to addresses that the root memory map leaves unassigned but that lie "
                       "inside the window of a WishboneCSRBridge are acknowledged (the bridge acknowledges every transfer); they cause no "
                       "strobe and read zero", "count": tot["acked_unassigned_in_bridge_window"],
                       "match": {"finding": "ack-of-unassigned-address-inside-bridge-window"}}, True,
                      "C01: unassigned address inside a bridge window is acknowledged")
    # ---- the closed root of Props/C01S.lean (decoder + bridges + SRAMs), cycle by cycle against the real hierarchy
    dyn = runner.correspondence(rep, prop=PROP, mod_name="harness.e2edyn", driver_kind="root",
                                ncases=rep.scale(48) if tier == "quick" else 3000,
                                nontrivial=lambda r: r["stats"]["acks"] >= 5 and r["stats"]["csr_strobes"] + r["stats"]["srams"] >= 1,
                                sample_fmt=lambda r: {"hierarchy": r["descr"], "first_cycles": r["lines"][:8], "observed": r["obs"][:6]})
    rep.coverage["closed_root_cosimulation"] = {k: dyn[k] for k in ("evaluations", "distinct_nontrivial", "correspondence_diffs",
                                                                       "oracle_failures", "distribution") if k in dyn}
    rep.coverage.update({
        "evaluations": tot["addresses"], "distinct_nontrivial": tot["reg_txns"] + tot["sram_probes"],
        "hierarchies": n, "distribution": dict(tot), "traces_validated_against_impl": n - diffs, "correspondence_diffs": diffs,
        "samples": [{"hierarchy": r["descr"][:400], "stats": r["stats"]} for r in res[:3]],
        "rule": ("generated hierarchies (wishbone.Decoder over WishboneSRAMs and WishboneCSRBridges over nested csr.Decoders over "
                 "csr.Multiplexer / csr.Bridge / csr.EventMonitor / gpio.Peripheral; ratios 1/2/4, alignments, implicit and "
                 "window-aligned explicit placement, named and anonymous windows) elaborated and simulated; EVERY granule address of "
                 "the root bus is exercised through single-granule Wishbone transfers: each register gets one full read and one full "
                 "write transaction (strobes on exactly that register, chunk data at exactly the reported offsets), each SRAM granule a "
                 "write+read (only that word/lane changes), each unassigned address a write+read (no strobe, no memory change, no ack "
                 "outside bridge windows, zero data); oracle = the root memory map itself (decode_address / all_resources). "
                 "evaluations = root addresses exercised; non-trivial = register transactions + SRAM granule probes. "
                 "closed_root_cosimulation: the closed system of Props/C01S.lean (driver `root`: decoder model over bridge and SRAM "
                 "models) stepped on the same root request stream as the real hierarchy — root ack and read data, every bridge's CSR "
                 "address/strobes/write data each cycle, final SRAM contents"),
    })
