"""C01 — the memory map tells the truth about the hardware, end to end"""
import collections
from .. import lib, e2e

PROP = "C01"
THEOREMS = []
IMPORTS = ["SocVerif.Props.C06", "SocVerif.Props.C07"]


def _one(seed, idx):
    return e2e.run_impl(e2e.gen_case(seed, idx))


def run(rep, tier):
    if THEOREMS:
        lib.proof_gate(rep, PROP, THEOREMS, IMPORTS)
    n = 96 if tier == "quick" else 1500
    res = lib.pmap(_one, [(rep.seed, i) for i in range(n)])
    errs = [r for r in res if "harness_error" in r]
    if errs:
        raise lib.Infra("harness error: " + errs[0]["harness_error"] + errs[0].get("tb", ""))
    tot = collections.Counter()
    reported = 0
    for r in res:
        for k, v in r["stats"].items():
            tot[k] += v
        if r["fails"] and reported < 3:
            reported += 1
            f = r["fails"][0]
            rep.violation({"kind": "spec-violation", "case_index": r.get("idx"), "hierarchy": r["descr"],
                           "failures": [list(x) for x in r["fails"][:8]],
                           "how_to_replay": f"harness.e2e.run_impl({{'seed': {rep.seed}, 'idx': <i>}})"}, True,
                          f"C01: hardware and root memory map disagree: {f[1]}")
    if tot["acked_unassigned_in_bridge_window"]:
        rep.violation({"kind": "spec-violation", "what": "Wishbone accesses to addresses that the root memory map leaves unassigned but that lie "
                       "inside the window of a WishboneCSRBridge are acknowledged (the bridge acknowledges every transfer); they cause no "
                       "strobe and read zero", "count": tot["acked_unassigned_in_bridge_window"],
                       "match": {"finding": "ack-of-unassigned-address-inside-bridge-window"}}, True,
                      "C01: unassigned address inside a bridge window is acknowledged")
    rep.coverage.update({
        "evaluations": tot["addresses"], "distinct_nontrivial": tot["reg_txns"] + tot["sram_probes"],
        "hierarchies": n, "distribution": dict(tot),
        "samples": [{"hierarchy": r["descr"][:400], "stats": r["stats"]} for r in res[:3]],
        "rule": ("generated hierarchies (wishbone.Decoder over WishboneSRAMs and WishboneCSRBridges over nested csr.Decoders over "
                 "csr.Multiplexer / csr.Bridge / csr.EventMonitor / gpio.Peripheral; ratios 1/2/4, alignments, implicit and "
                 "window-aligned explicit placement, named and anonymous windows) elaborated and simulated; EVERY granule address of "
                 "the root bus is exercised through single-granule Wishbone transfers: each register gets one full read and one full "
                 "write transaction (strobes on exactly that register, chunk data at exactly the reported offsets), each SRAM granule a "
                 "write+read (only that word/lane changes), each unassigned address a write+read (no strobe, no memory change, no ack "
                 "outside bridge windows, zero data); oracle = the root memory map itself (decode_address / all_resources). "
                 "evaluations = root addresses exercised; non-trivial = register transactions + SRAM granule probes"),
    })
