"""C20 — ports have the direction their role implies; signatures round-trip"""
from .. import lib, facts, sigrt

PROP = "C20"
THEOREMS = ["Sig.flip_involutive", "Sig.connect_initiator_target", "Sig.connect_same_orientation_fails", "Sig.double_flip_breaks_connect",
            "Sig.csr_members_injective", "Sig.elem_members_injective", "Sig.wb_members_injective", "Sig.wb_optional_presence",
            "Facts.csr_members_match", "Facts.elem_members_match", "Facts.field_members_match", "Facts.wb_members_match",
            "Facts.src_members_match", "Facts.pin_members_match", "FactsPorts.ports_oriented", "FactsPorts.ports_connect"]
IMPORTS = ["SocVerif.Props.C20", "SocVerif.Generated.FactsSig", "SocVerif.Generated.FactsPorts"]


def run(rep, tier):
    info = facts.generate()
    broken = lib.proof_gate(rep, PROP, THEOREMS, IMPORTS)
    n = 6 if tier == "quick" else 400
    conn = sigrt.connect_cases(rep.seed, n)
    fails, stats = sigrt.signature_checks()
    for descr, err in sigrt.default_granularity_cases():
        fails.append(("C20", f"{descr} (granularity left out): {err}", "default-granularity:" + descr.split("(")[0]))
    pfails, pn = sigrt.param_signature_cases()
    for descr, err in pfails:
        fails.append(("C20", f"{descr}: {err}", "param-signature:" + descr.split("(")[0]))
    stats["param_signature_cases"] = pn
    seen = set()
    found = False
    for descr, port, role, err in conn:
        if err is None:
            continue
        cls = descr.split("(")[0]
        if cls in seen:
            continue
        seen.add(cls)
        found = True
        rep.violation({"kind": "spec-violation", "component": descr, "port": port, "role": role, "error": err,
                       "match": {"component": cls, "experiment": "connect"},
                       "broken_obligations": broken}, True,
                      f"C20: wiring.connect() of the complementary standard interface to {descr}.{port} fails: {err}")
    for f in fails:
        if f[2] in seen:
            continue
        seen.add(f[2])
        found = True
        rep.violation({"kind": "spec-violation", "what": f[1], "match": {"experiment": f[2]}, "broken_obligations": broken}, True, "C20: " + f[1])
    if broken and not found:
        rep.violation({"kind": "proof-obligation", "broken": broken, "generated": info,
                       "note": "the facts extracted from the source no longer satisfy the theorems of SocVerif/Generated/*.lean"},
                      False, "C20: generated-facts theorem no longer checks: " + "; ".join(broken[0].get("errors", [])[:2]))
    rep.coverage.update({
        "evaluations": len(conn) + stats["signatures"] + stats["pairs"] + pn,
        "distinct_nontrivial": sum(1 for c in conn if c[3] is None) + stats["roundtrips"],
        "generated_facts": info, "connect_experiments": len(conn), "signature_grid": stats,
        "samples": [{"component": c[0], "port": c[1], "role": c[2], "connect": "ok" if c[3] is None else c[3]} for c in conn[:8]],
        "rule": ("(a) facts.py re-extracts from the working tree the members of every signature class over a parameter grid (wishbone: all 64 "
                 "feature subsets x 6 geometries) and the flattened members of every bus-facing port of 30 instantiated components; the "
                 "kernel re-checks them against the Lean member functions and the role table (decide); (b) runtime: wiring.connect() of "
                 "a freshly created complementary standard interface to every bus-facing port of generated components, and of an interface "
                 "created from the standard signature with the component's own constructor parameters on a fixed grid (one-row SRAMs, "
                 "one-word bridges, zero address bits included); create() "
                 "round trip, == on all pairs of the grid vs parameter equality, member presence/widths; non-trivial = successful connect "
                 "or round trip"),
    })
    rep.assumptions += ["that Amaranth's real wiring.connect() implements the modelled member-wise rule is checked by running it, not proved"]
