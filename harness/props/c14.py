"""C14 — CSR event monitor: enable reads back, pending is read / write-one-to-clear"""
from .. import lib, runner

PROP = "C14"
THEOREMS = ["CsrMon.mux_inside", "CsrMon.layout_fits", "CsrMon.irq_line", "CsrMon.no_clear_without_write", "CsrMon.pending_w1c", "CsrMon.enable_latched", "CsrMon.enable_kept", "CsrMon.mask_read_atomic",
            "CsrMonT.pending_strobe_exact", "CsrMonT.no_clear_without_write_behind", "CsrMonT.pending_w1c_behind", "CsrMonT.enable_latched_behind",
            "CsrMonT.enable_kept_behind", "CsrMonT.mask_read_atomic_behind", "CsrMonT.irq_line_behind", "CsrMonT.direct_is_closed",
            "CsrMonT.direct_meets_spec", "CsrMonT.pending_w1c_behind_tree"]
IMPORTS = ["SocVerif.Props.C14", "SocVerif.Props.C14T"]


def run(rep, tier):
    lib.proof_gate(rep, PROP, THEOREMS, IMPORTS)
    n, cyc = (90, 400) if tier == "quick" else (4000, 700)
    n = rep.scale(n)
    agg = runner.correspondence(rep, prop=PROP, mod_name="harness.csrmonsim", legal_only=True, driver_kind="csrmon", ncases=n, extra=(cyc,),
                                nontrivial=lambda r: r["stats"].get("w1c_done", 0) >= 2 and r["stats"].get("enable_readbacks", 0) >= 1 and r["stats"]["events"] >= 1,
                                sample_fmt=lambda r: {"monitor": r.get("descr"), "layout": r["obs"][0], "cycles (addr r_stb w_stb w_data sources)": r["lines"][1:5], "observed (r_data irq)": r["obs"][1:5]})
    rep.coverage.update(agg)
    rep.coverage["rule"] = ("csr.EventMonitors with 0-20 events, data width 1-32, alignment 0-2, mixed trigger modes, attached directly, "
                            "behind a csr.Decoder (window not necessarily at 0) or by wiring.connect() from an initiator interface, in "
                            "amaranth.sim; register transactions (complete/aborted, read, write, read+write) interleaved with random "
                            "source activity every cycle, or uniformly random bus traffic; layout, bus.r_data and src.i compared with "
                            "the Lean model every cycle; for conforming traffic the register-level clauses evaluated against an "
                            "abstract reference; non-trivial = run with >=2 completed write-one-to-clear transactions and an enable "
                            "read-back")
