"""C15 — Wishbone SRAM behaves as a memory with a one-cycle, single acknowledge"""
from .. import lib, runner

PROP = "C15"
THEOREMS = ["Sram.ack_exact", "Sram.ack_single", "Sram.write_masked", "Sram.mem_is_abs_partial_dw", "Sram.read_your_writes_partial_dw", "Sram.readonly_immutable_partial_dw", "Sram.c15_read_stored", "Sram.mem_is_abs_image", "Sram.read_your_writes_image", "Sram.readonly_immutable_image"]
IMPORTS = ["SocVerif.Props.C15"]


def run(rep, tier):
    lib.proof_gate(rep, PROP, THEOREMS, IMPORTS)
    n, cyc = (96, 400) if tier == "quick" else (6000, 600)
    n = rep.scale(n)
    agg = runner.correspondence(rep, prop=PROP, mod_name="harness.sramsim", legal_only=True, driver_kind="sram", ncases=n, extra=(cyc,),
                                nontrivial=lambda r: r["stats"]["writes"] >= 3 and r["stats"]["reads"] >= 3 and r["stats"]["held_through_ack"] >= 1,
                                sample_fmt=lambda r: {"sram": r["descr"], "cycles (cyc stb we adr sel dat_w)": r["lines"][1:6], "observed (ack dat_r@read-ack)": r["obs"][:5]})
    rep.coverage.update(agg)
    rep.coverage["rule"] = ("SRAMs of 2-64 granules, data width 8-64, every granularity <= data width, writable or read-only, random "
                            "init image, in amaranth.sim; stimulus: uniformly random cyc/stb/we/adr/sel/dat_w, or transfers held 1-3 "
                            "cycles (through the ack cycle, data changing while held), cyc or stb alone; ack every cycle, dat_r with "
                            "the ack of a read, and the final memory contents compared with the Lean model and with the property's "
                            "clauses; non-trivial = run with >=3 writes, >=3 reads and a transfer held through its acknowledge")
    rep.assumptions += ["amaranth.lib.memory port semantics (non-transparent sync read, per-granule write enable) are modelled, not verified"]
