"""C09 — Wishbone arbiter is round-robin fair: no requester can be starved"""
from . import c08

PROP = "C09"
THEOREMS = ["ArbF.next_owner_is_closest", "ArbF.owner_stays", "ArbF.no_starvation", "ArbF.waiting_distance_decreases", "ArbF.bounded_wait", "ArbF.served_within_n_minus_one", "Arb.next_is_closest", "Arb.served"]
IMPORTS = ["SocVerif.Props.C08", "SocVerif.Props.C09B"]


def run(rep, tier):
    c08.THEOREMS_SAVE = c08.THEOREMS
    c08.IMPORTS_SAVE = c08.IMPORTS
    try:
        c08.THEOREMS = THEOREMS
        c08.IMPORTS = IMPORTS
        c08.run(rep, tier, prop=PROP, oracle={"C09"},
                nontriv=lambda r: r["stats"]["free_with_waiter"] >= 3 and r["stats"]["n"] >= 3)
        rep.coverage["rule"] = c08.RULE + ("; C09: exact next-owner function checked on every transition; non-trivial = >=3 initiators and "
                                           ">=3 releases with a waiting requester. Liveness itself is the Lean theorem no_starvation over infinite schedules, and its finite form served_within_n_minus_one (served within N-1 releases of the bus)")
    finally:
        c08.THEOREMS = c08.THEOREMS_SAVE
        c08.IMPORTS = c08.IMPORTS_SAVE
