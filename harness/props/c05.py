"""C05 — CSR multiplexer writes are atomic and reach exactly the addressed register"""
from .. import lib, runner, muxsim

PROP = "C05"
THEOREMS = ["Mux.w_stb_initially", "Mux.w_stb_exact", "Mux.ro_unmapped_inert", "Mux.write_concat", "Mux.sharing_unobservable_write", "Mux.decode_inj_within"]
IMPORTS = ["SocVerif.Props.C05"]


def nontrivial(r):
    s = r["stats"]
    return s["multi_chunk_done"] >= 1 and s["wr_concat_checked"] >= 3


def sample(r):
    return {"layout": r.get("layout"), "stimulus_mode": r.get("mode"), "first_cycles": r["lines"][len(r.get("layout", [])):][:6],
            "observed": r["obs"][:7]}


def run(rep, tier):
    lib.proof_gate(rep, PROP, THEOREMS, IMPORTS)
    n, cyc = (96, 300) if tier == "quick" else (4000, 600)
    n = rep.scale(n)
    agg = runner.correspondence(rep, prop=PROP, mod_name="harness.muxsim", driver_kind="mux", ncases=n,
                                extra=("w", cyc), nontrivial=nontrivial, oracle_props={"C05"},
                                sample_fmt=sample, mask_model=muxsim.mask_w)
    rep.coverage.update(agg)
    # ---- which layouts the sharing limit lets through at all: acceptance / refusal and shadow sizes of many
    # more layouts than are simulated, against the model of _Shadow.prepare (a layout refused although a
    # power-of-two size balances it is a change of observable behaviour caused by the limit)
    sh = runner.correspondence(rep, prop=PROP, mod_name="harness.shadowc", driver_kind="mux",
                               ncases=rep.scale(200) if tier == "quick" else 20000, oracle_props={PROP, "C19"})
    rep.coverage["shadow_layouts"] = {"cases": sh["evaluations"], "correspondence_diffs": sh["correspondence_diffs"],
                                      "oracle_failures": sh["oracle_failures"], "distribution": sh["distribution"]}
    rep.coverage["rule"] = ("random register layouts (widths 0..4W+3, r/w/rw, map alignment 0-2, aligned and unaligned explicit "
                            "placement, every shadow_overlaps in {None,0..3}) on the real csr.Multiplexer in amaranth.sim; "
                            "stimulus: uniformly random strobes/addresses, or interleaved complete/aborted read, write and "
                            "read+write transactions with stray accesses, register values changing every cycle; every element w_stb and (when strobed) w_data "
                            "compared with the Lean model each cycle, and the C05 clauses (w_stb exactly one cycle after a write to the "
                            "last address and never otherwise, w_data = concatenation of the transaction's chunks) evaluated on the real trace; non-trivial = "
                            "layout+stimulus in which a multi-chunk write transaction completes and >=3 concatenations were checked")
