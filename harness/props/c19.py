"""C19 — every accepted component elaborates, terminates, and does so repeatably"""
import collections
from .. import lib, runner, elab

PROP = "C19"
THEOREMS = ["Mux.prepare_spec", "Mux.original_prepare_diverges", "Mux.prepare_total_and_exact", "Mux.elab_prepares", "Mux.elab_idempotent", "Mux.elab_n_times", "Mux.original_second_elaboration_fails",
            "Mux.later_elaboration_ok_iff_known", "Mux.late_register_refused"]
IMPORTS = ["SocVerif.Props.C19"]


def run(rep, tier):
    lib.proof_gate(rep, PROP, THEOREMS, IMPORTS)
    n = 360 if tier == "quick" else 15000
    n = rep.scale(n)
    res = lib.pmap(elab.run_idx, [(rep.seed, i) for i in range(n)])
    errs = [r for r in res if "harness_error" in r]
    if errs:
        raise lib.Infra("harness error: " + errs[0]["harness_error"] + errs[0].get("tb", ""))
    res, n_unusable = lib.unusable_guard(rep, PROP, res, "component instances")
    st = collections.Counter(f"{r['kind']}:{r['status']}" for r in res)
    seen = set()
    for r in res:
        for f in r["fails"]:
            sig = (r["kind"], f[2])
            if sig in seen:
                continue
            seen.add(sig)
            rep.violation({"kind": "spec-violation", "case_index": None, "component": r["kind"],
                           "parameters": r["descr"], "what": f[1],
                           "match": {"component": r["kind"], "signature": f[2]},
                           "how_to_replay": "harness.elab.run_case({'seed': %d, 'idx': <i>, 'kind': %r})" % (rep.seed, r["kind"])},
                          True, f"C19: {f[1]}")
    # ---- arguments of the wrong type / out of range: refused with ValueError or TypeError, never an internal error
    from .. import junk
    jf, js = junk.probe()
    jseen = set()
    for name, arg, j, ecls, msg in jf:
        if (name, arg) in jseen:
            continue
        jseen.add((name, arg))
        rep.violation({"kind": "spec-violation", "component": name, "argument": arg, "value": j, "exception": ecls, "message": msg,
                       "match": {"component": name, "signature": f"junk:{arg}:{ecls}"},
                       "how_to_replay": "harness.junk.probe()"}, True,
                      f"C19: {name} called with {arg}={j} fails with an internal error ({ecls}: {msg}) instead of a ValueError/TypeError")
    rep.coverage["junk_argument_grid"] = js
    # ---- shadow correspondence: model of _Shadow.prepare vs the real shadow sizes / refusal
    agg = runner.correspondence(rep, prop=PROP, mod_name="harness.shadowc", driver_kind="mux",
                                ncases=rep.scale(200) if tier == "quick" else 20000, oracle_props={"C19"},
                                sample_fmt=lambda r: {"layout": r["lines"][:8], "real": r["obs"]})
    from .. import shadowc
    ex = runner.correspondence(rep, prop=PROP, mod_name="harness.shadowc", driver_kind="mux", ncases=shadowc.exh_count(),
                               extra=("exh",), oracle_props={"C19"})
    big = runner.correspondence(rep, prop=PROP, mod_name="harness.shadowc", driver_kind="mux", ncases=rep.scale(40) if tier == "quick" else 2000,
                                extra=("big",), oracle_props={"C19"})
    rep.coverage.update(agg)
    rep.coverage["bounded_exhaustive"] = {"what": "EVERY layout of <= 3 registers (1-3 words) in 8 addresses x sharing limit {None,0,1,2} x 3 direction patterns",
                                          "cases": ex["evaluations"], "correspondence_diffs": ex["correspondence_diffs"], "oracle_failures": ex["oracle_failures"],
                                          "distribution": ex["distribution"]}
    rep.coverage["large_address_spaces"] = {"cases": big["evaluations"], "correspondence_diffs": big["correspondence_diffs"],
                                            "oracle_failures": big["oracle_failures"], "distribution": big["distribution"]}
    agg = dict(agg, evaluations=agg["evaluations"] + ex["evaluations"] + big["evaluations"])
    rep.coverage["evaluations"] = n + agg["evaluations"]
    rep.coverage["distinct_nontrivial"] = sum(1 for r in res if r["status"] == "ok") + agg["distinct_nontrivial"]
    rep.coverage["sweep"] = dict(st)
    rep.coverage["samples"] = [{"component": r["kind"], "parameters": str(r["descr"])[:300], "status": r["status"]}
                               for r in res[:12]] + agg.get("samples", [])
    rep.coverage["rule"] = ("(a) every component class (12 kinds) × generated accepted parameters: constructed, then elaborated 3× "
                            "inside a neutral wrapper with explicit ports (rtlil.convert), RTLIL texts compared, all_resources() "
                            "compared before/after, exception class and raise site classified (ValueError/TypeError from an explicit "
                            "`raise` = descriptive refusal, anything else = internal), 120 s watchdog; non-trivial = instance that "
                            "elaborated three times; (b) random unaligned layouts × sharing limits: real _Shadow sizes / refusal vs "
                            "the Lean model of prepare(), plus every small layout (bounded_exhaustive) and far-apart registers in 16-32 bit "
                            "address spaces (large_address_spaces); (c) junk_argument_grid: every constructor and add()-style method with each argument "
                            "in turn replaced by each of 12 junk values: accepted, or refused with ValueError/TypeError")
    rep.assumptions += ["Python exceptions, lib.memory's own freeze rule and Amaranth's elaboration are not modelled in Lean: "
                        "the 'never an internal error' clause is explored, not proved (label: partial)"]
