"""C18 — names in a memory map are unique and prefix-free; conflicts are refused"""
from .. import lib, runner
from ..mm import mask_names

PROP = "C18"
THEOREMS = ["Names.conflictLoop_iff_prefix", "MemMap.related_iff", "MemMap.str_ne_int", "MemMap.available_iff", "MemMap.addResource_refuses_conflict", "MemMap.addResource_accepts_legal", "MemMap.addResource_ninv", "MemMap.addWindow_ninv", "MemMap.addWindow_refuses_conflict", "MemMap.names_prefix_free", "MemMap.paths_distinct_of_namesOk", "MemMap.reachable_namesOk", "MemMap.paths_distinct"]
IMPORTS = ["SocVerif.Props.C18", "SocVerif.Props.C18P"]


def nontrivial(r):
    s = r["stats"]
    return s["conf_eq"] >= 1 and s["conf_prefix"] >= 1 and s["conf_ext"] >= 1 and s["absorb"] >= 1


def sample(r):
    return {"ops": [list(map(str, o)) for o in r["case"]["ops"][:12]], "answers": r["obs"][:12]}


def deep_name_probe():
    """names of 8 … 3000 parts: a sibling (differs in the last part) is accepted, an equal name, a proper prefix and an
    extension are refused with ValueError — and nothing else (no RecursionError, no quadratic blow-up)"""
    from amaranth.lib import wiring
    from amaranth_soc.memory import MemoryMap
    fails, stats = [], {"depths": [], "decisions": 0}
    for depth in (8, 200, 1200, 3000):
        stats["depths"].append(depth)
        m = MemoryMap(addr_width=8, data_width=8)
        base = tuple(f"p{k}" for k in range(depth))
        exp = [(base + ("a",), True), (base + ("b",), True), (base + ("a",), False), (base, False), (base + ("a", "x"), False),
               (base[:-1] + ("q",), True), (base[:depth // 2], False), (("other",) + base, True)]
        for name, ok in exp:
            stats["decisions"] += 1
            try:
                m.add_resource(wiring.Component({}), name=name, size=1)
                got = True
            except ValueError:
                got = False
            except Exception as e:
                fails.append(f"a name of {len(name)} parts sharing {depth} parts with a visible name: add_resource raises {type(e).__name__} "
                             f"({str(e)[:60]}) instead of accepting or refusing it")
                break
            if got != ok:
                fails.append(f"a name of {len(name)} parts (sharing a prefix of about {depth} parts with visible names) is "
                             f"{'accepted' if got else 'refused'}; the conflict rule says {'accept' if ok else 'refuse'}")
                break
    # a named window as wide as its parent (it can only sit at address 0): its name is part of the reported paths like any
    # other window name, at every level
    for levels in (1, 2, 3):
        stats["decisions"] += 1
        leaf = MemoryMap(addr_width=6, data_width=8)
        res = wiring.Component({})
        leaf.add_resource(res, name="ctrl", size=1)
        cur, want = leaf, (("ctrl",),)
        for k in range(levels):
            parent = MemoryMap(addr_width=6, data_width=8)
            parent.add_window(cur, name=f"w{k}")
            cur, want = parent, ((f"w{k}",),) + want
        got = [tuple(tuple(p_) for p_ in i.path) for i in cur.all_resources()]
        found = tuple(tuple(p_) for p_ in cur.find_resource(res).path)
        if got != [want] or found != want:
            fails.append(f"a resource behind {levels} named window(s) as wide as their parents is reported with path {got} / {found}, expected {want}")
            break
    return {"fails": fails, "stats": stats}


def run(rep, tier):
    lib.proof_gate(rep, PROP, THEOREMS, IMPORTS)
    n = 500 if tier == "quick" else 200000
    n = rep.scale(n)
    agg = runner.correspondence(rep, prop=PROP, mod_name="harness.mm", legal_only=True, driver_kind="mmap", ncases=n,
                                extra=("names",), nontrivial=nontrivial, oracle_props={"C18"},
                                sample_fmt=sample, mask_model=mask_names)
    rep.coverage.update(agg)
    # ---- very long names (thousands of parts) sharing all but the last part / being a prefix of one another: the same rule
    deep = deep_name_probe()
    rep.coverage["deep_names"] = deep["stats"]
    for what in deep["fails"][:2]:
        rep.violation({"kind": "spec-violation", "what": what, "match": {"experiment": "deep-names"},
                       "how_to_replay": "harness.props.c18.deep_name_probe()"}, True, "C18: " + what)
    # ---- bounded-exhaustive validation (support for the tie, not a proof): EVERY sequence of k named
    # resources / named windows / anonymous windows over all names of length <= 2 on a small alphabet
    from .. import mm
    k = 2 if tier == "quick" else 3
    ex = runner.correspondence(rep, prop=PROP, mod_name="harness.mm", legal_only=True, driver_kind="mmap", ncases=mm.exh_names_count(k),
                               extra=("exhnames", k), oracle_props={"C18"}, mask_model=mask_names)
    rep.coverage["bounded_exhaustive"] = {"sequence_length": k, "names": len(mm.exh_names(k)), "cases": ex["evaluations"],
                                          "correspondence_diffs": ex["correspondence_diffs"], "oracle_failures": ex["oracle_failures"],
                                          "distribution": ex["distribution"]}
    rep.coverage["evaluations"] = agg["evaluations"] + ex["evaluations"]
    rep.coverage["traces_validated_against_impl"] = agg["traces_validated_against_impl"] + ex["traces_validated_against_impl"]
    rep.coverage["rule"] = ("histories of add_resource/add_window (named and anonymous, nested) with names drawn from the "
                            "adversarial alphabet {'a','b','0',0,1} (lengths 1-4) on real maps with roomy address spaces "
                            "(so that only naming decides acceptance); accept/refuse of every call and the final path list "
                            "are compared with the Lean model, and 'accepted iff unrelated to every visible name' is "
                            "evaluated on the real answers; non-trivial = history containing an equal-name, a prefix and an "
                            "extension conflict and an anonymous-window absorption; plus ALL sequences of length 2 (quick) / 3 (thorough) "
                            "of named resources / named windows / anonymous windows over every name of length <= 2 (bounded_exhaustive)")
    rep.assumptions += ["bool name parts (True == 1 in Python) are outside the generator and not modelled"]
