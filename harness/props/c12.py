"""C12 — field actions keep, set and clear storage exactly as documented, for all time"""
from .. import lib, runner

PROP = "C12"
THEOREMS = ["Act.rw_holds_init", "Act.rw_last_write", "Act.rw1c_step", "Act.rw1s_step", "Act.no_bits_beyond_width", "Act.bit_independent", "Act.r_passthrough", "Act.w_passthrough", "Act.reserved_inert", "Act.data_eq_r_data", "Act.testBit_ofBits"]
IMPORTS = ["SocVerif.Props.C12"]


def nontrivial(r):
    return r["stats"]["writes"] >= 3


def sample(r):
    return {"field": r["descr"], "first_cycles (rstb wstb wdata set/clear/r_data)": r["lines"][1:7],
            "observed (port.r_data data stb)": r["obs"][:6]}


def run(rep, tier):
    lib.proof_gate(rep, PROP, THEOREMS, IMPORTS)
    n, cyc = (180, 200) if tier == "quick" else (18000, 300)
    n = rep.scale(n)
    agg = runner.correspondence(rep, prop=PROP, mod_name="harness.actsim", legal_only=True, driver_kind="action", ncases=n,
                                extra=(cyc,), nontrivial=nontrivial, sample_fmt=sample)
    rep.coverage.update(agg)
    rep.coverage["rule"] = ("every field action class (R, W, RW, RW1C, RW1S, the four reserved ones) × shapes (unsigned/signed widths "
                            "0-9, two enumerations) × random init, driven in amaranth.sim with random strobes/data/set/clear every "
                            "cycle (ties provoked; exhaustive input enumeration for widths <= 2), all outputs compared with the Lean "
                            "model every cycle and with the documented closed forms; non-trivial = run with >= 3 write strobes")
