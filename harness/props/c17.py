"""C17 — CSR builder lays registers out deterministically at the promised offsets"""
from .. import lib, runner

PROP = "C17"
THEOREMS = ["Bld.as_map_unfold", "Bld.size_pow2", "Bld.place_spec", "Bld.as_map_complete", "Bld.name_is_scope_path", "Bld.scope_push_pop", "Bld.frozen_refuses", "Bld.refusal_atomic", "Bld.offset_multiple_guard"]
IMPORTS = ["SocVerif.Props.C17"]


def digit_scope_probe():
    """fixed programs: an Index(n) scope and a Cluster whose name is the decimal string of n are different scopes — the same
    register name may be used under both, at one level and nested; both registers are placed, named by their own paths"""
    from amaranth_soc import csr
    fails, n = [], 0
    for nest in ((), ("ch",), (2,)):
        for d in (0, 1, 7):
            n += 1
            b = csr.Builder(addr_width=6, data_width=8)
            try:
                import contextlib
                with contextlib.ExitStack() as st:
                    for x in nest:
                        st.enter_context(b.Cluster(x) if isinstance(x, str) else b.Index(x))
                    with b.Index(d):
                        b.add("r", csr.Register(csr.Field(csr.action.RW, 8), access="rw"))
                    with b.Cluster(str(d)):
                        b.add("r", csr.Register(csr.Field(csr.action.RW, 8), access="rw"))
                got = sorted((tuple(nm) for _, nm, _ in b.as_memory_map().resources()), key=str)
                want = sorted([tuple(nest) + (d, "r"), tuple(nest) + (str(d), "r")], key=str)
                if got != want:
                    fails.append(f"Index({d}) and Cluster('{d}') under {nest}: the map names the registers {got}, expected {want}")
            except (ValueError, TypeError) as e:
                fails.append(f"a register `r` under Index({d}) and another `r` under Cluster('{d}') (scopes {nest}): refused with "
                             f"{type(e).__name__}: {str(e)[:100]} — the integer {d} and the string '{d}' are different scope names")
    return fails, n


def run(rep, tier):
    lib.proof_gate(rep, PROP, THEOREMS, IMPORTS)
    n = 500 if tier == "quick" else 160000
    n = rep.scale(n)
    agg = runner.correspondence(rep, prop=PROP, mod_name="harness.buildersim", legal_only=True, driver_kind="builder", ncases=n,
                                nontrivial=lambda r: r["stats"]["explicit"] >= 1 and r["stats"]["scoped"] >= 1 and r["stats"]["regs_placed"] >= 2,
                                sample_fmt=lambda r: {"program": r["lines"][:12], "answers": r["obs"][:11]}, opt_sample=64)
    rep.coverage.update(agg)
    dfails, dn = digit_scope_probe()
    rep.coverage["digit_scope_programs"] = dn
    for what in dfails[:2]:
        rep.violation({"kind": "spec-violation", "what": what, "match": {"experiment": "digit-scopes"},
                       "how_to_replay": "harness.props.c17.digit_scope_probe()"}, True, "C17: " + what)
    # ---- bounded-exhaustive validation (support for the tie, not a proof): EVERY builder program of k operations
    from .. import buildersim
    k = 2 if tier == "quick" else 3
    ex = runner.correspondence(rep, prop=PROP, mod_name="harness.buildersim", legal_only=True, driver_kind="builder", ncases=buildersim.exh_count(k),
                               extra=(k,))
    rep.coverage["bounded_exhaustive"] = {"program_length": k, "alphabet": len(buildersim.exh_alphabet(k)), "cases": ex["evaluations"],
                                          "correspondence_diffs": ex["correspondence_diffs"], "oracle_failures": ex["oracle_failures"],
                                          "distribution": ex["distribution"]}
    rep.coverage["evaluations"] = agg["evaluations"] + ex["evaluations"]
    rep.coverage["traces_validated_against_impl"] = agg["traces_validated_against_impl"] + ex["traces_validated_against_impl"]
    rep.coverage["rule"] = ("generated builder programs on the real csr.Builder: geometries with granularity dividing the data width, "
                            "nested Cluster/Index scopes (invalid ones too), register widths 0..5 words, explicit offsets (aligned, "
                            "unaligned to the register size, not a multiple of the word, overlapping, out of range), duplicate names "
                            "and objects, freeze, add after as_memory_map(); every answer and the resources() of as_memory_map() (or "
                            "its refusal) compared with the Lean model and with the layout rule of the property; non-trivial = "
                            "program with an explicit offset, a scope and >= 2 placed registers; plus ALL programs of 2 (quick) / 3 (thorough) "
                            "operations over a small alphabet followed by as_memory_map() (bounded_exhaustive)")
