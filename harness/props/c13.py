"""C13 — event monitor never loses an event and reports exactly enabled-and-pending"""
from .. import lib, runner

PROP = "C13"
THEOREMS = ["Ev.add_numbers_in_order", "Ev.index_stable", "Ev.index_dense", "Ev.frozen_refuses_add", "Ev.trg_by_mode", "Ev.pending_step", "Ev.never_lost", "Ev.line_iff", "Ev.bit_k_is_source_k", "Ev.cascade_pending_step", "Ev.cascade_propagates", "Ev.cascade_quiet"]
IMPORTS = ["SocVerif.Props.C13"]


def run(rep, tier):
    lib.proof_gate(rep, PROP, THEOREMS, IMPORTS)
    n, cyc, nm = (120, 250, 400) if tier == "quick" else (12000, 400, 40000)
    n = rep.scale(n)
    nm = rep.scale(nm)
    a = runner.correspondence(rep, prop=PROP, mod_name="harness.evsim", driver_kind="monitor", legal_only=True, ncases=n,
                              extra=("monitor", cyc), nontrivial=lambda r: r["stats"]["trg_and_clear"] >= 1 and r["stats"]["edge_sources"] >= 1,
                              sample_fmt=lambda r: {"monitor": r["descr"], "cycles (i enable clear)": r["lines"][1:6], "observed (trg pending line)": r["obs"][:5]})
    b = runner.correspondence(rep, prop=PROP, mod_name="harness.evsim", driver_kind="evmap", ncases=nm,
                              extra=("map", 0), nontrivial=lambda r: r["stats"]["repeats"] >= 1,
                              sample_fmt=lambda r: {"event map ops": r["lines"][1:12], "answers": r["obs"][:11]})
    from .. import evsim
    k = 4 if tier == "quick" else 5
    c = runner.correspondence(rep, prop=PROP, mod_name="harness.evsim", driver_kind="evmap", ncases=evsim.map_exh_count(k),
                              extra=("mapexh", k))
    rep.coverage.update(a)
    rep.coverage["bounded_exhaustive"] = {"what": "ALL event-map op sequences (add/index of 3 sources, size, sources, freeze)",
                                          "sequence_length": k, "cases": c["evaluations"], "correspondence_diffs": c["correspondence_diffs"],
                                          "oracle_failures": c["oracle_failures"]}
    for k in ("evaluations", "distinct_nontrivial", "traces_validated_against_impl", "correspondence_diffs", "oracle_failures", "protocol_lines"):
        rep.coverage[k] = a[k] + b[k] + (c[k] if k != "distinct_nontrivial" else 0)
    rep.coverage["samples"] = a["samples"] + b["samples"]
    rep.coverage["distribution"] = {"monitor": a["distribution"], "event_map": b["distribution"]}
    rep.coverage["rule"] = ("monitors with 0-9 sources of mixed level/rise/fall modes in amaranth.sim, random/sparse/busy waveforms, random "
                            "enable and clear masks every cycle; every trg, the pending mask and src.i compared with the Lean model and "
                            "with the property's clauses each cycle; non-trivial = run with an edge-triggered source and a trigger "
                            "coinciding with its clear. Event maps: random add (with repeats)/index/size/sources/freeze histories on "
                            "real EventMap objects vs the model; non-trivial = history with a repeated add")
