"""C04 — CSR multiplexer reads are atomic snapshots and side-effect exact"""
from .. import lib, runner, muxsim

PROP = "C04"
THEOREMS = ["Mux.r_stb_exact", "Mux.r_data_zero_initially", "Mux.r_data_zero_unless", "Mux.read_is_snapshot", "Mux.sharing_unobservable_read", "Mux.unmapped_read_zero", "Mux.encode_decode"]
IMPORTS = ["SocVerif.Props.C04"]


def nontrivial(r):
    s = r["stats"]
    return s["multi_chunk_done"] >= 1 and s["rd_snap_checked"] >= 3


def sample(r):
    return {"layout": r.get("layout"), "stimulus_mode": r.get("mode"), "first_cycles": r["lines"][len(r.get("layout", [])):][:6],
            "observed": r["obs"][:7]}


def run(rep, tier):
    lib.proof_gate(rep, PROP, THEOREMS, IMPORTS)
    n, cyc = (96, 300) if tier == "quick" else (4000, 600)
    n = rep.scale(n)
    agg = runner.correspondence(rep, prop=PROP, mod_name="harness.muxsim", driver_kind="mux", ncases=n,
                                extra=("r", cyc), nontrivial=nontrivial, oracle_props={"C04"},
                                sample_fmt=sample, mask_model=muxsim.mask_r)
    rep.coverage.update(agg)
    # ---- which layouts the sharing limit lets through at all: acceptance / refusal and shadow sizes of many
    # more layouts than are simulated, against the model of _Shadow.prepare (a layout refused although a
    # power-of-two size balances it is a change of observable behaviour caused by the limit)
    sh = runner.correspondence(rep, prop=PROP, mod_name="harness.shadowc", driver_kind="mux",
                               ncases=rep.scale(200) if tier == "quick" else 20000, oracle_props={PROP, "C19"})
    rep.coverage["shadow_layouts"] = {"cases": sh["evaluations"], "correspondence_diffs": sh["correspondence_diffs"],
                                      "oracle_failures": sh["oracle_failures"], "distribution": sh["distribution"]}
    rep.coverage["rule"] = ("random register layouts (widths 0..4W+3, r/w/rw, map alignment 0-2, aligned and unaligned explicit "
                            "placement, every shadow_overlaps in {None,0..3}) on the real csr.Multiplexer in amaranth.sim; "
                            "stimulus: uniformly random strobes/addresses, or interleaved complete/aborted read, write and "
                            "read+write transactions with stray accesses, register values changing every cycle; bus.r_data and "
                            "every element r_stb compared with the Lean model each cycle, and the C04 clauses (strobe exactness, "
                            "zero unless a readable chunk was read, snapshot slice) evaluated on the real trace; non-trivial = "
                            "layout+stimulus in which a multi-chunk read completes and >=3 snapshot slices were checked")
