"""C10 — Wishbone-to-CSR bridge performs each transfer exactly once, in order, on time"""
from .. import lib, runner

PROP = "C10"
THEOREMS = ["Bridge.no_strobe_outside_transfer", "Bridge.one_access_per_granule", "Bridge.ack_once_on_time", "Bridge.read_lanes", "Bridge.back_to_back", "Bridge.idle_stays", "Bridge.atomic_register_write", "Bridge.transfer", "Bridge.wb_read_is_atomic", "Bridge.wb_write_is_atomic", "Bridge.wb_read_through_tree"]
IMPORTS = ["SocVerif.Props.C10", "SocVerif.Props.C10E"]


def mask_model(line):
    # model prints `<addr rstb wstb wdata> | <ack datr>`; address only with a strobe, write data only
    # with a write strobe; read data is compared by the harness oracle together with the read ack
    p = line.split(" | ")
    if len(p) != 2:
        return line
    a, rs, ws, wd = p[0].split()
    ack, datr = p[1].split()
    return f"{a if (rs == '1' or ws == '1') else '-'} {rs} {ws} {wd if ws == '1' else '-'} | {ack} {datr}"




def run(rep, tier):
    lib.proof_gate(rep, PROP, THEOREMS, IMPORTS)
    n, cyc = (100, 300) if tier == "quick" else (6000, 500)
    n = rep.scale(n)
    agg = runner.correspondence(rep, prop=PROP, mod_name="harness.bridgesim", legal_only=True, driver_kind="bridge", ncases=n, extra=(cyc,),
                                nontrivial=lambda r: r["stats"]["back_to_back"] >= 2 and r["stats"]["partial_sel"] >= 2,
                                mask_model=mask_model,
                                sample_fmt=lambda r: {"bridge": r["descr"], "cycles (cyc stb we adr sel dat_w csr.r_data)": r["lines"][1:6], "observed (csr addr r_stb w_stb w_data | ack)": r["obs"][:5]})
    rep.coverage.update(agg)
    rep.coverage["rule"] = ("all 10 (CSR width, Wishbone width) geometries with ratio 1/2/4/8, CSR address widths incl. the minimal one, "
                            "in amaranth.sim with the CSR side stubbed (random r_data every cycle); abiding initiator holding each "
                            "request until acknowledged (all/partial/empty select masks, reads and writes, back-to-back and spaced, "
                            "cyc without stb between) or uniformly random non-abiding stimulus; CSR strobes, address (when strobed), "
                            "write data (when strobed), ack and dat_r (with the ack of a read) compared with the Lean model every cycle; per-transfer clauses (one "
                            "access per selected granule in order, address, ack exactly at ratio+1, read lanes) evaluated on the real "
                            "trace; non-trivial = run with >=2 back-to-back transfers and >=2 partial select masks")
