"""what MANIFEST.json claims per property (edited by hand as the framework grows)"""
BASE_NOTE = ("Trusted: Lean 4.33 kernel + propext/Classical.choice/Quot.sound; the hand-written model, tied to /repo by the "
             "correspondence run (sampled); Amaranth's simulator as semantics of the elaborated hardware; harness and driver glue.")
CLAIMS = {
    "C02": {"text": "Theorems (all histories, all sizes) about the Lean model of _RangeMap/MemoryMap allocation; the model is run against the real MemoryMap on generated API histories on every run, and the property's clauses are evaluated directly on the real answers.",
            "note": BASE_NOTE, "technique": "Lean 4 proof (invariant by induction over API histories) + model/implementation correspondence"},
    "C03": {"text": "Theorems over all map trees and all addresses (mutual induction on the nested tree) about the Lean model of _translate/all_resources/find_resource/decode_address; correspondence with the real code on generated trees, every address decoded.",
            "note": BASE_NOTE, "technique": "Lean 4 proof (mutual structural induction on map trees) + correspondence"},
    "C18": {"text": "Theorem that the coded index loop of _Namespace.is_available decides exactly the prefix relation (never IndexError), plus invariants of the namespace model; correspondence with the real code on adversarial name alphabets.",
            "note": BASE_NOTE, "technique": "Lean 4 proof (loop invariant; prefix-free invariant) + correspondence"},
}
_TODO = "check not built yet in this round (machinery under construction; see DESIGN.md §11) — not a claim that the technique cannot apply"
NOT_APPLICABLE = {f"C{i:02d}": _TODO for i in range(1, 21) if f"C{i:02d}" not in CLAIMS}
