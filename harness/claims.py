"""what MANIFEST.json claims per property (edited by hand as the framework grows)"""
BASE_NOTE = ("Trusted: Lean 4.33 kernel + propext/Classical.choice/Quot.sound; the hand-written model, tied to /repo by the "
             "correspondence run (sampled); Amaranth's simulator as semantics of the elaborated hardware; harness and driver glue.")
CLAIMS = {
    "C02": {"text": "Theorems (all histories, all sizes) about the Lean model of _RangeMap/MemoryMap allocation; the model is run against the real MemoryMap on generated API histories on every run, and the property's clauses are evaluated directly on the real answers.",
            "note": BASE_NOTE, "technique": "Lean 4 proof (invariant by induction over API histories) + model/implementation correspondence"},
    "C03": {"text": "Theorems over all map trees and all addresses (mutual induction on the nested tree) about the Lean model of _translate/all_resources/find_resource/decode_address; correspondence with the real code on generated trees, every address decoded.",
            "note": BASE_NOTE, "technique": "Lean 4 proof (mutual structural induction on map trees) + correspondence"},
    "C18": {"text": "Theorem that the coded index loop of _Namespace.is_available decides exactly the prefix relation (never IndexError), plus invariants of the namespace model; correspondence with the real code on adversarial name alphabets.",
            "note": BASE_NOTE, "technique": "Lean 4 proof (loop invariant; prefix-free invariant) + correspondence"},
    "C04": {"text": "Theorems for every layout, every shadow size and every input stream about the implementation-shaped Lean model of Multiplexer.elaborate's read path (r_stb exactness for all inputs; atomic snapshot under the protocol hypothesis); the model is stepped against the real multiplexer in amaranth.sim cycle by cycle on generated layouts and stimuli, and the clauses are evaluated on the real trace.",
            "note": BASE_NOTE, "technique": "Lean 4 proof (invariants over time on a Mealy-machine model) + cycle-level correspondence with the simulated hardware"},
    "C05": {"text": "Theorems for every layout, shadow size and input stream about the Lean model of the multiplexer's write path (w_stb exactly one cycle after a write to the last address, for all inputs; transaction prefix invariant for write data); cycle-level correspondence with the real multiplexer in amaranth.sim.",
            "note": BASE_NOTE, "technique": "Lean 4 proof (invariants over time on a Mealy-machine model) + cycle-level correspondence with the simulated hardware"},
    "C19": {"text": "Partial by nature. Proved in Lean: the model of _Shadow.prepare() (the only unbounded loop and the only state that survives elaborate()) terminates, returns a balanced power-of-two size or refuses exactly when no size can balance, and the unrepaired recursion diverges on a concrete layout; the model's sizes/refusals are compared with the real shadows. Explored, not proved: every component class × generated accepted parameters is elaborated three times (RTLIL equality, metadata unchanged, exception class and raise site, watchdog).",
            "note": BASE_NOTE + " Python exceptions and Amaranth's elaboration are not modelled: the 'never an internal error' clause rests on the sweep.", "technique": "Lean 4 proof (well-founded recursion, exact refusal) for the stateful bookkeeping + runtime elaboration sweep"},
    "C12": {"text": "Theorems for every width, initial value and input history about the per-bit Lean model of the field actions (RW last-write closed form, RW1C/RW1S joint bit formulas with set-wins-tie, bit independence, R/W pass-through, reserved inert, data = read data); the model is stepped against the real actions in amaranth.sim every cycle.",
            "note": BASE_NOTE, "technique": "Lean 4 proof (induction over time, per-bit case analysis) + cycle-level correspondence"},
}
_TODO = "check not built yet in this round (machinery under construction; see DESIGN.md §11) — not a claim that the technique cannot apply"
NOT_APPLICABLE = {f"C{i:02d}": _TODO for i in range(1, 21) if f"C{i:02d}" not in CLAIMS}
