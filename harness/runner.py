"""Generic correspondence run: real code (in worker processes) vs Lean model (driver), plus the
direct property oracle evaluated on the real code's observations."""
import time, collections, os
from . import lib


def _worker(mod_name, fn_name, seed, idx, extra):
    import importlib
    mod = importlib.import_module(mod_name)
    case = getattr(mod, "gen_case")(seed, idx, *extra)
    t0 = time.time()
    try:
        out = getattr(mod, fn_name)(case)
    except Exception as e:
        # an exception raised *inside the code under test* while a scenario is being built or run (a
        # defect that belongs to another property, e.g. an internal error of the allocator while a
        # multiplexer layout is set up) makes this case unusable; it is counted, not crashed on.
        import traceback
        tb = traceback.extract_tb(e.__traceback__)
        inner = tb[-1].filename if tb else ""
        if lib.from_code_under_test(e):
            return {"skip": True, "code_exception": f"{type(e).__name__}: {str(e)[:160]} at {os.path.basename(inner)}:{tb[-1].lineno}",
                    "idx": idx, "case": case}
        raise
    out["case"] = case
    out["idx"] = idx
    out["case_seed"] = seed
    out["impl_s"] = time.time() - t0
    return out


def first_diff(a, b):
    for k, (x, y) in enumerate(zip(a, b)):
        if x != y:
            return k
    if len(a) != len(b):
        return min(len(a), len(b))
    return None


def shrink_ops(r, mod_name, run_fn, driver_kind, mask_model, oracle_props, budget=150):
    """greedy minimisation of an op-list case: drop operations (never `new`/scope ops) while the
    case still fails (model/implementation difference or oracle failure)"""
    import importlib
    mod = importlib.import_module(mod_name)
    case = r["case"]
    keep_kinds = {"new", "cluster", "index", "exit", "dump"}
    want_oracle = any(f[0] in oracle_props for f in r.get("fails", []))

    def attempt(ops):
        c2 = dict(case, ops=ops)
        out = getattr(mod, run_fn)(c2)
        out["case"], out["idx"] = c2, r["idx"]
        model = lib.split_cases(lib.run_driver(driver_kind, out["lines"]))
        model = model[0] if model else []
        if mask_model:
            model = [mask_model(l) for l in model]
        d = first_diff(out["obs"], model)
        orc = any(f[0] in oracle_props for f in out.get("fails", []))
        # a case that shows the property failing on the real code keeps doing so while it shrinks
        bad = orc if want_oracle else (d is not None or orc)
        return bad, out, model, d

    ops = list(case["ops"])
    best = None
    i = len(ops) - 1
    while i >= 0 and budget > 0:
        if ops[i][0] not in keep_kinds:
            budget -= 1
            trial = ops[:i] + ops[i + 1:]
            try:
                bad, out, model, d = attempt(trial)
            except Exception:
                bad = False
            if bad:
                ops, best = trial, (out, model, d)
        i -= 1
    return best


def correspondence(rep, *, prop, mod_name, driver_kind, ncases, extra=(), nontrivial=None,
                   oracle_props=None, run_fn="run_impl", index_base=0, sample_fmt=None,
                   shrink=None, max_report=3, mask_model=None, post=None, legal_only=False, opt_sample=5):
    """Runs `ncases` generated cases. Returns aggregated stats. Reports violations into `rep`."""
    oracle_props = oracle_props or {prop}
    t0 = time.time()
    indices = [index_base + i for i in range(ncases)]
    only = os.environ.get("VERIF_ONLY_INDEX")
    if only is not None and only != "":
        indices = [int(x) for x in only.split(",")]          # ./check --replay
    jobs = [(mod_name, run_fn, rep.seed, i, tuple(extra)) for i in indices]
    # corpus: cases that exposed a seeded or past defect, replayed first on every run (any VERIF_SEED)
    ncorpus = 0
    if (only is None or only == "") and not os.environ.get("VERIF_NO_CORPUS"):     # (the switch is for measuring the generators alone)
        cpath = os.path.join(lib.VERIF, "corpus", f"{prop}.json")
        if os.path.exists(cpath):
            import json
            for e in json.load(open(cpath)):
                if e.get("mod") == mod_name and list(e.get("extra", [])) == list(extra) and (e["seed"], e["idx"]) not in [(rep.seed, i) for i in indices]:
                    jobs.insert(0, (mod_name, run_fn, e["seed"], e["idx"], tuple(extra)))
                    ncorpus += 1
    results = lib.pmap(_worker, jobs)
    errs = [r for r in results if "harness_error" in r]
    if errs:
        raise lib.Infra("harness error in worker: " + errs[0]["harness_error"] + "\n" + errs[0].get("tb", ""))
    code_exc = [r for r in results if r.get("code_exception")]
    nall = len(results)
    results = [r for r in results if not r.get("skip")]
    if legal_only and code_exc:
        # this generator draws only scenarios inside the property's stated domain: a scenario that cannot even
        # be set up (the library raises on legal parameters) is a failing input of the property
        for r in code_exc[:max_report]:
            rep.violation({"kind": "spec-violation", "model": driver_kind, "case_index": r["idx"], "case": r["case"],
                           "seed": rep.seed, "corpus_key": {"mod": mod_name, "extra": list(extra)},
                           "exception": r["code_exception"]}, True,
                          f"{prop}: a scenario inside the property's domain raises in the code under test: {r['code_exception']}")
    elif code_exc and len(code_exc) * 5 > nall:
        # more than a fifth of the scenarios could not even be set up: the property is no longer shown to hold
        rep.violation({"kind": "correspondence", "model": driver_kind, "case_index": code_exc[0]["idx"], "case": code_exc[0]["case"],
                       "note": f"{len(code_exc)} of {nall} generated scenarios raised inside the code under test before the property could be exercised",
                       "exception": code_exc[0]["code_exception"]}, False,
                      f"{prop}: {len(code_exc)} of {nall} scenarios raise inside the code under test ({code_exc[0]['code_exception']}); "
                      f"the property could not be exercised on them")
    # ---- the same first few cases in fresh interpreters, once normally and once under `python -O` (asserts stripped):
    # what the library does must not depend on that
    if (only is None or only == "") and not os.environ.get("VERIF_NO_OPT_RERUN") and run_fn == "run_impl":
        import subprocess, sys, json
        sample = [(rep.seed, i, list(extra)) for i in indices[:opt_sample]]
        req = json.dumps({"mod": mod_name, "fn": run_fn, "jobs": sample})
        env = dict(os.environ, PYTHONHASHSEED="0")
        runs = []
        for flag in ([], ["-O"]):
            p_ = subprocess.run([sys.executable] + flag + ["-m", "harness.rerun_opt"], input=req, capture_output=True, text=True,
                                cwd=lib.VERIF, env=env, timeout=600)
            try:
                runs.append(json.loads(p_.stdout))
            except Exception:
                raise lib.Infra("re-run of sample cases failed: " + (p_.stderr or p_.stdout)[-400:])
        for a_, b_ in zip(*runs):
            if a_ != b_:
                what = ("raises " + b_["raised"]) if "raised" in b_ and "raised" not in a_ else "observable behaviour differs"
                k_ = first_diff(a_.get("obs") or [], b_.get("obs") or [])
                rep.violation({"kind": "spec-violation", "model": driver_kind, "case_index": a_["idx"], "seed": rep.seed,
                               "corpus_key": {"mod": mod_name, "extra": list(extra)}, "python_O": True,
                               "normal": {"obs_at_diff": (a_.get("obs") or [None])[k_] if k_ is not None and k_ < len(a_.get("obs") or []) else None,
                                          "fails": a_.get("fails"), "raised": a_.get("raised")},
                               "optimized": {"obs_at_diff": (b_.get("obs") or [None])[k_] if k_ is not None and k_ < len(b_.get("obs") or []) else None,
                                             "fails": b_.get("fails"), "raised": b_.get("raised")},
                               "how_to_replay": f"echo '{req}' | python -O -m harness.rerun_opt   (and without -O)"}, True,
                              f"{prop}: under `python -O` (assert statements stripped) the same scenario {what}: the library relies on a "
                              f"side effect inside an assert statement")
                break
    if post:
        results = [post(r) for r in results]
    t_impl = time.time() - t0
    lines = []
    for r in results:
        lines.extend(r["lines"])
    t1 = time.time()
    outs = lib.split_cases(lib.run_driver(driver_kind, lines)) if lines else []
    t_model = time.time() - t1
    if len(outs) != len(results):
        raise lib.Infra(f"driver returned {len(outs)} cases for {len(results)}")
    stats = collections.Counter()
    nontriv = set()
    diffs = 0
    oracle_fails = 0
    samples = []
    bad_cases = []
    for r, model in zip(results, outs):
        if mask_model:
            model = [mask_model(l) for l in model]
        for k, v in r.get("stats", {}).items():
            if isinstance(v, (int, float)):
                stats[k] += v
        if nontrivial is None or nontrivial(r):
            nontriv.add(r.get("key", repr(r["lines"])[:4000]))
        if len(samples) < 2 and sample_fmt:
            samples.append(sample_fmt(r))
        d = first_diff(r["obs"], model)
        fails = [f for f in r.get("fails", []) if f[0] in oracle_props]
        if d is not None:
            diffs += 1
        if fails:
            oracle_fails += 1
        if d is not None or fails:
            bad_cases.append((r, model, d, fails))
    # cases on which the real code itself fails the property are reported first
    bad_cases.sort(key=lambda t: 0 if t[3] else 1)
    for r, model, d, fails in bad_cases[:max_report]:
        if True:
            rr, dd = r, d
            if isinstance(r.get("case"), dict) and "ops" in r["case"]:
                try:                            # shrinking is best-effort
                    best = shrink_ops(r, mod_name, run_fn, driver_kind, mask_model, oracle_props)
                    if best is not None:
                        rr, model, dd = best
                        rr["shrunk_from_ops"] = len(r["case"]["ops"])
                        fails = [f for f in rr.get("fails", []) if f[0] in oracle_props]
                except Exception:
                    rr, dd = r, d
            replay = {
                "kind": "spec-violation" if fails else "correspondence", "tier": rep.tier,
                "model": driver_kind, "case_index": rr["idx"], "seed": rr.get("case_seed", rep.seed), "case": rr["case"],
                "corpus_key": {"mod": mod_name, "extra": list(extra)},
                "protocol_lines": rr["lines"][: (dd + 40) if dd is not None else 400],
                "first_diff": None if dd is None else {
                    "obs_index": dd,
                    "impl": rr["obs"][dd] if dd < len(rr["obs"]) else None,
                    "model": model[dd] if dd < len(model) else None},
                "oracle_failures": [list(f) for f in fails[:5]], "shrunk_from_ops": rr.get("shrunk_from_ops"),
                "match": rr.get("match", {}),
            }
            if fails:
                rep.violation(replay, True, f"{prop}: real code violates the property: {fails[0][1]}")
            else:
                rep.violation(replay, False,
                              f"{prop}: real code and Lean model `{driver_kind}` disagree at observation {dd}: "
                              f"impl={replay['first_diff']['impl']!r} model={replay['first_diff']['model']!r}; "
                              f"property oracle found no failing input in this case")
    agg = {
        "evaluations": len(results),
        "distinct_nontrivial": len(nontriv),
        "traces_validated_against_impl": len(results) - diffs,
        "correspondence_diffs": diffs, "oracle_failures": oracle_fails,
        "scenarios_unusable_code_exception": len(code_exc),
        "protocol_lines": len(lines), "impl_s": round(t_impl, 1), "model_s": round(t_model, 1), "corpus_cases": ncorpus,
        "distribution": dict(stats),
        "samples": samples,
    }
    return agg
