"""C16: real gpio.Peripheral in amaranth.sim vs the Lean model `gpio`; for conforming register
transactions the documented behaviour (mode table, input delay, set/clear codes, read-back) is
evaluated on the real trace against an abstract reference."""
from . import lib, simutil
from amaranth.sim import Simulator
from amaranth_soc import gpio


def gen_case(seed, idx, ncycles):
    return {"seed": seed, "idx": idx, "ncycles": ncycles}


def run_impl(case):
    rnd = lib.rng_for(case["seed"], case["idx"], 1616)
    n = rnd.choice([1, 2, 3, 4, 5, 8, 9])
    xs = lib.rng_for(case["seed"], case["idx"], 1636).random()
    if xs < 0.1:
        n = (6, 7, 10, 12, 13, 16, 17, 20, 24, 33)[int(xs / 0.1 * 10)]
    dw = rnd.choice([8, 8, 16, 32])
    stages = rnd.randint(0, 3)
    # minimal address width for the four registers, plus 0..2
    def span(bits):
        s = (bits + dw - 1) // dw
        return 1 if s <= 1 else 1 << (s - 1).bit_length()
    cur, lay = 0, {}
    for name, bits in (("Mode", 2 * n), ("Input", n), ("Output", n), ("SetClr", 2 * n)):
        sp = span(bits)
        start = (cur + sp - 1) // sp * sp
        lay[name] = (start, start + sp)
        cur = start + sp
    aw = max(1, (cur - 1).bit_length()) + rnd.randint(0, 2)
    dut = gpio.Peripheral(pin_count=n, addr_width=aw, data_width=dw, input_stages=stages)
    siblings = []
    if lib.rng_for(case["seed"], case["idx"], 1656).random() < 0.3:
        # a SoC builds all its GPIO banks first and elaborates them later: another peripheral is constructed after the one
        # under test (instances share nothing)
        siblings.append(gpio.Peripheral(pin_count=(n % 7) + 1, addr_width=8, data_width=rnd.__class__(n).choice([8, 16, 32]), input_stages=(stages + 1) % 3))
    real = {tuple(i.path[0])[0]: (i.start, i.end) for i in dut.bus.memory_map.all_resources()}
    sim = simutil.simulator(simutil.wrap(dut), case)
    sim.add_clock(1e-6)
    lines = [f"case {n} {dw} {stages}"]
    obs = ["layout " + " ".join(f"{real[k][0]}-{real[k][1]}" for k in ("Mode", "Input", "Output", "SetClr"))]
    fails = []
    if real != lay:
        fails.append(("C16", f"register layout {real}, builder rule gives {lay}", 0))
    style = rnd.choice(["txn", "txn", "txn", "random"])
    stats = {"cycles": 0, "mode_writes": 0, "setclr_writes": 0, "output_writes": 0, "input_reads": 0, "pins": n, style: 1,
             "setclr_and_output_tie": 0, "multi_chunk_mode": int(real["Mode"][1] - real["Mode"][0] > 1)}
    cm = (1 << dw) - 1
    bus = dut.bus

    async def tb(ctx):
        mode, out = 0, 0
        hist = []                      # pin input history (for the delayed Input register)
        strobes = []                   # element write strobes firing in this cycle: (reg, value)
        wbuf = {}
        snap = None
        exp_r = 0
        txn = []
        for t in range(case["ncycles"]):
            pins = lib.bits(rnd, n)
            if style == "random":
                addr, rstb, wstb = rnd.randrange(1 << aw), int(rnd.random() < .4), int(rnd.random() < .4)
            else:
                if not txn and rnd.random() < .7:
                    reg = rnd.choice(["Mode", "Input", "Output", "SetClr", "Mode", "SetClr"])
                    kind = {"Input": "r", "SetClr": "w"}.get(reg) or rnd.choice(["r", "w", "rw"])
                    s, e = real[reg]
                    upto = e - s if rnd.random() < .85 else rnd.randint(0, e - s)
                    txn = [(s + j, kind) for j in range(upto)]
                if txn and rnd.random() < .8:
                    addr, kind = txn.pop(0)
                    rstb, wstb = int("r" in kind), int("w" in kind)
                else:
                    addr, rstb, wstb = rnd.randrange(1 << aw), 0, 0
            wdata = lib.bits(rnd, dw)
            for k in range(n):
                ctx.set(dut.pins[k].i, (pins >> k) & 1)
            ctx.set(bus.addr, addr); ctx.set(bus.r_stb, rstb); ctx.set(bus.w_stb, wstb); ctx.set(bus.w_data, wdata)
            lines.append(f"cyc {addr} {rstb} {wstb} {wdata} {pins}")
            br = ctx.get(bus.r_data)
            o = sum(ctx.get(dut.pins[k].o) << k for k in range(n))
            oe = sum(ctx.get(dut.pins[k].oe) << k for k in range(n))
            alt = ctx.get(dut.alt_mode)
            obs.append(f"{br} | {o} {oe} {alt}")
            stats["cycles"] += 1
            if style == "txn":
                # ---- documented behaviour on the real trace
                for k in range(n):
                    m, ob = (mode >> (2 * k)) & 3, (out >> k) & 1
                    want = {0: (ob, 0, 0), 1: (ob, 1, 0), 2: (0, 1 - ob, 0), 3: (ob, 0, 1)}[m]
                    got = ((o >> k) & 1, (oe >> k) & 1, (alt >> k) & 1)
                    if got != want:
                        fails.append(("C16", f"cycle {t}: pin {k} mode {m} output bit {ob}: (o, oe, alt_mode)={got}, documented {want}", t))
                if exp_r is not None and br != exp_r:
                    fails.append(("C16", f"cycle {t}: bus.r_data={br:#x}, expected {exp_r:#x}", t))
                # input value visible to a read in this cycle: the pin level `stages` cycles ago
                hist.append(pins)
                inp_now = hist[-1 - stages] if len(hist) > stages else 0
                # element write strobes (one cycle after the bus write to the last address)
                setm = clrm = 0
                out_w = None
                for reg, val in strobes:
                    if reg == "Mode":
                        mode_next = val & ((1 << (2 * n)) - 1)
                        stats["mode_writes"] += 1
                    elif reg == "SetClr":
                        for k in range(n):
                            setm |= ((val >> (2 * k)) & 1) << k
                            clrm |= ((val >> (2 * k + 1)) & 1) << k
                        stats["setclr_writes"] += 1
                    elif reg == "Output":
                        out_w = val & ((1 << n) - 1)
                        stats["output_writes"] += 1
                if any(r == "SetClr" for r, _ in strobes) and out_w is not None:
                    stats["setclr_and_output_tie"] += 1
                new_out = 0
                for k in range(n):
                    s_, c_ = (setm >> k) & 1, (clrm >> k) & 1
                    if s_ != c_:
                        b = s_
                    elif out_w is not None:
                        b = (out_w >> k) & 1
                    else:
                        b = (out >> k) & 1
                    new_out |= b << k
                mode_after = mode
                for reg, val in strobes:
                    if reg == "Mode":
                        mode_after = val & ((1 << (2 * n)) - 1)
                strobes = []
                # bus access of this cycle
                exp_r = 0
                values = {"Mode": mode, "Input": inp_now, "Output": out}
                for reg in ("Mode", "Input", "Output", "SetClr"):
                    s, e = real[reg]
                    if s <= addr < e:
                        k = addr - s
                        if rstb and reg != "SetClr":
                            if k == 0:
                                snap = (reg, values[reg])
                                if reg == "Input":
                                    stats["input_reads"] += 1
                            exp_r = (snap[1] >> (k * dw)) & cm if snap is not None and snap[0] == reg else None
                        if wstb and reg != "Input":
                            if k == 0:
                                wbuf[reg] = [wdata]
                            elif wbuf.get(reg) is not None and len(wbuf[reg]) == k:
                                wbuf[reg].append(wdata)
                            else:
                                wbuf[reg] = None
                            if k == e - s - 1 and wbuf.get(reg) is not None and len(wbuf[reg]) == e - s:
                                strobes.append((reg, sum(v << (j * dw) for j, v in enumerate(wbuf[reg]))))
                                wbuf[reg] = None
                mode, out = mode_after, new_out
            await ctx.tick()

    sim.add_testbench(tb)
    sim.run()
    lines.append("end")
    if lib.rng_for(case["seed"], case["idx"], 1646).random() < 0.25:
        # the clock domain is reset in the middle of a run (ResetInserter) while the pins stay high: the Input register still
        # reports each pin's level `input_stages` cycles ago — the synchroniser holds no state that a reset may clear
        from amaranth import Module, Signal, ResetInserter
        stats["reset_experiment"] = 1
        m2 = Module()
        rst = Signal()
        m2.submodules.dut = ResetInserter(rst)(dut)
        d2 = Signal(name="verif_dummy"); m2.d.sync += d2.eq(~d2)
        sim2 = Simulator(m2)
        sim2.add_clock(1e-6)
        got = []

        async def tb2(ctx):
            for k_ in range(n):
                ctx.set(dut.pins[k_].i, 1)
            for _ in range(stages + 3):
                await ctx.tick()
            ctx.set(rst, 1)
            await ctx.tick()
            ctx.set(rst, 0)
            ctx.set(bus.addr, real["Input"][0]); ctx.set(bus.r_stb, 1)       # first cycle after the reset: read chunk 0 of Input
            await ctx.tick()
            ctx.set(bus.r_stb, 0)
            got.append(ctx.get(bus.r_data))
        sim2.add_testbench(tb2)
        sim2.run()
        want = ((1 << n) - 1) & cm
        if got != [want]:
            fails.append(("C16", f"pins held high for {stages + 4} cycles, clock domain reset, Input read in the next cycle: chunk 0 reads "
                                 f"{got[0]:#x}, expected {want:#x} (every pin was high {stages} cycle(s) before)", 0))
    return {"lines": lines, "obs": obs, "fails": fails, "stats": stats, "key": lines[0] + style + str(case["idx"]),
            "descr": f"pins={n} dw={dw} addr_width={aw} input_stages={stages} style={style}"}
