"""C08/C09: real wishbone.Arbiter in amaranth.sim vs the Lean model `arbiter`; ownership clauses
(C08) and the round-robin next-owner function (C09) evaluated on the real trace."""
from . import lib, simutil
from amaranth.hdl import Value
from amaranth.sim import Simulator
from amaranth_soc import wishbone

F = ["err", "rty", "stall", "lock", "cti", "bte"]
CTI = [0, 1, 2, 7]


class EqIntr(wishbone.Interface):
    """a user's interface class with value semantics: same parameters → equal and same hash (the signals differ)"""
    def __eq__(self, other):
        return isinstance(other, EqIntr) and self.signature == other.signature

    def __hash__(self):
        return hash(("EqIntr", self.addr_width, self.data_width, self.granularity))


def gen_case(seed, idx, ncycles, prop):
    return {"seed": seed, "idx": idx, "ncycles": ncycles, "prop": prop}


def fbits(fs):
    return " ".join(str(int(f in fs)) for f in F)


def run_impl(case):
    rnd = lib.rng_for(case["seed"], case["idx"], 808)
    n = rnd.choice([1, 2, 2, 3, 3, 4, 5, 6])
    x828 = lib.rng_for(case["seed"], case["idx"], 828).random()
    if x828 < 0.08:
        n = 1            # the single-initiator arbiter (purely combinational) a little more often
    elif x828 < 0.14:
        n = 7 + int((x828 - 0.08) / 0.06 * 7)      # and larger ones: 7..13 initiators (two-digit indices)
    elif x828 < 0.17:
        n = (17, 20, 33, 34, 40)[int((x828 - 0.14) / 0.03 * 5)]      # … and beyond 16 / 32
    aw = 8 if n <= 16 else 10          # the owner is recognised by the address tag adr[4:]
    dw = rnd.choice([8, 16, 32, 64])
    gran = rnd.choice([g for g in (8, 16, 32, 64) if g <= dw])
    bfeat = set(f for f in F if rnd.random() < .5)
    rnd2 = lib.rng_for(case["seed"], case["idx"], 818)      # history variations, own stream
    # the feature set may be spelled with strings or with Feature members, as a set, a list or a tuple
    spell = rnd2.choice(["str", "str", "enum", "list", "mixed"])
    fspelled = {"str": set(bfeat), "enum": {wishbone.Feature(f) for f in bfeat}, "list": sorted(bfeat),
                "mixed": tuple(wishbone.Feature(f) if k % 2 else f for k, f in enumerate(sorted(bfeat)))}[spell]
    arb = wishbone.Arbiter(addr_width=aw, data_width=dw, granularity=gran, features=fspelled)
    intrs, ifeat, igran = [], [], []
    eq_style = lib.rng_for(case["seed"], case["idx"], 838).choice(["plain"] * 6 + ["path-less", "value-eq", "same-path"])
    pre = 0
    ghosts = []
    for i in range(n):
        if rnd2.random() < .12 and bfeat & {"err", "rty"}:
            # an initiator that add() refuses (it lacks an input the shared bus drives) is not part of the
            # arbiter: whatever it requests later must not show anywhere
            gi = wishbone.Interface(addr_width=aw, data_width=dw, granularity=gran, features=set())
            try:
                arb.add(gi)
            except ValueError:
                ghosts.append(gi)
        if rnd2.random() < .08:
            from amaranth.hdl import Fragment
            Fragment.get(arb, None)        # an arbiter that was already elaborated still accepts initiators
            pre += 1
        fs = set(f for f in F if rnd.random() < .5) | (bfeat & {"err", "rty"})
        g = rnd.choice([x for x in (8, 16, 32, 64) if gran <= x <= dw])
        # usage style (own stream): interfaces without a path (all signals carry the same names), or instances of a user's
        # subclass that compares by value — equal parameters, equal objects, yet distinct initiators
        if eq_style == "path-less":
            it = wishbone.Signature(addr_width=aw, data_width=dw, granularity=g, features=fs).create()
        elif eq_style == "value-eq":
            it = EqIntr(addr_width=aw, data_width=dw, granularity=g, features=fs)
        elif eq_style == "same-path":
            it = wishbone.Interface(addr_width=aw, data_width=dw, granularity=g, features=fs, path=("core", "bus"))
        else:
            it = wishbone.Interface(addr_width=aw, data_width=dw, granularity=g, features=fs)
        arb.add(it)
        intrs.append(it); ifeat.append(fs); igran.append(g)
    bselw = dw // gran
    lines = [f"case {n} {fbits(bfeat)} {bselw}"]
    for i in range(n):
        lines.append(f"intr {fbits(ifeat[i])} {igran[i] // gran} {dw // igran[i]}")
    if lib.rng_for(case["seed"], case["idx"], 848).random() < 0.2:
        # composition: the arbiter sits in front of a decoder and the decoder's memory map is published on the arbiter's shared bus
        # (`arb.bus.memory_map = dec.bus.memory_map`) — a map with a small window low down, a hole, and nothing above
        import math
        from amaranth.lib import wiring
        from amaranth_soc.memory import MemoryMap
        mm_ = MemoryMap(addr_width=max(1, aw + int(math.log2(dw // gran))), data_width=gran)
        try:
            mm_.add_resource(wiring.Component({}), name="low", size=2)
            mm_.add_resource(wiring.Component({}), name="mid", size=1, addr=8)
            arb.bus.memory_map = mm_
            stats_map = 1
        except (ValueError, AttributeError):
            stats_map = 0
    sim = simutil.simulator(simutil.wrap(arb), case)
    sim.add_clock(1e-6)
    obs, fails = [], []
    style = rnd.choice(["random", "starve", "lockhold", "sticky"])
    sparse_req = n >= 7 and rnd2.random() < .5
    stats = {"cycles": 0, "handovers": 0, "busy_with_waiter": 0, "n": n, "lock_bus": int("lock" in bfeat), style: 1,
             "free_with_waiter": 0, "wait_checks": 0, "waited_to_the_bound": 0, "elaborated_before_add": pre,
             "refused_initiators_kept_requesting": len(ghosts), "sparse_requests": int(sparse_req), "features_spelled_" + spell: 1}
    bus = arb.bus

    def opt(present, v):
        return str(v) if present else "x"

    async def tb(ctx):
        owner_prev, busy_prev, req_prev = None, None, None
        wait_free = [0] * n          # per initiator: free-bus cycles since it began to request without owning the bus
        hold = [0] * n
        cur = [None] * n
        pending = []
        for t in range(case["ncycles"]):
            # ---- stimulus
            resp = [int(rnd.random() < .4), int(rnd.random() < .2), int(rnd.random() < .2), int(rnd.random() < .3), lib.bits(rnd, dw)]
            ctx.set(bus.ack, resp[0]); ctx.set(bus.dat_r, resp[4])
            if "err" in bfeat: ctx.set(bus.err, resp[1])
            if "rty" in bfeat: ctx.set(bus.rty, resp[2])
            if "stall" in bfeat: ctx.set(bus.stall, resp[3])
            reqs = []
            for i in range(n):
                if style == "random" or cur[i] is None or hold[i] == 0:
                    p = .6
                    if style == "starve" and i < 2:
                        p = 1.0 if (t // 3) % 2 == i else .3        # two initiators alternate aggressively
                    cyc = int(rnd.random() < p)
                    if sparse_req:
                        cyc = cyc and int(rnd2.random() < 2.0 / n)   # only one or two requesters at a time, far apart
                    stb = int(rnd.random() < .6)
                    lock = int(rnd.random() < (.7 if style == "lockhold" else .3))
                    if style == "lockhold" and rnd.random() < .5:
                        stb = 0                                      # lock held without strobe
                    hold[i] = rnd.choice([1, 1, 2, 4]) if style != "random" else 1
                    cur[i] = (cyc, stb, lock)
                cyc, stb, lock = cur[i]
                hold[i] = max(0, hold[i] - 1)
                we = rnd.getrandbits(1)
                adr = (i << 4) | lib.bits(rnd, 4)
                datw = lib.bits(rnd, dw)
                selw = dw // igran[i]
                sel = lib.bits(rnd, selw)
                cti, bte = rnd.choice(CTI), lib.bits(rnd, 2)
                it = intrs[i]
                for gi in ghosts:
                    ctx.set(gi.cyc, 1); ctx.set(gi.stb, 1); ctx.set(gi.we, 1); ctx.set(gi.adr, 0xEE)
                ctx.set(it.cyc, cyc); ctx.set(it.stb, stb); ctx.set(it.we, we); ctx.set(it.adr, adr)
                ctx.set(it.dat_w, datw); ctx.set(it.sel, sel)
                if "lock" in ifeat[i]: ctx.set(it.lock, lock)
                else: lock = 0
                if "cti" in ifeat[i]: ctx.set(Value.cast(it.cti), cti)
                else: cti = 0
                if "bte" in ifeat[i]: ctx.set(Value.cast(it.bte), bte)
                else: bte = 0
                reqs.append((cyc, stb, we, lock, adr, datw, sel, cti, bte))
            cyc_payload = " ".join(map(str, resp)) + " " + " ".join(" ".join(map(str, r)) for r in reqs)
            # ---- observe
            b = dict(cyc=ctx.get(bus.cyc), stb=ctx.get(bus.stb), we=ctx.get(bus.we), adr=ctx.get(bus.adr),
                     datw=ctx.get(bus.dat_w), sel=ctx.get(bus.sel))
            b["lock"] = ctx.get(bus.lock) if "lock" in bfeat else None
            b["cti"] = simutil.getv(ctx, bus.cti) if "cti" in bfeat else None
            b["bte"] = simutil.getv(ctx, bus.bte) if "bte" in bfeat else None
            bus_str = f"{b['cyc']} {b['stb']} {b['we']} {opt('lock' in bfeat, b['lock'])} {b['adr']} {b['datw']} {b['sel']} {opt('cti' in bfeat, b['cti'])} {opt('bte' in bfeat, b['bte'])}"
            outs, seen = [], []
            for i in range(n):
                it = intrs[i]
                o = (ctx.get(it.ack), ctx.get(it.err) if "err" in ifeat[i] else None, ctx.get(it.rty) if "rty" in ifeat[i] else None,
                     ctx.get(it.stall) if "stall" in ifeat[i] else None, ctx.get(it.dat_r))
                seen.append(o)
                outs.append(f"{o[0]} {opt('err' in ifeat[i], o[1])} {opt('rty' in ifeat[i], o[2])} {opt('stall' in ifeat[i], o[3])} {o[4]}")
            stats["cycles"] += 1
            # ---- clauses on the real trace; the owner is identified by the address tag on the shared bus
            owner = b["adr"] >> 4
            if owner >= n:
                fails.append(("C08", f"cycle {t}: shared bus carries address {b['adr']:#x} of no initiator", t))
                owner = 0
            r = reqs[owner]
            ratio = igran[owner] // gran
            selfan = 0
            for j in range(dw // igran[owner]):
                if (r[6] >> j) & 1:
                    selfan |= ((1 << ratio) - 1) << (j * ratio)
            want = dict(cyc=r[0], stb=r[1], we=r[2], adr=r[4], datw=r[5], sel=selfan,
                        lock=(r[3] if "lock" in ifeat[owner] else 0) if "lock" in bfeat else None,
                        cti=(r[7] if "cti" in ifeat[owner] else 0) if "cti" in bfeat else None,
                        bte=(r[8] if "bte" in ifeat[owner] else 0) if "bte" in bfeat else None)
            if b != want:
                bad = [k for k in want if b[k] != want[k]]
                fails.append(("C08", f"cycle {t}: shared bus differs from owner {owner}'s request in {bad}: bus={ {k: b[k] for k in bad} } owner={ {k: want[k] for k in bad} }", t))
            for i in range(n):
                ack, err, rty, stall, datr = seen[i]
                if i == owner:
                    exp = (resp[0], (resp[1] if "err" in bfeat else 0) if "err" in ifeat[i] else None,
                           (resp[2] if "rty" in bfeat else 0) if "rty" in ifeat[i] else None,
                           (resp[3] if "stall" in bfeat else 1 - resp[0]) if "stall" in ifeat[i] else None, resp[4])
                else:
                    exp = (0, 0 if "err" in ifeat[i] else None, 0 if "rty" in ifeat[i] else None, 1 if "stall" in ifeat[i] else None, resp[4])
                if seen[i] != exp:
                    fails.append(("C08", f"cycle {t}: initiator {i} ({'owner' if i == owner else 'not owner'}) sees (ack,err,rty,stall,dat_r)={seen[i]}, expected {exp}", t))
            busy = bool(r[0] and ((want["lock"] or r[1]) if "lock" in bfeat else True))
            if owner_prev is not None:
                if busy_prev and owner != owner_prev:
                    fails.append(("C08", f"cycle {t}: ownership moved from {owner_prev} to {owner} while the owner's bus cycle was in progress", t))
                if not busy_prev:
                    nxt = owner_prev
                    for d in range(1, n):
                        p = (owner_prev + d) % n
                        if req_prev[p][0]:
                            nxt = p
                            break
                    if owner != nxt:
                        fails.append(("C09", f"cycle {t}: owner {owner_prev} released, requests {[q[0] for q in req_prev]}: next owner is {owner}, round-robin says {nxt}", t))
                if owner != owner_prev:
                    stats["handovers"] += 1
            # step-wise correspondence: the model is asked for the outputs and the next owner of the
            # state observed on the real hardware (owner by address tag); C08 compares the data path
            # and "no change while busy", C09 the next owner after a release
            lines.append(f"cyc {owner} " + cyc_payload)
            pending.append((bus_str, ' , '.join(outs), busy))
            if len(pending) >= 2:
                pb, po, pbusy = pending[-2]
                if case["prop"] == "C08":
                    obs.append(f"{pb} | {po} | {owner if pbusy else '-'}")
                else:
                    obs.append(f"{'-' if pbusy else owner}")
            # C09, finite form (Lean: ArbF.served_within_n_minus_one): an initiator that has been requesting in every
            # cycle of [t0, t] without owning the bus in any of them has seen at most N-2 free-bus cycles in [t0, t)
            for j in range(n):
                if reqs[j][0] and j != owner:
                    if wait_free[j] >= n - 1:
                        fails.append(("C09", f"cycle {t}: initiator {j} has requested through {wait_free[j]} releases of the bus (N-1 = {n - 1}) without being served", t))
                    stats["wait_checks"] += 1
                    stats["waited_to_the_bound"] += (wait_free[j] == n - 2 and n >= 3)      # the bound N-2 is reached
                    wait_free[j] += 0 if busy else 1
                else:
                    wait_free[j] = 0
            others = any(reqs[p][0] for p in range(n) if p != owner)
            if busy and others: stats["busy_with_waiter"] += 1
            if not busy and others: stats["free_with_waiter"] += 1
            owner_prev, busy_prev, req_prev = owner, busy, reqs
            await ctx.tick()

    sim.add_testbench(tb)
    sim.run()
    lines.pop()                 # the last cycle has no observed successor
    lines.append("end")
    return {"lines": lines, "obs": obs, "fails": fails, "stats": stats, "key": "|".join(lines[:n + 1]) + style + str(case["idx"]),
            "descr": f"n={n} dw={dw} gran={gran} bus={sorted(bfeat)} intr={[sorted(f) for f in ifeat]} style={style}"}


def mask_c08(line):
    p = line.split(" | ")
    if len(p) != 3:
        return line
    busy, nxt = p[0].split()
    return f"{p[1]} | {p[2]} | {nxt if busy == '1' else '-'}"


def mask_c09(line):
    p = line.split(" | ")
    if len(p) != 3:
        return line
    busy, nxt = p[0].split()
    return '-' if busy == '1' else nxt
