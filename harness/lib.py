"""Shared machinery of the checks: build/audit of the Lean side, the driver pipe, case running,
decision logic, evidence and replay files.  Run with /venv/bin/python (amaranth + /repo)."""
import os, sys, json, time, subprocess, random, re, hashlib, traceback, warnings
import multiprocessing as mp

warnings.simplefilter("ignore")

VERIF = os.path.dirname(os.path.dirname(os.path.abspath(__file__)))
REPO = os.environ.get("VERIF_REPO", "/repo")
LEAN = os.path.join(VERIF, "lean")
OUT = os.environ.get("VERIF_OUT", VERIF)          # where evidence/ and replays/ are written (tools/matrix.py redirects it)
DRIVER = os.path.join(LEAN, ".lake", "build", "bin", "driver")
GUARD = "AMARANTH_SOC_VERIF"
os.environ[GUARD] = "1"
if REPO not in sys.path:
    sys.path.insert(0, REPO)

ALLOWED_AXIOMS = {"propext", "Classical.choice", "Quot.sound"}
NPROC = int(os.environ.get("VERIF_JOBS", "16"))


class Infra(Exception):
    """infrastructure failure: exit 2, never a VIOLATION"""


def seed_of():
    try:
        return int(os.environ.get("VERIF_SEED", "0"))
    except ValueError:
        return 0


def rng_for(seed, idx, salt=0):
    return random.Random(seed * 1_000_003 + idx * 7919 + salt)


# ---------------------------------------------------------------------------------------------
# Lean side
# ---------------------------------------------------------------------------------------------
def sh(cmd, cwd=None, timeout=3600, input=None):
    env = dict(os.environ)
    p = subprocess.run(cmd, cwd=cwd, capture_output=True, text=True, timeout=timeout, input=input, env=env)
    return p.returncode, p.stdout, p.stderr


def lake_build(targets=("SocVerif", "driver")):
    """returns (ok, log). A failure is a broken proof obligation (when caused by Generated/*)
    or an infrastructure problem; the caller decides."""
    t0 = time.time()
    rc, out, err = sh(["lake", "build", *targets], cwd=LEAN)
    log = "\n".join(l for l in (out + err).splitlines() if "conda" not in l)
    return rc == 0, log, time.time() - t0


HYGIENE_RE = re.compile(r"\b(sorry|admit|native_decide|bv_decide|implemented_by|unsafe)\b|^\s*axiom\s|maxHeartbeats\s+0")


def strip_comments(text):
    # remove /- ... -/ (nested not needed) and -- comments
    text = re.sub(r"/-.*?-/", "", text, flags=re.S)
    return "\n".join(l.split("--")[0] for l in text.splitlines())


def hygiene():
    bad = []
    for root, _, files in os.walk(os.path.join(LEAN, "SocVerif")):
        for f in files:
            if f.endswith(".lean"):
                p = os.path.join(root, f)
                for n, line in enumerate(strip_comments(open(p).read()).splitlines(), 1):
                    if HYGIENE_RE.search(line):
                        bad.append(f"{os.path.relpath(p, LEAN)}:{n}: {line.strip()[:80]}")
    return bad


def audit(prop, theorems, imports):
    """`#print axioms` for every registered theorem; returns {theorem: [axioms]} ; raises Infra if
    the audit file does not check; a theorem with a forbidden axiom is reported by the caller."""
    os.makedirs(os.path.join(LEAN, "Audit"), exist_ok=True)
    path = os.path.join(LEAN, "Audit", f"{prop}.lean")
    src = "".join(f"import {m}\n" for m in imports) + "".join(f"#print axioms {t}\n" for t in theorems)
    with open(path, "w") as f:
        f.write(src)
    rc, out, err = sh(["lake", "env", "lean", path], cwd=LEAN, timeout=900)
    text = out + err
    res = {}
    # "'X' depends on axioms: [a, b]"  or "'X' does not depend on any axioms"
    for m in re.finditer(r"'([^']+)' depends on axioms: \[([^\]]*)\]", text.replace("\n", " ")):
        res[m.group(1)] = [a.strip() for a in m.group(2).split(",") if a.strip()]
    for m in re.finditer(r"'([^']+)' does not depend on any axioms", text):
        res[m.group(1)] = []
    missing = [t for t in theorems if t not in res]
    return res, missing, text if (rc != 0 or missing) else ""


def run_driver(kind, lines, timeout=1800):
    if not os.path.exists(DRIVER):
        raise Infra(f"driver executable missing: {DRIVER} (run ./setup.sh)")
    p = subprocess.run([DRIVER, kind], input="\n".join(lines) + "\n", capture_output=True, text=True,
                       timeout=timeout)
    if p.returncode != 0:
        raise Infra(f"driver {kind} exited {p.returncode}: {p.stderr[:500]}")
    return p.stdout.rstrip("\n").split("\n") if p.stdout.strip() else []


def split_cases(out_lines):
    """driver output is a flat list; cases are terminated by an `end` line"""
    cases, cur = [], []
    for l in out_lines:
        if l == "end":
            cases.append(cur)
            cur = []
        else:
            cur.append(l)
    return cases


# ---------------------------------------------------------------------------------------------
# parallel map with per-case timeout protection
# ---------------------------------------------------------------------------------------------
def peek_map(mm, seed_tuple, p=0.3):
    """usage variation (own random stream): the caller looks at a memory map the way interactive code does —
    the first item or two of a listing, then stops — before going on to use the map. A query, complete or not,
    changes nothing."""
    r = random.Random(hash(tuple(seed_tuple)) & 0xffffffff)
    if r.random() >= p:
        return False
    for q in r.sample(["resources", "windows", "all_resources", "window_patterns"], r.randint(1, 3)):
        try:
            it = iter(getattr(mm, q)())
            for _ in range(r.randint(1, 2)):
                next(it, None)
        except AssertionError:
            pass
    return True


def bits(rnd, w):
    """`w` random bits, biased towards the values a uniform draw never hits when `w` is large: about a
    third of the draws are 0, all ones, 1, only the top bit, or an alternating pattern. Consumes the
    random stream exactly like `rnd.getrandbits(w)` (the choice is derived from the drawn value)."""
    v = rnd.getrandbits(w)
    if w < 2:
        return v
    h = (v * 2654435761 + w * 40503) >> 5
    if h % 10 >= 3:
        return v
    full = (1 << w) - 1
    return (0, full, 1, 1 << (w - 1), full // 3)[(h // 10) % 5]


def from_code_under_test(e):
    """the exception passed through amaranth_soc and was not raised by a harness frame"""
    tb = traceback.extract_tb(e.__traceback__)
    inner = tb[-1].filename if tb else ""
    if isinstance(e, AttributeError) and type(getattr(e, "obj", None)).__module__.split(".")[0] in ("amaranth_soc", "amaranth"):
        return True          # an object the library built lacks a member the harness reads (e.g. one its feature set promises)
    if inner.startswith(VERIF):
        return False
    # raised below a library frame, or by Amaranth itself when the harness touches an object the library
    # built (e.g. an optional interface member that the feature set promises but the object lacks)
    return any(f.filename.startswith(REPO + "/amaranth_soc") for f in tb) or "/amaranth/" in inner


def _call(args):
    fn, a = args
    try:
        return fn(*a)
    except Exception as e:
        tb = traceback.extract_tb(e.__traceback__)
        inner = tb[-1].filename if tb else ""
        if from_code_under_test(e):
            # raised inside the code under test while a scenario was being built or run: the scenario is
            # unusable (the defect belongs to whichever property covers that code), not a harness crash
            return {"skip": True, "code_exception": f"{type(e).__name__}: {str(e)[:160]} at {os.path.basename(inner)}:{tb[-1].lineno}",
                    "fails": [], "stats": {}, "lines": [], "obs": []}
        # an exception in harness code is infrastructure, reported upstream
        return {"harness_error": f"{type(e).__name__}: {e}", "tb": traceback.format_exc()[-1500:]}


def unusable_guard(rep, prop, results, what):
    """scenarios that raised inside the code under test: dropped; if they are more than a fifth of the
    run, the property is reported as no longer shown to hold"""
    bad = [r for r in results if r.get("code_exception")]
    if bad and len(bad) * 5 > len(results):
        rep.violation({"kind": "correspondence", "note": f"{len(bad)} of {len(results)} {what} raised inside the code under test",
                       "exception": bad[0]["code_exception"]}, False,
                      f"{prop}: {len(bad)} of {len(results)} {what} raise inside the code under test ({bad[0]['code_exception']}); "
                      f"the property could not be exercised on them")
    return [r for r in results if not r.get("code_exception")], len(bad)


def pmap(fn, arglist, procs=None):
    procs = procs or NPROC
    if procs <= 1 or len(arglist) <= 1:
        return [_call((fn, a)) for a in arglist]
    ctx = mp.get_context("fork")
    with ctx.Pool(min(procs, len(arglist))) as pool:
        return pool.map(_call, [(fn, a) for a in arglist], chunksize=max(1, len(arglist) // (procs * 8)))


# ---------------------------------------------------------------------------------------------
# findings, evidence, replays
# ---------------------------------------------------------------------------------------------
def known_findings(prop):
    p = os.path.join(VERIF, "known_findings.json")
    if not os.path.exists(p):
        return []
    return [e for e in json.load(open(p)).get("findings", []) if e.get("property") == prop and e.get("status") == "known"]


def write_replay(prop, obj):
    d = os.path.join(OUT, "replays")
    os.makedirs(d, exist_ok=True)
    blob = json.dumps(obj, indent=1, sort_keys=True, default=str)
    h = hashlib.sha1(blob.encode()).hexdigest()[:10]
    path = os.path.join(d, f"{prop}_{h}.json")
    with open(path, "w") as f:
        f.write(blob)
    return os.path.relpath(path, OUT)


class Report:
    """collects what one check run covered and decides the exit code"""

    def __init__(self, prop, tier, seed):
        self.prop, self.tier, self.seed = prop, tier, seed
        self.t0 = time.time()
        self.violations = []      # (replay_path, found_failing_input: bool, summary)
        self.known_hits = []
        self.coverage = {}
        self.assumptions = []
        self.level = "proof"
        self.escalation = 1

    def scale(self, n):
        """number of generated cases: the quick tier looks harder when the code this property's model
        mirrors differs from the tree the model was validated on (see harness/anchors.py)"""
        return n * self.escalation if self.tier == "quick" else n

    def violation(self, replay_obj, failing_input_found, summary):
        replay_obj = dict(replay_obj)
        replay_obj.setdefault("property", self.prop)
        replay_obj.setdefault("seed", self.seed)
        replay_obj["failing_input_found"] = failing_input_found
        replay_obj["summary"] = summary
        # known findings turn exactly the matching violation into a KNOWN-FINDING line
        for k in known_findings(self.prop):
            if k.get("match") and all(replay_obj.get("match", {}).get(a) == b for a, b in k["match"].items()):
                self.known_hits.append(k)
                return
        path = write_replay(self.prop, replay_obj)
        self.violations.append((path, failing_input_found, summary))

    def finish(self):
        ev = {
            "property_id": self.prop, "tier": self.tier, "seed": self.seed, "level": self.level,
            "coverage": self.coverage, "assumptions": self.assumptions,
            "wall_s": round(time.time() - self.t0, 2), "violations": len(self.violations),
        }
        os.makedirs(os.path.join(OUT, "evidence"), exist_ok=True)
        with open(os.path.join(OUT, "evidence", f"{self.prop}.json"), "w") as f:
            json.dump(ev, f, indent=1, sort_keys=True, default=str)
        seen = set()
        for k in self.known_hits:
            key = json.dumps(k.get("match"), sort_keys=True)
            if key not in seen:
                seen.add(key)
                print(f"KNOWN-FINDING: property={self.prop} {k.get('what', '')}")
        for path, found, summary in self.violations[:5]:
            tail = "" if found else " no-failing-input-found"
            print(f"# {summary}")
            print(f"VIOLATION property={self.prop} replay={path}{tail}")
        if self.violations:
            return 1
        print(f"OK property={self.prop} tier={self.tier} seed={self.seed} "
              f"evaluations={self.coverage.get('evaluations')} obligations={self.coverage.get('obligations')}"
              f" wall={ev['wall_s']}s")
        return 0


TRUSTED_BASE = [
    "Lean 4.33.0 kernel; axioms propext, Classical.choice, Quot.sound only (audited by #print axioms on every run)",
    "hand-written Lean model of the Python/Amaranth source, tied to /repo by the correspondence run of this check (sampled inputs)",
    "Amaranth semantics as implemented by amaranth.sim (last assignment wins, Switch/Case first match, comb defaults, sync registers, lib.memory ports)",
    "the harness (generators, observation functions, line protocol, driver parsing)",
]


def proof_gate(rep, prop, theorems, imports):
    """steps 1-3 of every run: build, hygiene, audit. Returns the list of broken obligations
    (empty = all theorems present with permitted axioms). Infra problems raise.
    Only the property's own modules (and the driver) are built, so that a broken generated-facts
    module of another property cannot disturb this one."""
    from . import anchors
    ch = anchors.changed(prop)
    if ch and not os.environ.get("VERIF_NO_ESCALATION"):
        rep.escalation = anchors.FACTOR
    rep.coverage["anchored_source_changed"] = ch
    rep.coverage["case_count_factor"] = rep.escalation
    if os.environ.get("VERIF_SKIP_BUILD") == "1":       # tools/matrix.py: many checks in parallel on scratch copies of /repo
        rep.coverage.update({"obligations": len(theorems), "discharged": len(theorems), "checker_cmd": "(skipped: VERIF_SKIP_BUILD)",
                             "trusted_base": TRUSTED_BASE})
        return []
    ok, log, dt = lake_build(tuple(imports) + ("driver",))
    broken = []
    if not ok:
        # the only part of the Lean tree that depends on /repo is SocVerif/Generated/*
        gen_broken = "Generated/" in log and "error" in log
        if not gen_broken:
            raise Infra("lake build failed outside Generated/*:\n" + log[-3000:])
        errs = [l for l in log.splitlines() if l.startswith("error:")]
        broken.append({"kind": "build", "errors": errs[:10], "log": log[-3000:]})
        rep.coverage.update({"obligations": len(theorems), "discharged": 0,
                             "checker_cmd": "lake build %s driver && lake env lean Audit/%s.lean" % (" ".join(imports), prop),
                             "trusted_base": TRUSTED_BASE, "build_s": round(dt, 1)})
        return broken
    bad = hygiene()
    if bad:
        raise Infra("hygiene: forbidden construct in Lean sources: " + "; ".join(bad[:5]))
    res, missing, text = audit(prop, theorems, imports)
    if missing:
        raise Infra(f"audit: theorems not found {missing}: {text[-1500:]}")
    forbidden = {t: [a for a in ax if a not in ALLOWED_AXIOMS] for t, ax in res.items()}
    forbidden = {t: a for t, a in forbidden.items() if a}
    if forbidden:
        raise Infra(f"audit: forbidden axioms {forbidden}")
    if rep.tier == "thorough":
        # independent re-check of the compiled proofs of this property's modules
        ok_lc, log_lc = leanchecker(list(imports))
        if not ok_lc:
            raise Infra("leanchecker rejected " + " ".join(imports) + ": " + log_lc[-800:])
        rep.coverage["leanchecker"] = "lake env leanchecker " + " ".join(imports) + ": ok"
    rep.coverage.update({
        "obligations": len(theorems), "discharged": len(res),
        "checker_cmd": "lake build %s driver && lake env lean Audit/%s.lean" % (" ".join(imports), prop),
        "trusted_base": TRUSTED_BASE, "axioms": {t: sorted(a) for t, a in res.items()},
        "build_s": round(dt, 1),
    })
    return broken


def leanchecker(modules):
    rc, out, err = sh(["lake", "env", "leanchecker", *modules], cwd=LEAN, timeout=3600)
    return rc == 0, (out + err)[-2000:]
