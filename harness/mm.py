"""MemoryMap histories: generator, real-code runner, direct property oracles (C02, C03, C18).

A case is a list of ops (tuples) that is fully determined by (seed, index, profile); the runner
executes it on real `MemoryMap` objects, records one canonical observation line per protocol
line, and evaluates the property statements directly on what the real code answered."""
from . import lib
from amaranth.lib import wiring
from amaranth_soc.memory import MemoryMap, ResourceInfo

BAD = "!"          # an argument the real code must reject (negative / non-integer / malformed)


class Res(wiring.Component):
    def __init__(self):
        super().__init__({})


class EqRes(wiring.Component):
    """distinct resource objects that compare (and hash) equal — two instances of the same peripheral
    register; a memory map tells resources apart by identity"""
    def __init__(self, tag):
        super().__init__({})
        self.tag = tag

    def __eq__(self, other):
        return isinstance(other, EqRes) and other.tag == self.tag

    def __hash__(self):
        return hash(("EqRes", self.tag))


class FalsyRes(wiring.Component):
    """a resource object whose truth value is False (a container-like component that is empty)"""
    def __init__(self):
        super().__init__({})

    def __len__(self):
        return 0


def enc_name(n):
    if n is None:
        return "-"
    if n == BAD:
        return BAD
    if isinstance(n, str):
        n = (n,)
    return ",".join(("i:%d" % p) if isinstance(p, int) else ("s:" + p) for p in n)


def o(x):
    return "-" if x is None else str(x)


PARTS = ["a", "b", "0", 0, 1]


def gen_name(rnd, wide=False):
    if wide:
        return ("r%d" % rnd.randrange(10 ** 6),)
    return tuple(rnd.choice(PARTS) for _ in range(rnd.choice([1, 1, 2, 2, 3, 4])))


def bad_py(tok, rnd):
    """a concrete invalid Python argument for the token BAD"""
    return rnd.choice([-1, -5, "x", 1.5, None.__class__])


# ---------------------------------------------------------------------------------------------
# generator
# ---------------------------------------------------------------------------------------------
def exh_alphabet(k):
    """operation alphabet of the bounded-exhaustive profile: every (size, address, alignment) class of
    add_resource on an 8-word map (inside, at the top, past the end, unaligned), align_to, freeze,
    and windows of two widths (named/anonymous, implicit/explicit). Smaller for longer sequences."""
    full = k <= 2
    A = []
    for size in ((0, 1, 2, 3, 8) if full else (0, 1, 3)):
        for addr in ((None, 0, 1, 2, 4, 6, 7, 8) if full else (None, 0, 2, 7)):
            for al in ((None, 1, 2) if full else (None, 1)):
                A.append(("res", size, addr, al))
    for a in ((0, 1, 2) if full else (1,)):
        A.append(("align", a))
    A.append(("freeze",))
    for caw in (1, 2):
        for addr in ((None, 0, 4, 6) if full else (None, 4)):
            for anon in (0, 1):
                A.append(("win", caw, addr, anon))
    if full:
        for addr in (None, 0, 2, 4):          # dense windows: a 4-bit-wide child of 8 / 16 words seen through ratio 2
            for caw in (3, 4):
                A.append(("dwin", caw, addr))
    return A


def gen_exh(idx, k):
    """case `idx` of the bounded-exhaustive enumeration: all operation sequences of length k over
    `exh_alphabet(k)` on a root map of 8 words, map alignment 0 or 1 (top digit)"""
    A = exh_alphabet(k)
    digits = []
    x = idx
    for _ in range(k):
        digits.append(x % len(A))
        x //= len(A)
    ral = x % 2
    ops = [("new", 0, 3, 8, ral)]
    nmaps, nres = 1, 0
    for j, d in enumerate(digits):
        a = A[d]
        if a[0] == "res":
            ops.append(("res", 0, nres, (f"n{j}",), a[1], a[2], a[3]))
            nres += 1
        elif a[0] == "align":
            ops.append(("align", 0, a[1]))
        elif a[0] == "freeze":
            ops.append(("freeze", 0))
        elif a[0] == "dwin":
            ch = nmaps
            nmaps += 1
            ops.append(("new", ch, a[1], 4, 1))
            ops.append(("res", ch, nres, (f"c{j}",), 2, None, None))
            nres += 1
            ops.append(("win", 0, ch, (f"w{j}",), a[2], False))
        else:
            ch = nmaps
            nmaps += 1
            ops.append(("new", ch, a[1], 8, 0))
            ops.append(("res", ch, nres, (f"c{j}",), 1, None, None))
            nres += 1
            ops.append(("win", 0, ch, None if a[3] else (f"w{j}",), a[2], None))
    return {"ops": ops, "profile": "alloc", "nres": nres + 3, "root": 0}


def exh_count(k):
    return 2 * len(exh_alphabet(k)) ** k


def exh_names(k):
    parts = ["a", "b", "0", 0, 1] if k <= 2 else ["a", "0", 0]
    return [(x,) for x in parts] + [(x, y) for x in parts for y in parts]


def gen_exh_names(idx, k):
    """bounded-exhaustive C18 histories: all sequences of length k of {resource named n, named window
    n, anonymous window whose map holds a resource named n} over every name of length <= 2 on a small
    adversarial alphabet, in one roomy root map"""
    N = exh_names(k)
    base = 3 * len(N)
    ops = [("new", 0, 20, 8, 0)]
    nmaps, nres, x = 1, 0, idx
    for j in range(k):
        d = x % base
        x //= base
        kind, nm = d // len(N), N[d % len(N)]
        if kind == 0:
            ops.append(("res", 0, nres, nm, 1, None, None))
            nres += 1
        else:
            ch = nmaps
            nmaps += 1
            ops.append(("new", ch, 4, 8, 0))
            ops.append(("res", ch, nres, nm if kind == 2 else ("inner",), 1, None, None))
            nres += 1
            ops.append(("win", 0, ch, nm if kind == 1 else None, None, None))
    ops.append(("all", 0))
    return {"ops": ops, "profile": "names", "nres": nres + 3, "root": 0}


def exh_names_count(k):
    return (3 * len(exh_names(k))) ** k


def gen_case(seed, idx, profile, k=None):
    """profile: 'alloc' (C02), 'tree' (C03), 'names' (C18), 'exh' (C02, bounded-exhaustive, length k)"""
    if profile == "exh":
        return gen_exh(idx, k)
    if profile == "exhnames":
        return gen_exh_names(idx, k)
    rnd = lib.rng_for(seed, idx, {"alloc": 11, "tree": 22, "names": 33}[profile])
    rnd2 = lib.rng_for(seed, idx, {"alloc": 12, "tree": 23, "names": 34}[profile])   # later additions draw from their own stream
    ops = []
    nmaps = [0]
    nres = [0]
    unique_names = profile == "alloc" or (profile == "tree" and rnd.random() < 0.8)
    ucount = [0]
    big = profile == "alloc" and rnd.random() < 0.15

    def new(aw, dw, al):
        h = nmaps[0]
        nmaps[0] += 1
        ops.append(("new", h, aw, dw, al))
        return h

    used_names = []

    deep_pool = [("bank", 0, x) for x in ("ctrl", "data", "stat", 0, 1)] + [("bank", 0, "ctrl", "lo"), ("bank", 1, "ctrl"), ("bank", 0)]

    def name():
        if profile == "names" and rnd2.random() < 0.15:
            return rnd2.choice(deep_pool)        # long names that share their first two parts
        if unique_names:          # C02/C03 histories: naming (almost) never decides acceptance
            ucount[0] += 1
            nm = ("n%d" % ucount[0],) if rnd.random() < 0.7 else ("n%d" % ucount[0], rnd.randrange(3))
            if profile == "alloc" and used_names and rnd2.random() < 0.05:
                return rnd2.choice(used_names)        # … except now and then: a call refused for its NAME must not leave its range behind
            used_names.append(nm)
            return nm
        return gen_name(rnd)

    shared = []          # (child handle, sparse) of maps already used as a window once

    bigtree = profile == "tree" and rnd2.random() < 0.08
    def populate(h, aw, dw, al, depth):
        nops = rnd.randint(2, 9 if profile != "alloc" else 14)
        for _ in range(nops):
            if profile in ("names", "tree") and shared and rnd2.random() < 0.12:
                # one (frozen) map may be the window of several parents, anonymously too: the names it
                # brings along are the same everywhere, and nothing flows back into it
                fits = [(c, sp) for c, sp, caw_, pdw in shared if caw_ <= aw - 4 and pdw == dw]
                if fits:
                    c, sp = rnd2.choice(fits)
                    ops.append(("win", h, c, None if (rnd2.random() < 0.6 and profile == "names") else name(), None, sp))
            if rnd2.random() < 0.12:
                ops.append(("touch", h))         # pure queries in the middle of a history must change nothing
            kinds = ["res"] * 5 + ["align"]
            if depth > 0:
                kinds += ["win"] * (4 if profile == "tree" else 2)
            if profile == "alloc":
                kinds += ["align", "freeze", "handoff", "badres"]
            k = rnd.choice(kinds)
            if k == "freeze":
                if rnd.random() < 0.15:
                    ops.append(("freeze", h))
            elif k == "handoff":
                if rnd.random() < 0.15:
                    ops.append(("handoff", h, rnd.choice(["periph", "bridge"])))
            elif k == "align":
                ops.append(("align", h, rnd.choice([0, 1, 2, 3, BAD]) if profile == "alloc" else rnd.randint(0, 3)))
            elif k in ("res", "badres"):
                rid = nres[0]
                nres[0] += 1
                if rnd.random() < 0.05 and rid > 0:
                    rid = rnd.randrange(rid)          # try to add an object again
                hi = 1 << aw
                size = rnd.choice([0, 1, 1, 2, 3, 4, 5, 8, hi, hi // 2 or 1])
                if profile == "names":
                    size = 1
                if rnd.random() < 0.55 or profile == "names":
                    addr = None
                else:
                    addr = rnd.choice([rnd.randrange(0, hi + 2), rnd.randrange(0, hi, 1 << al),
                                       rnd.randrange(0, hi, 1 << al), max(0, hi - size)])
                pal = rnd.choice([None, None, 0, 1, 2, 3]) if profile != "names" else None
                if profile == "names" and rnd2.random() < 0.12:
                    pal = rnd2.choice([1, 2, 3])        # a refused name must not move the placement cursor either
                nm = name()
                if k == "badres":
                    which = rnd.choice(["size", "addr", "al", "name"])
                    if which == "size": size = BAD
                    elif which == "addr": addr = BAD
                    elif which == "al": pal = BAD
                    else: nm = BAD
                ops.append(("res", h, rid, nm, size, addr, pal))
            else:
                caw = rnd.randint(1, aw) if profile != "names" else max(2, aw - 4)
                mode = rnd.random() if profile != "names" else rnd.random() * 0.75
                if bigtree and aw > 54:
                    caw = rnd2.randint(54, aw - 1)          # a large window high up, mostly dense
                    mode = 0.9 if rnd2.random() < 0.6 else mode
                leaf = False
                if mode < 0.55:
                    cdw, cal, sparse = dw, rnd.choice([0, 0, 1, 2]), rnd.choice([None, None, True, False])
                    if profile == "names":
                        cal = 0
                elif mode < 0.75:
                    cdw = rnd.choice([x for x in (1, 2, 4, 8, 16) if x < dw] or [dw])
                    cal, sparse = rnd.choice([0, 1]), rnd.choice([True, True, None])
                else:
                    ratio = rnd.choice([2, 4, 8])
                    if dw % ratio:
                        continue
                    cdw, cal, sparse, leaf = dw // ratio, rnd.choice([1, 2, 3, 3]), False, True
                    if profile == "tree" and (1 << cal) < ratio and rnd.random() < 0.8:
                        cal = ratio.bit_length() - 1
                ch = new(caw, cdw, cal)
                populate(ch, caw, cdw, cal, 0 if leaf else depth - 1)
                wname = None if rnd.random() < 0.4 else name()
                if rnd.random() < 0.6 or profile == "names":
                    waddr = None
                else:
                    waddr = rnd.choice([rnd.randrange(0, 1 << aw), (rnd.randrange(0, 1 << aw) >> caw) << caw])
                if profile == "names" and rnd.random() < 0.2:
                    # first an attempt that fails for an address reason, then the same window (same name)
                    # again: the refused call must not have reserved anything
                    ops.append(("win", h, ch, wname, (1 << aw) - (1 << max(0, caw - 1)), sparse))
                    if rnd2.random() < 0.5 and caw >= 6:
                        # the refused child is still open: it may absorb another anonymous window before the retry
                        g = new(caw - 4, cdw, 0)
                        rid = nres[0]
                        nres[0] += 1
                        ops.append(("res", g, rid, gen_name(rnd2), 1, None, None))
                        ops.append(("win", ch, g, None, None, None))
                ops.append(("win", h, ch, wname, waddr, sparse))
                shared.append((ch, sparse, caw, dw))
                if rnd.random() < 0.1:
                    ops.append(("win", h, ch, name(), None, sparse))   # add the same window again
                if rnd2.random() < 0.3:
                    # a map used as a window (named or anonymous) is frozen: adding to it afterwards must be refused
                    rid = nres[0]
                    nres[0] += 1
                    ucount[0] += 1
                    ops.append(("res", ch, rid, ("late%d" % ucount[0],) if profile != "names" else gen_name(rnd2), 1, None, None))
                if profile == "alloc" and waddr is not None and mode >= 0.75 and rnd2.random() < 0.5:
                    # the last addresses of a dense window's span belong to the window too
                    rid = nres[0]
                    nres[0] += 1
                    ucount[0] += 1
                    span = max(1, (1 << caw) // ratio)
                    ops.append(("res", h, rid, ("tail%d" % ucount[0],), 1, waddr + span - 1 - rnd2.randrange(min(span, ratio - 1) or 1), None))

    if bigtree:
        aw = rnd2.choice([56, 60, 64])
    elif big:
        aw = rnd.choice([16, 32, 64])
    elif profile == "names":
        aw = 20
    else:
        aw = rnd.randint(2, 8)
    dw = rnd.choice([8, 16, 32])
    al = rnd.choice([0, 0, 1, 2]) if profile != "names" else 0
    root = new(aw, dw, al)
    populate(root, aw, dw, al, 3 if profile != "alloc" else 2)
    if profile == "names" and rnd2.random() < 0.04:
        # many names in one map (more than 32), then every one of them offered again: all must be refused
        k = rnd2.choice([33, 34, 40, 65])
        for j in range(k):
            ops.append(("res", root, nres[0], ("many", j), 1, None, None)); nres[0] += 1
        for j in range(k):
            ops.append(("res", root, nres[0], ("many", j), 1, None, None)); nres[0] += 1
    if profile == "names":
        ops.append(("all", root))
    if profile == "tree":
        ops.append(("dump", root))
        ops.append(("all", root))
        if aw <= 10:
            ops.append(("decodeall", root))
        else:
            ops.append(("probes", root))
        for rid in range(nres[0]):
            ops.append(("find", root, rid))
        for extra in range(3):
            ops.append(("find", root, nres[0] + extra))       # never-added objects
    return {"ops": ops, "profile": profile, "nres": nres[0] + 3, "root": root}


# ---------------------------------------------------------------------------------------------
# real-code runner + oracles
# ---------------------------------------------------------------------------------------------
def classify(e):
    if isinstance(e, (ValueError, TypeError)):
        return "refused"
    return "internal:" + type(e).__name__


def align_up(v, a):
    m = 1 << a
    return v if v % m == 0 else v + (m - v % m)


def run_impl(case):
    ops = case["ops"]
    rnd = lib.random.Random(1)
    maps, keep = {}, []
    eqr = lib.random.Random(case["nres"] * 7919 + len(ops))
    def mkobj():
        x = eqr.random()
        if case["profile"] == "tree" and x < 0.3:
            return EqRes(eqr.randrange(3))
        if x > 0.9:
            return FalsyRes()
        return Res()
    objs = [mkobj() for _ in range(case["nres"])]
    ids = {id(x): i for i, x in enumerate(objs)}
    # ---- usage style of this case (own random stream; the generated operations and the model's lines are the same
    # under every style): queries left out between additions, queries consumed only partly, addresses decoded
    # before later additions cover them, name parts spelled as bool / str-enum members or a 1-tuple as a string
    us = lib.random.Random(case["nres"] * 104729 + len(ops) * 31 + 5)
    style = {"sparse": us.random() < 0.3, "peek": us.random() < 0.4, "watch": us.random() < 0.4, "spell": us.random() < 0.3}
    watch = {}       # h -> addresses decoded after every operation (C03: also BEFORE an addition covers them)
    quiet = [False]

    def spell(nm):
        if not style["spell"] or nm is None or nm == BAD or isinstance(nm, str):
            return nm
        parts = []
        for p_ in nm:
            x = us.random()
            if isinstance(p_, int) and not isinstance(p_, bool) and p_ in (0, 1) and x < .4:
                parts.append(bool(p_))
            elif isinstance(p_, str) and x < .4:
                parts.append(_str_member(p_))
            else:
                parts.append(p_)
        if len(parts) == 1 and isinstance(parts[0], str) and us.random() < .3:
            return parts[0]
        return tuple(parts)

    def peek(h):
        m = maps[h]
        for q in us.sample([m.resources, m.windows, m.all_resources, m.window_patterns], us.randint(1, 3)):
            try:
                it = iter(q())
                for _ in range(us.randint(1, 2)):
                    next(it, None)
            except AssertionError:
                pass

    def watch_check(h, where):
        m = maps[h]
        try:
            infos = list(m.all_resources())
        except AssertionError:
            return
        w = watch.setdefault(h, [0])
        for a in w:
            if not 0 <= a < (1 << m.addr_width):
                continue
            d = m.decode_address(a)
            own = [i for i in infos if i.start <= a < i.end]
            if (d is None) != (not own) or (own and d is not own[0].resource):
                fails.append(("C03", f"{where}: decode_address({a}) = {'-' if d is None else ids.get(id(d), '?')} but all_resources() says "
                                     f"{[ids.get(id(i.resource), '?') for i in own]} (the address had been decoded before the last additions)", len(obs)))
        nxt = m.align_to(0)
        for a in (nxt, nxt + 1, us.randrange(1 << min(m.addr_width, 12))):
            if a not in w:
                w.append(a)
        del w[:-6]
        for a in w:                          # decode now, so that the next operation happens AFTER these lookups
            if 0 <= a < (1 << m.addr_width):
                m.decode_address(a)
    lines, obs, fails = ["case"], [], []
    stats = {"ops": 0, "refused": 0, "inserted_not_last": 0, "win": 0, "dense": 0, "anon": 0,
             "depth2": 0, "win_not_at_0": 0, "conf_eq": 0, "conf_prefix": 0, "conf_ext": 0,
             "absorb": 0, "legal_accept": 0}
    # oracle state
    handed = {}      # h -> list of dict(kind,id,start,end)
    cursor = {}      # h -> expected implicit cursor (C02)
    frozen = {}
    visible = {}     # h -> set of names visible in map h (C18)
    wchild = {}

    def fmt_all(m):
        return "all " + " ".join(
            f"{ids[id(i.resource)]}@{'/'.join(enc_name(tuple(p)) for p in i.path)}:{i.start}-{i.end}w{i.width}"
            for i in m.all_resources())

    def fmt_res(m):
        return "resources " + " ".join(f"{ids.get(id(r), '?')}@{enc_name(tuple(n))}:{s}-{e}" for r, n, (s, e) in m.resources())

    def fmt_win(m, h):
        return "windows " + " ".join(
            f"{wchild.get((h, id(w)), '?')}@{enc_name(None if n is None else tuple(n))}:{s}-{e}/{r}"
            for w, n, (s, e, r) in m.windows())

    def snapshot(h):
        if quiet[0]:
            return None                # this operation is made without looking at the map before or after
        m = maps[h]
        return (fmt_res(m), fmt_win(m, h))

    profile = case["profile"]
    win_order = {}   # h -> child handles in insertion order

    def emit(line, ob):
        if profile == "tree" and not line.split()[0] in ("map", "r", "w", "order", "all", "decodeall", "find"):
            return                    # C03 compares lookups over the dumped structure only
        if profile == "names":
            ob = mask_names(ob)
        lines.append(line)
        if not line.split()[0] in ("map", "r", "w", "order"):
            obs.append(ob)

    def probe(h):
        if style["peek"] and us.random() < .2:
            peek(h)
        if style["watch"] and profile != "names":
            watch_check(h, "after an operation")
        if profile != "alloc" or quiet[0]:
            return
        m = maps[h]
        emit(f"align {h} 0", f"ok {m.align_to(0)}")
        emit(f"resources {h}", fmt_res(m))
        emit(f"windows {h}", fmt_win(m, h))

    def related(a, b):
        k = min(len(a), len(b))
        return tuple(a[:k]) == tuple(b[:k])

    for op in ops:
        kind = op[0]
        stats["ops"] += 1
        quiet[0] = style["sparse"] and profile == "alloc" and kind in ("res", "win") and us.random() < .6
        if kind == "new":
            _, h, aw, dw, al = op
            maps[h] = MemoryMap(addr_width=aw, data_width=dw, alignment=al)
            handed[h], cursor[h], frozen[h], visible[h] = [], 0, False, set()
            emit(f"new {aw} {dw} {al}", f"ok {h}")
        elif kind == "res":
            _, h, rid, nm, size, addr, pal = op
            m = maps[h]
            before = snapshot(h)
            cur_before = m.align_to(0)
            py = lambda x: bad_py(x, rnd) if x == BAD else x
            pname = 7 if nm == BAD else nm
            emit_line = f"res {h} {rid} {enc_name(nm)} {o(size)} {o(addr)} {o(pal)}"
            try:
                kw = {}
                if pal is not None:
                    kw["alignment"] = py(pal)
                s, e = m.add_resource(objs[rid], name=spell(pname) if pname != 7 else pname, size=py(size), addr=py(addr), **kw)
                res = f"ok {s} {e}"
            except Exception as ex:
                res = classify(ex)
                if "frozen" in str(ex) and not frozen[h] and res == "refused":
                    fails.append(("C02", "a map that was never frozen, used as a window or handed over refuses an addition as frozen "
                                         "(an earlier refused call froze it)", len(obs) + 1))
            emit(emit_line, res)
            # ---- oracles
            if res.startswith("ok"):
                eff = m.alignment if pal is None else max(pal, m.alignment)
                want = align_up(max(size, 1), eff)
                if e - s != want:
                    fails.append(("C02", f"size: resource got {e - s}, requested {size} at alignment {eff} → {want}", len(obs)))
                if addr is None:
                    exp = align_up(cursor[h], eff)
                    if s != exp:
                        fails.append(("C02", f"first-fit: implicit resource at {s}, cursor {cursor[h]} alignment {eff} → {exp}", len(obs)))
                elif s != addr:
                    fails.append(("C02", f"explicit address {addr} not honoured: got {s}", len(obs)))
                if e > (1 << m.addr_width):
                    fails.append(("C02", f"range {s}..{e} outside 2^{m.addr_width}", len(obs)))
                for it in handed[h]:
                    if it["start"] < e and s < it["end"]:
                        fails.append(("C02", f"overlap: {s}..{e} with {it}", len(obs)))
                if frozen[h]:
                    fails.append(("C02", "frozen map accepted a resource", len(obs)))
                if any(it["start"] > s for it in handed[h]):
                    stats["inserted_not_last"] += 1
                handed[h].append({"kind": "res", "id": rid, "start": s, "end": e})
                cursor[h] = e
                if nm != BAD:
                    if any(related(nm, v) for v in visible[h]):
                        fails.append(("C18", f"name {nm} accepted although related to a visible name", len(obs)))
                    visible[h].add(tuple(nm))
                    stats["legal_accept"] += 1
            else:
                if res == "refused":
                    stats["refused"] += 1
                if snapshot(h) != before or m.align_to(0) != cur_before:
                    fails.append(("C02", "refused add_resource changed the map", len(obs)))
                    if profile == "names":
                        fails.append(("C18", f"add_resource refused for the name {nm} changed the map (contents or the next implicit address)", len(obs)))
                if (profile == "names" and res == "refused" and nm != BAD and BAD not in (size, addr, pal)
                        and not frozen[h] and not any(it["kind"] == "res" and it["id"] == rid for it in handed[h])
                        and not any(related(nm, v) for v in visible[h])):
                    fails.append(("C18", f"legal name {nm} refused (visible: {sorted(visible[h], key=str)[:6]})", len(obs)))
                if nm != BAD and BAD not in (size, addr, pal):
                    for v in visible[h]:
                        if tuple(v) == tuple(nm): stats["conf_eq"] += 1
                        elif related(nm, v) and len(nm) < len(v): stats["conf_prefix"] += 1
                        elif related(nm, v): stats["conf_ext"] += 1
            probe(h)
        elif kind == "touch":
            m = maps[op[1]]
            for q in (m.all_resources, m.resources, m.windows, m.window_patterns):
                try:
                    list(q())
                except AssertionError:
                    pass                 # the dense-window asserts of all_resources(); reported by C03's own queries
            stats["ops"] -= 1
        elif kind == "win":
            _, h, ch, wname, waddr, sparse = op
            m, c = maps[h], maps[ch]
            before = snapshot(h)
            cur_before = m.align_to(0)
            child_frozen_before = getattr(c, "_frozen", None)
            try:
                s, e, r = m.add_window(c, name=spell(wname), addr=waddr, sparse=sparse)
                res = f"ok {s} {e} {r}"
            except Exception as ex:
                res = classify(ex)
            emit(f"win {h} {ch} {enc_name(wname)} {o(waddr)} {'-' if sparse is None else int(sparse)}", res)
            if res.startswith("ok"):
                wchild[(h, id(c))] = ch
                win_order.setdefault(h, []).append(ch)
                stats["win"] += 1
                if r > 1: stats["dense"] += 1
                if wname is None: stats["anon"] += 1
                if s != 0: stats["win_not_at_0"] += 1
                if any(x["kind"] == "win" for x in handed[ch]): stats["depth2"] += 1
                eff = max(m.alignment, c.addr_width // r)
                want = align_up(max((1 << c.addr_width) // r, 1), eff)
                if e - s != want:
                    fails.append(("C02", f"size: window got {e - s}, expected {want}", len(obs)))
                if waddr is None:
                    if r == 1 and s != align_up(cursor[h], eff):
                        fails.append(("C02", f"first-fit: implicit window at {s}, cursor {cursor[h]} alignment {eff}", len(obs)))
                elif s != waddr:
                    fails.append(("C02", f"explicit window address {waddr} not honoured: got {s}", len(obs)))
                if e > (1 << m.addr_width):
                    fails.append(("C02", f"window {s}..{e} outside 2^{m.addr_width}", len(obs)))
                for it in handed[h]:
                    if it["start"] < e and s < it["end"]:
                        fails.append(("C02", f"overlap: window {s}..{e} with {it}", len(obs)))
                if frozen[h]:
                    fails.append(("C02", "frozen map accepted a window", len(obs)))
                if any(it["start"] > s for it in handed[h]):
                    stats["inserted_not_last"] += 1
                handed[h].append({"kind": "win", "id": ch, "start": s, "end": e})
                cursor[h] = e
                frozen[ch] = True
                newnames = [tuple(wname)] if wname is not None else sorted(visible[ch], key=str)
                for q in newnames:
                    if any(related(q, v) for v in visible[h]):
                        fails.append(("C18", f"window name {q} accepted although related to a visible name", len(obs)))
                if wname is None:
                    stats["absorb"] += 1
                visible[h].update(newnames)
            else:
                if res == "refused":
                    stats["refused"] += 1
                if snapshot(h) != before or m.align_to(0) != cur_before:
                    fails.append(("C02", "refused add_window changed the map", len(obs)))
                if child_frozen_before is False and getattr(c, "_frozen", None) is True and not frozen[ch]:
                    fails.append(("C02", "refused add_window half-applied: the window map it was given is left frozen", len(obs)))
                    if profile == "names":
                        fails.append(("C18", f"add_window refused (window name {wname}) changed the map (contents or the next implicit address)", len(obs)))
                qs = [tuple(wname)] if wname is not None else sorted(visible[ch], key=str)
                if (profile == "names" and res == "refused" and not frozen[h] and waddr is None
                        and not any(it["kind"] == "win" and it["id"] == ch for it in handed[h])
                        and (c.data_width == m.data_width or sparse is True)
                        and not any(related(q, v) for q in qs for v in visible[h])):
                    fails.append(("C18", f"legal window name(s) {qs[:4]} refused", len(obs)))
            probe(h)
            # a child handed to a parent must refuse further additions (checked via its own probe)
        elif kind == "align":
            _, h, a = op
            m = maps[h]
            try:
                res = f"ok {m.align_to(bad_py(a, rnd) if a == BAD else a)}"
            except Exception as ex:
                res = classify(ex)
            emit(f"align {h} {a}", res)
            if res.startswith("ok") and a != BAD:
                exp = align_up(cursor[h], max(a, m.alignment))
                if int(res.split()[1]) != exp:
                    fails.append(("C02", f"align_to({a}) returned {res}, expected {exp}", len(obs)))
                cursor[h] = exp
        elif kind == "freeze":
            _, h = op
            maps[h].freeze()
            frozen[h] = True
            emit(f"freeze {h}", "ok")
        elif kind == "handoff":
            _, h, how = op
            m = maps[h]
            try:
                if how == "periph":
                    from amaranth_soc.periph import PeripheralInfo
                    keep.append(PeripheralInfo(memory_map=m))
                else:
                    from amaranth_soc import csr
                    # csr.Bridge validates (no windows, Register resources) and then freezes
                    if list(m.resources()):
                        raise _Skip()
                    keep.append(csr.Bridge(m))
                res = "ok"
                frozen[h] = True
            except _Skip:
                continue
            except Exception as ex:
                res = classify(ex)
            emit(f"handoff {h} {how}", res)
        elif kind == "dump":
            # local structure of every map below the root, children first (C03: the model's
            # traversals run over exactly the structure the real maps report locally)
            done = set()

            def dump(h):
                if h in done:
                    return
                done.add(h)
                m = maps[h]
                ghost = [w for w, n, _ in m.windows() if (h, id(w)) not in wchild]
                if ghost:
                    for lab in ("C02", "C03"):
                        fails.append((lab, f"map {h}: windows() lists {len(ghost)} window(s) that no accepted add_window() call put there "
                                           f"(a call that raised was applied all the same)", len(obs)))
                items = [(s_, 0, r, n) for r, n, (s_, e_) in m.resources()] + \
                        [(s_, 1, w, n) for w, n, (s_, e_, r_) in m.windows() if (h, id(w)) in wchild]
                for _, isw, w, n in items:
                    if isw:
                        dump(wchild[(h, id(w))])
                lines.append(f"map {h} {m.data_width}")
                rs = {id(r): (s_, e_) for r, n, (s_, e_) in m.resources()}
                wsd = {id(w): (s_, e_, r_) for w, n, (s_, e_, r_) in m.windows() if (h, id(w)) in wchild}
                for _, isw, x, n in sorted(items, key=lambda t: t[0]):
                    if isw:
                        s_, e_, r_ = wsd[id(x)]
                        lines.append(f"w {h} {wchild[(h, id(x))]} {enc_name(None if n is None else tuple(n))} {s_} {e_} {r_}")
                    else:
                        s_, e_ = rs[id(x)]
                        lines.append(f"r {h} {ids[id(x)]} {enc_name(tuple(n))} {s_} {e_}")
                lines.append("order " + " ".join(map(str, [h] + win_order.get(h, []))))
            dump(op[1])
        elif kind == "all":
            _, h = op
            try:
                res = fmt_all(maps[h])
            except AssertionError:
                res = "assert"
            emit(f"all {h}", res)
        elif kind == "decodeall":
            _, h = op
            m = maps[h]
            try:
                infos = list(m.all_resources())
            except AssertionError:
                continue
            dec = []
            for a in range(1 << m.addr_width):
                d = m.decode_address(a)
                dec.append("-" if d is None else str(ids[id(d)]))
            emit(f"decodeall {h} {m.addr_width}" if profile == "tree" else f"decodeall {h}", "decodeall " + " ".join(dec))
            # ---- C03 oracle: decode ⇔ reported ranges; sorted; disjoint
            owner = ["-"] * (1 << m.addr_width)
            last_end = 0
            for i in infos:
                if i.start < last_end:
                    fails.append(("C03", f"all_resources not ascending/disjoint at {i.start}", len(obs)))
                last_end = i.end
                for a in range(i.start, min(i.end, len(owner))):
                    owner[a] = str(ids[id(i.resource)])
            if owner != dec:
                a = next(k for k in range(len(owner)) if owner[k] != dec[k])
                fails.append(("C03", f"decode_address({a}) = {dec[a]} but all_resources() says {owner[a]}", len(obs)))
        elif kind == "probes":
            # large address spaces cannot be swept: decode at and around every reported boundary instead
            _, h = op
            m = maps[h]
            try:
                infos = list(m.all_resources())
            except AssertionError:
                continue
            pts = set()
            for i in infos[:40]:
                pts |= {i.start, i.end - 1, i.end, max(0, i.start - 1), (i.start + i.end) // 2}
            for a in sorted(p_ for p_ in pts if 0 <= p_ < (1 << m.addr_width)):
                d = m.decode_address(a)
                emit(f"decode {h} {a}", "decode " + ("-" if d is None else str(ids[id(d)])))
                own = [i for i in infos if i.start <= a < i.end]
                if (d is None) != (not own) or (own and d is not own[0].resource):
                    fails.append(("C03", f"decode_address({a}) = {'-' if d is None else ids[id(d)]} but all_resources() says "
                                         f"{[ids[id(i.resource)] for i in own]}", len(obs)))
        elif kind == "find":
            _, h, rid = op
            m = maps[h]
            try:
                i = m.find_resource(objs[rid])
                res = f"{ids[id(i.resource)]}@{'/'.join(enc_name(tuple(p)) for p in i.path)}:{i.start}-{i.end}w{i.width}"
            except KeyError:
                res = "keyerror"
            except AssertionError:
                res = "assert"
                try:
                    list(m.all_resources())
                except AssertionError:
                    continue            # the dense-window asserts of the library (contents not a multiple of the ratio): the
                                        # listing asserts in the same way (compared by the `all` query); nothing to look up
            emit(f"find {h} {rid}", res)
            try:
                infos = [x for x in m.all_resources() if x.resource is objs[rid]]
            except AssertionError:
                infos = None
            if infos is not None and res != "assert":
                allf = [f"{ids[id(x.resource)]}@{'/'.join(enc_name(tuple(p)) for p in x.path)}:{x.start}-{x.end}w{x.width}" for x in infos]
                if not allf and res != "keyerror":
                    fails.append(("C03", f"find_resource found {res} which all_resources() does not report", len(obs)))
                if allf and res not in allf:
                    fails.append(("C03", f"find_resource → {res}, all_resources() → {allf}", len(obs)))
    quiet[0] = False
    if profile == "alloc":
        # after everything (freezes and hand-overs included): what every map reports now — exactly the ranges
        # that were handed out, in ascending order
        for h in sorted(maps):
            m = maps[h]
            emit(f"resources {h}", fmt_res(m))
            emit(f"windows {h}", fmt_win(m, h))
            got_r = [(ids.get(id(r), "?"), s_, e_) for r, n, (s_, e_) in m.resources()]
            want_r = sorted(((it["id"], it["start"], it["end"]) for it in handed[h] if it["kind"] == "res"), key=lambda t: (t[1], t[2]))
            got_w = [(wchild.get((h, id(w)), "?"), s_, e_) for w, n, (s_, e_, r_) in m.windows()]
            want_w = sorted(((it["id"], it["start"], it["end"]) for it in handed[h] if it["kind"] == "win"), key=lambda t: (t[1], t[2]))
            if sorted(got_r, key=lambda t: (t[1], t[2])) != want_r or got_r != sorted(got_r, key=lambda t: t[1]):
                fails.append(("C02", f"map {h}: resources() reports {got_r[:8]}, the ranges handed out by add_resource were {want_r[:8]}", len(obs)))
            if sorted(got_w, key=lambda t: (t[1], t[2])) != want_w or got_w != sorted(got_w, key=lambda t: t[1]):
                fails.append(("C02", f"map {h}: windows() reports {got_w[:8]}, the ranges handed out by add_window were {want_w[:8]}", len(obs)))
    # every map that has windows (not only the root) answers find_resource() for what its own all_resources() lists —
    # a map that is the window of several parents is reported by each parent at that parent's addresses and names
    for h in sorted(maps):
        m = maps[h]
        if not list(m.windows()):
            continue
        try:
            infos = list(m.all_resources())
        except AssertionError:
            continue
        # several listings of one map may be in flight at once (nested loops, zip): each is complete
        try:
            zipped = [(a_.resource, b_.resource) for a_, b_ in zip(m.all_resources(), m.all_resources())]
            nested = 0
            for a_ in m.all_resources():
                nested += sum(1 for _ in m.all_resources())
                for w_, _n, _r in m.windows():
                    nested += 0 * sum(1 for _ in w_.all_resources())      # … also of a window while its parent's is suspended
                    break
                break
            if len(zipped) != len(infos) or any(a_ is not b_ for a_, b_ in zipped) or (infos and nested != len(infos)):
                fails.append(("C03", f"map {h}: two listings of all_resources() consumed in lock step / nested give {len(zipped)} / {nested} entries, "
                                     f"one listing alone gives {len(infos)}", len(obs)))
        except AssertionError:
            pass
        except RecursionError as ex:
            fails.append(("C03", f"map {h}: a second all_resources() listing while one is being consumed raises RecursionError: {str(ex)[:80]}", len(obs)))
        # a window's own MemoryMap object is not a resource: looking it up raises KeyError like any never-added object
        for w_, _n, _r in list(m.windows())[:4]:
            try:
                f = m.find_resource(w_)
                fails.append(("C03", f"map {h}: find_resource(<the MemoryMap of one of its windows>) returns {tuple(map(tuple, f.path))} at {f.start}..{f.end}; "
                                     f"all_resources() reports no such resource", len(obs)))
            except KeyError:
                pass
            except AssertionError:
                pass
            except Exception as ex:
                fails.append(("C03", f"map {h}: find_resource(<the MemoryMap of one of its windows>) raises {type(ex).__name__} instead of KeyError", len(obs)))
        firsts = {}
        for i in infos:
            firsts.setdefault(id(i.resource), i)
        for i in list(firsts.values())[:12]:
            try:
                f = m.find_resource(i.resource)
            except (KeyError, AssertionError):
                fails.append(("C03", f"map {h}: find_resource() does not find resource {ids.get(id(i.resource), '?')} that its all_resources() reports", len(obs)))
                continue
            same = [x for x in infos if x.resource is i.resource]
            try:
                f2 = m.find_resource(i.resource)          # asked again (a header generator, then a driver): the same answer
                if (tuple(map(tuple, f2.path)), f2.start, f2.end, f2.width) != (tuple(map(tuple, f.path)), f.start, f.end, f.width):
                    fails.append(("C03", f"map {h}: find_resource({ids.get(id(i.resource), '?')}) answers {f.start}..{f.end} the first time and "
                                         f"{f2.start}..{f2.end} the second time", len(obs)))
            except (KeyError, AssertionError):
                pass
            if not any((tuple(map(tuple, f.path)), f.start, f.end, f.width) == (tuple(map(tuple, x.path)), x.start, x.end, x.width) for x in same):
                fails.append(("C03", f"map {h}: find_resource({ids.get(id(i.resource), '?')}) → {tuple(map(tuple, f.path))} at {f.start}..{f.end}, "
                                     f"its all_resources() reports it at {[(tuple(map(tuple, x.path)), x.start, x.end) for x in same]}", len(obs)))
    lines.append("end")
    # C18 consequence: reported paths pairwise distinct
    try:
        paths = [tuple(tuple(p) for p in i.path) for i in maps[case["root"]].all_resources()]
        if len(set(paths)) != len(paths):
            fails.append(("C18", "duplicate resource paths in all_resources()", len(obs)))
    except AssertionError:
        pass
    return {"lines": lines, "obs": obs, "fails": fails, "stats": stats}


class _Skip(Exception):
    pass


_STR_MEMBERS = {}


def _str_member(v):
    """a member of a str-mixin enumeration whose value is `v` (equal to `v`, hashes like `v`, prints differently)"""
    import enum
    if v not in _STR_MEMBERS:
        _STR_MEMBERS[v] = enum.Enum(f"Part_{len(_STR_MEMBERS)}", {"M": v}, type=str).M
    return _STR_MEMBERS[v]


def mask_names(line):
    """C18 compares acceptance and reported paths only (not addresses, sizes or widths)"""
    if line.startswith("ok"):
        return "ok"
    if line.startswith("all "):
        return "all " + " ".join(x.split(":")[0] for x in line.split()[1:])
    return line
