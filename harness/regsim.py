"""C11: real csr.Register (nested field collections of probe field actions) in amaranth.sim vs the
Lean model `reg`; the packing clauses evaluated directly on the real signals."""
from . import lib, simutil
from amaranth import Module, unsigned, signed, Shape
from amaranth.hdl import Value
from amaranth.sim import Simulator
from amaranth_soc import csr
from amaranth_soc.csr import reg as csrreg
from .actsim import Color, to_signed


class Probe(csr.FieldAction):
    """a field action that leaves its port alone, so the testbench can drive port.r_data"""
    def __init__(self, shape, access):
        super().__init__(shape, access=access)

    def elaborate(self, platform):
        return Module()


def gen_case(seed, idx, ncycles):
    return {"seed": seed, "idx": idx, "ncycles": ncycles}


def gen_shape_tree(rnd, depth, eacc):
    """abstract field collection: ("F", shape kind, width, access) | ("D", [(key, sub)…]) | ("L", [sub…])"""
    r = rnd.random()
    if depth >= 3 or r < 0.45:
        shp = rnd.choice(["u", "u", "u", "s", "e", "z"])
        if shp == "e":
            w = 2
        elif shp == "z":
            w = 0
        else:
            w = rnd.randint(1, 9)
        accs = {"rw": ["r", "w", "rw", "nc"], "r": ["r", "nc", "r"], "w": ["w", "nc", "w"]}[eacc]
        acc = rnd.choice(accs)
        if rnd.random() < 0.06:
            acc = rnd.choice(["r", "w", "rw", "nc"])        # possibly incompatible with the register
        return ("F", shp, w, acc)
    n = rnd.randint(1, 3)
    if r < 0.75:
        keys = rnd.sample(["a", "b", "c", "d", "_e", "f0"], n)
        return ("D", [(k, gen_shape_tree(rnd, depth + 1, eacc)) for k in keys])
    return ("L", [gen_shape_tree(rnd, depth + 1, eacc) for _ in range(n)])


def vary(rnd2, t, eacc):
    """later additions (own random stream): sibling keys whose `__`-joined paths coincide
    (`{"a": {"b": F}, "a__b": G}`, `{"b": [F], "b__0": G}` — distinct paths, legal), and zero-width
    fields with an access mode the register cannot serve"""
    if t[0] == "F":
        _, shp, w, acc = t
        if w == 0 and rnd2.random() < 0.3:
            acc = rnd2.choice(["r", "w", "rw"])
        return ("F", shp, w, acc)
    if t[0] == "L":
        kids = [vary(rnd2, x, eacc) for x in t[1]]
        if len(kids) >= 2 and kids[0][0] != "F" and rnd2.random() < 0.3:
            kids = [kids[0]] * len(kids)               # `[channel] * n`: the same layout repeated
        return ("L", kids)
    items = [(k, vary(rnd2, x, eacc)) for k, x in t[1]]
    if len(items) >= 2 and items[0][1][0] != "F" and rnd2.random() < 0.2:
        items[1] = (items[1][0], items[0][1])          # two keys with the same sub-layout (`rx: flags, tx: flags`)
    if len(items) >= 2 and rnd2.random() < 0.35:
        cands = []
        for k, x in items:
            if x[0] == "D":
                cands += [(k, f"{k}__{j}") for j, _ in x[1]]
            elif x[0] == "L":
                cands += [(k, f"{k}__{n}") for n in range(len(x[1]))]
        if cands:
            owner, joined = rnd2.choice(cands)
            others = [n for n, (k, _) in enumerate(items) if k != owner]
            n = rnd2.choice(others)
            items[n] = (joined, items[n][1])
    return ("D", items)


def build(t, share=None):
    """(python field collection, token list) of an abstract tree; with `share` (a random stream) equal
    sub-collections that occur twice in a dict/list may be the SAME Python object the second time"""
    if t[0] == "F":
        _, shp, w, acc = t
        shape = Color if shp == "e" else unsigned(0) if shp == "z" else unsigned(w) if shp == "u" else signed(w)
        return csr.Field(Probe, shape, acc), ["F", str(w), acc]
    seen = []          # (abstract subtree, built object, tokens) of non-leaf children of this collection

    def child(x):
        if share is not None and x[0] != "F":
            for x0, v0, tk0 in seen:
                if x0 == x and share.random() < 0.7:
                    return v0, list(tk0)               # the very same dict / list object again
        v, tk = build(x, share)
        if x[0] != "F":
            seen.append((x, v, tk))
        return v, tk
    if t[0] == "D":
        d, toks = {}, ["D", str(len(t[1]))]
        for k, x in t[1]:
            v, tk = child(x)
            d[k] = v
            toks += [k] + tk
        return d, toks
    lst, toks = [], ["L", str(len(t[1]))]
    for x in t[1]:
        v, tk = child(x)
        lst.append(v)
        toks += tk
    return lst, toks


def gen_tree(rnd, depth, eacc, rnd2=None):
    """returns (python field collection, token list)"""
    t = gen_shape_tree(rnd, depth, eacc)
    if rnd2 is not None:
        t = vary(rnd2, t, eacc)
    return build(t, rnd2)


def _paths(toks):
    """field paths of a token list"""
    out, pos = [], [0]

    def walk(prefix):
        k = toks[pos[0]]
        if k == "F":
            pos[0] += 3
            out.append(prefix)
        elif k == "D":
            n = int(toks[pos[0] + 1]); pos[0] += 2
            for _ in range(n):
                key = toks[pos[0]]; pos[0] += 1
                walk(prefix + (key,))
        else:
            n = int(toks[pos[0] + 1]); pos[0] += 2
            for i in range(n):
                walk(prefix + (i,))
    walk(())
    return out


def path_str(p):
    return "." if not p else ".".join(("#%d" % k) if isinstance(k, int) else k for k in p)


class SubField(csr.Field):
    """a user's own subclass of csr.Field (a `Bit`, a `Reserved`, …) is a field like any other"""


class RenField(csr.Field):
    """a field whose action the user wraps (DomainRenamer / EnableInserter / ResetInserter) to put it into another domain"""
    def create(self):
        from amaranth import DomainRenamer
        return DomainRenamer("sync")(super().create())


class SubDict(dict):
    pass


class SubList(list):
    pass


def respell(obj, us, memo=None):
    """the same collection with some fields as instances of a Field subclass, some dicts as OrderedDict / a dict
    subclass, some lists as a list subclass (object sharing is kept)"""
    import collections
    memo = {} if memo is None else memo
    if id(obj) in memo:
        return memo[id(obj)]
    if isinstance(obj, csr.Field):
        new = obj
        x_ = us.random()
        if x_ < .4 and hasattr(obj, "_action_cls"):
            new = (RenField if x_ < .12 else SubField)(obj._action_cls, *obj._args, **obj._kwargs)
    elif isinstance(obj, dict):
        items = [(k, respell(v, us, memo)) for k, v in obj.items()]
        x = us.random()
        new = collections.OrderedDict(items) if x < .25 else SubDict(items) if x < .4 else dict(items)
    else:
        items = [respell(v, us, memo) for v in obj]
        new = SubList(items) if us.random() < .3 else list(items)
    memo[id(obj)] = new
    return new


def run_impl(case):
    rnd = lib.rng_for(case["seed"], case["idx"], 1111)
    eacc = rnd.choice(["rw", "rw", "r", "w"])
    fields, toks = gen_tree(rnd, 0, eacc, lib.rng_for(case["seed"], case["idx"], 1121))
    us = lib.rng_for(case["seed"], case["idx"], 1141)
    if us.random() < .35:
        fields = respell(fields, us)
    lines = ["case " + eacc + " " + " ".join(toks)]
    stats = {"refused": 0, "annot": 0, "fields": 0, "nested": int(toks[0] != "F"), "nonreadable_in_middle": 0, "cycles": 0,
             "joined_name_collision": int(len({"__".join(map(str, p)) for p in _paths(toks)}) < len(_paths(toks)))}
    fails, obs = [], []
    how = rnd.choice(["arg", "arg", "annot"]) if isinstance(fields, dict) else "arg"
    try:
        if how == "annot":
            stats["annot"] = 1
            base = csr.Register
            if rnd.random() < 0.35:
                # the class under test derives from ANOTHER annotation-defined register class that was
                # instantiated first: it declares its own fields and must get exactly those
                other, _ = gen_tree(lib.rng_for(case["seed"], case["idx"], 1131), 0, "rw")
                if isinstance(other, dict):
                    base = type("AnnBase", (csr.Register,), {"__annotations__": dict(other)}, access="rw")
                    base()
                    stats["annot_subclass"] = 1
            if us.random() < .4 and base is csr.Register:
                # the access mode is given per instance, not per class: an earlier, more permissive instance of the same
                # class decides nothing for this one
                cls = type("AnnReg", (base,), {"__annotations__": dict(fields)})
                try:
                    cls(access="rw")
                except (ValueError, TypeError):
                    pass
                stats["access_per_instance"] = 1
                dut = cls(access=eacc)
            else:
                cls = type("AnnReg", (base,), {"__annotations__": dict(fields)}, access=eacc)
                dut = cls()
        else:
            dut = csr.Register(fields, access=eacc)
    except (ValueError, TypeError) as e:
        stats["refused"] = 1
        return {"lines": lines + ["end"], "obs": ["refused"], "fails": [], "stats": stats, "key": lines[0]}
    flat = [(p, f) for p, f in dut]
    widths = [Shape.cast(f.port.shape).width for _, f in flat]
    accs = [f.port.access.value for _, f in flat]
    stats["fields"] = len(flat)
    obs.append(f"reg {dut.element.width} | " + " ".join(f"{path_str(p)}:_:{w}:{a}" for (p, _), w, a in zip(flat, widths, accs)))
    # what was declared (from the generated collection itself, independently of the model)
    decl, pos = [], [0]

    def walk():
        k = toks[pos[0]]
        if k == "F":
            decl.append((int(toks[pos[0] + 1]), toks[pos[0] + 2])); pos[0] += 3
        elif k == "D":
            n_ = int(toks[pos[0] + 1]); pos[0] += 2
            for _ in range(n_):
                pos[0] += 1
                walk()
        else:
            n_ = int(toks[pos[0] + 1]); pos[0] += 2
            for _ in range(n_):
                walk()
    walk()
    if decl != list(zip(widths, accs)):
        fails.append(("C11", f"the register was declared with fields (width, access) {decl} in this order, it has {list(zip(widths, accs))}", 0))
    if dut.element.width != sum(widths):
        fails.append(("C11", f"register width {dut.element.width} != sum of field widths {sum(widths)}", 0))
    offs = [sum(widths[:k]) for k in range(len(widths))]
    if any(a in ("w", "nc") and w > 0 for a, w in list(zip(accs, widths))[:-1]):
        stats["nonreadable_in_middle"] = 1
    try:
        if rnd.random() < 0.3:
            # a register object may be elaborated more than once (simulated, then synthesised, …):
            # what is checked below is then its second elaboration
            Simulator(simutil.wrap(dut))
            stats["pre_elaborated"] = 1
        sim = simutil.simulator(simutil.wrap(dut), case, p=0)
    except Exception as e:
        if not lib.from_code_under_test(e):
            raise
        # a register that was accepted at construction must be elaborable
        obs.append(f"elaboration raised {type(e).__name__}")
        fails.append(("C11", f"register accepted at construction cannot be elaborated: {type(e).__name__}: {e}", 0))
        return {"lines": lines + ["end"], "obs": obs, "fails": fails, "stats": stats, "key": lines[0]}
    sim.add_clock(1e-6)
    rd, wr = dut.element.access.readable(), dut.element.access.writable()

    async def tb(ctx):
        for t in range(case["ncycles"]):
            rstb, wstb = rnd.getrandbits(1), rnd.getrandbits(1)
            wdata = lib.bits(rnd, dut.element.width) if dut.element.width else 0
            frs = []
            for (p, f), w in zip(flat, widths):
                v = lib.bits(rnd, w) if w else 0
                frs.append(v)
                sg = Value.cast(f.port.r_data)
                ctx.set(sg, to_signed(v, w) if sg.shape().signed else v)
            if rd:
                ctx.set(dut.element.r_stb, rstb)
            if wr:
                ctx.set(dut.element.w_stb, wstb)
                ctx.set(dut.element.w_data, wdata)
            lines.append(f"cyc {rstb if rd else 0} {wstb if wr else 0} {wdata if wr else 0} " + " ".join(map(str, frs)))
            er = ctx.get(dut.element.r_data) if rd else "x"
            rs, wsl = [], []
            for k, ((p, f), w, a) in enumerate(zip(flat, widths, accs)):
                readable, writable = a in ("r", "rw"), a in ("w", "rw")
                rs.append(str(ctx.get(f.port.r_stb)) if readable else "x")
                if writable:
                    fw, fs = simutil.getv(ctx, f.port.w_data), ctx.get(f.port.w_stb)
                    wsl.append(f"{fs}:{fw}")
                    if fw != (wdata >> offs[k]) & ((1 << w) - 1) or fs != wstb:
                        fails.append(("C11", f"cycle {t}: field {path_str(p)} got w_data={fw} w_stb={fs}; element w_data={wdata} w_stb={wstb}, range [{offs[k]},{offs[k] + w})", t))
                else:
                    wsl.append("x")
                    # … "strobes reach PRECISELY the fields whose access mode includes that direction"
                    if ctx.get(f.port.w_stb) != 0:
                        fails.append(("C11", f"cycle {t}: non-writable field {path_str(p)} (access {a}) sees w_stb=1; element w_stb={wstb if wr else 0}", t))
                if not readable and ctx.get(f.port.r_stb) != 0:
                    fails.append(("C11", f"cycle {t}: non-readable field {path_str(p)} (access {a}) sees r_stb=1; element r_stb={rstb if rd else 0}", t))
                if readable:
                    if rs[-1] != str(rstb):
                        fails.append(("C11", f"cycle {t}: field {path_str(p)} r_stb={rs[-1]}, element r_stb={rstb}", t))
                    if (er >> offs[k]) & ((1 << w) - 1) != frs[k]:
                        fails.append(("C11", f"cycle {t}: element.r_data bits [{offs[k]},{offs[k] + w}) = {(er >> offs[k]) & ((1 << w) - 1)}, field {path_str(p)} presents {frs[k]}", t))
                elif rd and (er >> offs[k]) & ((1 << w) - 1) != 0:
                    fails.append(("C11", f"cycle {t}: element.r_data bits of non-readable field {path_str(p)} are not zero", t))
            obs.append(f"{er} | {' '.join(rs)} | {' '.join(wsl)}")
            stats["cycles"] += 1
            await ctx.tick()

    sim.add_testbench(tb)
    sim.run()
    lines.append("end")
    return {"lines": lines, "obs": obs, "fails": fails, "stats": stats, "key": lines[0]}


def mask_model(line):
    if line.startswith("reg "):
        head, _, rest = line.partition(" | ")
        out = []
        for item in rest.split():
            p = item.split(":")
            out.append(f"{p[0]}:_:{p[2]}:{p[3]}")
        return head + " | " + " ".join(out)
    return line
