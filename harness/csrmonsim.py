"""C14: real csr.EventMonitor in amaranth.sim (attached directly, behind a csr.Decoder, or through
wiring.connect() from an initiator interface) vs the Lean model `csrmon`; for protocol-conforming
traffic the register-level clauses (enable read-back, pending read / write-one-to-clear, atomic
multi-chunk read, interrupt line) are evaluated on the real trace against an abstract reference."""
from . import lib, simutil
from amaranth import Module, Signal
from amaranth.lib import wiring
from amaranth.lib.wiring import connect
from amaranth.sim import Simulator
from amaranth_soc import csr, event


def gen_case(seed, idx, ncycles):
    return {"seed": seed, "idx": idx, "ncycles": ncycles}


def run_impl(case):
    rnd = lib.rng_for(case["seed"], case["idx"], 1414)
    n = rnd.choice([0, 1, 2, 3, 7, 8, 9, 12, 17, 20])
    xs = lib.rng_for(case["seed"], case["idx"], 1434).random()
    if xs < 0.06:
        n = (24, 32, 33, 40, 64, 65)[int(xs / 0.06 * 6)]
    dw = rnd.choice([8, 8, 16, 32]) if n > 3 else rnd.choice([1, 2, 8, 16])
    al = rnd.choice([0, 0, 1, 2])
    modes = [rnd.choice(["level", "rise", "fall"]) for _ in range(n)]
    em = simutil.mk_event_map(lib.rng_for(case["seed"], case["idx"], 1352))
    us_ = lib.rng_for(case["seed"], case["idx"], 1451)
    srcs = [simutil.mk_source(m, us_) for m in modes]
    rep_rng = lib.rng_for(case["seed"], case["idx"], 1444)
    for k_, s in enumerate(srcs):
        em.add(s)
        if rep_rng.random() < 0.15:
            em.add(srcs[rep_rng.randrange(k_ + 1)])        # adding a source again changes nothing
    if lib.rng_for(case["seed"], case["idx"], 1453).random() < .25 and n >= 2:
        # some of the sources are also members of ANOTHER event map (a wake-up map next to the interrupt map), filled
        # afterwards in another order: this map's numbering is its own
        other_map = event.EventMap()
        for s_ in reversed(srcs[1:]):
            other_map.add(s_)
        other_map.freeze()
    dut = csr.EventMonitor(em, trigger=rnd.choice(["level", "rise"]), data_width=dw, alignment=al)
    mm = dut.bus.memory_map
    lay = {tuple(i.path[0])[0]: (i.start, i.end) for i in mm.all_resources()}
    attach = rnd.choice(["direct", "decoder", "connect"])
    if attach == "decoder" and lib.rng_for(case["seed"], case["idx"], 1424).random() < 0.4:
        attach = "nested"          # a decoder behind another decoder, both windows at non-zero bases
    top = Module()
    base = 0
    if attach == "direct":
        top.submodules.dut = dut
        bus = dut.bus
    elif attach == "decoder" and lib.rng_for(case["seed"], case["idx"], 1464).random() < .35:
        # windows placed at explicit addresses in DESCENDING order of the add() calls: the monitor first, at the higher
        # address, then something else below it
        W = 1 << mm.addr_width
        dec = csr.Decoder(addr_width=mm.addr_width + 2, data_width=dw)
        other = csr.Interface(addr_width=mm.addr_width, data_width=dw)
        other.memory_map = type(mm)(addr_width=mm.addr_width, data_width=dw)
        base = dec.add(dut.bus, name="mon", addr=2 * W)[0]
        dec.add(other, name="other", addr=0)
        top.submodules.dec = dec
        top.submodules.dut = dut
        bus = dec.bus
    elif attach == "decoder":
        dec = csr.Decoder(addr_width=mm.addr_width + 1, data_width=dw)
        if rnd.random() < .5:      # something else first, so that the monitor's window is not at 0
            other = csr.Interface(addr_width=mm.addr_width, data_width=dw)
            other.memory_map = type(mm)(addr_width=mm.addr_width, data_width=dw)
            dec.add(other, name="other")
        base = dec.add(dut.bus, name="mon")[0]
        top.submodules.dec = dec
        top.submodules.dut = dut
        bus = dec.bus
    elif attach == "nested":
        inner = csr.Decoder(addr_width=mm.addr_width + 1, data_width=dw)
        o1 = csr.Interface(addr_width=mm.addr_width, data_width=dw)
        o1.memory_map = type(mm)(addr_width=mm.addr_width, data_width=dw)
        inner.add(o1, name="other")
        inner.add(dut.bus, name="mon")
        outer = csr.Decoder(addr_width=mm.addr_width + 3, data_width=dw)
        o2 = csr.Interface(addr_width=mm.addr_width + 1, data_width=dw)
        o2.memory_map = type(mm)(addr_width=mm.addr_width + 1, data_width=dw)
        outer.add(o2, name="first")
        outer.add(inner.bus, name="inner")
        top.submodules.outer = outer
        top.submodules.inner = inner
        top.submodules.dut = dut
        bus = outer.bus
    else:
        intr = csr.Interface(addr_width=mm.addr_width, data_width=dw, path=("intr",))
        top.submodules.dut = dut
        try:
            connect(top, intr, dut.bus)
        except Exception as e:
            return {"lines": ["case 0 8 0", "end"], "obs": ["layout 1 0-1 1-2"], "stats": {"events": n, "connect_failed": 1},
                    "fails": [("C14", f"an initiator csr.Interface cannot be connected to EventMonitor.bus: {type(e).__name__}: {str(e)[:120]}", 0)],
                    "key": "connect-failed", "match": {"experiment": "connect"}}
        bus = intr
    pre_fails = []
    if attach in ("decoder", "nested"):
        # software takes the addresses from the ROOT memory map: where it reports the two mask registers
        local = {id(r): s_ for r, n_, (s_, e_) in mm.resources()}
        bases = {i.start - local[id(i.resource)] for i in bus.memory_map.all_resources() if id(i.resource) in local}
        if len(bases) != 1:
            pre_fails.append(("C14", f"the root memory map reports the monitor's registers at inconsistent bases {sorted(bases)}", 0))
        elif attach == "decoder" and bases != {base}:
            pre_fails.append(("C14", f"the root memory map reports the monitor at base {sorted(bases)}, add() returned {base}", 0))
        if bases:
            base = min(bases)
    d = Signal(name="verif_dummy"); top.d.sync += d.eq(~d)
    sim = simutil.simulator(top, case)
    sim.add_clock(1e-6)
    lines = [f"case {n} {dw} {al} " + " ".join(m[0] for m in modes)]
    obs = [f"layout {mm.addr_width} {lay['enable'][0]}-{lay['enable'][1]} {lay['pending'][0]}-{lay['pending'][1]}"]
    fails = list(pre_fails)
    style = rnd.choice(["txn", "txn", "txn", "random"])
    stats = {"cycles": 0, "w1c_done": 0, "w1c_with_same_cycle_trigger": 0, "enable_readbacks": 0, "pending_multichunk_reads": 0,
             "events": n, attach: 1, style: 1}
    mask = (1 << n) - 1
    chunks = lay["enable"][1] - lay["enable"][0]
    cmask = (1 << dw) - 1
    aw_total = len(bus.addr)

    async def tb(ctx):
        # abstract reference (valid for conforming traffic): private write buffer and read snapshot per register
        en, pend, prev = 0, 0, [0] * n
        strobe_next = None            # (register, value) whose element write strobe fires in this cycle
        wbuf = {"enable": None, "pending": None}
        snap = None                   # (register, value) live read snapshot
        exp_r = 0                     # expected bus.r_data in this cycle (None = unconstrained)
        txn = []
        for t in range(case["ncycles"]):
            iv = [int(rnd.random() < .3) for _ in range(n)]
            if style == "random":
                addr, rstb, wstb = rnd.randrange(1 << aw_total), int(rnd.random() < .4), int(rnd.random() < .4)
            else:
                if not txn and rnd.random() < .6:
                    reg = rnd.choice(["enable", "pending"])
                    kind = rnd.choice(["r", "w", "rw"])
                    s, e = lay[reg]
                    upto = e - s if rnd.random() < .85 else rnd.randint(0, e - s)
                    txn = [(base + s + j, kind) for j in range(upto)]
                if txn and rnd.random() < .75:
                    addr, kind = txn.pop(0)
                    rstb, wstb = int("r" in kind), int("w" in kind)
                else:
                    addr, rstb, wstb = rnd.randrange(1 << aw_total), 0, 0
            wdata = lib.bits(rnd, dw)
            if rnd.random() < .3:
                wdata = rnd.choice([0, cmask])
            for k in range(n):
                ctx.set(srcs[k].i, iv[k])
            ctx.set(bus.addr, addr); ctx.set(bus.r_stb, rstb); ctx.set(bus.w_stb, wstb); ctx.set(bus.w_data, wdata)
            local = addr - base
            in_window = 0 <= local < (1 << mm.addr_width)
            imask = sum(b << k for k, b in enumerate(iv))
            lines.append(f"cyc {local if in_window else 0} {rstb if in_window else 0} {wstb if in_window else 0} {wdata} {imask}")
            br, irq = ctx.get(bus.r_data), ctx.get(dut.src.i)
            obs.append(f"{br} {irq}")
            stats["cycles"] += 1
            if style == "txn":
                # ---- clauses on the real trace
                if exp_r is not None and br != exp_r:
                    fails.append(("C14", f"cycle {t}: bus.r_data={br:#x}, expected {exp_r:#x} (register read-back / snapshot)", t))
                if irq != int(bool(en & pend)):
                    fails.append(("C14", f"cycle {t}: interrupt line {irq}, enable={en:#x} pending={pend:#x}", t))
                # element write strobes scheduled by the previous cycle
                clear = 0
                en_next = en
                if strobe_next is not None:
                    reg, val = strobe_next
                    if reg == "enable":
                        en_next = val & mask
                        stats["enable_readbacks"] += 1
                    else:
                        clear = val & mask
                        stats["w1c_done"] += 1
                strobe_next = None
                # monitor step
                trg = 0
                for k in range(n):
                    w = {"level": iv[k], "rise": int(not prev[k] and iv[k]), "fall": int(prev[k] and not iv[k])}[modes[k]]
                    trg |= w << k
                    prev[k] = iv[k]
                if clear & trg:
                    stats["w1c_with_same_cycle_trigger"] += 1
                pend_now = pend
                pend = (pend & ~clear) | trg
                # bus access of this cycle
                exp_r = 0
                if in_window and (rstb or wstb):
                    for reg in ("enable", "pending"):
                        s, e = lay[reg]
                        if s <= local < e:
                            k = local - s
                            if rstb:
                                if k == 0:
                                    snap = (reg, en if reg == "enable" else pend_now)
                                if snap is not None and snap[0] == reg:
                                    exp_r = (snap[1] >> (k * dw)) & cmask
                                    if reg == "pending" and k == e - s - 1 and e - s > 1:
                                        stats["pending_multichunk_reads"] += 1
                                else:
                                    exp_r = None
                            if wstb:
                                if k == 0:
                                    wbuf[reg] = [wdata]
                                elif wbuf[reg] is not None and len(wbuf[reg]) == k:
                                    wbuf[reg].append(wdata)
                                else:
                                    wbuf[reg] = None
                                if k == e - s - 1 and wbuf[reg] is not None and len(wbuf[reg]) == e - s:
                                    strobe_next = (reg, sum(v << (j * dw) for j, v in enumerate(wbuf[reg])))
                                    wbuf[reg] = None
                en = en_next
            await ctx.tick()

    sim.add_testbench(tb)
    sim.run()
    lines.append("end")
    return {"lines": lines, "obs": obs, "fails": fails, "stats": stats, "key": lines[0] + attach + style + str(case["idx"]),
            "descr": f"events={n} dw={dw} alignment={al} modes={''.join(m[0] for m in modes)} attach={attach} style={style}"}
