"""C13: real event.Monitor in amaranth.sim vs the Lean model `monitor`; real EventMap histories vs `evmap`"""
from . import lib, simutil
from amaranth.sim import Simulator
from amaranth_soc import event


def gen_case(seed, idx, what, ncycles):
    if what == "mapexh":
        return {"seed": 0, "idx": idx, "what": "map", "ncycles": 0, "exh": ncycles}
    return {"seed": seed, "idx": idx, "what": what, "ncycles": ncycles}


def run_impl(case):
    return run_monitor(case) if case["what"] == "monitor" else run_map(case)


def run_monitor(case):
    rnd = lib.rng_for(case["seed"], case["idx"], 1313)
    n = rnd.choice([0, 1, 1, 2, 3, 4, 5, 6, 9])
    xs = lib.rng_for(case["seed"], case["idx"], 1333).random()
    if xs < 0.08:
        n = (10, 16, 17, 32, 33, 40, 65, 70)[int(xs / 0.08 * 8)]      # maps beyond one byte / one word / 64 sources
    modes = [rnd.choice(["level", "rise", "fall"]) for _ in range(n)]
    em = simutil.mk_event_map(lib.rng_for(case["seed"], case["idx"], 1352))
    us_ = lib.rng_for(case["seed"], case["idx"], 1351)
    srcs = [simutil.mk_source(m, us_) for m in modes]
    # composition: some level-triggered sources are the outgoing lines of CHILD monitors (a tree of monitors); the child is
    # part of the design, its own sources are driven at random, and what its line carries is this source's input
    casc = lib.rng_for(case["seed"], case["idx"], 1355)
    children = {}
    for k in range(n):
        if modes[k] == "level" and n <= 9 and casc.random() < 0.25:
            cem = event.EventMap()
            csrcs = [event.Source(trigger=casc.choice(["level", "rise"])) for _ in range(casc.randint(1, 3))]
            for cs in csrcs:
                cem.add(cs)
            child = event.Monitor(cem) if casc.random() < .6 else event.Monitor(cem, trigger="level")
            children[k] = (child, csrcs)
            srcs[k] = child.src
    order = list(range(n))
    for k in order:
        em.add(srcs[k])
        if rnd.random() < 0.2:
            em.add(srcs[rnd.choice(order[:order.index(k) + 1])])     # repeats are ignored
    dut = event.Monitor(em, trigger=rnd.choice(["level", "rise", "fall"]))
    pre = lib.rng_for(case["seed"], case["idx"], 1323).random() < 0.25
    if pre:
        Simulator(simutil.wrap(dut))       # a monitor may be elaborated more than once; the second elaboration is checked
    sim = simutil.simulator(simutil.wrap(dut, *[c_ for c_, _ in children.values()]), case, p=0)
    sim.add_clock(1e-6)
    lines = ["case " + " ".join(m[0] for m in modes)]
    obs, fails = [], []
    stats = {"cycles": 0, "trg_and_clear": 0, "sources": n, "edge_sources": sum(m != "level" for m in modes), "pre_elaborated": int(pre),
             "cascaded_child_monitors": len(children)}
    style = rnd.choice(["random", "sparse", "busy"])

    async def tb(ctx):
        prev = [0] * n
        pend = [0] * n
        for t in range(case["ncycles"]):
            p = {"random": .5, "sparse": .15, "busy": .85}[style]
            iv = [int(rnd.random() < p) for _ in range(n)]
            en = lib.bits(rnd, n) if n else 0
            cl = lib.bits(rnd, n) if n and rnd.random() < .5 else 0
            for k in range(n):
                if k in children:
                    child, csrcs = children[k]
                    ctx.set(child.enable, (1 << len(csrcs)) - 1)
                    ctx.set(child.clear, casc.getrandbits(len(csrcs)) if casc.random() < .5 else 0)
                    for cs in csrcs:
                        ctx.set(cs.i, int(casc.random() < .3))
                else:
                    ctx.set(srcs[k].i, iv[k])
            for k in children:
                iv[k] = ctx.get(srcs[k].i)            # what the child's line carries in this cycle
            ctx.set(dut.enable, en)
            ctx.set(dut.clear, cl)
            imask = sum(b << k for k, b in enumerate(iv))
            lines.append(f"cyc {imask} {en} {cl}")
            trg = sum(ctx.get(srcs[k].trg) << k for k in range(n))
            pending = ctx.get(dut.pending)
            line = ctx.get(dut.src.i)
            obs.append(f"{trg} {pending} {line}")
            stats["cycles"] += 1
            # ---- the property's clauses on the real trace
            for k in range(n):
                want = {"level": iv[k], "rise": int(not prev[k] and iv[k]), "fall": int(prev[k] and not iv[k])}[modes[k]]
                if (trg >> k) & 1 != want:
                    fails.append(("C13", f"cycle {t}: trg of source {k} ({modes[k]}) is {(trg >> k) & 1}, expected {want}", t))
                if (pending >> k) & 1 != pend[k]:
                    fails.append(("C13", f"cycle {t}: pending[{k}] is {(pending >> k) & 1}, expected {pend[k]}", t))
                if want and (cl >> k) & 1:
                    stats["trg_and_clear"] += 1
                pend[k] = 1 if want else (0 if (cl >> k) & 1 else pend[k])
                prev[k] = iv[k]
            if line != int(bool(en & pending)):
                fails.append(("C13", f"cycle {t}: src.i={line} with enable={en:b} pending={pending:b}", t))
            await ctx.tick()

    sim.add_testbench(tb)
    sim.run()
    lines.append("end")
    return {"lines": lines, "obs": obs, "fails": fails, "stats": stats, "key": "|".join(lines[:40]),
            "descr": f"modes={modes} style={style}"}


MAP_ALPHABET = [("add", 0), ("add", 1), ("add", 2), ("index", 0), ("index", 1), ("index", 2), ("size",), ("sources",), ("freeze",)]


def map_exh_count(k):
    return len(MAP_ALPHABET) ** k


def run_map(case):
    rnd = lib.rng_for(case["seed"], case["idx"], 1314)
    em = event.EventMap()
    exh = case.get("exh")
    if exh:
        # bounded-exhaustive: sequence number `idx` of all op sequences of length `exh` over MAP_ALPHABET
        pool = [event.Source(trigger=m) for m in ("level", "rise", "fall")]
        x, script = case["idx"], []
        for _ in range(exh):
            script.append(MAP_ALPHABET[x % len(MAP_ALPHABET)])
            x //= len(MAP_ALPHABET)
    else:
        pool = [event.Source(trigger=rnd.choice(["level", "rise", "fall"])) for _ in range(rnd.randint(1, 7))]
        script = None
        nest = lib.rng_for(case["seed"], case["idx"], 1354)
        for k_ in range(len(pool)):
            if nest.random() < 0.2:
                # a member of this map may be the outgoing line of another monitor, which has an event map of its own
                cem = event.EventMap()
                for _ in range(nest.randint(1, 4)):
                    cem.add(event.Source())
                pool[k_] = event.Monitor(cem).src
    ids = {id(s): k for k, s in enumerate(pool)}
    lines, obs, fails = ["case"], [], []
    # the same sources may also sit in ANOTHER event map (in another order): that must not show here
    other = event.EventMap()
    orng = lib.rng_for(case["seed"], case["idx"], 1344)
    share_other = script is None and orng.random() < 0.3
    first_add = []
    frozen = False
    stats = {"ops": 0, "repeats": 0, "refused": 0}
    for step in range(len(script) if script is not None else rnd.randint(3, 25)):
        if script is not None:
            op, karg = script[step][0], (script[step][1] if len(script[step]) > 1 else None)
        else:
            op, karg = rnd.choice(["add", "add", "add", "index", "index", "size", "sources", "freeze"]), None
        stats["ops"] += 1
        if share_other and orng.random() < 0.4:
            try:
                other.add(pool[orng.randrange(len(pool))])
                stats["adds_to_another_map"] = stats.get("adds_to_another_map", 0) + 1
            except ValueError:
                pass
        if op == "add":
            k = rnd.randrange(len(pool)) if karg is None else karg
            lines.append(f"add {k}")
            try:
                em.add(pool[k])
                obs.append("ok")
                if frozen:
                    fails.append(("C13", "frozen event map accepted add()", len(obs)))
                if k in first_add:
                    stats["repeats"] += 1
                else:
                    first_add.append(k)
            except ValueError:
                obs.append("refused")
                stats["refused"] += 1
                if not frozen:
                    fails.append(("C13", "add() refused on a map that is not frozen", len(obs)))
        elif op == "index":
            k = rnd.randrange(len(pool)) if karg is None else karg
            lines.append(f"index {k}")
            try:
                v = em.index(pool[k])
                obs.append(str(v))
                if k not in first_add or first_add.index(k) != v:
                    fails.append(("C13", f"index of source {k} is {v}; order of first addition {first_add}", len(obs)))
            except KeyError:
                obs.append("keyerror")
                if k in first_add:
                    fails.append(("C13", f"index() of an added source raised KeyError", len(obs)))
        elif op == "size":
            lines.append("size")
            obs.append(str(em.size))
            if em.size != len(first_add):
                fails.append(("C13", f"size {em.size} != number of distinct sources {len(first_add)}", len(obs)))
        elif op == "sources":
            lines.append("sources")
            got = [(ids[id(s)], i) for s, i in em.sources()]
            obs.append("sources " + " ".join(f"{a}:{b}" for a, b in got))
            if got != [(k, i) for i, k in enumerate(first_add)]:
                fails.append(("C13", f"sources() = {got}, expected numbering by first addition {first_add}", len(obs)))
        else:
            if script is not None or rnd.random() < .3:
                lines.append("freeze")
                em.freeze()
                frozen = True
                obs.append("ok")
    lines.append("end")
    return {"lines": lines, "obs": obs, "fails": fails, "stats": stats, "key": "|".join(lines), "descr": "event map ops"}
