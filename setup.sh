#!/bin/sh
# MANIFEST.setup_cmd: build the Lean library (models + proofs) and the line-protocol driver, offline.
cd "$(dirname "$0")/lean" || exit 2
lake build SocVerif driver 2>&1 | grep -v conda | tail -5
test -x .lake/build/bin/driver
