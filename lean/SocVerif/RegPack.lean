/-!
`amaranth_soc/csr/reg.py`: `FieldActionMap.flatten` / `FieldActionArray.flatten` (declaration-order
DFS), `Register.__init__` (width = sum of field widths; access compatibility check) and
`Register.elaborate` (per-field slice wiring with a running `field_start`), implementation-shaped.
-/
namespace RegPack

inductive Acc where | r | w | rw | nc
deriving DecidableEq, Repr
def Acc.readable : Acc → Bool | .r | .rw => true | _ => false
def Acc.writable : Acc → Bool | .w | .rw => true | _ => false

inductive EAcc where | r | w | rw
deriving DecidableEq, Repr
def EAcc.readable : EAcc → Bool | .r | .rw => true | _ => false
def EAcc.writable : EAcc → Bool | .w | .rw => true | _ => false

inductive Key where | name (s : String) | idx (n : Nat)
deriving DecidableEq, Repr

/-- a field collection: a single field, a dict (keys in declaration order) or a list -/
inductive FTree where
  | leaf (w : Nat) (acc : Acc)
  | dict (keys : List String) (kids : List FTree)
  | list (kids : List FTree)

structure Flat where
  path : List Key
  w    : Nat
  acc  : Acc
deriving DecidableEq, Repr

mutual
/-- `flatten()`: `(key, *sub_path)` for nested collections, `(key,)` for a field -/
def FTree.flatten : FTree → List Flat
  | .leaf w acc => [⟨[], w, acc⟩]
  | .dict keys kids => FTree.flattenDict keys kids
  | .list kids => FTree.flattenList 0 kids
def FTree.flattenDict : List String → List FTree → List Flat
  | k :: ks, t :: ts => (t.flatten.map fun f => { f with path := .name k :: f.path }) ++ FTree.flattenDict ks ts
  | _, _ => []
def FTree.flattenList : Nat → List FTree → List Flat
  | _, [] => []
  | n, t :: ts => (t.flatten.map fun f => { f with path := .idx n :: f.path }) ++ FTree.flattenList (n + 1) ts
end

/-- `Register.__init__`: total width, or a refusal when a field's access mode cannot be served -/
def mkRegister (t : FTree) (ea : EAcc) : Option (Nat × List Flat) :=
  let fs := t.flatten
  if fs.any (fun f => (f.acc.readable && !ea.readable) || (f.acc.writable && !ea.writable)) then none
  else some (fs.foldl (fun acc f => acc + f.w) 0, fs)

/-- `field_start` of every field: the running sum of `elaborate()` -/
def offsets : Nat → List Flat → List Nat
  | _, [] => []
  | s, f :: fs => s :: offsets (s + f.w) fs

structure EIn where
  rstb  : Bool
  wstb  : Bool
  wdata : Nat
  fr    : Nat → Nat        -- field k's `port.r_data`

/-- `element.r_data`: each readable field drives its own slice `[off, off + w)`; everything else
    stays 0 (`k` = field index, `off` = running `field_start`) -/
def elemRdataGo (x : EIn) : Nat → Nat → List Flat → Nat
  | _, _, [] => 0
  | k, off, f :: fs =>
    (if f.acc.readable then (x.fr k % 2 ^ f.w) * 2 ^ off else 0) + elemRdataGo x (k + 1) (off + f.w) fs
def elemRdata (fs : List Flat) (x : EIn) : Nat := elemRdataGo x 0 0 fs

def fieldRstb (f : Flat) (x : EIn) : Bool := f.acc.readable && x.rstb
def fieldWstb (f : Flat) (x : EIn) : Bool := f.acc.writable && x.wstb
def fieldWdata (f : Flat) (off : Nat) (x : EIn) : Nat :=
  if f.acc.writable then x.wdata / 2 ^ off % 2 ^ f.w else 0

end RegPack
