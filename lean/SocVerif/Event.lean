/-!
`amaranth_soc/event.py`: `EventMap` (insertion-ordered numbering, repeats ignored, frozen refuses)
and `Monitor.elaborate` (per-source edge detector; `If(trg) pending=1 / Elif(clear) pending=0`;
`src.i = (enable & pending).any()`), implementation-shaped.
-/
namespace Ev

/-! ## EventMap -/

structure EMap where
  srcs   : List Nat := []      -- object ids in insertion order; index = position
  frozen : Bool := false

inductive EOp where
  | add (id : Nat)
  | index (id : Nat)
  | freeze
  | size

inductive EOut where
  | ok | refused | idx (n : Nat) | keyError
deriving DecidableEq, Repr

/-- `if id(src) not in self._sources: self._sources[id(src)] = src, self.size` -/
def EMap.step (m : EMap) : EOp → EMap × EOut
  | .add id =>
    if m.frozen then (m, .refused)
    else if m.srcs.contains id then (m, .ok)
    else ({ m with srcs := m.srcs ++ [id] }, .ok)
  | .index id =>
    match m.srcs.idxOf? id with
    | some k => (m, .idx k)
    | none => (m, .keyError)
  | .freeze => ({ m with frozen := true }, .ok)
  | .size => (m, .idx m.srcs.length)

def EMap.run (m : EMap) (ops : List EOp) : EMap := ops.foldl (fun m op => (m.step op).1) m

/-! ## Monitor -/

inductive Mode where
  | level | rise | fall
deriving DecidableEq, Repr

structure MIn where
  i      : Nat → Bool     -- input line of source k
  enable : Nat → Bool
  clear  : Nat → Bool

structure MState where
  prev    : Nat → Bool    -- `sub_i_r` (only meaningful for edge-triggered sources)
  pending : Nat → Bool

def minit : MState := ⟨fun _ => false, fun _ => false⟩

/-- `sub.trg` by trigger mode -/
def trg (mode : Mode) (prev cur : Bool) : Bool :=
  match mode with
  | .level => cur
  | .rise  => !prev && cur
  | .fall  => prev && !cur

/-- one clock edge: `If(trg): pending[k] = 1  Elif(clear[k]): pending[k] = 0` -/
def mnext (modes : List Mode) (s : MState) (x : MIn) : MState :=
  { prev := fun k => if k < modes.length then x.i k else false
    pending := fun k =>
      match modes[k]? with
      | none => false
      | some md =>
        if trg md (s.prev k) (x.i k) then true
        else if x.clear k then false
        else s.pending k }

def trgOut (modes : List Mode) (s : MState) (x : MIn) (k : Nat) : Bool :=
  match modes[k]? with
  | none => false
  | some md => trg md (s.prev k) (x.i k)

/-- `src.i = (enable & pending).any()` -/
def line (modes : List Mode) (s : MState) (x : MIn) : Bool :=
  (List.range modes.length).any fun k => x.enable k && s.pending k

def mst (modes : List Mode) (inp : Nat → MIn) : Nat → MState
  | 0 => minit
  | t + 1 => mnext modes (mst modes inp t) (inp t)

end Ev
