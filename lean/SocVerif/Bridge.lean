/-! Wishbone→CSR bridge (csr/wishbone.py) -/
namespace Bridge
/-! scratch: C10 Wishbone→CSR bridge sequencer, implementation-shaped, and the transfer theorem -/

structure BIn where
  cyc  : Bool
  stb  : Bool
  we   : Bool
  adr  : Nat
  sel  : Nat → Bool     -- select bit per granule
  datw : Nat → Nat      -- write data lane per granule
  csrR : Nat            -- csr_bus.r_data seen this cycle
  
structure BState where
  cycle : Nat
  ack   : Bool
  datr  : Nat → Nat     -- registered read data lane per granule

structure BOut where
  addr  : Nat
  rstb  : Bool
  wstb  : Bool
  wdata : Nat

def binit : BState := ⟨0, false, fun _ => 0⟩

/-- combinational outputs: `csr_bus.addr = Cat(cycle[:log2 ratio], wb.adr)`; strobes only inside
    `If(cyc & stb)` / `Case(index)` for index < ratio -/
def bout (ratio : Nat) (s : BState) (i : BIn) : BOut :=
  let active := i.cyc && i.stb && decide (s.cycle < ratio)
  { addr  := i.adr * ratio + s.cycle % ratio
    rstb  := active && i.sel s.cycle && !i.we
    wstb  := active && i.sel s.cycle && i.we
    wdata := if active then i.datw s.cycle else 0 }

/-- next state; statement order: the `If(cyc & stb)` block, then `If(ack)` which wins -/
def bnext (ratio : Nat) (s : BState) (i : BIn) : BState :=
  let s1 : BState :=
    if i.cyc && i.stb then
      if s.cycle < ratio then
        { cycle := s.cycle + 1
          ack := s.ack
          datr := if s.cycle > 0 then (fun l => if l = s.cycle - 1 then i.csrR else s.datr l) else s.datr }
      else
        { cycle := s.cycle, ack := true
          datr := fun l => if l = ratio - 1 then i.csrR else s.datr l }
    else s
  if s.ack then { s1 with cycle := 0, ack := false } else s1

def bst (ratio : Nat) (inp : Nat → BIn) : Nat → BState
  | 0 => binit
  | t+1 => bnext ratio (bst ratio inp t) (inp t)

/-- request held constant over [t0, t0 + n] -/
def Held (inp : Nat → BIn) (t0 n : Nat) : Prop :=
  ∀ u, t0 ≤ u → u ≤ t0 + n → (inp u).cyc = true ∧ (inp u).stb = true ∧ (inp u).we = (inp t0).we ∧
    (inp u).adr = (inp t0).adr ∧ (inp u).sel = (inp t0).sel ∧ (inp u).datw = (inp t0).datw

def Idle (s : BState) : Prop := s.cycle = 0 ∧ s.ack = false

/-- in-flight invariant: at t0+i the sequencer is at granule i, no ack yet, and lanes 0..i-2 hold
    the csr read data of cycles t0+1 .. t0+i-1 -/
theorem inflight (ratio : Nat) (hr : 0 < ratio) (inp : Nat → BIn) (t0 : Nat)
    (hidle : Idle (bst ratio inp t0)) (hheld : Held inp t0 (ratio + 1)) (i : Nat) (hi : i ≤ ratio) :
    (bst ratio inp (t0 + i)).cycle = i ∧ (bst ratio inp (t0 + i)).ack = false ∧
    ∀ l, l + 1 < i → (bst ratio inp (t0 + i)).datr l = (inp (t0 + l + 1)).csrR := by
  induction i with
  | zero => exact ⟨hidle.1, hidle.2, fun l hl => by omega⟩
  | succ i ih =>
    obtain ⟨hc, ha, hd⟩ := ih (by omega)
    have hh := hheld (t0 + i) (by omega) (by omega)
    have hstep : bst ratio inp (t0 + (i + 1)) = bnext ratio (bst ratio inp (t0 + i)) (inp (t0 + i)) := rfl
    rw [hstep]
    simp only [bnext, hh.1, hh.2.1, ha, Bool.and_self, if_true, hc, show i < ratio by omega]
    refine ⟨rfl, rfl, ?_⟩
    intro l hl
    by_cases hi0 : i > 0
    · by_cases hli : l = i - 1
      · have : t0 + (i - 1) + 1 = t0 + i := by omega
        simp [hi0, hli, this]
      · simp [hi0, hli]; exact hd l (by omega)
    · omega

/-- C10 transfer: accesses, latency, single ack, lanes -/
theorem transfer (ratio : Nat) (hr : 0 < ratio) (inp : Nat → BIn) (t0 : Nat)
    (hidle : Idle (bst ratio inp t0)) (hheld : Held inp t0 (ratio + 1)) :
    -- one CSR access per granule, ascending, right address/strobes/data
    (∀ i, i < ratio →
      let o := bout ratio (bst ratio inp (t0 + i)) (inp (t0 + i))
      o.addr = (inp t0).adr * ratio + i ∧
      o.rstb = ((inp t0).sel i && !(inp t0).we) ∧
      o.wstb = ((inp t0).sel i && (inp t0).we) ∧
      o.wdata = (inp t0).datw i) ∧
    -- no strobes in the two trailing cycles
    (∀ i, ratio ≤ i → i ≤ ratio + 1 →
      let o := bout ratio (bst ratio inp (t0 + i)) (inp (t0 + i))
      o.rstb = false ∧ o.wstb = false) ∧
    -- ack: low through t0+ratio, high at t0+ratio+1, idle again at t0+ratio+2
    (∀ i, i ≤ ratio → (bst ratio inp (t0 + i)).ack = false) ∧
    (bst ratio inp (t0 + ratio + 1)).ack = true ∧
    Idle (bst ratio inp (t0 + ratio + 2)) ∧
    -- read data lanes at the ack
    (∀ l, l < ratio → (bst ratio inp (t0 + ratio + 1)).datr l = (inp (t0 + l + 1)).csrR) := by
  have inv := inflight ratio hr inp t0 hidle hheld
  have hlast := inv ratio (Nat.le_refl _)
  have hhr := hheld (t0 + ratio) (by omega) (by omega)
  -- state at t0 + ratio + 1
  have hst1 : bst ratio inp (t0 + ratio + 1) = bnext ratio (bst ratio inp (t0 + ratio)) (inp (t0 + ratio)) := rfl
  have hack1 : (bst ratio inp (t0 + ratio + 1)).ack = true ∧ (bst ratio inp (t0 + ratio + 1)).cycle = ratio ∧
      ∀ l, l < ratio → (bst ratio inp (t0 + ratio + 1)).datr l = (inp (t0 + l + 1)).csrR := by
    rw [hst1]
    simp only [bnext, hhr.1, hhr.2.1, hlast.2.1, hlast.1, Bool.and_self, if_true, Nat.lt_irrefl, if_false]
    refine ⟨rfl, rfl, ?_⟩
    intro l hl
    by_cases hll : l = ratio - 1
    · have : t0 + (ratio - 1) + 1 = t0 + ratio := by omega
      simp [hll, this]
    · simp [hll]; exact hlast.2.2 l (by omega)
  refine ⟨?_, ?_, ?_, hack1.1, ?_, hack1.2.2⟩
  · intro i hi
    obtain ⟨hc, ha, _⟩ := inv i (by omega)
    have hh := hheld (t0 + i) (by omega) (by omega)
    simp [bout, hc, hh.1, hh.2.1, hi, Nat.mod_eq_of_lt hi, hh.2.2.1, hh.2.2.2.1, hh.2.2.2.2.1, hh.2.2.2.2.2]
  · intro i h1 h2
    have : i = ratio ∨ i = ratio + 1 := by omega
    rcases this with rfl | rfl
    · simp [bout, hlast.1]
    · have : t0 + (ratio + 1) = t0 + ratio + 1 := by omega
      rw [this]; simp [bout, hack1.2.1]
  · intro i hi; exact (inv i hi).2.1
  · have hst2 : bst ratio inp (t0 + ratio + 2) = bnext ratio (bst ratio inp (t0 + ratio + 1)) (inp (t0 + ratio + 1)) := rfl
    rw [hst2]
    simp only [bnext, hack1.1, if_true]
    exact ⟨rfl, rfl⟩

/-- all inputs: no CSR strobe outside `cyc & stb` -/
theorem no_strobe_outside (ratio : Nat) (s : BState) (i : BIn) (h : (i.cyc && i.stb) = false) :
    (bout ratio s i).rstb = false ∧ (bout ratio s i).wstb = false := by
  simp [bout, h]

end Bridge
