import SocVerif.Mux
namespace Mux

/-! # C19: `_Shadow.prepare()` -/

def users (S : Nat) (regs : List Reg) (o : Nat) : Nat := (regs.filter (usesChunk S · o)).length

/-- `prepare()` declares the shadow unbalanced iff some chunk would get more than `ov + 1` registers
    (the test `len(registers[off]) > overlaps` is made *before* appending). -/
def balanced (S : Nat) (regs : List Reg) (ov : Nat) : Bool :=
  (chunkOffsets S regs).all fun o => decide (users S regs o ≤ ov + 1)

def maxStop (regs : List Reg) : Nat := regs.foldl (fun m r => max m r.stop) 0

theorem le_maxStop {regs : List Reg} {r : Reg} (h : r ∈ regs) : r.stop ≤ maxStop regs := by
  unfold maxStop
  have gen : ∀ (l : List Reg) (m : Nat), m ≤ l.foldl (fun m r => max m r.stop) m ∧
      ∀ r ∈ l, r.stop ≤ l.foldl (fun m r => max m r.stop) m := by
    intro l
    induction l with
    | nil => intro m; exact ⟨Nat.le_refl _, fun r hr => by cases hr⟩
    | cons x xs ih =>
      intro m
      simp only [List.foldl_cons]
      have := ih (max m x.stop)
      refine ⟨by omega, ?_⟩
      intro r hr
      rcases List.mem_cons.mp hr with rfl | hr
      · omega
      · exact this.2 r hr
  exact (gen regs 0).2 r h

/-- the repaired algorithm: double until balanced, refuse once every address bit is already used -/
def prepare (regs : List Reg) (ov : Nat) (S : Nat) (hS : 0 < S) : Option Nat :=
  if balanced S regs ov then some S
  else if h : maxStop regs < S then none
  else prepare regs ov (2 * S) (by omega)
termination_by maxStop regs + 1 - S
decreasing_by omega

/-- once S exceeds every start address, doubling S changes no offset -/
theorem decode_stable (S : Nat) (r : Reg) (a : Nat) (h : r.start < S) :
    decodeOff (2 * S) r a = decodeOff S r a := by
  unfold decodeOff
  rw [Nat.mod_eq_of_lt h, Nat.mod_eq_of_lt (by omega)]

theorem usesChunk_stable (S : Nat) (r : Reg) (o : Nat) (h : r.start < S) :
    usesChunk (2 * S) r o = usesChunk S r o := by
  unfold usesChunk
  congr 1; funext k; rw [decode_stable S r _ h]

theorem balanced_stable (S : Nat) (regs : List Reg) (ov : Nat) (h : ∀ r ∈ regs, r.start < S) :
    balanced (2 * S) regs ov = balanced S regs ov := by
  have hu : ∀ o, users (2 * S) regs o = users S regs o := by
    intro o; unfold users; congr 1
    apply List.filter_congr; intro r hr; exact usesChunk_stable S r o (h r hr)
  have hc : chunkOffsets (2 * S) regs = chunkOffsets S regs := by
    unfold chunkOffsets
    simp only [List.flatMap_def]
    congr 1
    apply List.map_congr_left; intro r hr
    apply List.map_congr_left; intro k _; exact decode_stable S r _ (h r hr)
  unfold balanced; rw [hc]; congr 1; funext o; rw [hu]

theorem balanced_stable_pow (S : Nat) (regs : List Reg) (ov : Nat) (h : ∀ r ∈ regs, r.start < S) (k : Nat) :
    balanced (S * 2 ^ k) regs ov = balanced S regs ov := by
  induction k with
  | zero => simp
  | succ k ih =>
    have : S * 2 ^ (k + 1) = 2 * (S * 2 ^ k) := by rw [Nat.pow_succ]; ac_rfl
    rw [this, balanced_stable _ regs ov (fun r hr => by
      have := h r hr
      have : S ≤ S * 2 ^ k := Nat.le_mul_of_pos_right _ (Nat.two_pow_pos k)
      omega), ih]

/-- C19 `prepare_total_and_exact`: the result is balanced and a power-of-two multiple of the
    initial size; a refusal means that *no* further doubling could ever balance the shadow. -/
theorem prepare_spec (regs : List Reg) (hpos : ∀ r ∈ regs, 1 ≤ r.len) (ov : Nat) (S : Nat) (hS : 0 < S) :
    match prepare regs ov S hS with
    | some S' => balanced S' regs ov = true ∧ ∃ k, S' = S * 2 ^ k
    | none => ∀ k, balanced (S * 2 ^ k) regs ov = false := by
  induction h : maxStop regs + 1 - S using Nat.strongRecOn generalizing S with
  | _ d ih =>
    unfold prepare
    by_cases hb : balanced S regs ov = true
    · rw [if_pos hb]; exact ⟨hb, 0, by simp⟩
    · rw [if_neg hb]
      by_cases hm : maxStop regs < S
      · rw [dif_pos hm]
        intro k
        have hst : ∀ r ∈ regs, r.start < S := by
          intro r hr
          have := le_maxStop hr
          have := hpos r hr
          unfold Reg.stop at *; omega
        rw [balanced_stable_pow S regs ov hst k]; simpa using hb
      · rw [dif_neg hm]
        have := ih (maxStop regs + 1 - 2 * S) (by omega) (2 * S) (by omega) rfl
        split at this
        · rename_i S' heq
          rw [heq]
          obtain ⟨h1, k, h2⟩ := this
          exact ⟨h1, k + 1, by rw [h2, Nat.pow_succ]; ac_rfl⟩
        · rename_i heq
          rw [heq]
          intro k
          cases k with
          | zero => simpa using hb
          | succ k =>
            have := this k
            have e : S * 2 ^ (k + 1) = 2 * S * 2 ^ k := by rw [Nat.pow_succ]; ac_rfl
            rw [e]; exact this

/-! ## the original (unrepaired) recursion diverges on the D2 layout -/

def prepareFuel (regs : List Reg) (ov : Nat) : Nat → Nat → Option Nat
  | 0, _ => none                              -- out of fuel = still recursing
  | fuel + 1, S => if balanced S regs ov then some S else prepareFuel regs ov fuel (2 * S)

def d2 : List Reg := [⟨2, 1, 8, true, true⟩, ⟨3, 2, 16, true, true⟩]   -- registers at [2,3) and [3,5)

theorem d2_never_balanced (k : Nat) : balanced (2 ^ k) d2 0 = false := by
  -- sizes 1, 2, 4 by evaluation; from 8 on nothing changes any more
  match k with
  | 0 => decide
  | 1 => decide
  | 2 => decide
  | k + 3 =>
    have : (2:Nat) ^ (k + 3) = 8 * 2 ^ k := by rw [Nat.pow_add, Nat.mul_comm]
    rw [this, balanced_stable_pow 8 d2 0 (by decide) k]
    decide

theorem original_prepare_diverges (fuel k : Nat) : prepareFuel d2 0 fuel (2 ^ k) = none := by
  induction fuel generalizing k with
  | zero => rfl
  | succ f ih =>
    simp only [prepareFuel, d2_never_balanced k, Bool.false_eq_true, if_false]
    have : 2 * 2 ^ k = 2 ^ (k + 1) := by rw [Nat.pow_succ]; ac_rfl
    rw [this]; exact ih (k + 1)

end Mux
