import SocVerif.Arbiter
/-!
Full model of `wishbone.Arbiter.elaborate` (wishbone/bus.py): the grant register with the nested
`If` chain (`Arb.nextImpl`), `bus_busy`, and the `Switch(grant)` that connects exactly one
initiator: request fan-in with select replication and optional-signal defaults, response fan-out
with the defaults that live *outside* the `Case` (`dat_r` to everyone, `stall` init 1).
-/
namespace ArbF
open Arb

/-- optional signals present on an interface -/
structure Feat where
  err : Bool
  rty : Bool
  stall : Bool
  lock : Bool
  cti : Bool
  bte : Bool
deriving DecidableEq, Repr

structure Cfg where
  n     : Nat                 -- number of initiators (≥ 1)
  bus   : Feat                -- features of the shared bus
  intr  : Nat → Feat          -- features of initiator i
  ratio : Nat → Nat           -- intr granularity / arbiter granularity
  selw  : Nat → Nat           -- number of select bits of initiator i

structure Req where
  cyc : Bool
  stb : Bool
  we  : Bool
  lock : Bool
  adr : Nat
  datw : Nat
  sel : Nat → Bool
  cti : Nat
  bte : Nat

structure Resp where
  ack : Bool
  err : Bool
  rty : Bool
  stall : Bool
  datr : Nat

structure In where
  req  : Nat → Req           -- per initiator
  resp : Resp                -- from the shared bus (target side)

structure BusOut where
  cyc : Bool
  stb : Bool
  we  : Bool
  lock : Bool
  adr : Nat
  datw : Nat
  sel : Nat → Bool
  cti : Nat
  bte : Nat

/-- `Cat(sel.replicate(ratio) for sel in intr_bus.sel)` -/
def selFan (ratio selw : Nat) (sel : Nat → Bool) : Nat → Bool :=
  fun j => decide (j < selw * ratio) && sel (j / ratio)

/-- what the `Case(grant)` drives onto the shared bus (absent optional inputs give the defaults
    0 / CLASSIC = 0 / LINEAR = 0; optional outputs the bus lacks do not exist: modelled as 0) -/
def busOut (c : Cfg) (g : Nat) (x : In) : BusOut :=
  let r := x.req g
  let f := c.intr g
  { cyc := r.cyc, stb := r.stb, we := r.we
    lock := c.bus.lock && f.lock && r.lock
    adr := r.adr, datw := r.datw
    sel := selFan (c.ratio g) (c.selw g) r.sel
    cti := if c.bus.cti && f.cti then r.cti else 0
    bte := if c.bus.bte && f.bte then r.bte else 0 }

/-- `bus_busy = bus.cyc & (bus.lock | bus.stb)` when the shared bus has LOCK, else `bus.cyc` -/
def busy (c : Cfg) (g : Nat) (x : In) : Bool :=
  let b := busOut c g x
  if c.bus.lock then b.cyc && (b.lock || b.stb) else b.cyc

/-- what initiator `i` sees -/
def intrOut (c : Cfg) (g : Nat) (x : In) (i : Nat) : Resp :=
  if i = g then
    { ack := x.resp.ack
      err := (c.intr i).err && c.bus.err && x.resp.err
      rty := (c.intr i).rty && c.bus.rty && x.resp.rty
      stall := (c.intr i).stall && (if c.bus.stall then x.resp.stall else !x.resp.ack)
      datr := x.resp.datr }
  else
    { ack := false, err := false, rty := false, stall := (c.intr i).stall, datr := x.resp.datr }

def nextGrant (c : Cfg) (g : Nat) (x : In) : Nat :=
  if busy c g x then g else nextImpl c.n (fun p => (x.req p).cyc) g

def grantAt (c : Cfg) (inp : Nat → In) : Nat → Nat
  | 0 => 0
  | t + 1 => nextGrant c (grantAt c inp t) (inp t)

end ArbF
