import SocVerif.CsrMon
import SocVerif.Props.C04
import SocVerif.Props.C05
import SocVerif.Props.C12
import SocVerif.Props.C13
import SocVerif.Props.C02Lemmas
import SocVerif.Props.C17
/-!
# C14 — CSR event monitor: enable reads back, pending is read / write-one-to-clear

Theorems about the composite model `CsrMon` (CSR multiplexer over the two mask registers + event
monitor + glue), for every event count, bus width, alignment, trigger modes, **every shadow size
`S`** and every interleaving of register transactions with source activity. The transaction-level
statements are corollaries of the multiplexer theorems (`Mux.read_is_snapshot`,
`Mux.write_concat`, `Mux.w_stb_exact` in Props/C04, C05) and of the monitor theorems
(`Ev.pending_step`, `Ev.line_iff` in Props/C13); bit/number glue: `Act.testBit_ofBits` (Props/C12);
arithmetic: `MemMap.alignUp_ge/_mod/_least` (Props/C02Lemmas), `Bld.c17_clog2_le`-style facts
about `Mux.clog2` (Props/C17). Helper lemmas (prefixed `c14_`) may be added ABOVE the theorems;
model definitions and theorem statements are fixed.
-/
namespace CsrMon
open Mux Ev

/-- the input streams the multiplexer sees inside the composite -/
def rinS (c : Cfg) (S : Nat) (inp : Nat → In) (t : Nat) : RIn := rin c (st c S inp t) (inp t)
def winS (inp : Nat → In) (t : Nat) : WIn := win (inp t)

/-- the composite's multiplexer state is the multiplexer model run on those streams -/
theorem mux_inside (c : Cfg) (S : Nat) (inp : Nat → In) (t : Nat) :
    (st c S inp t).rs = rst c.dw S (regs c) (rinS c S inp) t ∧
    (st c S inp t).ws = wst S (regs c) (winS inp) t := by
  induction t with
  | zero => exact ⟨rfl, rfl⟩
  | succ t ih =>
    constructor
    · show rnext c.dw S (regs c) (st c S inp t).rs (rin c (st c S inp t) (inp t)) =
        rnext c.dw S (regs c) (rst c.dw S (regs c) (rinS c S inp) t) (rinS c S inp t)
      rw [ih.1]; rfl
    · show wnext S (regs c) (st c S inp t).ws (win (inp t)) =
        wnext S (regs c) (wst S (regs c) (winS inp) t) (winS inp t)
      rw [ih.2]; rfl

theorem c14_regLen_pos (c : Cfg) : 1 ≤ regLen c := by
  have := MemMap.alignUp_ge (max (regSize c) 1) c.al
  unfold regLen; omega

theorem c14_regLen_le (c : Cfg) : regLen c ≤ 2 ^ max (clog2 (regSize c)) c.al := by
  unfold regLen
  apply MemMap.alignUp_least
  · have h1 := Bld.c17_clog2_le (regSize c)
    have h2 : 2 ^ clog2 (regSize c) ≤ 2 ^ max (clog2 (regSize c)) c.al :=
      Nat.pow_le_pow_right (by omega) (Nat.le_max_left ..)
    have h3 := Nat.two_pow_pos (max (clog2 (regSize c)) c.al)
    omega
  · obtain ⟨d, hd⟩ : ∃ d, max (clog2 (regSize c)) c.al = c.al + d :=
      ⟨max (clog2 (regSize c)) c.al - c.al, by omega⟩
    rw [hd, Nat.pow_add]; exact Nat.mul_mod_right ..

theorem c14_n_le (c : Cfg) (hdw : 0 < c.dw) : c.n ≤ regLen c * c.dw := by
  have h1 : regSize c ≤ regLen c := by
    have := MemMap.alignUp_ge (max (regSize c) 1) c.al
    unfold regLen; omega
  have h2 : c.n ≤ regSize c * c.dw := by
    unfold regSize
    have hdm := Nat.div_add_mod (c.n + c.dw - 1) c.dw
    have hlt := Nat.mod_lt (c.n + c.dw - 1) hdw
    rw [Nat.mul_comm] at hdm
    omega
  exact Nat.le_trans h2 (Nat.mul_le_mul_right _ h1)

/-- the constructor's layout: both registers fit the address space it declares, they are adjacent,
    disjoint, and wide enough for all events -/
theorem layout_fits (c : Cfg) (hdw : 0 < c.dw) :
    WF (regs c) ∧ (enableReg c).stop = (pendingReg c).start ∧
    (pendingReg c).stop ≤ 2 ^ addrWidth c ∧ c.n ≤ regLen c * c.dw := by
  have hL1 := c14_regLen_pos c
  refine ⟨⟨?_, ?_⟩, ?_, ?_, ?_⟩
  · intro r hr
    simp only [regs, List.mem_cons, List.not_mem_nil, or_false] at hr
    rcases hr with rfl | rfl <;> exact hL1
  · intro a ha b hb hne
    simp only [regs, List.mem_cons, List.not_mem_nil, or_false] at ha hb
    rcases ha with rfl | rfl <;> rcases hb with rfl | rfl
    · exact absurd rfl hne
    · left; simp [Reg.stop, enableReg, pendingReg]
    · right; simp [Reg.stop, enableReg, pendingReg]
    · exact absurd rfl hne
  · simp [Reg.stop, enableReg, pendingReg]
  · have := c14_regLen_le c
    show regLen c + regLen c ≤ 2 ^ (1 + max (clog2 (regSize c)) c.al)
    rw [Nat.add_comm 1, Nat.pow_succ]; omega
  · exact c14_n_le c hdw

/-- the outgoing interrupt line follows enable-and-pending -/
theorem irq_line (c : Cfg) (S : Nat) (s : State) (x : In) :
    irq c S s x = true ↔ ∃ k, k < c.modes.length ∧ s.enable k = true ∧ s.mon.pending k = true := by
  unfold irq
  rw [Ev.line_iff]
  rfl

/-- without a write strobe on the pending register nothing is cleared: zeros, reads, writes to
    other addresses and aborted transactions clear nothing -/
theorem no_clear_without_write (c : Cfg) (S : Nat) (inp : Nat → In) (t k : Nat) (hk : k < c.modes.length)
    (h : (st c S inp t).ws.estb (pendingReg c) = false) :
    (st c S inp (t + 1)).mon.pending k =
      (trgOut c.modes (st c S inp t).mon (monIn c S (st c S inp t) (inp t)) k || (st c S inp t).mon.pending k) := by
  have hk' : c.modes[k]? = some c.modes[k] := List.getElem?_eq_getElem hk
  show (mnext c.modes (st c S inp t).mon (monIn c S (st c S inp t) (inp t))).pending k = _
  simp only [mnext, trgOut, hk', monIn, clearBits, h, Bool.false_and]
  cases trg c.modes[k] ((st c S inp t).mon.prev k) ((inp t).i k) <;> simp

/-- a write transaction to a register `r` of the monitor: chunks `0 … len-1` written in ascending
    order at times `τ`, with values `v`, and no other write strobe in between -/
structure WriteTxn (inp : Nat → In) (r : Reg) (τ : Nat → Nat) (v : Nat → Nat) : Prop where
  mono  : ∀ k, k + 1 < r.len → τ k < τ (k + 1)
  write : ∀ k, k < r.len → (inp (τ k)).wstb = true ∧ (inp (τ k)).addr = r.start + k ∧ (inp (τ k)).wdata = v k
  quiet : ∀ t, τ 0 ≤ t → t ≤ τ (r.len - 1) → (∀ k, k < r.len → t ≠ τ k) → (inp t).wstb = false

/-- write-one-to-clear: in the cycle after the last chunk of a write transaction to the pending
    register, exactly the bits written as one are cleared — unless their source triggers in that
    very cycle — and bits written as zero keep their value -/
theorem pending_w1c (c : Cfg) (hdw : 0 < c.dw) (S : Nat) (inp : Nat → In) (τ v : Nat → Nat)
    (h : WriteTxn inp (pendingReg c) τ v) (k : Nat) (hk : k < c.modes.length) (hkn : k < c.n) :
    let t1 := τ ((pendingReg c).len - 1) + 1
    let s1 := st c S inp t1
    (st c S inp (t1 + 1)).mon.pending k =
      (trgOut c.modes s1.mon (monIn c S s1 (inp t1)) k ||
        (s1.mon.pending k && !(Mux.concat c.dw v (pendingReg c).len % 2 ^ c.n).testBit k)) := by
  intro t1 s1
  have hwf := (layout_fits c hdw).1
  have hmem : pendingReg c ∈ regs c := by simp [regs]
  have hw := Mux.write_concat c.dw S (regs c) hwf (winS inp) (pendingReg c) hmem rfl τ v
    h.mono h.write h.quiet
  rw [← (mux_inside c S inp _).2] at hw
  have hk' : c.modes[k]? = some c.modes[k] := List.getElem?_eq_getElem hk
  show (mnext c.modes s1.mon (monIn c S s1 (inp t1))).pending k = _
  have hc : (monIn c S s1 (inp t1)).clear k =
      (Mux.concat c.dw v (pendingReg c).len % 2 ^ c.n).testBit k := by
    show (s1.ws.estb (pendingReg c) && (elemWdata c.dw S s1.ws (pendingReg c)).testBit k) = _
    rw [hw.1, hw.2]; rfl
  simp only [mnext, trgOut, hk', hc]
  cases trg c.modes[k] (s1.mon.prev k) ((monIn c S s1 (inp t1)).i k) <;>
    cases (Mux.concat c.dw v (pendingReg c).len % 2 ^ c.n).testBit k <;>
    cases s1.mon.pending k <;> rfl

/-- the enable mask is whatever the last completed write transaction wrote -/
theorem enable_latched (c : Cfg) (hdw : 0 < c.dw) (S : Nat) (inp : Nat → In) (τ v : Nat → Nat)
    (h : WriteTxn inp (enableReg c) τ v) (k : Nat) :
    (st c S inp (τ ((enableReg c).len - 1) + 2)).enable k =
      (decide (k < c.n) && (Mux.concat c.dw v (enableReg c).len % 2 ^ c.n).testBit k) := by
  have hwf := (layout_fits c hdw).1
  have hmem : enableReg c ∈ regs c := by simp [regs]
  have hw := Mux.write_concat c.dw S (regs c) hwf (winS inp) (enableReg c) hmem rfl τ v
    h.mono h.write h.quiet
  rw [← (mux_inside c S inp _).2] at hw
  show (next c S (st c S inp (τ ((enableReg c).len - 1) + 1)) (inp _)).enable k = _
  simp only [next, hw.1, hw.2, if_true]
  rfl

/-- … and it keeps its value while the enable register is not strobed -/
theorem enable_kept (c : Cfg) (S : Nat) (inp : Nat → In) (t : Nat)
    (h : (st c S inp t).ws.estb (enableReg c) = false) :
    (st c S inp (t + 1)).enable = (st c S inp t).enable := by
  show (next c S (st c S inp t) (inp t)).enable = _
  simp only [next, h, Bool.false_eq_true, if_false]

/-- reading a mask register (enable or pending) is an atomic snapshot: every chunk read after the
    first-chunk read at `t0` (with no other first-chunk read in between) returns the slice of the
    mask as it was at `t0`, whatever events fire meanwhile -/
theorem mask_read_atomic (c : Cfg) (hdw : 0 < c.dw) (S : Nat) (inp : Nat → In) (r : Reg) (hr : r ∈ regs c)
    (t0 t1 : Nat) (hle : t0 ≤ t1)
    (h0 : (inp t0).rstb = true ∧ (inp t0).addr = r.start)
    (h1 : (inp t1).rstb = true ∧ r.start ≤ (inp t1).addr ∧ (inp t1).addr < r.stop)
    (hquiet : ∀ t, t0 < t → t ≤ t1 → (inp t).rstb = true → ∀ q ∈ regs c, (inp t).addr ≠ q.start) :
    busRdata c S (st c S inp (t1 + 1)) =
      slice c.dw (if r.start = 0 then Act.ofBits c.n (st c S inp t0).enable
                  else Act.ofBits c.n (st c S inp t0).mon.pending) ((inp t1).addr - r.start) := by
  have hwf := (layout_fits c hdw).1
  have hrd : r.rd = true := by
    simp only [regs, List.mem_cons, List.not_mem_nil, or_false] at hr
    rcases hr with rfl | rfl <;> rfl
  have hs := Mux.read_is_snapshot c.dw S (regs c) hwf (rinS c S inp) r hr hrd t0 t1 hle h0 h1
    (fun t a b hstb q hq _ => hquiet t a b hstb q hq)
  rw [← (mux_inside c S inp _).1] at hs
  exact hs

/-- non-vacuity: 9 events on an 8-bit bus (two chunks per mask register) -/
example :
    let c : Cfg := ⟨9, 8, 0, List.replicate 9 Mode.level⟩
    regLen c = 2 ∧ addrWidth c = 2 ∧ (pendingReg c).start = 2 ∧ (pendingReg c).stop = 4 := by
  decide

end CsrMon
