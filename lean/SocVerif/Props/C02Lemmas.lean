import SocVerif.MemMap
/-! helper lemmas for `Props/C02.lean` -/
namespace MemMap
open RangeMap Names

theorem alignUp_ge (v a : Nat) : v ≤ alignUp v a := by
  unfold alignUp
  simp only
  split <;> omega

theorem alignUp_mod (v a : Nat) : alignUp v a % 2 ^ a = 0 := by
  have hm : 0 < 2 ^ a := Nat.two_pow_pos a
  unfold alignUp
  generalize 2 ^ a = m at *
  simp only
  have hdm := Nat.div_add_mod v m
  have hlt := Nat.mod_lt v hm
  by_cases h0 : v % m = 0
  · simp [h0]
  · have e : v + (m - v % m) = m * (v / m + 1) := by rw [Nat.mul_add, Nat.mul_one]; omega
    simp only [bne_iff_ne, ne_eq, h0, not_false_eq_true, if_true, e]
    exact Nat.mul_mod_right ..

theorem alignUp_least (v a x : Nat) (hx : v ≤ x) (hxm : x % 2 ^ a = 0) : alignUp v a ≤ x := by
  have hm : 0 < 2 ^ a := Nat.two_pow_pos a
  unfold alignUp
  generalize 2 ^ a = m at *
  simp only
  have hdm := Nat.div_add_mod v m
  have hlt := Nat.mod_lt v hm
  by_cases h0 : v % m = 0
  · simp [h0]; exact hx
  · have e : v + (m - v % m) = m * (v / m + 1) := by rw [Nat.mul_add, Nat.mul_one]; omega
    simp only [bne_iff_ne, ne_eq, h0, not_false_eq_true, if_true, e]
    have hxd := Nat.div_add_mod x m
    rw [hxm] at hxd
    have hle : v / m ≤ x / m := Nat.div_le_div_right hx
    have hne : v / m ≠ x / m := by
      intro heq
      rw [← heq] at hxd
      omega
    have : v / m + 1 ≤ x / m := by omega
    have := Nat.mul_le_mul_left m this
    omega

theorem ranges_insertItem (items : List Tree) (t : Tree) :
    ranges (insertItem items t) = insertAt (ranges items) t.rng := by
  simp only [ranges, insertItem, insertAt, List.map_append, List.map_cons, List.map_take,
    List.map_drop, Tree.rng]

theorem insertItem_perm (items : List Tree) (t : Tree) : (insertItem items t).Perm (t :: items) := by
  unfold insertItem
  simp only
  refine List.perm_middle.trans ?_
  rw [List.take_append_drop]

theorem computeRange_some {m : MMap} {addr : Option Nat} {size al s e : Nat}
    (h : computeRange m addr size al = some (s, e)) :
    e = s + alignUp (max size 1) al ∧ e ≤ 2 ^ m.aw ∧
    (match (generalizing := false) addr with
     | some a => s = a
     | none => s = alignUp m.next al) ∧
    overlaps (ranges m.items) ⟨s, e⟩ = [] := by
  have core : ∀ a, (if (decide (a > 2 ^ m.aw) || decide (a + alignUp (max size 1) al > 2 ^ m.aw)) = true then none
      else
        if (!(overlaps (ranges m.items) { start := a, stop := a + alignUp (max size 1) al }).isEmpty) = true then none
        else some (a, a + alignUp (max size 1) al)) = some (s, e) →
      s = a ∧ e = s + alignUp (max size 1) al ∧ e ≤ 2 ^ m.aw ∧
        overlaps (ranges m.items) ⟨s, e⟩ = [] := by
    intro a h
    split at h
    · simp at h
    · split at h
      · simp at h
      · rename_i h1 h2
        simp only [Option.some.injEq, Prod.mk.injEq] at h
        obtain ⟨rfl, rfl⟩ := h
        simp only [Bool.or_eq_true, decide_eq_true_eq, not_or, Nat.not_lt] at h1
        exact ⟨rfl, rfl, h1.2, by simpa using h2⟩
  unfold computeRange at h
  cases addr with
  | some a =>
    simp only at h
    by_cases hc : (a % 2 ^ m.al != 0) = true
    · simp [hc] at h
    · simp only [hc] at h
      obtain ⟨h1, h2, h3, h4⟩ := core a h
      exact ⟨h2, h3, h1, h4⟩
  | none =>
    simp only at h
    obtain ⟨h1, h2, h3, h4⟩ := core _ h
    exact ⟨h2, h3, h1, h4⟩

/-- effective alignment of `add_resource` -/
def effAl (m : MMap) : Option Nat → Nat
  | some a => max a m.al
  | none => m.al

theorem c02_addResource_some {m : MMap} {id : Nat} {name : Name} {size : Nat} {addr al : Option Nat}
    {m' : MMap} {s e : Nat} (h : addResource m id name size addr al = some (m', s, e)) :
    m.frozen = false ∧
    computeRange m addr size (effAl m al) = some (s, e) ∧
    m' = { m with items := insertItem m.items (.res id name s e), resIds := id :: m.resIds,
                  names := name :: m.names, next := e } := by
  have hal : addResource m id name size addr al =
      if m.frozen then none
      else if m.resIds.contains id then none
      else if name.isEmpty then none
      else if !available m.names [name] then none
      else
        match computeRange m addr size (effAl m al) with
        | none => none
        | some (s, e) =>
          some ({ m with items := insertItem m.items (.res id name s e), resIds := id :: m.resIds,
                         names := name :: m.names, next := e }, s, e) := by
    cases al <;> rfl
  rw [hal] at h
  by_cases h1 : m.frozen = true
  · rw [if_pos h1] at h; cases h
  rw [if_neg h1] at h
  by_cases h2 : m.resIds.contains id = true
  · rw [if_pos h2] at h; cases h
  rw [if_neg h2] at h
  by_cases h3 : name.isEmpty = true
  · rw [if_pos h3] at h; cases h
  rw [if_neg h3] at h
  by_cases h4 : (!available m.names [name]) = true
  · rw [if_pos h4] at h; cases h
  rw [if_neg h4] at h
  cases hc : computeRange m addr size (effAl m al) with
  | none => rw [hc] at h; cases h
  | some p =>
    obtain ⟨s', e'⟩ := p
    rw [hc] at h
    simp only [Option.some.injEq, Prod.mk.injEq] at h
    obtain ⟨rfl, rfl, rfl⟩ := h
    exact ⟨by simpa using h1, rfl, rfl⟩

theorem ite_none_eq_some {α : Type} {c : Prop} [Decidable c] {x : Option α} {y : α}
    (h : (if c then none else x) = some y) : ¬ c ∧ x = some y := by
  by_cases hc : c
  · rw [if_pos hc] at h; cases h
  · rw [if_neg hc] at h; exact ⟨hc, h⟩

theorem c02_addWindow_some {m : MMap} {h : Nat} {child : MMap} {name : Option Name} {addr : Option Nat}
    {sparse : Option Bool} {m' : MMap} {s e r : Nat}
    (hw : addWindow m h child name addr sparse = some (m', s, e, r)) :
    m.frozen = false ∧
    r = (if sparse == some true then 1 else m.dw / child.dw) ∧
    computeRange m addr (2 ^ child.aw / r) (max m.al (child.aw / r)) = some (s, e) ∧
    m'.aw = m.aw ∧ m'.next = e ∧
    m'.items = insertItem m.items (Tree.win h name s e r child.dw child.items (winOrder child)) := by
  unfold addWindow at hw
  obtain ⟨h1, hw⟩ := ite_none_eq_some hw
  obtain ⟨h2, hw⟩ := ite_none_eq_some hw
  obtain ⟨h3, hw⟩ := ite_none_eq_some hw
  obtain ⟨h4, hw⟩ := ite_none_eq_some hw
  obtain ⟨h5, hw⟩ := ite_none_eq_some hw
  obtain ⟨h6, hw⟩ := ite_none_eq_some hw
  simp only at hw
  obtain ⟨h7, hw⟩ := ite_none_eq_some hw
  obtain ⟨h8, hw⟩ := ite_none_eq_some hw
  obtain ⟨h9, hw⟩ := ite_none_eq_some hw
  generalize (if (sparse == some true) = true then 1 else m.dw / child.dw) = ratio at hw ⊢
  cases hc : computeRange m addr (2 ^ child.aw / ratio) (max m.al (child.aw / ratio)) with
  | none => rw [hc] at hw; cases hw
  | some p =>
    obtain ⟨s', e'⟩ := p
    rw [hc] at hw
    simp only [Option.some.injEq, Prod.mk.injEq] at hw
    obtain ⟨rfl, rfl, rfl, rfl⟩ := hw
    exact ⟨by simpa using h1, rfl, hc, rfl, rfl, rfl⟩

end MemMap
