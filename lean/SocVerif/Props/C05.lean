import SocVerif.Mux
/-!
# C05 — CSR multiplexer writes are atomic and reach exactly the addressed register

Property theorems about the write path of the multiplexer model (`chunkWen`, `elemWstbNext`,
`wnext`, `wst`, `elemWdata`), for every well-formed layout, every chunk width `W`, **every shadow
size `S`** and every input stream. Helper lemmas may be added ABOVE the theorems (or in
`SocVerif/Props/C05Lemmas.lean`); model definitions and theorem statements are fixed.
-/
namespace Mux

theorem chunkWen_elim {S : Nat} {regs : List Reg} {i : WIn} {o : Nat}
    (h : chunkWen S regs i o = true) :
    ∃ r ∈ regs, r.wr = true ∧ r.start ≤ i.addr ∧ i.addr < r.stop := by
  simp only [chunkWen, Bool.and_eq_true, List.any_eq_true, beq_iff_eq] at h
  obtain ⟨⟨q, hq, hqa⟩, _⟩ := h
  have hq' := mem_wrRegs.mp hq
  have hrng := encode_in_range hq'.2.1
  rw [hqa] at hrng
  exact ⟨q, hq'.1, hq'.2.2, hrng.1, hrng.2⟩

theorem tau_mono_le (τ : Nat → Nat) (m : Nat) (hmono : ∀ k, k + 1 < m → τ k < τ (k + 1))
    (a b : Nat) (hab : a ≤ b) (hb : b < m) : τ a ≤ τ b := by
  induction b with
  | zero => have : a = 0 := by omega
            subst this; exact Nat.le_refl _
  | succ b ih =>
    by_cases h : a = b + 1
    · subst h; exact Nat.le_refl _
    · exact Nat.le_trans (ih (by omega) (by omega)) (Nat.le_of_lt (hmono b hb))

/-- [all inputs] no register is strobed in the first cycle -/
theorem w_stb_initially (S : Nat) (regs : List Reg) (inp : Nat → WIn) (r : Reg) :
    (wst S regs inp 0).estb r = false := by
  rfl

/-- [all inputs] a register receives its write strobe in cycle `t+1` iff cycle `t` wrote its last
    address (and it is writable): exactly one cycle, one cycle later, and nobody else -/
theorem w_stb_exact (S : Nat) (regs : List Reg) (hwf : WF regs) (inp : Nat → WIn) (t : Nat)
    (r : Reg) (hr : r ∈ regs) :
    (wst S regs inp (t + 1)).estb r = (r.wr && (inp t).wstb && ((inp t).addr == r.stop - 1)) := by
  exact wstb_exact S regs hwf (inp t) r hr

/-- [all inputs] a write to an address that belongs to no writable register (read-only register
    or unmapped address) has no effect: no chunk is loaded and nobody is strobed -/
theorem ro_unmapped_inert (S : Nat) (regs : List Reg) (hwf : WF regs) (s : WState) (i : WIn)
    (h : ∀ r ∈ regs, r.wr = true → ¬ (r.start ≤ i.addr ∧ i.addr < r.stop)) :
    (wnext S regs s i).data = s.data ∧ ∀ r ∈ regs, (wnext S regs s i).estb r = false := by
  constructor
  · funext o
    simp only [wnext]
    rw [if_neg]
    intro hc
    obtain ⟨r, hr, hwr, ha⟩ := chunkWen_elim hc
    exact h r hr hwr ha
  · intro r hr
    show elemWstbNext S regs i r = false
    rw [wstb_exact S regs hwf i r hr]
    cases hc : (r.wr && i.wstb && i.addr == r.stop - 1) with
    | false => rfl
    | true =>
      simp only [Bool.and_eq_true, beq_iff_eq] at hc
      have hlen := hwf.pos r hr
      exact absurd (by rw [hc.2]; unfold Reg.stop; omega) (h r hr hc.1.1)

/-- concatenation of chunk values, least significant first -/
def concat (W : Nat) (v : Nat → Nat) : Nat → Nat
  | 0 => 0
  | n + 1 => concat W v n + (v n % 2 ^ W) * 2 ^ (n * W)

theorem foldl_concat (W : Nat) (d v : Nat → Nat) (n : Nat) (h : ∀ k, k < n → d k = v k) :
    (List.range n).foldl (fun acc k => acc + (d k % 2 ^ W) * 2 ^ (k * W)) 0 = concat W v n := by
  induction n with
  | zero => rfl
  | succ n ih =>
    rw [List.range_succ, List.foldl_append, ih (fun k hk => h k (by omega))]
    simp only [List.foldl_cons, List.foldl_nil, concat]
    rw [h n (by omega)]

/-- [protocol: chunks written in ascending order, no other write strobe in between] in the cycle
    after the write to the last address (the cycle of the element's write strobe) the element's
    write data is the concatenation of the values written in that transaction, truncated to the
    register width (padding chunks are dropped) -/
theorem write_concat (W S : Nat) (regs : List Reg) (hwf : WF regs) (inp : Nat → WIn) (r : Reg)
    (hr : r ∈ regs) (hwr : r.wr = true) (τ : Nat → Nat) (v : Nat → Nat)
    (hmono : ∀ k, k + 1 < r.len → τ k < τ (k + 1))
    (hwrite : ∀ k, k < r.len → (inp (τ k)).wstb = true ∧ (inp (τ k)).addr = r.start + k ∧ (inp (τ k)).wdata = v k)
    (hquiet : ∀ t, τ 0 ≤ t → t ≤ τ (r.len - 1) → (∀ k, k < r.len → t ≠ τ k) → (inp t).wstb = false) :
    (wst S regs inp (τ (r.len - 1) + 1)).estb r = true ∧
    elemWdata W S (wst S regs inp (τ (r.len - 1) + 1)) r = concat W v r.len % 2 ^ r.width := by
  have hlen := hwf.pos r hr
  constructor
  · show elemWstbNext S regs (inp (τ (r.len - 1))) r = true
    rw [wstb_exact S regs hwf _ r hr]
    have hw := hwrite (r.len - 1) (by omega)
    simp only [Bool.and_eq_true, beq_iff_eq]
    exact ⟨⟨hwr, hw.1⟩, by rw [hw.2.1]; unfold Reg.stop; omega⟩
  · unfold elemWdata
    congr 1
    apply foldl_concat W (fun k => (wst S regs inp (τ (r.len - 1) + 1)).data (decodeOff S r (r.start + k))) v r.len
    intro k hk
    have hle := tau_mono_le τ r.len hmono k (r.len - 1) (by omega) (by omega)
    exact write_prefix S regs hwf inp r hr hwr τ v r.len (Nat.le_refl _) hmono hwrite hquiet k hk
      (τ (r.len - 1) + 1) (by omega) (Nat.le_refl _)

/-- the shadow-sharing limit never changes what a register receives -/
theorem sharing_unobservable_write (W S S' : Nat) (regs : List Reg) (hwf : WF regs) (inp : Nat → WIn) (r : Reg)
    (hr : r ∈ regs) (hwr : r.wr = true) (τ : Nat → Nat) (v : Nat → Nat)
    (hmono : ∀ k, k + 1 < r.len → τ k < τ (k + 1))
    (hwrite : ∀ k, k < r.len → (inp (τ k)).wstb = true ∧ (inp (τ k)).addr = r.start + k ∧ (inp (τ k)).wdata = v k)
    (hquiet : ∀ t, τ 0 ≤ t → t ≤ τ (r.len - 1) → (∀ k, k < r.len → t ≠ τ k) → (inp t).wstb = false) :
    elemWdata W S (wst S regs inp (τ (r.len - 1) + 1)) r =
      elemWdata W S' (wst S' regs inp (τ (r.len - 1) + 1)) r := by
  rw [(write_concat W S regs hwf inp r hr hwr τ v hmono hwrite hquiet).2,
    (write_concat W S' regs hwf inp r hr hwr τ v hmono hwrite hquiet).2]

/-- non-vacuity: a padded 3-address register holding 12 bits (last address is a padding chunk)
    next to a 1-chunk register on a shared shadow: the two-chunk value is delivered with the
    strobe after the write to the padding address. -/
example :
    let regs : List Reg := [⟨4, 3, 12, false, true⟩, ⟨0, 1, 8, true, true⟩]
    let inp : Nat → WIn := fun t =>
      match t with
      | 0 => ⟨4, true, 0xAB⟩ | 1 => ⟨5, true, 0xCD⟩ | 2 => ⟨6, true, 0xEE⟩ | _ => ⟨0, false, 0⟩
    WF regs ∧ (wst 4 regs inp 3).estb ⟨4, 3, 12, false, true⟩ = true ∧
      elemWdata 8 4 (wst 4 regs inp 3) ⟨4, 3, 12, false, true⟩ = 0xDAB := by
  refine ⟨⟨?_, ?_⟩, ?_, ?_⟩
  · decide
  · intro a ha b hb hne
    simp only [List.mem_cons, List.not_mem_nil, or_false] at ha hb
    rcases ha with rfl | rfl <;> rcases hb with rfl | rfl <;>
      first | exact absurd rfl hne | (unfold Disjoint Reg.stop; simp)
  · decide +kernel
  · decide +kernel

end Mux
