import SocVerif.Actions
/-!
# C12 — field actions keep, set and clear storage exactly as documented, for all time

Theorems about the `Act` model for every width, initial value and input history.
Helper lemmas (prefixed `c12_`) may be added ABOVE the theorems; model definitions and theorem
statements are fixed.
-/
namespace Act

theorem c12_ofBits_succ (w : Nat) (f : Nat → Bool) :
    ofBits (w + 1) f = ofBits w f + (if f w then 2 ^ w else 0) := by
  simp only [ofBits, List.range_succ, List.foldl_append, List.foldl_cons, List.foldl_nil]

theorem c12_ofBits_lt (w : Nat) (f : Nat → Bool) : ofBits w f < 2 ^ w := by
  induction w with
  | zero => exact Nat.lt_succ_self 0
  | succ w ih =>
    rw [c12_ofBits_succ, Nat.pow_succ]
    split <;> omega

/-- RW: the field holds its initial value until written … -/
theorem rw_holds_init (w : Nat) (init : Nat → Bool) (inp : Nat → In) (t : Nat)
    (h : ∀ u, u < t → (inp u).wstb = false) (b : Nat) :
    st .rw w init inp t b = (decide (b < w) && init b) := by
  induction t with
  | zero => rfl
  | succ t ih =>
    have h1 : (inp t).wstb = false := h t (Nat.lt_succ_self t)
    have h2 := ih (fun u hu => h u (Nat.lt_succ_of_lt hu))
    simp only [st, next, h1]
    exact h2

/-- … and thereafter the last value written (visible from the cycle after the write strobe) -/
theorem rw_last_write (w : Nat) (init : Nat → Bool) (inp : Nat → In) (t u : Nat) (hu : u < t)
    (hw : (inp u).wstb = true) (hlast : ∀ v, u < v → v < t → (inp v).wstb = false) (b : Nat) :
    st .rw w init inp t b = (decide (b < w) && (inp u).wdata b) := by
  induction t with
  | zero => exact absurd hu (Nat.not_lt_zero u)
  | succ t ih =>
    by_cases hut : u = t
    · subst hut
      simp only [st, next, hw, if_true]
    · have hlt : u < t := by omega
      have h1 : (inp t).wstb = false := hlast t hlt (Nat.lt_succ_self t)
      have h2 := ih hlt (fun v h1 h2 => hlast v h1 (Nat.lt_succ_of_lt h2))
      simp only [st, next, h1]
      exact h2

/-- RW1C, all bits jointly: next = (storage AND NOT written-ones) OR set, setting wins a tie,
    untouched bits keep their value -/
theorem rw1c_step (w : Nat) (init : Nat → Bool) (inp : Nat → In) (t b : Nat) (hb : b < w) :
    st .rw1c w init inp (t + 1) b =
      ((inp t).aux b || (st .rw1c w init inp t b && !((inp t).wstb && (inp t).wdata b))) := by
  simp only [st, next, rw1cBit, hb, decide_true, Bool.true_and]
  cases (inp t).aux b <;> cases (inp t).wstb <;> cases (inp t).wdata b <;>
    cases st Kind.rw1c w init inp t b <;> rfl

/-- RW1S, all bits jointly: next = (storage AND NOT clear) OR written-ones, setting wins a tie -/
theorem rw1s_step (w : Nat) (init : Nat → Bool) (inp : Nat → In) (t b : Nat) (hb : b < w) :
    st .rw1s w init inp (t + 1) b =
      (((inp t).wstb && (inp t).wdata b) || (st .rw1s w init inp t b && !(inp t).aux b)) := by
  simp only [st, next, rw1sBit, hb, decide_true, Bool.true_and]
  cases (inp t).aux b <;> cases (inp t).wstb <;> cases (inp t).wdata b <;>
    cases st Kind.rw1s w init inp t b <;> rfl

/-- no storage bit exists beyond the field's width -/
theorem no_bits_beyond_width (k : Kind) (hk : k = .rw ∨ k = .rw1c ∨ k = .rw1s) (w : Nat)
    (init : Nat → Bool) (inp : Nat → In) (t b : Nat) (hb : w ≤ b) : st k w init inp t b = false := by
  have hd : decide (b < w) = false := decide_eq_false (Nat.not_lt.mpr hb)
  induction t with
  | zero => simp only [st, hd, Bool.false_and]
  | succ t ih =>
    rcases hk with rfl | rfl | rfl
    · simp only [st, next, hd, Bool.false_and]
      split
      · rfl
      · exact ih
    · simp only [st, next, hd, Bool.false_and]
    · simp only [st, next, hd, Bool.false_and]

/-- bits are independent: bit `b` of the next state depends on bit `b` of state and inputs only -/
theorem bit_independent (k : Kind) (w : Nat) (s s' : Nat → Bool) (i i' : In) (b : Nat)
    (hs : s b = s' b) (hw : i.wstb = i'.wstb) (hd : i.wdata b = i'.wdata b) (ha : i.aux b = i'.aux b) :
    next k w s i b = next k w s' i' b := by
  cases k <;> simp only [next, hs, hw, hd, ha]

/-- R and W pass data and strobes through unchanged in the same cycle -/
theorem r_passthrough (w : Nat) (s : Nat → Bool) (i : In) (b : Nat) (hb : b < w) :
    (out .r w s i).portR b = i.aux b ∧ (out .r w s i).stbO = i.rstb := by
  simp only [out, hb, decide_true, Bool.true_and, and_self]

theorem w_passthrough (w : Nat) (s : Nat → Bool) (i : In) (b : Nat) (hb : b < w) :
    (out .w w s i).data b = i.wdata b ∧ (out .w w s i).stbO = i.wstb := by
  simp only [out, hb, decide_true, Bool.true_and, and_self]

/-- reserved fields influence nothing: no storage, all outputs constant zero for every input -/
theorem reserved_inert (w : Nat) (init : Nat → Bool) (inp : Nat → In) (t : Nat) :
    st .res w init inp t = st .res w init inp 0 ∧
    ∀ b, (out .res w (st .res w init inp t) (inp t)).portR b = false ∧
         (out .res w (st .res w init inp t) (inp t)).data b = false := by
  refine ⟨?_, fun b => ⟨rfl, rfl⟩⟩
  induction t with
  | zero => rfl
  | succ t ih => simp only [st, next] at ih ⊢; exact ih

/-- a storage field's `data` output always equals what a bus read of it returns -/
theorem data_eq_r_data (k : Kind) (hk : k = .rw ∨ k = .rw1c ∨ k = .rw1s) (w : Nat) (s : Nat → Bool) (i : In) :
    (out k w s i).data = (out k w s i).portR := by
  rcases hk with rfl | rfl | rfl <;> rfl

/-- `ofBits` really is the number with those bits (glue used by the driver) -/
theorem testBit_ofBits (w : Nat) (f : Nat → Bool) (b : Nat) :
    (ofBits w f).testBit b = (decide (b < w) && f b) := by
  induction w with
  | zero =>
    have : ofBits 0 f = 0 := rfl
    simp only [this, Nat.zero_testBit, Nat.not_lt_zero, decide_false, Bool.false_and]
  | succ w ih =>
    have hlt := c12_ofBits_lt w f
    have hlt' := c12_ofBits_lt (w + 1) f
    rw [c12_ofBits_succ] at hlt' ⊢
    by_cases h1 : w + 1 ≤ b
    · have hd : decide (b < w + 1) = false := decide_eq_false (by omega)
      rw [hd, Bool.false_and]
      exact Nat.testBit_lt_two_pow (Nat.lt_of_lt_of_le hlt' (Nat.pow_le_pow_right (by decide) h1))
    · have hd : decide (b < w + 1) = true := decide_eq_true (by omega)
      rw [hd, Bool.true_and]
      by_cases h2 : b = w
      · subst h2
        cases hf : f b
        · simp only [Bool.false_eq_true, if_false, Nat.add_zero]
          exact Nat.testBit_lt_two_pow hlt
        · simp only [if_true]
          rw [Nat.add_comm, Nat.testBit_two_pow_add_eq, Nat.testBit_lt_two_pow hlt]
          rfl
      · have hbw : b < w := by omega
        have hd2 : decide (b < w) = true := decide_eq_true hbw
        rw [hd2, Bool.true_and] at ih
        cases hf : f w
        · simp only [Bool.false_eq_true, if_false, Nat.add_zero]
          exact ih
        · simp only [if_true]
          rw [Nat.add_comm, Nat.testBit_two_pow_add_gt hbw]
          exact ih

/-- non-vacuity: RW1C width 4, init 0b0101: set bit 1 while clearing bits 0 and 1 → 0b0110 -/
example :
    let inp : Nat → In := fun _ => ⟨false, true, fun b => b == 0 || b == 1, fun b => b == 1⟩
    ofBits 4 (st .rw1c 4 (fun b => b == 0 || b == 2) inp 1) = 6 := by
  decide

end Act
