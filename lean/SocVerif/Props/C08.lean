import SocVerif.ArbFull
/-!
# C08 — Wishbone arbiter: one owner at a time, isolated, never pre-empted mid-cycle
# C09 — Wishbone arbiter is round-robin fair: no requester can be starved

Theorems about the full arbiter model `ArbF` (grant register + `Switch(grant)` data path), for
every number of initiators, every feature assignment, every reachable state and every combination
of initiator requests and target responses in every cycle (initiators are not assumed to behave).
Already proved in `SocVerif/Arbiter.lean` about the grant logic alone: `Arb.next_is_closest`,
`Arb.next_stays`, `Arb.grant_lt`, `Arb.dist_decreases`, `Arb.served` — use them.
Helper lemmas (prefixed `c08_`) may be added ABOVE the theorems; model definitions and theorem
statements are fixed.
-/
namespace ArbF
open Arb

/-- the abstract schedule induced by the full model -/
def c08_sched (c : Cfg) (inp : Nat → In) : Arb.Sched :=
  ⟨fun t p => ((inp t).req p).cyc, fun t => busy c (grantAt c inp t) (inp t)⟩

theorem c08_grantAt_eq (c : Cfg) (inp : Nat → In) (t : Nat) :
    grantAt c inp t = Arb.grant c.n (c08_sched c inp) t := by
  induction t with
  | zero => rfl
  | succ t ih =>
    show nextGrant c (grantAt c inp t) (inp t) =
      (if (c08_sched c inp).busy t then Arb.grant c.n (c08_sched c inp) t
       else nextImpl c.n ((c08_sched c inp).req t) (Arb.grant c.n (c08_sched c inp) t))
    rw [← ih]
    rfl

theorem c08_step_free (c : Cfg) (inp : Nat → In) (t : Nat)
    (hfree : busy c (grantAt c inp t) (inp t) = false) :
    grantAt c inp (t + 1) = nextImpl c.n (fun p => ((inp t).req p).cyc) (grantAt c inp t) := by
  show nextGrant c (grantAt c inp t) (inp t) = _
  unfold nextGrant
  rw [hfree]
  rfl

theorem c08_step_busy (c : Cfg) (inp : Nat → In) (t : Nat)
    (hb : busy c (grantAt c inp t) (inp t) = true) :
    grantAt c inp (t + 1) = grantAt c inp t := by
  show nextGrant c (grantAt c inp t) (inp t) = _
  unfold nextGrant
  rw [hb]
  rfl

theorem c08_div (j r k : Nat) (hk : k < r) : (j * r + k) / r = j := by
  have hr : 0 < r := by omega
  rw [Nat.mul_comm, Nat.mul_add_div hr, Nat.div_eq_of_lt hk]
  rfl

theorem c08_lt (j r k w : Nat) (hj : j < w) (hk : k < r) : j * r + k < w * r := by
  have h1 : (j + 1) * r ≤ w * r := Nat.mul_le_mul_right r hj
  rw [Nat.add_mul] at h1
  omega

/-- exactly one owner: the grant register always names an existing initiator -/
theorem grant_lt (c : Cfg) (hn : 0 < c.n) (inp : Nat → In) (t : Nat) : grantAt c inp t < c.n := by
  rw [c08_grantAt_eq]
  exact Arb.grant_lt c.n hn _ t

/-- the shared bus carries the owner's address, data, control and (fanned-out) select, and the
    owner's optional signals or the defaults when the owner or the bus lacks them -/
theorem shared_bus_is_owner (c : Cfg) (g : Nat) (x : In) :
    let b := busOut c g x
    let r := x.req g
    b.cyc = r.cyc ∧ b.stb = r.stb ∧ b.we = r.we ∧ b.adr = r.adr ∧ b.datw = r.datw ∧
    (∀ j k, j < c.selw g → k < c.ratio g → b.sel (j * c.ratio g + k) = r.sel j) ∧
    (∀ j, c.selw g * c.ratio g ≤ j → b.sel j = false) ∧
    b.lock = (c.bus.lock && (c.intr g).lock && r.lock) ∧
    b.cti = (if c.bus.cti && (c.intr g).cti then r.cti else 0) ∧
    b.bte = (if c.bus.bte && (c.intr g).bte then r.bte else 0) := by
  intro b r
  refine ⟨rfl, rfl, rfl, rfl, rfl, ?_, ?_, rfl, rfl, rfl⟩
  · intro j k hj hk
    show selFan (c.ratio g) (c.selw g) (x.req g).sel (j * c.ratio g + k) = (x.req g).sel j
    unfold selFan
    rw [c08_div j _ k hk]
    simp [c08_lt j _ k _ hj hk]
  · intro j hj
    show selFan (c.ratio g) (c.selw g) (x.req g).sel j = false
    unfold selFan
    have : ¬ j < c.selw g * c.ratio g := by omega
    simp [this]

/-- only the owner sees the target's acknowledge, error, retry and stall (stall = complement of
    acknowledge when the shared bus has no stall line); every other initiator sees no response
    and, if it has a stall input, a stall; read data is broadcast -/
theorem responses_isolated (c : Cfg) (g : Nat) (x : In) (i : Nat) :
    (i = g →
      (intrOut c g x i).ack = x.resp.ack ∧
      (intrOut c g x i).err = ((c.intr i).err && c.bus.err && x.resp.err) ∧
      (intrOut c g x i).rty = ((c.intr i).rty && c.bus.rty && x.resp.rty) ∧
      ((c.intr i).stall = true → (intrOut c g x i).stall = (if c.bus.stall then x.resp.stall else !x.resp.ack))) ∧
    (i ≠ g →
      (intrOut c g x i).ack = false ∧ (intrOut c g x i).err = false ∧ (intrOut c g x i).rty = false ∧
      ((c.intr i).stall = true → (intrOut c g x i).stall = true)) ∧
    (intrOut c g x i).datr = x.resp.datr := by
  refine ⟨?_, ?_, ?_⟩
  · intro h
    subst h
    unfold intrOut
    rw [if_pos rfl]
    refine ⟨rfl, rfl, rfl, ?_⟩
    intro hs
    simp [hs]
  · intro h
    unfold intrOut
    rw [if_neg h]
    refine ⟨rfl, rfl, rfl, ?_⟩
    intro hs
    exact hs
  · unfold intrOut
    split <;> rfl

/-- ownership never changes while the owner's bus cycle is in progress: while it asserts cycle
    and, when locking is supported, lock or strobe -/
theorem no_preemption (c : Cfg) (inp : Nat → In) (t : Nat)
    (h : let r := (inp t).req (grantAt c inp t)
         r.cyc = true ∧ (c.bus.lock = true → (((c.intr (grantAt c inp t)).lock && r.lock) || r.stb) = true)) :
    grantAt c inp (t + 1) = grantAt c inp t := by
  apply c08_step_busy
  obtain ⟨h1, h2⟩ := h
  unfold busy busOut
  cases hl : c.bus.lock with
  | false => simpa using h1
  | true =>
    have h3 := h2 hl
    simp only [if_true, Bool.true_and]
    rw [h1, h3]
    rfl

/-! ### C09 -/

/-- cyclic distance from the owner `g` to initiator `j` -/
abbrev cdist := Arb.dist

/-- when the bus is not held and another initiator requests, ownership passes on the next edge
    to the requesting initiator closest after the current owner in cyclic order -/
theorem next_owner_is_closest (c : Cfg) (hn : 0 < c.n) (inp : Nat → In) (t : Nat)
    (hfree : busy c (grantAt c inp t) (inp t) = false)
    (j : Nat) (hj : j < c.n) (hjg : j ≠ grantAt c inp t) (hreq : ((inp t).req j).cyc = true) :
    let g := grantAt c inp t
    let g' := grantAt c inp (t + 1)
    g' < c.n ∧ g' ≠ g ∧ ((inp t).req g').cyc = true ∧ cdist c.n g g' ≤ cdist c.n g j := by
  intro g g'
  have hg : g < c.n := grant_lt c hn inp t
  have hs : g' = nextImpl c.n (fun p => ((inp t).req p).cyc) g := c08_step_free c inp t hfree
  rw [hs]
  exact Arb.next_is_closest c.n g (fun p => ((inp t).req p).cyc) hg j hj hjg hreq

/-- it stays put when nobody else requests -/
theorem owner_stays (c : Cfg) (hn : 0 < c.n) (inp : Nat → In) (t : Nat)
    (hnone : ∀ p, p < c.n → p ≠ grantAt c inp t → ((inp t).req p).cyc = false) :
    grantAt c inp (t + 1) = grantAt c inp t := by
  cases hb : busy c (grantAt c inp t) (inp t) with
  | true => exact c08_step_busy c inp t hb
  | false =>
    rw [c08_step_free c inp t hb]
    exact Arb.next_stays c.n _ (fun p => ((inp t).req p).cyc) (grant_lt c hn inp t) hnone

/-- no starvation, over infinite schedules: an initiator that keeps requesting from `t0` on is
    granted the bus at some later time, provided the bus is released infinitely often — whatever
    the other initiators do -/
theorem no_starvation (c : Cfg) (hn : 0 < c.n) (inp : Nat → In) (j : Nat) (hj : j < c.n) (t0 : Nat)
    (hreq : ∀ t, t0 ≤ t → ((inp t).req j).cyc = true)
    (hrel : ∀ t, ∃ t', t ≤ t' ∧ busy c (grantAt c inp t') (inp t') = false) :
    ∃ t, t0 ≤ t ∧ grantAt c inp t = j := by
  have hs := Arb.served c.n hn (c08_sched c inp) j hj t0 hreq hrel
  obtain ⟨t, h1, h2⟩ := hs
  exact ⟨t, h1, by rw [c08_grantAt_eq]; exact h2⟩

/-- … and after at most `N - 1` other grants: at every release while `j` waits, the cyclic
    distance from the owner to `j` (which is below `N`) strictly decreases -/
theorem waiting_distance_decreases (c : Cfg) (hn : 0 < c.n) (inp : Nat → In) (j : Nat) (hj : j < c.n) (t : Nat)
    (hreq : ((inp t).req j).cyc = true) (hwait : grantAt c inp t ≠ j)
    (hfree : busy c (grantAt c inp t) (inp t) = false) :
    cdist c.n (grantAt c inp (t + 1)) j < cdist c.n (grantAt c inp t) j ∧ cdist c.n (grantAt c inp t) j < c.n := by
  have hg : grantAt c inp t < c.n := grant_lt c hn inp t
  refine ⟨?_, ?_⟩
  · rw [c08_step_free c inp t hfree]
    exact Arb.dist_decreases c.n _ j (fun p => ((inp t).req p).cyc) hg hj (Ne.symm hwait) hreq
  · show Arb.dist c.n (grantAt c inp t) j < c.n
    unfold Arb.dist
    split <;> omega

/-! ## composition: an arbiter in front of a decoder preserves the handshake -/

/-- every initiator follows the handshake towards the arbiter: a request it presents (cyc and stb) is held unchanged
    into the next cycle unless the arbiter shows it an acknowledge in this one (a waiting initiator sees none) -/
def IntrCompliant (c : Cfg) (inp : Nat → In) : Prop :=
  ∀ t i, ((inp t).req i).cyc = true → ((inp t).req i).stb = true →
    (intrOut c (grantAt c inp t) (inp t) i).ack = false → (inp (t + 1)).req i = (inp t).req i

/-- THE SHARED BUS FOLLOWS THE HANDSHAKE TOO: if every initiator does, then a request on the shared bus (cyc and stb) that is
    not acknowledged in this cycle is there unchanged in the next one — the owner does not change and neither does what it
    drives. This is the hypothesis `Compliant` of the closed root system (`Props/C01S.lean`): a hierarchy behind an arbiter
    sees a handshake-following initiator whenever the arbiter's own initiators are. -/
theorem arbiter_preserves_handshake (c : Cfg) (inp : Nat → In) (h : IntrCompliant c inp) (t : Nat)
    (hcyc : (busOut c (grantAt c inp t) (inp t)).cyc = true) (hstb : (busOut c (grantAt c inp t) (inp t)).stb = true)
    (hnack : (inp t).resp.ack = false) :
    grantAt c inp (t + 1) = grantAt c inp t ∧
    busOut c (grantAt c inp (t + 1)) (inp (t + 1)) = busOut c (grantAt c inp t) (inp t) := by
  have hbusy : busy c (grantAt c inp t) (inp t) = true := by
    unfold busy
    simp only [hcyc, hstb, Bool.or_true, Bool.and_self, ite_self]
  have hg : grantAt c inp (t + 1) = grantAt c inp t := by
    show nextGrant c (grantAt c inp t) (inp t) = grantAt c inp t
    unfold nextGrant
    rw [if_pos hbusy]
  have hack : (intrOut c (grantAt c inp t) (inp t) (grantAt c inp t)).ack = false := by
    unfold intrOut
    rw [if_pos rfl]
    exact hnack
  have hreq := h t (grantAt c inp t) hcyc hstb hack
  refine ⟨hg, ?_⟩
  rw [hg]
  unfold busOut
  rw [hreq]

/-- non-vacuity of the handshake hypothesis: two initiators that keep requesting (never acknowledged) follow it, and the
    shared bus then carries initiator 1's request — the owner after the idle initiator 0 — from cycle 1 on, unchanged -/
example :
    let f : Feat := ⟨false, false, false, false, false, false⟩
    let c : Cfg := ⟨2, f, fun _ => f, fun _ => 1, fun _ => 1⟩
    let want : Req := ⟨true, true, false, false, 4, 0, fun _ => true, 0, 0⟩
    let idle : Req := ⟨false, false, false, false, 0, 0, fun _ => false, 0, 0⟩
    let inp : Nat → In := fun _ => ⟨fun p => if p = 1 then want else idle, ⟨false, false, false, false, 0⟩⟩
    IntrCompliant c inp ∧ grantAt c inp 1 = 1 ∧ (busOut c (grantAt c inp 1) (inp 1)).cyc = true := by
  refine ⟨fun _ _ _ _ _ => rfl, by decide, by decide⟩

/-- non-vacuity: three initiators, owner 0 idle, 1 and 2 request: 1 (closest after 0) gets the bus;
    then with 1 holding the bus (cyc & stb, LOCK supported) nothing changes; then 2 gets it -/
example :
    let f : Feat := ⟨false, false, true, true, false, false⟩
    let c : Cfg := ⟨3, f, fun _ => f, fun _ => 1, fun _ => 1⟩
    let idle : Req := ⟨false, false, false, false, 0, 0, fun _ => false, 0, 0⟩
    let want : Req := ⟨true, true, false, false, 4, 0, fun _ => true, 0, 0⟩
    let inp : Nat → In := fun t =>
      ⟨fun p => if p = 0 then idle else if p = 1 then (if t < 3 then want else idle) else want, ⟨false, false, false, false, 0⟩⟩
    grantAt c inp 1 = 1 ∧ grantAt c inp 2 = 1 ∧ grantAt c inp 3 = 1 ∧ grantAt c inp 4 = 2 ∧
    (intrOut c 1 (inp 1) 2).stall = true ∧ (intrOut c 1 (inp 1) 1).stall = false := by
  decide

end ArbF
