import SocVerif.Props.C06E
/-!
# C06 (closing clause) — the flattened layout of a well-formed tree is a legal multiplexer layout

`tree_like_flat_mux` (Props/C06E.lean) carries the hypothesis `WF t.layout` (what `Multiplexer`
requires of the registers it is given). Here it is discharged: a well-formed tree (every
multiplexer's registers non-empty and disjoint; every window aligned, containing its subtree's
registers, and ending before the next window starts) has a flattened layout whose registers are
non-empty and pairwise disjoint. Helper lemmas (prefixed `c06w_`) may be added ABOVE the theorems;
model definitions and theorem statements are fixed.
-/
namespace CsrT
open Mux Dec

/-! ## helper lemmas -/

theorem c06w_shift_start (s : Nat) (q : Reg) : (shift s q).start = q.start + s := rfl
theorem c06w_shift_len (s : Nat) (q : Reg) : (shift s q).len = q.len := rfl

mutual
theorem c06w_tree : ∀ (t : BTree), t.wf → WF t.layout
  | .mux S regs, h => by
    simp only [BTree.wf] at h
    simp only [BTree.layout]
    exact h
  | .dec starts aws kids, h => by
    simp only [BTree.wf] at h
    simp only [BTree.layout]
    exact (c06w_list starts aws kids h).1
theorem c06w_list : ∀ (ss as : List Nat) (ts : List BTree), BTree.wfList ss as ts →
    WF (BTree.layoutList ss as ts) ∧ ∀ r ∈ BTree.layoutList ss as ts, ∃ s' ∈ ss, s' ≤ r.start
  | s :: ss, a :: as, t :: ts, h => by
    simp only [BTree.wfList] at h
    obtain ⟨hwf, _, hins, hsrt, hrest⟩ := h
    have iht := c06w_tree t hwf
    obtain ⟨ihl, ihs⟩ := c06w_list ss as ts hrest
    simp only [BTree.layoutList]
    refine ⟨⟨?_, ?_⟩, ?_⟩
    · intro r hr
      rcases List.mem_append.mp hr with hr | hr
      · obtain ⟨q, hq, rfl⟩ := List.mem_map.mp hr
        rw [c06w_shift_len]; exact (hins q hq).2
      · exact ihl.pos r hr
    · intro x hx y hy hne
      rcases List.mem_append.mp hx with hx | hx <;> rcases List.mem_append.mp hy with hy | hy
      · obtain ⟨p, hp, rfl⟩ := List.mem_map.mp hx
        obtain ⟨q, hq, rfl⟩ := List.mem_map.mp hy
        have hpq : p ≠ q := fun e => hne (by rw [e])
        have hd := iht.disj p hp q hq hpq
        unfold Disjoint at hd ⊢
        rw [c06t_shift_stop, c06t_shift_stop, c06w_shift_start, c06w_shift_start]
        omega
      · obtain ⟨p, hp, rfl⟩ := List.mem_map.mp hx
        obtain ⟨s', hs', hle⟩ := ihs y hy
        have h1 := (hins p hp).1
        have h2 := hsrt s' hs'
        unfold Disjoint
        rw [c06t_shift_stop]
        omega
      · obtain ⟨q, hq, rfl⟩ := List.mem_map.mp hy
        obtain ⟨s', hs', hle⟩ := ihs x hx
        have h1 := (hins q hq).1
        have h2 := hsrt s' hs'
        unfold Disjoint
        rw [c06t_shift_stop]
        omega
      · exact ihl.disj x hx y hy hne
    · intro r hr
      rcases List.mem_append.mp hr with hr | hr
      · obtain ⟨q, hq, rfl⟩ := List.mem_map.mp hr
        exact ⟨s, List.mem_cons_self .., by rw [c06w_shift_start]; omega⟩
      · obtain ⟨s', hs', hle⟩ := ihs r hr
        exact ⟨s', List.mem_cons_of_mem _ hs', hle⟩
  | [], [], [], _ => by
    simp only [BTree.layoutList]
    exact ⟨⟨by simp, by simp⟩, by simp⟩
  | [], [], _ :: _, h => by simp [BTree.wfList] at h
  | [], _ :: _, _, h => by simp [BTree.wfList] at h
  | _ :: _, [], _, h => by simp [BTree.wfList] at h
  | _ :: _, _ :: _, [], h => by simp [BTree.wfList] at h
end

/-! ## theorems -/

theorem tree_layout_wf (t : BTree) (h : t.wf) : WF t.layout :=
  c06w_tree t h

/-- the closing clause with no side hypothesis on the flattened layout -/
theorem tree_like_flat_mux_closed (W S : Nat) (t : BTree) (h : t.wf) (inp : Nat → CIn) :
    (∀ u r, r ∈ t.layout → (t.beh W).rstbE inp u r = (muxBeh W S t.layout).rstbE inp u r) ∧
    (∀ u r, r ∈ t.layout → (t.beh W).wstbE inp u r = (muxBeh W S t.layout).wstbE inp u r) ∧
    (∀ r, r ∈ t.layout → r.rd = true → ∀ t0 t1, t0 ≤ t1 →
      ((inp t0).rstb = true ∧ (inp t0).addr = r.start) →
      ((inp t1).rstb = true ∧ r.start ≤ (inp t1).addr ∧ (inp t1).addr < r.stop) →
      (∀ u, t0 < u → u ≤ t1 → (inp u).rstb = true → ∀ q ∈ t.layout, q.rd = true → (inp u).addr ≠ q.start) →
      (t.beh W).rdata inp (t1 + 1) = (muxBeh W S t.layout).rdata inp (t1 + 1)) ∧
    (∀ r, r ∈ t.layout → r.wr = true → ∀ (τ v : Nat → Nat),
      (∀ k, k + 1 < r.len → τ k < τ (k + 1)) →
      (∀ k, k < r.len → (inp (τ k)).wstb = true ∧ (inp (τ k)).addr = r.start + k ∧ (inp (τ k)).wdata = v k) →
      (∀ u, τ 0 ≤ u → u ≤ τ (r.len - 1) → (∀ k, k < r.len → u ≠ τ k) → (inp u).wstb = false) →
      (t.beh W).wdataE inp (τ (r.len - 1) + 1) r = (muxBeh W S t.layout).wdataE inp (τ (r.len - 1) + 1) r) :=
  tree_like_flat_mux W S t h (tree_layout_wf t h) inp

end CsrT
