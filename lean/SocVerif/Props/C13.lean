import SocVerif.Event
/-!
# C13 — the event monitor never loses an event and reports exactly enabled-and-pending

Theorems about the `Ev` model, for every number of sources, every trigger-mode assignment and every
input history (and every sequence of event-map operations). Helper lemmas (prefixed `c13_`) may be
added ABOVE the theorems; model definitions and theorem statements are fixed.
-/
namespace Ev

theorem c13_idxOf_append_some (l : List Nat) (id x k : Nat) (h : l.idxOf? id = some k) :
    (l ++ [x]).idxOf? id = some k := by
  unfold List.idxOf? at *
  rw [List.findIdx?_append, h]; rfl

theorem c13_idxOf_append_new (l : List Nat) (id : Nat) (h : id ∉ l) :
    (l ++ [id]).idxOf? id = some l.length := by
  induction l with
  | nil => simp [List.idxOf?_cons]
  | cons a l ih => grind

theorem c13_idxOf_getElem (l : List Nat) (k : Nat) (hn : l.Nodup) (hk : k < l.length) :
    l.idxOf? l[k] = some k := by
  induction l generalizing k with
  | nil => simp at hk
  | cons a l ih => grind

theorem c13_step_add (m : EMap) (x : Nat) :
    (m.step (.add x)).1.srcs = m.srcs ∨
    (x ∉ m.srcs ∧ (m.step (.add x)).1.srcs = m.srcs ++ [x]) := by
  simp only [EMap.step]
  cases hf : m.frozen
  · cases hc : m.srcs.contains x
    · right
      refine ⟨fun hm => ?_, by simp⟩
      rw [List.contains_iff_mem.mpr hm] at hc; exact absurd hc (by decide)
    · left; simp
  · left; simp

theorem c13_step_other (m : EMap) (op : EOp) (h : ∀ x, op ≠ .add x) :
    (m.step op).1.srcs = m.srcs := by
  cases op with
  | add x => exact absurd rfl (h x)
  | index x =>
    simp only [EMap.step]
    split <;> rfl
  | freeze => rfl
  | size => rfl

theorem c13_step_srcs (m : EMap) (op : EOp) :
    (m.step op).1.srcs = m.srcs ∨
    ∃ x, x ∉ m.srcs ∧ (m.step op).1.srcs = m.srcs ++ [x] := by
  cases op with
  | add x =>
    rcases c13_step_add m x with h | h
    · exact Or.inl h
    · exact Or.inr ⟨x, h⟩
  | index x => exact Or.inl (c13_step_other m _ (fun _ h => by cases h))
  | freeze => exact Or.inl rfl
  | size => exact Or.inl rfl

theorem c13_step_stable (m : EMap) (op : EOp) (id k : Nat) (h : m.srcs.idxOf? id = some k) :
    (m.step op).1.srcs.idxOf? id = some k := by
  rcases c13_step_srcs m op with e | ⟨x, _, e⟩
  · rw [e]; exact h
  · rw [e]; exact c13_idxOf_append_some _ _ _ _ h

theorem c13_step_nodup (m : EMap) (op : EOp) (h : m.srcs.Nodup) :
    (m.step op).1.srcs.Nodup := by
  rcases c13_step_srcs m op with e | ⟨x, hx, e⟩
  · rw [e]; exact h
  · rw [e, List.nodup_append]
    refine ⟨h, by simp, ?_⟩
    intro a ha b hb
    simp only [List.mem_singleton] at hb
    subst hb
    intro hab; subst hab; exact hx ha

theorem c13_run_nodup (m : EMap) (ops : List EOp) (h : m.srcs.Nodup) :
    (m.run ops).srcs.Nodup := by
  induction ops generalizing m with
  | nil => exact h
  | cons op ops ih =>
    show (EMap.run (m.step op).1 ops).srcs.Nodup
    exact ih _ (c13_step_nodup m op h)

theorem c13_prev (modes : List Mode) (inp : Nat → MIn) (t k : Nat) (hk : k < modes.length) :
    (mst modes inp t).prev k = (if t = 0 then false else (inp (t - 1)).i k) := by
  cases t with
  | zero => rfl
  | succ t => simp [mst, mnext, hk]

theorem c13_bit (modes : List Mode) (inp inp' : Nat → MIn) (k : Nat)
    (h : ∀ t, (inp t).i k = (inp' t).i k ∧ (inp t).clear k = (inp' t).clear k) (t : Nat) :
    (mst modes inp t).pending k = (mst modes inp' t).pending k ∧
    (mst modes inp t).prev k = (mst modes inp' t).prev k := by
  induction t with
  | zero => exact ⟨rfl, rfl⟩
  | succ t ih =>
    simp only [mst, mnext, ih.1, ih.2, (h t).1, (h t).2]
    exact ⟨trivial, trivial⟩

/-! ### event map: numbers are dense, stable and assigned in order of first addition -/

/-- an accepted `add` of a new source gives it the next free number; a repeat changes nothing -/
theorem add_numbers_in_order (m : EMap) (id : Nat) (hf : m.frozen = false) :
    (m.step (.add id)).2 = .ok ∧
    (m.step (.add id)).1.srcs = (if m.srcs.contains id then m.srcs else m.srcs ++ [id]) ∧
    (m.step (.add id)).1.srcs.idxOf? id =
      (if m.srcs.contains id then m.srcs.idxOf? id else some m.srcs.length) := by
  unfold EMap.step
  by_cases hc : m.srcs.contains id = true
  · simp only [hf, hc, if_true, Bool.false_eq_true, if_false, and_self]
  · simp only [hf, hc, Bool.false_eq_true, if_false, true_and]
    exact c13_idxOf_append_new _ _ (fun hm => hc (List.contains_iff_mem.mpr hm))

/-- numbers are stable: once a source has index `k` it keeps it under every later history -/
theorem index_stable (m : EMap) (ops : List EOp) (id k : Nat) (h : m.srcs.idxOf? id = some k) :
    (m.run ops).srcs.idxOf? id = some k := by
  induction ops generalizing m with
  | nil => exact h
  | cons op ops ih =>
    show (EMap.run (m.step op).1 ops).srcs.idxOf? id = some k
    exact ih _ (c13_step_stable m op id k h)

/-- numbers are dense: exactly the numbers below `size` are in use, each by one source -/
theorem index_dense (ops : List EOp) :
    let m := (EMap.run {} ops)
    m.srcs.Nodup ∧ ∀ k, k < m.srcs.length → ∃ id, m.srcs.idxOf? id = some k := by
  intro m
  have hn : m.srcs.Nodup := c13_run_nodup {} ops List.nodup_nil
  exact ⟨hn, fun k hk => ⟨m.srcs[k], c13_idxOf_getElem _ _ hn hk⟩⟩

theorem frozen_refuses_add (m : EMap) (id : Nat) (hf : m.frozen = true) :
    m.step (.add id) = (m, .refused) := by
  simp only [EMap.step, hf, if_true]

/-! ### monitor -/

/-- each source's trigger output follows its mode; edge modes compare with the previous cycle's
    input, initially low -/
theorem trg_by_mode (modes : List Mode) (inp : Nat → MIn) (t k : Nat) (md : Mode) (hk : modes[k]? = some md) :
    trgOut modes (mst modes inp t) (inp t) k =
      (let prev := if t = 0 then false else (inp (t - 1)).i k
       match md with
       | .level => (inp t).i k
       | .rise  => !prev && (inp t).i k
       | .fall  => prev && !(inp t).i k) := by
  have hlt : k < modes.length := by
    rw [List.getElem?_eq_some_iff] at hk; exact hk.1
  simp only [trgOut, hk, c13_prev modes inp t k hlt, trg]
  cases md <;> rfl

/-- one step of a pending bit: set by a trigger, else cleared by clear, else kept -/
theorem pending_step (modes : List Mode) (inp : Nat → MIn) (t k : Nat) (hk : k < modes.length) :
    (mst modes inp (t + 1)).pending k =
      (trgOut modes (mst modes inp t) (inp t) k ||
        ((mst modes inp t).pending k && !(inp t).clear k)) := by
  have hk' : modes[k]? = some modes[k] := List.getElem?_eq_getElem hk
  simp only [mst, mnext, trgOut, hk']
  cases trg modes[k] ((mst modes inp t).prev k) ((inp t).i k) <;>
    cases (inp t).clear k <;> cases (mst modes inp t).pending k <;> rfl

/-- no event is ever lost: a pending bit is set at `t'` iff some earlier trigger has not been
    cleared since — where a clear that coincides with a trigger does not count (the trigger wins) -/
theorem never_lost (modes : List Mode) (inp : Nat → MIn) (t' k : Nat) (hk : k < modes.length) :
    (mst modes inp t').pending k = true ↔
      ∃ t, t < t' ∧ trgOut modes (mst modes inp t) (inp t) k = true ∧
        ∀ u, t < u → u < t' → (inp u).clear k = true → trgOut modes (mst modes inp u) (inp u) k = true := by
  induction t' with
  | zero =>
    constructor
    · intro h; simp [mst, minit] at h
    · rintro ⟨t, ht, _⟩; omega
  | succ t' ih =>
    rw [pending_step modes inp t' k hk]
    constructor
    · intro h
      by_cases htr : trgOut modes (mst modes inp t') (inp t') k = true
      · exact ⟨t', by omega, htr, fun u h1 h2 => by omega⟩
      · simp only [htr, Bool.false_or, Bool.and_eq_true, Bool.not_eq_true'] at h
        obtain ⟨t, ht, htrg, hcl⟩ := ih.mp h.1
        refine ⟨t, by omega, htrg, fun u h1 h2 hc => ?_⟩
        by_cases hu : u = t'
        · subst hu; rw [h.2] at hc; exact absurd hc (by decide)
        · exact hcl u h1 (by omega) hc
    · rintro ⟨t, ht, htrg, hcl⟩
      by_cases htr : trgOut modes (mst modes inp t') (inp t') k = true
      · simp [htr]
      · have htt : t < t' := by
          by_cases e : t = t'
          · subst e; exact absurd htrg htr
          · omega
        have hc : (inp t').clear k = false := by
          cases hcc : (inp t').clear k with
          | false => rfl
          | true => exact absurd (hcl t' htt (by omega) hcc) htr
        have hp : (mst modes inp t').pending k = true :=
          ih.mpr ⟨t, htt, htrg, fun u h1 h2 => hcl u h1 (by omega)⟩
        simp [hp, hc]

/-- the outgoing line is high exactly when some event is both enabled and pending -/
theorem line_iff (modes : List Mode) (s : MState) (x : MIn) :
    line modes s x = true ↔ ∃ k, k < modes.length ∧ x.enable k = true ∧ s.pending k = true := by
  simp only [line, List.any_eq_true, List.mem_range, Bool.and_eq_true]

/-- bit `k` belongs to source `k` only: it is a function of source `k`'s inputs alone -/
theorem bit_k_is_source_k (modes : List Mode) (inp inp' : Nat → MIn) (k : Nat)
    (h : ∀ t, (inp t).i k = (inp' t).i k ∧ (inp t).clear k = (inp' t).clear k) (t : Nat) :
    (mst modes inp t).pending k = (mst modes inp' t).pending k ∧
    trgOut modes (mst modes inp t) (inp t) k = trgOut modes (mst modes inp' t) (inp' t) k := by
  have hb := c13_bit modes inp inp' k h t
  refine ⟨hb.1, ?_⟩
  simp only [trgOut, hb.2, (h t).1]

/-! ## a tree of monitors: the outgoing line of a child monitor is a (level-triggered) source of the parent map -/

/-- source `k` of the parent is fed by the child's outgoing line -/
def Cascade (modesC : List Mode) (inpC inpP : Nat → MIn) (k : Nat) : Prop :=
  ∀ t, (inpP t).i k = line modesC (mst modesC inpC t) (inpC t)

/-- CASCADE, one step: the parent's pending bit of a cascaded source is set exactly by the child's line (some event of the
    child both enabled and pending), else cleared by the parent's clear, else kept -/
theorem cascade_pending_step (modesP modesC : List Mode) (inpP inpC : Nat → MIn) (k : Nat)
    (hk : modesP[k]? = some .level) (hc : Cascade modesC inpC inpP k) (t : Nat) :
    (mst modesP inpP (t + 1)).pending k =
      (line modesC (mst modesC inpC t) (inpC t) || ((mst modesP inpP t).pending k && !(inpP t).clear k)) := by
  have hlt : k < modesP.length := by
    rw [List.getElem?_eq_some_iff] at hk; exact hk.1
  rw [pending_step modesP inpP t k hlt, trg_by_mode modesP inpP t k .level hk, hc t]

/-- CASCADE, end to end: an event that is enabled and pending in the child in cycle `t` is pending in the parent one cycle
    later, and — when the parent enables that source — raises the parent's outgoing line then: nothing is lost or delayed on
    the way up, and the parent's bit is not set in that step by anything else -/
theorem cascade_propagates (modesP modesC : List Mode) (inpP inpC : Nat → MIn) (k : Nat)
    (hk : modesP[k]? = some .level) (hc : Cascade modesC inpC inpP k) (t j : Nat)
    (hj : j < modesC.length) (hen : (inpC t).enable j = true) (hpend : (mst modesC inpC t).pending j = true) :
    (mst modesP inpP (t + 1)).pending k = true ∧
    ((inpP (t + 1)).enable k = true → line modesP (mst modesP inpP (t + 1)) (inpP (t + 1)) = true) := by
  have hlt : k < modesP.length := by
    rw [List.getElem?_eq_some_iff] at hk; exact hk.1
  have hline : line modesC (mst modesC inpC t) (inpC t) = true :=
    (line_iff modesC _ _).mpr ⟨j, hj, hen, hpend⟩
  have hp : (mst modesP inpP (t + 1)).pending k = true := by
    rw [cascade_pending_step modesP modesC inpP inpC k hk hc t, hline]; rfl
  exact ⟨hp, fun he => (line_iff modesP _ _).mpr ⟨k, hlt, he, hp⟩⟩

/-- … and conversely a quiet child sets nothing in the parent: without the child's line, the parent's bit can only keep its
    value or be cleared -/
theorem cascade_quiet (modesP modesC : List Mode) (inpP inpC : Nat → MIn) (k : Nat)
    (hk : modesP[k]? = some .level) (hc : Cascade modesC inpC inpP k) (t : Nat)
    (hq : line modesC (mst modesC inpC t) (inpC t) = false) :
    (mst modesP inpP (t + 1)).pending k = ((mst modesP inpP t).pending k && !(inpP t).clear k) := by
  rw [cascade_pending_step modesP modesC inpP inpC k hk hc t, hq]; rfl

/-- non-vacuity of the cascade: a child with one level source that is high in cycle 0 only; the parent's source 0 is the
    child's line; the child's event (pending from cycle 1) is pending in the parent from cycle 2 -/
example :
    let inpC : Nat → MIn := fun t => ⟨fun _ => t == 0, fun _ => true, fun _ => false⟩
    let inpP : Nat → MIn := fun t => ⟨fun _ => line [Mode.level] (mst [Mode.level] inpC t) (inpC t), fun _ => true, fun _ => false⟩
    Cascade [Mode.level] inpC inpP 0 ∧ (mst [Mode.level] inpP 1).pending 0 = false ∧ (mst [Mode.level] inpP 2).pending 0 = true := by
  refine ⟨fun _ => rfl, by decide, by decide⟩

/-- non-vacuity: a rising-edge source triggers in the very cycle it is cleared: the event survives -/
example :
    let modes := [Mode.level, Mode.rise]
    let inp : Nat → MIn := fun t =>
      ⟨fun k => k == 1 && (t == 0 || t == 2), fun k => k == 1, fun k => k == 1 && t == 2⟩
    (mst modes inp 1).pending 1 = true ∧ (mst modes inp 3).pending 1 = true ∧
    line modes (mst modes inp 3) (inp 3) = true ∧ (mst modes inp 3).pending 0 = false := by
  decide

end Ev
