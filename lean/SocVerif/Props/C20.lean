import SocVerif.Sig
/-!
# C20 — ports have the direction their role implies; signatures round-trip

Theorems about the signature model `Sig`: the orientation algebra and the member functions.
(The finite tables extracted from the source on every run are checked against these member
functions by `decide` in `SocVerif/Generated/Facts.lean`.)
Helper lemmas (prefixed `c20_`) may be added ABOVE the theorems; model definitions and theorem
statements are fixed.
-/
namespace Sig

theorem c20_flip_flip (f : Flow) : f.flip.flip = f := by cases f <;> rfl

theorem c20_flip_ne (f : Flow) : (f != f.flip) = true := by cases f <;> rfl

theorem c20_eq_of_testBit_lt64 (f f' : Nat) (hf : f < 64) (hf' : f' < 64)
    (h : ∀ i, i < 6 → f.testBit i = f'.testBit i) : f = f' := by
  apply Nat.eq_of_testBit_eq
  intro i
  by_cases hi : i < 6
  · exact h i hi
  · have h64 : 64 ≤ 2 ^ i := by
      have : 2 ^ 6 ≤ 2 ^ i := Nat.pow_le_pow_right (by omega) (by omega)
      simpa using this
    rw [Nat.testBit_lt_two_pow (by omega), Nat.testBit_lt_two_pow (by omega)]

theorem flip_involutive (ms : List Mem) : flipAll (flipAll ms) = ms := by
  induction ms with
  | nil => rfl
  | cons m ms ih =>
    simp only [flipAll, List.map_cons] at ih ⊢
    rw [ih]
    simp [c20_flip_flip]

/-- an interface created from a signature connects to a port that presents the flipped signature:
    `wiring.connect()` between an initiator and a target port with the same parameters succeeds -/
theorem connect_initiator_target (ms : List Mem) : compatible ms (flipAll ms) = true := by
  induction ms with
  | nil => rfl
  | cons m ms ih =>
    simp only [compatible, flipAll, List.map_cons, List.length_cons, List.length_map,
      List.zip_cons_cons, List.all_cons, Bool.and_eq_true, beq_iff_eq] at ih ⊢
    refine ⟨trivial, ⟨⟨trivial, trivial⟩, c20_flip_ne _⟩, ih.2⟩

/-- … and two ports of the same orientation never connect (unless there is nothing to connect) -/
theorem connect_same_orientation_fails (ms : List Mem) (h : ms ≠ []) : compatible ms ms = false := by
  cases ms with
  | nil => exact absurd rfl h
  | cons m ms =>
    simp [compatible]

/-- a target port declared with the *flipped* signature again (the double flip of the CSR event
    monitor before its repair) is an initiator-oriented port: an initiator cannot connect to it -/
theorem double_flip_breaks_connect (std : List Mem) (h : std ≠ []) :
    compatible std (flipAll (portMembers .target std)) = false := by
  show compatible std (flipAll (flipAll std)) = false
  rw [flip_involutive]
  exact connect_same_orientation_fails std h

/-- `csr.Signature`: two signatures have the same members exactly when their parameters are equal -/
theorem csr_members_injective (aw dw aw' dw' : Nat) :
    csrMembers aw dw = csrMembers aw' dw' ↔ aw = aw' ∧ dw = dw' := by
  constructor
  · intro h
    simp only [csrMembers, List.cons.injEq, Mem.mk.injEq] at h
    exact ⟨h.1.2.2, h.2.1.2.2⟩
  · rintro ⟨rfl, rfl⟩; rfl

/-- `csr.Element.Signature`: member presence follows the access mode, widths follow the width -/
theorem elem_members_injective (w acc w' acc' : Nat) (ha : acc < 3) (ha' : acc' < 3) :
    elemMembers w acc = elemMembers w' acc' ↔ w = w' ∧ acc = acc' := by
  constructor
  · intro h
    have hc : acc = 0 ∨ acc = 1 ∨ acc = 2 := by omega
    have hc' : acc' = 0 ∨ acc' = 1 ∨ acc' = 2 := by omega
    rcases hc with rfl | rfl | rfl <;> rcases hc' with rfl | rfl | rfl <;>
      simp [elemMembers, nRData, nRStb, nWData, nWStb] at h ⊢ <;> (try omega) <;> simp_all
  · rintro ⟨rfl, rfl⟩; rfl

theorem wb_optional_presence (aw dw gran f : Nat) :
    ((wbMembers aw dw gran f).any (·.name == nErr) = f.testBit 0) ∧
    ((wbMembers aw dw gran f).any (·.name == nRty) = f.testBit 1) ∧
    ((wbMembers aw dw gran f).any (·.name == nStall) = f.testBit 2) ∧
    ((wbMembers aw dw gran f).any (·.name == nLock) = f.testBit 3) ∧
    ((wbMembers aw dw gran f).any (·.name == nCti) = f.testBit 4) ∧
    ((wbMembers aw dw gran f).any (·.name == nBte) = f.testBit 5) := by
  simp only [wbMembers, List.any_append, nAdr, nDatW, nDatR, nSel, nCyc, nStb, nWe, nAck,
    nErr, nRty, nStall, nLock, nCti, nBte]
  cases f.testBit 0 <;> cases f.testBit 1 <;> cases f.testBit 2 <;> cases f.testBit 3 <;>
    cases f.testBit 4 <;> cases f.testBit 5 <;> simp

/-- `wishbone.Signature`: members determine address width, data width, number of select lines and
    the feature set (every optional member is present iff its feature is) -/
theorem wb_members_injective (aw dw gran f aw' dw' gran' f' : Nat) (hf : f < 64) (hf' : f' < 64) :
    wbMembers aw dw gran f = wbMembers aw' dw' gran' f' ↔
      aw = aw' ∧ dw = dw' ∧ dw / gran = dw' / gran' ∧ f = f' := by
  constructor
  · intro h
    have h0 := congrArg (fun l => l[0]?) h
    have h1 := congrArg (fun l => l[1]?) h
    have h3 := congrArg (fun l => l[3]?) h
    simp [wbMembers] at h0 h1 h3
    refine ⟨h0, h1, h3, ?_⟩
    obtain ⟨p0, p1, p2, p3, p4, p5⟩ := wb_optional_presence aw dw gran f
    obtain ⟨q0, q1, q2, q3, q4, q5⟩ := wb_optional_presence aw' dw' gran' f'
    rw [h] at p0 p1 p2 p3 p4 p5
    apply c20_eq_of_testBit_lt64 f f' hf hf'
    intro i hi
    have hc : i = 0 ∨ i = 1 ∨ i = 2 ∨ i = 3 ∨ i = 4 ∨ i = 5 := by omega
    rcases hc with rfl | rfl | rfl | rfl | rfl | rfl
    · rw [← p0, q0]
    · rw [← p1, q1]
    · rw [← p2, q2]
    · rw [← p3, q3]
    · rw [← p4, q4]
    · rw [← p5, q5]
  · rintro ⟨rfl, rfl, h, rfl⟩
    simp only [wbMembers, h]

/-- non-vacuity -/
example : compatible (wbMembers 4 32 8 0b101001) (portMembers .target (wbMembers 4 32 8 0b101001)) = true ∧
    compatible (csrMembers 4 8) (flipAll (portMembers .target (csrMembers 4 8))) = false ∧
    (wbMembers 4 32 8 0b101001).length = 11 := by
  refine ⟨by decide, by decide, by decide⟩

end Sig
