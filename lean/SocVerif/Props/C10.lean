import SocVerif.Bridge
import SocVerif.Props.C05
/-!
# C10 — the Wishbone-to-CSR bridge performs each transfer exactly once, in order, on time

Theorems about the bridge model `Bridge` (`bout`, `bnext`, `bst`), for every data-width ratio,
every select mask, reads and writes, and every reachable state under a protocol-abiding initiator
(`Held`: the request is held constant until it has been acknowledged).
`Bridge.inflight`, `Bridge.transfer` and `Bridge.no_strobe_outside` are already proved in
`SocVerif/Bridge.lean` — use them. Helper lemmas (prefixed `c10_`) may be added ABOVE the
theorems; model definitions and theorem statements are fixed.
-/
namespace Bridge

/-- [all inputs] no CSR strobe is ever issued outside a transfer (`cyc & stb`) -/
theorem no_strobe_outside_transfer (ratio : Nat) (inp : Nat → BIn) (t : Nat)
    (h : ((inp t).cyc && (inp t).stb) = false) :
    (bout ratio (bst ratio inp t) (inp t)).rstb = false ∧ (bout ratio (bst ratio inp t) (inp t)).wstb = false := by
  exact no_strobe_outside ratio _ _ h

/-- exactly one CSR access per selected granule, in ascending order, at CSR address
    `adr * ratio + i`, as a read or a write according to `we`, carrying granule `i` of the write
    data; nothing in the two trailing cycles -/
theorem one_access_per_granule (ratio : Nat) (hr : 0 < ratio) (inp : Nat → BIn) (t0 : Nat)
    (hidle : Idle (bst ratio inp t0)) (hheld : Held inp t0 (ratio + 1)) :
    (∀ i, i < ratio →
      let o := bout ratio (bst ratio inp (t0 + i)) (inp (t0 + i))
      o.addr = (inp t0).adr * ratio + i ∧
      o.rstb = ((inp t0).sel i && !(inp t0).we) ∧
      o.wstb = ((inp t0).sel i && (inp t0).we) ∧
      ((inp t0).sel i = true → o.wdata = (inp t0).datw i)) ∧
    (∀ i, ratio ≤ i → i ≤ ratio + 1 →
      let o := bout ratio (bst ratio inp (t0 + i)) (inp (t0 + i))
      o.rstb = false ∧ o.wstb = false) := by
  have T := transfer ratio hr inp t0 hidle hheld
  refine ⟨?_, T.2.1⟩
  intro i hi
  have h := T.1 i hi
  exact ⟨h.1, h.2.1, h.2.2.1, fun _ => h.2.2.2⟩

/-- acknowledged exactly once, for one cycle, `ratio + 1` cycles after the transfer starts -/
theorem ack_once_on_time (ratio : Nat) (hr : 0 < ratio) (inp : Nat → BIn) (t0 : Nat)
    (hidle : Idle (bst ratio inp t0)) (hheld : Held inp t0 (ratio + 1)) :
    (∀ i, i ≤ ratio → (bst ratio inp (t0 + i)).ack = false) ∧
    (bst ratio inp (t0 + ratio + 1)).ack = true ∧
    (bst ratio inp (t0 + ratio + 2)).ack = false := by
  have T := transfer ratio hr inp t0 hidle hheld
  exact ⟨T.2.2.1, T.2.2.2.1, T.2.2.2.2.1.2⟩

/-- on a read the acknowledged data carries each granule's CSR read data (valid one cycle after
    its access) in its own lane -/
theorem read_lanes (ratio : Nat) (hr : 0 < ratio) (inp : Nat → BIn) (t0 : Nat)
    (hidle : Idle (bst ratio inp t0)) (hheld : Held inp t0 (ratio + 1)) (l : Nat) (hl : l < ratio) :
    (bst ratio inp (t0 + ratio + 1)).datr l = (inp (t0 + l + 1)).csrR := by
  exact (transfer ratio hr inp t0 hidle hheld).2.2.2.2.2 l hl

/-- the sequencer is idle again right after the acknowledge: the next transfer may start
    back-to-back at `t0 + ratio + 2` and all of the above applies to it -/
theorem back_to_back (ratio : Nat) (hr : 0 < ratio) (inp : Nat → BIn) (t0 : Nat)
    (hidle : Idle (bst ratio inp t0)) (hheld : Held inp t0 (ratio + 1)) :
    Idle (bst ratio inp (t0 + ratio + 2)) := by
  exact (transfer ratio hr inp t0 hidle hheld).2.2.2.2.1

/-- while no transfer is requested an idle bridge stays idle (reachable idle states) -/
theorem idle_stays (ratio : Nat) (inp : Nat → BIn) (t : Nat) (hidle : Idle (bst ratio inp t))
    (h : ((inp t).cyc && (inp t).stb) = false) : Idle (bst ratio inp (t + 1)) := by
  obtain ⟨hc, ha⟩ := hidle
  show Idle (bnext ratio (bst ratio inp t) (inp t))
  simp only [bnext, h, ha]
  exact ⟨hc, ha⟩

/-- the CSR write stream the bridge produces, as input of the multiplexer model -/
def csrW (ratio : Nat) (inp : Nat → BIn) (t : Nat) : Mux.WIn :=
  let o := bout ratio (bst ratio inp t) (inp t)
  ⟨o.addr, o.wstb, o.wdata⟩

/-- multi-granule registers are written atomically, and the write side effect has taken place by
    the time the acknowledge is seen: for a full-select write transfer to a register that occupies
    exactly the `ratio` CSR addresses of one Wishbone word, the register's write strobe fires at
    `t0 + ratio` (the acknowledge is visible at `t0 + ratio + 1`) with the concatenation of the
    granules as data — by the multiplexer theorem `Mux.write_concat`, whose protocol hypothesis the
    bridge's access sequence satisfies. -/
theorem atomic_register_write (W S ratio : Nat) (hr : 0 < ratio) (regs : List Mux.Reg) (hwf : Mux.WF regs)
    (r : Mux.Reg) (hmem : r ∈ regs) (hwr : r.wr = true) (hlen : r.len = ratio)
    (inp : Nat → BIn) (t0 : Nat) (hstart : r.start = (inp t0).adr * ratio)
    (hidle : Idle (bst ratio inp t0)) (hheld : Held inp t0 (ratio + 1))
    (hwe : (inp t0).we = true) (hsel : ∀ i, i < ratio → (inp t0).sel i = true) :
    (Mux.wst S regs (csrW ratio inp) (t0 + ratio)).estb r = true ∧
    Mux.elemWdata W S (Mux.wst S regs (csrW ratio inp) (t0 + ratio)) r =
      Mux.concat W (inp t0).datw ratio % 2 ^ r.width := by
  have T := (transfer ratio hr inp t0 hidle hheld).1
  have hlen1 : t0 + (r.len - 1) + 1 = t0 + ratio := by omega
  have key := Mux.write_concat W S regs hwf (csrW ratio inp) r hmem hwr (fun k => t0 + k)
    (fun k => (inp t0).datw k)
    (fun k _ => by show t0 + k < t0 + (k + 1); omega)
    (fun k hk => by
      have h := T k (by omega)
      have hs := hsel k (by omega)
      refine ⟨?_, ?_, ?_⟩
      · show (bout ratio (bst ratio inp (t0 + k)) (inp (t0 + k))).wstb = true
        rw [h.2.2.1, hs, hwe]; rfl
      · show (bout ratio (bst ratio inp (t0 + k)) (inp (t0 + k))).addr = r.start + k
        rw [h.1, hstart]
      · show (bout ratio (bst ratio inp (t0 + k)) (inp (t0 + k))).wdata = (inp t0).datw k
        exact h.2.2.2)
    (fun t h1 h2 hne => by
      have h1' : t0 + 0 ≤ t := h1
      have h2' : t ≤ t0 + (r.len - 1) := h2
      exact absurd (show t = t0 + (t - t0) by omega) (hne (t - t0) (by omega)))
  have key' : (Mux.wst S regs (csrW ratio inp) (t0 + (r.len - 1) + 1)).estb r = true ∧
      Mux.elemWdata W S (Mux.wst S regs (csrW ratio inp) (t0 + (r.len - 1) + 1)) r =
        Mux.concat W (fun k => (inp t0).datw k) r.len % 2 ^ r.width := key
  rw [hlen1, hlen] at key'
  exact key'

/-- non-vacuity: ratio 4, a read with select mask 0b0101 from an idle bridge -/
example :
    let inp : Nat → BIn := fun t =>
      if t < 6 then ⟨true, true, false, 3, fun i => i == 0 || i == 2, fun _ => 0, 100 + t⟩
      else ⟨false, false, false, 0, fun _ => false, fun _ => 0, 0⟩
    Idle (bst 4 inp 0) ∧ Held inp 0 5 ∧
    (bout 4 (bst 4 inp 2) (inp 2)).addr = 14 ∧ (bout 4 (bst 4 inp 2) (inp 2)).rstb = true ∧
    (bout 4 (bst 4 inp 1) (inp 1)).rstb = false ∧
    (bst 4 inp 5).ack = true ∧ (bst 4 inp 5).datr 2 = 103 ∧ (bst 4 inp 6).ack = false := by
  intro inp
  refine ⟨⟨rfl, rfl⟩, ?_, ?_⟩
  · intro u _ hu
    have hu6 : u < 6 := by omega
    simp [inp, hu6]
  · decide +kernel

end Bridge
