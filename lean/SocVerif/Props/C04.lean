import SocVerif.Mux
/-!
# C04 — CSR multiplexer reads are atomic snapshots and side-effect exact

Property theorems about the read path of the implementation-shaped multiplexer model
(`SocVerif/Mux.lean`: `elemRstb`, `rnext`, `busR`, `rst`), for every register layout `regs`
(well-formed: non-empty, pairwise disjoint address ranges), every chunk width `W`, **every shadow
size `S`** (so the sharing limit is unobservable) and every input stream.
Helper lemmas may be added ABOVE the theorems (or in `SocVerif/Props/C04Lemmas.lean`); model
definitions and theorem statements are fixed.
-/
namespace Mux

theorem busR_ne_zero_ren {S : Nat} {regs : List Reg} {s : RState} (h : busR S regs s ≠ 0) :
    ∃ o, s.ren o = true := by
  by_cases hex : ∃ o, s.ren o = true
  · exact hex
  · exfalso; apply h
    unfold busR
    apply orFold_zero
    intro y hy
    simp only [List.mem_map] at hy
    obtain ⟨o, _, rfl⟩ := hy
    by_cases ho : s.ren o = true
    · exact absurd ⟨o, ho⟩ hex
    · simp [ho]

theorem rnext_ren_elim {W S : Nat} {regs : List Reg} {s : RState} {i : RIn} {o : Nat}
    (h : (rnext W S regs s i).ren o = true) :
    i.rstb = true ∧ ∃ r ∈ regs, r.rd = true ∧ r.start ≤ i.addr ∧ i.addr < r.stop := by
  simp only [rnext, Bool.and_eq_true, List.any_eq_true, beq_iff_eq] at h
  obtain ⟨⟨q, hq, hqa⟩, hstb⟩ := h
  have hq' := mem_rdRegs.mp hq
  have hrng := encode_in_range hq'.2.1
  rw [hqa] at hrng
  exact ⟨hstb, q, hq'.1, hq'.2.2, hrng.1, hrng.2⟩

/-- [all inputs] a register sees its read strobe in exactly those cycles in which its first
    chunk is being read -/
theorem r_stb_exact (S : Nat) (regs : List Reg) (hwf : WF regs) (inp : Nat → RIn) (t : Nat)
    (r : Reg) (hr : r ∈ regs) :
    elemRstb S regs (inp t) r = (r.rd && (inp t).rstb && ((inp t).addr == r.start)) := by
  rw [rstb_exact S regs hwf (inp t) r hr]; rfl

/-- [all inputs] the bus read data is zero in the first cycle … -/
theorem r_data_zero_initially (W S : Nat) (regs : List Reg) (inp : Nat → RIn) :
    busR S regs (rst W S regs inp 0) = 0 := by
  unfold busR
  apply orFold_zero
  intro y hy
  simp only [List.mem_map] at hy
  obtain ⟨o, _, rfl⟩ := hy
  simp [rst, rinit]

/-- [all inputs] … and in every cycle that does not follow a read of a chunk of a readable register -/
theorem r_data_zero_unless (W S : Nat) (regs : List Reg) (hwf : WF regs) (inp : Nat → RIn) (t : Nat)
    (h : busR S regs (rst W S regs inp (t + 1)) ≠ 0) :
    (inp t).rstb = true ∧ ∃ r ∈ regs, r.rd = true ∧ r.start ≤ (inp t).addr ∧ (inp t).addr < r.stop := by
  obtain ⟨o, ho⟩ := busR_ne_zero_ren h
  exact rnext_ren_elim (show (rnext W S regs (rst W S regs inp t) (inp t)).ren o = true from ho)

/-- [protocol: no other first-chunk read in between] atomic snapshot: one cycle after a read of
    any chunk of `r` at `t1` the bus carries that chunk's slice of the value `r` presented at
    `t0`, the cycle its first chunk was read, however `r` (and everything else) changed meanwhile -/
theorem read_is_snapshot (W S : Nat) (regs : List Reg) (hwf : WF regs) (inp : Nat → RIn) (r : Reg)
    (hr : r ∈ regs) (hrd : r.rd = true) (t0 t1 : Nat) (hle : t0 ≤ t1)
    (h0 : (inp t0).rstb = true ∧ (inp t0).addr = r.start)
    (h1 : (inp t1).rstb = true ∧ r.start ≤ (inp t1).addr ∧ (inp t1).addr < r.stop)
    (hquiet : ∀ t, t0 < t → t ≤ t1 → (inp t).rstb = true →
        ∀ q ∈ regs, q.rd = true → (inp t).addr ≠ q.start) :
    busR S regs (rst W S regs inp (t1 + 1)) =
      slice W ((inp t0).rval r) ((inp t1).addr - r.start) := by
  exact read_snapshot W S regs hwf inp r hr hrd t0 t1 hle h0 h1 hquiet

/-- the shadow-sharing limit never changes the read data: two multiplexers over the same layout
    with different shadow sizes agree after any conforming register read -/
theorem sharing_unobservable_read (W S S' : Nat) (regs : List Reg) (hwf : WF regs) (inp : Nat → RIn) (r : Reg)
    (hr : r ∈ regs) (hrd : r.rd = true) (t0 t1 : Nat) (hle : t0 ≤ t1)
    (h0 : (inp t0).rstb = true ∧ (inp t0).addr = r.start)
    (h1 : (inp t1).rstb = true ∧ r.start ≤ (inp t1).addr ∧ (inp t1).addr < r.stop)
    (hquiet : ∀ t, t0 < t → t ≤ t1 → (inp t).rstb = true →
        ∀ q ∈ regs, q.rd = true → (inp t).addr ≠ q.start) :
    busR S regs (rst W S regs inp (t1 + 1)) = busR S' regs (rst W S' regs inp (t1 + 1)) := by
  rw [read_snapshot W S regs hwf inp r hr hrd t0 t1 hle h0 h1 hquiet,
    read_snapshot W S' regs hwf inp r hr hrd t0 t1 hle h0 h1 hquiet]

/-- a read of an address that belongs to no readable register returns zero (one cycle later) -/
theorem unmapped_read_zero (W S : Nat) (regs : List Reg) (hwf : WF regs) (inp : Nat → RIn) (t : Nat)
    (h : ∀ r ∈ regs, r.rd = true → ¬ (r.start ≤ (inp t).addr ∧ (inp t).addr < r.stop)) :
    busR S regs (rst W S regs inp (t + 1)) = 0 := by
  by_cases hz : busR S regs (rst W S regs inp (t + 1)) = 0
  · exact hz
  · obtain ⟨_, r, hr, hrd, ha⟩ := r_data_zero_unless W S regs hwf inp t hz
    exact absurd ha (h r hr hrd)

/-- non-vacuity: two readable registers sharing shadow chunks (shadow size 2: the 2-chunk register
    at [0,2) and the 1-chunk register at [2,3) alias on chunk 0); a conforming 2-chunk read of
    the first while its value changes returns the snapshot. -/
example :
    let regs : List Reg := [⟨0, 2, 16, true, true⟩, ⟨2, 1, 8, true, false⟩]
    let inp : Nat → RIn := fun t =>
      match t with
      | 0 => ⟨0, true, fun r => if r.start = 0 then 0x1234 else 7⟩
      | 1 => ⟨1, true, fun r => if r.start = 0 then 0xFFFF else 9⟩
      | _ => ⟨0, false, fun _ => 0⟩
    WF regs ∧ busR 2 regs (rst 8 2 regs inp 1) = 0x34 ∧ busR 2 regs (rst 8 2 regs inp 2) = 0x12 := by
  refine ⟨⟨?_, ?_⟩, ?_, ?_⟩
  · decide
  · intro a ha b hb hne
    simp only [List.mem_cons, List.not_mem_nil, or_false] at ha hb
    rcases ha with rfl | rfl <;> rcases hb with rfl | rfl <;>
      first | exact absurd rfl hne | (unfold Disjoint Reg.stop; simp)
  · decide +kernel
  · decide +kernel

end Mux
