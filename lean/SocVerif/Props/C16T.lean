import SocVerif.Props.C16
import SocVerif.Props.C06T
/-!
# C16 (behind anything) — the GPIO registers behind ANY CSR hierarchy

`Props/C16.lean` proves the register-level behaviour of `gpio.Peripheral` for an initiator connected
directly to the peripheral's own multiplexer. Here the four registers Mode / Input / Output / SetClr sit
anywhere in a CSR hierarchy: the CSR side is ANY behaviour `B` that meets `CsrT.CsrSpec` for a layout
containing the four registers at base address `base` (every tree of CSR decoders over multiplexers does:
`CsrT.tree_meets_spec`). The glue of `Peripheral.elaborate` and of the field actions closes the loop
(`Closed`): Mode storage written on the Mode register's strobe, the Output bits updated by the SetClr codes
or the Output register's strobe, the synchroniser chain, and the registers presenting mode bits,
synchronised pins and output bits. `direct_is_closed` shows that the concrete model `Gpio.st` (the one the
driver runs against the real component) is the instance `B = muxBeh`, `base = 0`.

Helper lemmas (prefixed `c16t_`) may be added ABOVE the theorems; definitions and theorem statements are
fixed.
-/
namespace GpioT
open Mux CsrT Gpio

def mdR (c : Cfg) (base : Nat) : Reg := shift base (modeReg c)
def inR (c : Cfg) (base : Nat) : Reg := shift base (inputReg c)
def ouR (c : Cfg) (base : Nat) : Reg := shift base (outputReg c)
def scR (c : Cfg) (base : Nat) : Reg := shift base (setclrReg c)

/-- one cycle of what the outside does: the CSR bus at the top of the hierarchy and the pins -/
structure BusIn where
  addr  : Nat
  rstb  : Bool
  wstb  : Bool
  wdata : Nat
  pin   : Nat → Bool

/-- the peripheral's own state: Mode storage, Output storage, synchroniser stages -/
structure PState where
  mode : Nat → Bool
  out  : Nat → Bool
  sync : Nat → Nat → Bool

def pinit : PState := ⟨fun _ => false, fun _ => false, fun _ _ => false⟩

/-- what the Input register reads -/
def inputBitsT (c : Cfg) (s : PState) (x : BusIn) : Nat → Bool :=
  if c.stages = 0 then x.pin else s.sync (c.stages - 1)

/-- the CSR input stream of the hierarchy: the bus, and what the registers present -/
def cin (c : Cfg) (base : Nat) (bus : Nat → BusIn) (ps : Nat → PState) : Nat → CIn := fun t =>
  ⟨(bus t).addr, (bus t).rstb, (bus t).wstb, (bus t).wdata,
   fun r =>
     if r.start = (mdR c base).start then Act.ofBits (2 * c.n) (ps t).mode
     else if r.start = (inR c base).start then Act.ofBits c.n (inputBitsT c (ps t) (bus t))
     else Act.ofBits c.n (ps t).out⟩

def setReqT (c : Cfg) (base : Nat) (B : Beh) (inp : Nat → CIn) (t k : Nat) : Bool :=
  B.wstbE inp t (scR c base) && (B.wdataE inp t (scR c base)).testBit (2 * k)
def clrReqT (c : Cfg) (base : Nat) (B : Beh) (inp : Nat → CIn) (t k : Nat) : Bool :=
  B.wstbE inp t (scR c base) && (B.wdataE inp t (scR c base)).testBit (2 * k + 1)

/-- `Output._FieldAction`: `If(set != clr): storage = set  Elif(port.w_stb): storage = port.w_data` -/
def outNextT (c : Cfg) (base : Nat) (B : Beh) (inp : Nat → CIn) (s : PState) (t k : Nat) : Bool :=
  if setReqT c base B inp t k != clrReqT c base B inp t k then setReqT c base B inp t k
  else if B.wstbE inp t (ouR c base) then (B.wdataE inp t (ouR c base)).testBit k
  else s.out k

/-- the glue, closing the loop between the CSR hierarchy `B` and the peripheral -/
structure Closed (c : Cfg) (base : Nat) (B : Beh) (bus : Nat → BusIn) (ps : Nat → PState) : Prop where
  ps0 : ps 0 = pinit
  step : ∀ t, ps (t + 1) =
    { mode := if B.wstbE (cin c base bus ps) t (mdR c base)
              then fun b => decide (b < 2 * c.n) && (B.wdataE (cin c base bus ps) t (mdR c base)).testBit b
              else (ps t).mode
      out := fun k => decide (k < c.n) && outNextT c base B (cin c base bus ps) (ps t) t k
      sync := fun j k => if j = 0 then (bus t).pin k else (ps t).sync (j - 1) k }

structure WriteTxnB (bus : Nat → BusIn) (r : Reg) (τ : Nat → Nat) (v : Nat → Nat) : Prop where
  mono  : ∀ k, k + 1 < r.len → τ k < τ (k + 1)
  write : ∀ k, k < r.len → (bus (τ k)).wstb = true ∧ (bus (τ k)).addr = r.start + k ∧ (bus (τ k)).wdata = v k
  quiet : ∀ t, τ 0 ≤ t → t ≤ τ (r.len - 1) → (∀ k, k < r.len → t ≠ τ k) → (bus t).wstb = false

/-! ## helper lemmas -/

theorem c16t_facts (c : Cfg) (base : Nat) :
    (mdR c base).stop ≤ (inR c base).start ∧ (inR c base).stop ≤ (ouR c base).start ∧
    (ouR c base).stop ≤ (scR c base).start ∧ (mdR c base).start = base ∧
    1 ≤ (mdR c base).len ∧ 1 ≤ (inR c base).len ∧ 1 ≤ (ouR c base).len ∧ 1 ≤ (scR c base).len := by
  obtain ⟨h1, h2, h3, l1, l2, l3, l4⟩ := c16_chain c
  have e : (modeReg c).start = 0 := rfl
  simp only [mdR, inR, ouR, scR, shift, Reg.stop] at *
  refine ⟨?_, ?_, ?_, ?_, l1, l2, l3, l4⟩ <;> omega

/-- the element strobe of any layout register one cycle after a bus cycle -/
theorem c16t_stb (c : Cfg) (base : Nat) (B : Beh) (layout : List Reg)
    (hspec : CsrSpec c.dw layout B) (bus : Nat → BusIn) (ps : Nat → PState)
    (r : Reg) (hmem : r ∈ layout) (t : Nat) :
    B.wstbE (cin c base bus ps) (t + 1) r =
      (r.wr && (bus t).wstb && ((bus t).addr == r.stop - 1)) :=
  hspec.wstb_exact (cin c base bus ps) t r hmem

/-- after the last chunk of a write transaction the register is strobed -/
theorem c16t_stb_last (c : Cfg) (base : Nat) (B : Beh) (layout : List Reg)
    (hspec : CsrSpec c.dw layout B) (bus : Nat → BusIn) (ps : Nat → PState)
    (r : Reg) (hmem : r ∈ layout) (hwr : r.wr = true) (hlen : 1 ≤ r.len)
    (τ v : Nat → Nat) (h : WriteTxnB bus r τ v) :
    B.wstbE (cin c base bus ps) (τ (r.len - 1) + 1) r = true := by
  have hlast := h.write (r.len - 1) (by omega)
  rw [c16t_stb c base B layout hspec bus ps r hmem, hwr, hlast.1, hlast.2.1]
  simp only [Reg.stop, Bool.and_self, Bool.true_and, beq_iff_eq]
  omega

/-- … and another register `q` lying entirely below or above is not -/
theorem c16t_stb_other (c : Cfg) (base : Nat) (B : Beh) (layout : List Reg)
    (hspec : CsrSpec c.dw layout B) (bus : Nat → BusIn) (ps : Nat → PState)
    (r q : Reg) (hmem : q ∈ layout) (hlen : 1 ≤ r.len) (hlenq : 1 ≤ q.len)
    (hdis : q.stop ≤ r.start ∨ r.stop ≤ q.start)
    (τ v : Nat → Nat) (h : WriteTxnB bus r τ v) :
    B.wstbE (cin c base bus ps) (τ (r.len - 1) + 1) q = false := by
  have hlast := h.write (r.len - 1) (by omega)
  rw [c16t_stb c base B layout hspec bus ps q hmem, hlast.2.1]
  have : (r.start + (r.len - 1) == q.stop - 1) = false := by
    simp only [Reg.stop, beq_eq_false_iff_ne, ne_eq] at *
    omega
  rw [this, Bool.and_false]

theorem c16t_sync (c : Cfg) (base : Nat) (B : Beh) (bus : Nat → BusIn) (ps : Nat → PState)
    (hcl : Closed c base B bus ps) (t : Nat) : ∀ j k,
    (ps t).sync j k = (if j + 1 ≤ t then (bus (t - (j + 1))).pin k else false) := by
  induction t with
  | zero => intro j k; rw [hcl.ps0]; rfl
  | succ t ih =>
    intro j k
    rw [hcl.step t]
    show (if j = 0 then (bus t).pin k else (ps t).sync (j - 1) k) = _
    by_cases hj : j = 0
    · subst hj; simp
    · obtain ⟨j', rfl⟩ : ∃ j', j = j' + 1 := ⟨j - 1, by omega⟩
      rw [if_neg hj, Nat.add_sub_cancel, ih j' k]
      by_cases h : j' + 1 ≤ t
      · have h' : j' + 1 + 1 ≤ t + 1 := by omega
        rw [if_pos h, if_pos h']
        congr 2; omega
      · have h' : ¬ (j' + 1 + 1 ≤ t + 1) := by omega
        rw [if_neg h, if_neg h']

theorem c16t_out_step (c : Cfg) (base : Nat) (B : Beh) (bus : Nat → BusIn) (ps : Nat → PState)
    (hcl : Closed c base B bus ps) (t k : Nat) :
    (ps (t + 1)).out k = (decide (k < c.n) && outNextT c base B (cin c base bus ps) (ps t) t k) := by
  rw [hcl.step t]

theorem c16t_mode_step (c : Cfg) (base : Nat) (B : Beh) (bus : Nat → BusIn) (ps : Nat → PState)
    (hcl : Closed c base B bus ps) (t : Nat) :
    (ps (t + 1)).mode =
      (if B.wstbE (cin c base bus ps) t (mdR c base)
       then fun b => decide (b < 2 * c.n) && (B.wdataE (cin c base bus ps) t (mdR c base)).testBit b
       else (ps t).mode) := by
  rw [hcl.step t]

/-- the four registers, shifted to `base`, are pairwise different and keep their order -/
theorem regs_distinct (c : Cfg) (base : Nat) :
    (mdR c base).stop ≤ (inR c base).start ∧ (inR c base).stop ≤ (ouR c base).start ∧
    (ouR c base).stop ≤ (scR c base).start ∧ (mdR c base).start = base := by
  obtain ⟨h1, h2, h3, h4, _⟩ := c16t_facts c base
  exact ⟨h1, h2, h3, h4⟩

/-- SET/CLEAR CODES behind any hierarchy: a write transaction to the SetClr register (at the addresses
    the enclosing map reports) sets, clears or leaves each output bit according to its two-bit code -/
theorem setclr_codes_behind (c : Cfg) (base : Nat) (B : Beh) (layout : List Reg)
    (hspec : CsrSpec c.dw layout B) (hsc : scR c base ∈ layout) (hou : ouR c base ∈ layout)
    (bus : Nat → BusIn) (ps : Nat → PState) (hcl : Closed c base B bus ps)
    (τ v : Nat → Nat) (h : WriteTxnB bus (scR c base) τ v) (k : Nat) (hk : k < c.n) :
    let t1 := τ ((scR c base).len - 1) + 1
    let w := Mux.concat c.dw v (scR c base).len % 2 ^ (2 * c.n)
    (ps (t1 + 1)).out k =
      (if w.testBit (2 * k) = true ∧ w.testBit (2 * k + 1) = false then true
       else if w.testBit (2 * k) = false ∧ w.testBit (2 * k + 1) = true then false
       else (ps t1).out k) := by
  intro t1 w
  obtain ⟨h1, h2, h3, h4, l1, l2, l3, l4⟩ := c16t_facts c base
  have hw := hspec.write_concat (cin c base bus ps) (scR c base) hsc rfl τ v h.mono h.write h.quiet
  have hs := c16t_stb_last c base B layout hspec bus ps (scR c base) hsc rfl l4 τ v h
  have hO := c16t_stb_other c base B layout hspec bus ps (scR c base) (ouR c base) hou l4 l3
    (Or.inl h3) τ v h
  have hset : setReqT c base B (cin c base bus ps) t1 k = w.testBit (2 * k) := by
    show (B.wstbE (cin c base bus ps) t1 (scR c base) &&
      (B.wdataE (cin c base bus ps) t1 (scR c base)).testBit (2 * k)) = _
    show (B.wstbE (cin c base bus ps) (τ ((scR c base).len - 1) + 1) (scR c base) &&
      (B.wdataE (cin c base bus ps) (τ ((scR c base).len - 1) + 1) (scR c base)).testBit (2 * k)) = _
    rw [hs, hw]; rfl
  have hclr : clrReqT c base B (cin c base bus ps) t1 k = w.testBit (2 * k + 1) := by
    show (B.wstbE (cin c base bus ps) (τ ((scR c base).len - 1) + 1) (scR c base) &&
      (B.wdataE (cin c base bus ps) (τ ((scR c base).len - 1) + 1) (scR c base)).testBit (2 * k + 1)) = _
    rw [hs, hw]; rfl
  rw [c16t_out_step c base B bus ps hcl t1 k]
  simp only [hk, decide_true, Bool.true_and, outNextT, hset, hclr]
  rw [show B.wstbE (cin c base bus ps) t1 (ouR c base) = false from hO]
  cases w.testBit (2 * k) <;> cases w.testBit (2 * k + 1) <;> simp

/-- a completed write transaction to the Mode register stores the written mode bits -/
theorem mode_written_behind (c : Cfg) (base : Nat) (B : Beh) (layout : List Reg)
    (hspec : CsrSpec c.dw layout B) (hmd : mdR c base ∈ layout)
    (bus : Nat → BusIn) (ps : Nat → PState) (hcl : Closed c base B bus ps)
    (τ v : Nat → Nat) (h : WriteTxnB bus (mdR c base) τ v) (b : Nat) :
    (ps (τ ((mdR c base).len - 1) + 2)).mode b =
      (decide (b < 2 * c.n) && (Mux.concat c.dw v (mdR c base).len % 2 ^ (2 * c.n)).testBit b) := by
  obtain ⟨h1, h2, h3, h4, l1, l2, l3, l4⟩ := c16t_facts c base
  have hw := hspec.write_concat (cin c base bus ps) (mdR c base) hmd rfl τ v h.mono h.write h.quiet
  have hs := c16t_stb_last c base B layout hspec bus ps (mdR c base) hmd rfl l1 τ v h
  rw [show τ ((mdR c base).len - 1) + 2 = (τ ((mdR c base).len - 1) + 1) + 1 from rfl,
    c16t_mode_step c base B bus ps hcl]
  simp only [hs, if_true, hw]
  rfl

/-- a completed write transaction to the Output register stores the written output bits -/
theorem output_written_behind (c : Cfg) (base : Nat) (B : Beh) (layout : List Reg)
    (hspec : CsrSpec c.dw layout B) (hsc : scR c base ∈ layout) (hou : ouR c base ∈ layout)
    (bus : Nat → BusIn) (ps : Nat → PState) (hcl : Closed c base B bus ps)
    (τ v : Nat → Nat) (h : WriteTxnB bus (ouR c base) τ v) (k : Nat) (hk : k < c.n) :
    (ps (τ ((ouR c base).len - 1) + 2)).out k =
      (Mux.concat c.dw v (ouR c base).len % 2 ^ c.n).testBit k := by
  obtain ⟨h1, h2, h3, h4, l1, l2, l3, l4⟩ := c16t_facts c base
  have hw := hspec.write_concat (cin c base bus ps) (ouR c base) hou rfl τ v h.mono h.write h.quiet
  have hs := c16t_stb_last c base B layout hspec bus ps (ouR c base) hou rfl l3 τ v h
  have hS := c16t_stb_other c base B layout hspec bus ps (ouR c base) (scR c base) hsc l3 l4
    (Or.inr h3) τ v h
  rw [show τ ((ouR c base).len - 1) + 2 = (τ ((ouR c base).len - 1) + 1) + 1 from rfl,
    c16t_out_step c base B bus ps hcl]
  simp only [hk, decide_true, Bool.true_and, outNextT, setReqT, clrReqT, hS, hs, hw,
    Bool.false_and, bne_self_eq_false, Bool.false_eq_true, if_false, if_true]
  rfl

/-- storage is only ever touched by a bus write to the last address of its own register(s): in every
    cycle that does not follow such a write, mode bits resp. output bits keep their value -/
theorem untouched_keep_behind (c : Cfg) (base : Nat) (B : Beh) (layout : List Reg)
    (hspec : CsrSpec c.dw layout B) (hmd : mdR c base ∈ layout) (hsc : scR c base ∈ layout)
    (hou : ouR c base ∈ layout)
    (bus : Nat → BusIn) (ps : Nat → PState) (hcl : Closed c base B bus ps) (t : Nat) :
    (((bus t).wstb && ((bus t).addr == (mdR c base).stop - 1)) = false →
      (ps (t + 2)).mode = (ps (t + 1)).mode) ∧
    (((bus t).wstb && ((bus t).addr == (ouR c base).stop - 1)) = false →
     ((bus t).wstb && ((bus t).addr == (scR c base).stop - 1)) = false →
      ∀ k, k < c.n → (ps (t + 2)).out k = (ps (t + 1)).out k) := by
  constructor
  · intro hm
    have hs : B.wstbE (cin c base bus ps) (t + 1) (mdR c base) = false := by
      rw [c16t_stb c base B layout hspec bus ps _ hmd]
      show (true && (bus t).wstb && ((bus t).addr == (mdR c base).stop - 1)) = false
      rw [Bool.true_and]; exact hm
    rw [show t + 2 = (t + 1) + 1 from rfl, c16t_mode_step c base B bus ps hcl]
    simp only [hs, Bool.false_eq_true, if_false]
  · intro ho hsc' k hk
    have hsO : B.wstbE (cin c base bus ps) (t + 1) (ouR c base) = false := by
      rw [c16t_stb c base B layout hspec bus ps _ hou]
      show (true && (bus t).wstb && ((bus t).addr == (ouR c base).stop - 1)) = false
      rw [Bool.true_and]; exact ho
    have hsS : B.wstbE (cin c base bus ps) (t + 1) (scR c base) = false := by
      rw [c16t_stb c base B layout hspec bus ps _ hsc]
      show (true && (bus t).wstb && ((bus t).addr == (scR c base).stop - 1)) = false
      rw [Bool.true_and]; exact hsc'
    rw [show t + 2 = (t + 1) + 1 from rfl, c16t_out_step c base B bus ps hcl]
    simp only [hk, decide_true, Bool.true_and, outNextT, setReqT, clrReqT, hsS, hsO,
      Bool.false_and, bne_self_eq_false, Bool.false_eq_true, if_false]

/-- the Input register presents each pin's level delayed by exactly `input_stages` cycles -/
theorem input_delay_behind (c : Cfg) (base : Nat) (B : Beh) (bus : Nat → BusIn) (ps : Nat → PState)
    (hcl : Closed c base B bus ps) (t k : Nat) :
    inputBitsT c (ps t) (bus t) k = (if c.stages ≤ t then (bus (t - c.stages)).pin k else false) := by
  unfold inputBitsT
  by_cases h0 : c.stages = 0
  · simp [h0]
  · rw [if_neg h0, c16t_sync c base B bus ps hcl]
    have e : c.stages - 1 + 1 = c.stages := by omega
    rw [e]

/-- READ BACK behind any hierarchy: a (multi-chunk) read of the Input register returns the slice of the
    synchronised pin levels as they were when its first chunk was read -/
theorem input_read_atomic_behind (c : Cfg) (base : Nat) (B : Beh) (layout : List Reg)
    (hspec : CsrSpec c.dw layout B) (hin : inR c base ∈ layout)
    (bus : Nat → BusIn) (ps : Nat → PState) (hcl : Closed c base B bus ps)
    (hne : (inputReg c).start ≠ 0)
    (t0 t1 : Nat) (hle : t0 ≤ t1)
    (h0 : (bus t0).rstb = true ∧ (bus t0).addr = (inR c base).start)
    (h1 : (bus t1).rstb = true ∧ (inR c base).start ≤ (bus t1).addr ∧ (bus t1).addr < (inR c base).stop)
    (hquiet : ∀ t, t0 < t → t ≤ t1 → (bus t).rstb = true → ∀ q ∈ layout, q.rd = true → (bus t).addr ≠ q.start) :
    B.rdata (cin c base bus ps) (t1 + 1) =
      slice c.dw (Act.ofBits c.n (fun k => if c.stages ≤ t0 then (bus (t0 - c.stages)).pin k else false))
        ((bus t1).addr - (inR c base).start) := by
  obtain ⟨h1', h2', h3', h4', l1, l2, l3, l4⟩ := c16t_facts c base
  have hsnap := hspec.snapshot (cin c base bus ps) (inR c base) hin rfl t0 t1 hle h0 h1 hquiet
  rw [hsnap]
  have _ := hne
  have hne' : (inR c base).start ≠ (mdR c base).start := by
    simp only [Reg.stop] at h1'; omega
  have hv : ((cin c base bus ps) t0).rval (inR c base) =
      Act.ofBits c.n (inputBitsT c (ps t0) (bus t0)) := by
    show (if (inR c base).start = (mdR c base).start then _
      else if (inR c base).start = (inR c base).start then _ else _) = _
    rw [if_neg hne', if_pos rfl]
  rw [hv]
  have hf : inputBitsT c (ps t0) (bus t0) =
      fun k => if c.stages ≤ t0 then (bus (t0 - c.stages)).pin k else false := by
    funext k
    exact input_delay_behind c base B bus ps hcl t0 k
  rw [hf]
  rfl

/-! ## instances -/

def busOf (inp : Nat → Gpio.In) : Nat → BusIn := fun t =>
  ⟨(inp t).addr, (inp t).rstb, (inp t).wstb, (inp t).wdata, (inp t).pin⟩

/-- THE CONCRETE MODEL IS AN INSTANCE: the streams of `Gpio.st` close the loop with the peripheral's own
    multiplexer at base 0 -/
theorem direct_is_closed (c : Cfg) (S : Nat) (inp : Nat → Gpio.In) :
    Closed c 0 (muxBeh c.dw S (regs c)) (busOf inp)
      (fun t => ⟨(st c S inp t).mode, (st c S inp t).out, (st c S inp t).sync⟩) := by
  have hmd : mdR c 0 = modeReg c := rfl
  have hou : ouR c 0 = outputReg c := rfl
  have hsc : scR c 0 = setclrReg c := rfl
  refine ⟨rfl, ?_⟩
  intro t
  show (⟨(next c S (st c S inp t) (inp t)).mode, (next c S (st c S inp t) (inp t)).out,
    (next c S (st c S inp t) (inp t)).sync⟩ : PState) = _
  congr 1
  · show (if (st c S inp t).ws.estb (modeReg c)
            then fun b => decide (b < 2 * c.n) && (elemWdata c.dw S (st c S inp t).ws (modeReg c)).testBit b
            else (st c S inp t).mode) = _
    rw [(mux_inside c S inp t).2]
    rfl
  · funext k
    show (decide (k < c.n) && outNext c S (st c S inp t) k) = _
    unfold outNext setReq clrReq
    rw [(mux_inside c S inp t).2]
    rfl

/-- … and its multiplexer meets the specification for the peripheral's own layout -/
theorem direct_meets_spec (c : Cfg) (S : Nat) :
    CsrSpec c.dw (regs c) (muxBeh c.dw S (regs c)) ∧
    mdR c 0 ∈ regs c ∧ inR c 0 ∈ regs c ∧ ouR c 0 ∈ regs c ∧ scR c 0 ∈ regs c := by
  refine ⟨mux_meets_spec c.dw S (regs c) (c16_wf c), ?_, ?_, ?_, ?_⟩
  · show mdR c 0 ∈ [modeReg c, inputReg c, outputReg c, setclrReg c]
    exact List.mem_cons_self
  · show inR c 0 ∈ [modeReg c, inputReg c, outputReg c, setclrReg c]
    exact List.mem_cons_of_mem _ List.mem_cons_self
  · show ouR c 0 ∈ [modeReg c, inputReg c, outputReg c, setclrReg c]
    exact List.mem_cons_of_mem _ (List.mem_cons_of_mem _ List.mem_cons_self)
  · show scR c 0 ∈ [modeReg c, inputReg c, outputReg c, setclrReg c]
    exact List.mem_cons_of_mem _ (List.mem_cons_of_mem _ (List.mem_cons_of_mem _ List.mem_cons_self))

/-- non-vacuity: 5 pins on an 8-bit bus behind a decoder: the peripheral's multiplexer in the window at
    16 of a decoder that also has another multiplexer at 0 -/
example :
    let c : Cfg := ⟨5, 8, 2⟩
    let tr : BTree := .dec [0, 16] [2, 3] [.mux 1 [⟨0, 1, 8, true, true⟩], .mux 2 (regs c)]
    mdR c 16 ∈ tr.layout ∧ scR c 16 ∈ tr.layout ∧ (scR c 16).start = 20 ∧ (scR c 16).stop = 22 := by
  decide

end GpioT
