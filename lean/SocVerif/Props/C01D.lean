import SocVerif.Props.C01
import SocVerif.Props.C07
import SocVerif.Props.C10E
import SocVerif.Props.C15
/-!
# C01 (dynamic, from the root) — a Wishbone transfer at the ROOT of a hierarchy

`wishbone.Decoder` (combinational model `Dec.wbSubReq` / `Dec.wbResp`, Props/C07) is put in front
of (a) a `WishboneCSRBridge` (`Bridge`) closed in a loop with any CSR target that meets
`CsrT.CsrSpec` (every tree of CSR decoders over multiplexers does: `CsrT.tree_meets_spec`), and
(b) a `WishboneSRAM` (`Sram`). The theorems say what a transfer held at the root does, in terms of
the register / memory word the root address selects, and that an address selecting no window does
nothing anywhere.

Available: `Dec.responses_of_selected`, `Dec.nobody_selected_silent`, `Dec.request_forwarded`,
`Dec.at_most_one_cyc` (Props/C07); `Bridge.wb_read_is_atomic`, `Bridge.wb_write_is_atomic`
(Props/C10E), `Bridge.no_strobe_outside` (Bridge.lean); `Sram.ack_exact`, `Sram.c15_read_stored`,
`Sram.c15_mem_step` (Props/C15). Helper lemmas (prefixed `c01d_`) may be added ABOVE the
theorems; model definitions and theorem statements are fixed.
-/
namespace E2ED
open Dec Bridge Mux CsrT

/-- the Wishbone request a subordinate sees, as the bridge model's input (`sel` and `dat_w` are
    bit vectors on the bus, per-granule functions in the bridge model) -/
def toBIn (W : Nat) (q : WbReq) (csrR : Nat) : BIn :=
  ⟨q.cyc, q.stb, q.we, q.adr, fun i => q.sel.testBit i, fun i => slice W q.datw i, csrR⟩

/-- the bridge's Wishbone response: registered `ack`, `dat_r` = the lanes, no optional signals -/
def bridgeResp (W ratio : Nat) (s : BState) : WbResp :=
  ⟨s.ack, false, false, false, Mux.concat W s.datr ratio⟩

/-- subordinate `k` of the decoder is a bridge with input stream `inp` -/
structure BridgeAt (c : WbCfg) (k W ratio : Nat) (x : Nat → WbReq) (r : Nat → Nat → WbResp)
    (inp : Nat → BIn) : Prop where
  inputs  : ∀ t, inp t = toBIn W (wbSubReq c (x t) k) (inp t).csrR
  outputs : ∀ t, r t k = bridgeResp W ratio (bst ratio inp t)

/-- the root request is held unchanged over `[t0, t0 + n]` -/
def RootHeld (x : Nat → WbReq) (t0 n : Nat) : Prop := ∀ u, t0 ≤ u → u ≤ t0 + n → x u = x t0

/-- the other subordinates follow Wishbone (respond only while selected) during the transfer -/
def OthersQuiet (c : WbCfg) (x : Nat → WbReq) (r : Nat → Nat → WbResp) (t0 n : Nat) : Prop :=
  ∀ u, t0 ≤ u → u ≤ t0 + n → RespondOnlyWhenSelected c (x u) (r u)


theorem c01d_concat_congr (W : Nat) (f g : Nat → Nat) (n : Nat) (h : ∀ l, l < n → f l = g l) :
    Mux.concat W f n = Mux.concat W g n := by
  induction n with
  | zero => rfl
  | succ n ih =>
    simp only [Mux.concat]
    rw [ih (fun l hl => h l (by omega)), h n (by omega)]

/-- concatenating the `n` chunks of a value gives the value back, truncated to `n` chunks -/
theorem concat_slice (W v n : Nat) : Mux.concat W (fun l => slice W v l) n = v % 2 ^ (n * W) := by
  induction n with
  | zero => simp [Mux.concat, Nat.mod_one]
  | succ n ih =>
    simp only [Mux.concat]
    rw [ih]
    unfold slice
    rw [Nat.mod_mod, Sram.c15_pow_succ_mul, Nat.mod_mul, Nat.mul_comm (2 ^ (n * W))]

/-- the fields of the bridge's input in terms of the root request -/
theorem c01d_inp_fields (c : WbCfg) (k : Nat) (s : WbSub) (hk : c.subs[k]? = some s)
    (W ratio : Nat) (x : Nat → WbReq) (r : Nat → Nat → WbResp) (inp : Nat → BIn)
    (hb : BridgeAt c k W ratio x r inp) (t : Nat) :
    (inp t).cyc = ((wbSelected c (x t).adr == some k) && (x t).cyc) ∧ (inp t).stb = (x t).stb ∧
    (inp t).we = (x t).we ∧ (inp t).adr = (x t).adr % 2 ^ s.adrW ∧
    (inp t).sel = (fun i => ((x t).sel % 2 ^ s.selW).testBit i) ∧
    (inp t).datw = (fun i => slice W ((x t).datw % 2 ^ s.dw) i) := by
  have h := hb.inputs t
  rw [h]
  unfold toBIn wbSubReq
  simp only [hk]
  refine ⟨?_, ?_, ?_, ?_, ?_, ?_⟩ <;> trivial

/-- a root transfer held at an address routed to bridge `k` is a held bridge transfer -/
theorem c01d_held (c : WbCfg) (k : Nat) (s : WbSub) (hk : c.subs[k]? = some s)
    (W ratio : Nat) (x : Nat → WbReq) (r : Nat → Nat → WbResp) (inp : Nat → BIn)
    (hb : BridgeAt c k W ratio x r inp) (t0 n : Nat) (hheld : RootHeld x t0 n)
    (hcyc : (x t0).cyc = true) (hstb : (x t0).stb = true)
    (hsel : wbSelected c (x t0).adr = some k) : Bridge.Held inp t0 n := by
  intro u h1 h2
  have hx := hheld u h1 h2
  have hu := c01d_inp_fields c k s hk W ratio x r inp hb u
  have h0 := c01d_inp_fields c k s hk W ratio x r inp hb t0
  rw [hx] at hu
  refine ⟨?_, ?_, ?_, ?_, ?_, ?_⟩
  · rw [hu.1, hsel, hcyc]; simp
  · rw [hu.2.1, hstb]
  · rw [hu.2.2.1, h0.2.2.1]
  · rw [hu.2.2.2.1, h0.2.2.2.1]
  · rw [hu.2.2.2.2.1, h0.2.2.2.2.1]
  · rw [hu.2.2.2.2.2, h0.2.2.2.2.2]

/-- full select at the root is full select at the bridge -/
theorem c01d_fullsel (c : WbCfg) (k : Nat) (s : WbSub) (hk : c.subs[k]? = some s)
    (W ratio : Nat) (hselW : s.selW = ratio) (x : Nat → WbReq) (r : Nat → Nat → WbResp)
    (inp : Nat → BIn) (hb : BridgeAt c k W ratio x r inp) (t0 : Nat)
    (hfull : ∀ i, i < ratio → (x t0).sel.testBit i = true) :
    ∀ i, i < ratio → (inp t0).sel i = true := by
  intro i hi
  rw [(c01d_inp_fields c k s hk W ratio x r inp hb t0).2.2.2.2.1]
  show ((x t0).sel % 2 ^ s.selW).testBit i = true
  rw [hselW, Nat.testBit_mod_two_pow, hfull i hi]
  simp [hi]

/-- what the root sees during the held transfer is the bridge's response -/
theorem c01d_root_resp (c : WbCfg) (k : Nat) (s : WbSub) (hk : c.subs[k]? = some s)
    (W ratio : Nat) (x : Nat → WbReq) (r : Nat → Nat → WbResp) (inp : Nat → BIn)
    (hb : BridgeAt c k W ratio x r inp) (t0 n : Nat) (hq : OthersQuiet c x r t0 n)
    (hheld : RootHeld x t0 n) (hsel : wbSelected c (x t0).adr = some k)
    (u : Nat) (h1 : t0 ≤ u) (h2 : u ≤ t0 + n) :
    (wbResp c (x u) (r u)).ack = (bst ratio inp u).ack ∧
    (wbResp c (x u) (r u)).datr = Mux.concat W (bst ratio inp u).datr ratio := by
  have hx := hheld u h1 h2
  have hsel' : wbSelected c (x u).adr = some k := by rw [hx]; exact hsel
  have h := responses_of_selected c (x u) (r u) k s hk hsel' (hq u h1 h2)
  rw [h.1, h.2.2.2.2, hb.outputs u]
  exact ⟨rfl, rfl⟩

/-- ROOT READ THROUGH A BRIDGE: a full-select read held at the root, at an address the decoder
    routes to bridge `k`, whose word is register `R` of the CSR target's layout: the root sees no
    acknowledge for `ratio + 1` cycles, then exactly the bridge's acknowledge, and its read data is
    the value `R` presented in the cycle the transfer started (truncated to the bus word) -/
theorem root_read_through_bridge (c : WbCfg) (k : Nat) (s : WbSub) (hk : c.subs[k]? = some s)
    (W ratio : Nat) (hr : 0 < ratio) (hselW : s.selW = ratio) (hdw : s.dw = ratio * W)
    (B : Beh) (layout : List Reg) (hspec : CsrSpec W layout B) (R : Reg)
    (x : Nat → WbReq) (r : Nat → Nat → WbResp) (inp : Nat → BIn) (rval : Nat → Reg → Nat)
    (hb : BridgeAt c k W ratio x r inp) (hclosed : Closed ratio B inp rval)
    (t0 : Nat) (hq : OthersQuiet c x r t0 (ratio + 1)) (hheld : RootHeld x t0 (ratio + 1))
    (hcyc : (x t0).cyc = true) (hstb : (x t0).stb = true) (hwe : (x t0).we = false)
    (hfull : ∀ i, i < ratio → (x t0).sel.testBit i = true)
    (hsel : wbSelected c (x t0).adr = some k)
    (hreg : WordReg ratio layout R ((x t0).adr % 2 ^ s.adrW)) (hrd : R.rd = true)
    (hidle : Idle (bst ratio inp t0)) :
    (∀ i, i ≤ ratio → (wbResp c (x (t0 + i)) (r (t0 + i))).ack = false) ∧
    (wbResp c (x (t0 + ratio + 1)) (r (t0 + ratio + 1))).ack = true ∧
    (wbResp c (x (t0 + ratio + 1)) (r (t0 + ratio + 1))).datr = rval t0 R % 2 ^ (ratio * W) := by
  have hH := c01d_held c k s hk W ratio x r inp hb t0 (ratio + 1) hheld hcyc hstb hsel
  have hF := c01d_inp_fields c k s hk W ratio x r inp hb t0
  have hreg' : WordReg ratio layout R (inp t0).adr := by rw [hF.2.2.2.1]; exact hreg
  have hwe' : (inp t0).we = false := by rw [hF.2.2.1]; exact hwe
  have hfs := c01d_fullsel c k s hk W ratio hselW x r inp hb t0 hfull
  have A := wb_read_is_atomic W ratio hr B layout hspec R inp rval hclosed t0 hreg' hrd hidle hH
    hwe' hfs
  have hR := c01d_root_resp c k s hk W ratio x r inp hb t0 (ratio + 1) hq hheld hsel
  refine ⟨?_, ?_, ?_⟩
  · intro i hi
    rw [(hR (t0 + i) (by omega) (by omega)).1]
    exact A.1 i hi
  · rw [(hR (t0 + ratio + 1) (by omega) (by omega)).1]
    exact A.2.1
  · rw [(hR (t0 + ratio + 1) (by omega) (by omega)).2,
      c01d_concat_congr W _ (fun l => slice W (rval t0 R) l) ratio A.2.2, concat_slice]

/-- ROOT WRITE THROUGH A BRIDGE: the register receives the root's write data (its `ratio` granules
    concatenated, truncated to the register) with its strobe at `t0 + ratio`, no other register of
    the layout is strobed then, and the root sees the acknowledge one cycle later -/
theorem root_write_through_bridge (c : WbCfg) (k : Nat) (s : WbSub) (hk : c.subs[k]? = some s)
    (W ratio : Nat) (hr : 0 < ratio) (hselW : s.selW = ratio) (hdw : s.dw = ratio * W)
    (B : Beh) (layout : List Reg) (hspec : CsrSpec W layout B) (R : Reg)
    (x : Nat → WbReq) (r : Nat → Nat → WbResp) (inp : Nat → BIn) (rval : Nat → Reg → Nat)
    (hb : BridgeAt c k W ratio x r inp)
    (t0 : Nat) (hq : OthersQuiet c x r t0 (ratio + 1)) (hheld : RootHeld x t0 (ratio + 1))
    (hcyc : (x t0).cyc = true) (hstb : (x t0).stb = true) (hwe : (x t0).we = true)
    (hfull : ∀ i, i < ratio → (x t0).sel.testBit i = true)
    (hsel : wbSelected c (x t0).adr = some k)
    (hreg : WordReg ratio layout R ((x t0).adr % 2 ^ s.adrW)) (hwr : R.wr = true)
    (hidle : Idle (bst ratio inp t0)) :
    B.wstbE (csrStream ratio inp rval) (t0 + ratio) R = true ∧
    B.wdataE (csrStream ratio inp rval) (t0 + ratio) R = (x t0).datw % 2 ^ (ratio * W) % 2 ^ R.width ∧
    (∀ q ∈ layout, q ≠ R → 1 ≤ q.len → B.wstbE (csrStream ratio inp rval) (t0 + ratio) q = false) ∧
    (wbResp c (x (t0 + ratio + 1)) (r (t0 + ratio + 1))).ack = true := by
  have hH := c01d_held c k s hk W ratio x r inp hb t0 (ratio + 1) hheld hcyc hstb hsel
  have hF := c01d_inp_fields c k s hk W ratio x r inp hb t0
  have hreg' : WordReg ratio layout R (inp t0).adr := by rw [hF.2.2.2.1]; exact hreg
  have hwe' : (inp t0).we = true := by rw [hF.2.2.1]; exact hwe
  have hfs := c01d_fullsel c k s hk W ratio hselW x r inp hb t0 hfull
  have A := wb_write_is_atomic W ratio hr B layout hspec R inp rval t0 hreg' hwr hidle hH
    hwe' hfs
  have hR := c01d_root_resp c k s hk W ratio x r inp hb t0 (ratio + 1) hq hheld hsel
  refine ⟨A.1, ?_, A.2.2.1, ?_⟩
  · rw [A.2.1, hF.2.2.2.2.2, concat_slice, hdw, Nat.mod_mod]
  · rw [(hR (t0 + ratio + 1) (by omega) (by omega)).1]
    exact A.2.2.2

/-- UNASSIGNED AT THE ROOT: while the root address selects no window, the root sees no response
    and zero read data, and a bridge behind the decoder issues no CSR access at all -/
theorem root_unassigned_bridge_silent (c : WbCfg) (k W ratio : Nat)
    (x : Nat → WbReq) (r : Nat → Nat → WbResp) (inp : Nat → BIn)
    (hb : BridgeAt c k W ratio x r inp) (t : Nat)
    (hq : RespondOnlyWhenSelected c (x t) (r t))
    (hsel : wbSelected c (x t).adr = none) :
    (wbResp c (x t) (r t)).ack = false ∧ (wbResp c (x t) (r t)).datr = 0 ∧
    (bout ratio (bst ratio inp t) (inp t)).rstb = false ∧
    (bout ratio (bst ratio inp t) (inp t)).wstb = false := by
  have N := nobody_selected_silent c (x t) (r t) hsel hq
  have hc : (inp t).cyc = false := by
    rw [hb.inputs t]
    exact N.2.2.2.2.2 k
  have S := no_strobe_outside ratio (bst ratio inp t) (inp t) (by rw [hc]; rfl)
  exact ⟨N.1, N.2.2.2.2.1, S.1, S.2⟩

/-! ## SRAM behind the decoder -/

def toSIn (q : WbReq) : Sram.In := ⟨q.cyc, q.stb, q.we, q.adr, fun i => q.sel.testBit i, q.datw⟩

def sramResp (s : Sram.State) : WbResp := ⟨s.ack, false, false, false, s.rdat⟩

structure SramAt (c : WbCfg) (k : Nat) (sc : Sram.Cfg) (m0 : Nat → Nat) (x : Nat → WbReq)
    (r : Nat → Nat → WbResp) (inp : Nat → Sram.In) : Prop where
  inputs  : ∀ t, inp t = toSIn (wbSubReq c (x t) k)
  outputs : ∀ t, r t k = sramResp (Sram.st sc m0 inp t)


/-- the fields of the SRAM's input in terms of the root request -/
theorem c01d_sin_fields (c : WbCfg) (k : Nat) (s : WbSub) (hk : c.subs[k]? = some s)
    (sc : Sram.Cfg) (m0 : Nat → Nat) (x : Nat → WbReq) (r : Nat → Nat → WbResp) (inp : Nat → Sram.In)
    (hs : SramAt c k sc m0 x r inp) (t : Nat) :
    (inp t).cyc = ((wbSelected c (x t).adr == some k) && (x t).cyc) ∧ (inp t).stb = (x t).stb ∧
    (inp t).we = (x t).we ∧ (inp t).adr = (x t).adr % 2 ^ s.adrW ∧
    (inp t).sel = (fun i => ((x t).sel % 2 ^ s.selW).testBit i) ∧
    (inp t).datw = (x t).datw % 2 ^ s.dw := by
  rw [hs.inputs t]
  unfold toSIn wbSubReq
  simp only [hk]
  refine ⟨?_, ?_, ?_, ?_, ?_, ?_⟩ <;> trivial

theorem c01d_sram_req (c : WbCfg) (k : Nat) (s : WbSub) (hk : c.subs[k]? = some s)
    (sc : Sram.Cfg) (m0 : Nat → Nat) (x : Nat → WbReq) (r : Nat → Nat → WbResp) (inp : Nat → Sram.In)
    (hs : SramAt c k sc m0 x r inp) (t0 : Nat)
    (hcyc : (x t0).cyc = true) (hstb : (x t0).stb = true)
    (hsel : wbSelected c (x t0).adr = some k)
    (hidle : (Sram.st sc m0 inp t0).ack = false) :
    Sram.req (Sram.st sc m0 inp t0) (inp t0) = true := by
  have hF := c01d_sin_fields c k s hk sc m0 x r inp hs t0
  unfold Sram.req
  rw [hidle, hF.1, hF.2.1, hsel, hcyc, hstb]
  simp

/-- what the root sees during the held transfer is the SRAM's response -/
theorem c01d_sram_resp (c : WbCfg) (k : Nat) (s : WbSub) (hk : c.subs[k]? = some s)
    (sc : Sram.Cfg) (m0 : Nat → Nat) (x : Nat → WbReq) (r : Nat → Nat → WbResp) (inp : Nat → Sram.In)
    (hs : SramAt c k sc m0 x r inp) (t0 n : Nat) (hq : OthersQuiet c x r t0 n)
    (hheld : RootHeld x t0 n) (hsel : wbSelected c (x t0).adr = some k)
    (u : Nat) (h1 : t0 ≤ u) (h2 : u ≤ t0 + n) :
    (wbResp c (x u) (r u)).ack = (Sram.st sc m0 inp u).ack ∧
    (wbResp c (x u) (r u)).datr = (Sram.st sc m0 inp u).rdat := by
  have hx := hheld u h1 h2
  have hsel' : wbSelected c (x u).adr = some k := by rw [hx]; exact hsel
  have h := responses_of_selected c (x u) (r u) k s hk hsel' (hq u h1 h2)
  rw [h.1, h.2.2.2.2, hs.outputs u]
  exact ⟨rfl, rfl⟩

/-- ROOT READ OF AN SRAM WORD: acknowledged exactly one cycle after it is presented, with the word
    stored at the window-relative address -/
theorem root_sram_read (c : WbCfg) (k : Nat) (s : WbSub) (hk : c.subs[k]? = some s)
    (sc : Sram.Cfg) (m0 : Nat → Nat) (x : Nat → WbReq) (r : Nat → Nat → WbResp) (inp : Nat → Sram.In)
    (hs : SramAt c k sc m0 x r inp)
    (t0 : Nat) (hq : OthersQuiet c x r t0 1) (hheld : RootHeld x t0 1)
    (hcyc : (x t0).cyc = true) (hstb : (x t0).stb = true) (hwe : (x t0).we = false)
    (hsel : wbSelected c (x t0).adr = some k)
    (hidle : (Sram.st sc m0 inp t0).ack = false) :
    (wbResp c (x t0) (r t0)).ack = false ∧
    (wbResp c (x (t0 + 1)) (r (t0 + 1))).ack = true ∧
    (wbResp c (x (t0 + 1)) (r (t0 + 1))).datr = (Sram.st sc m0 inp t0).mem ((x t0).adr % 2 ^ s.adrW) := by
  have hF := c01d_sin_fields c k s hk sc m0 x r inp hs t0
  have hreq := c01d_sram_req c k s hk sc m0 x r inp hs t0 hcyc hstb hsel hidle
  have hR := c01d_sram_resp c k s hk sc m0 x r inp hs t0 1 hq hheld hsel
  refine ⟨?_, ?_, ?_⟩
  · rw [(hR t0 (by omega) (by omega)).1]; exact hidle
  · rw [(hR (t0 + 1) (by omega) (by omega)).1, (Sram.ack_exact sc m0 inp t0).2]; exact hreq
  · rw [(hR (t0 + 1) (by omega) (by omega)).2,
      Sram.c15_read_stored sc m0 inp t0 (by rw [hF.2.2.1]; exact hwe), hF.2.2.2.1]

/-- ROOT WRITE OF AN SRAM WORD: the selected granules of exactly the addressed word are replaced,
    every other word keeps its (truncated) value, and the root is acknowledged one cycle later -/
theorem root_sram_write (c : WbCfg) (k : Nat) (s : WbSub) (hk : c.subs[k]? = some s)
    (sc : Sram.Cfg) (hw : sc.writable = true) (m0 : Nat → Nat) (x : Nat → WbReq) (r : Nat → Nat → WbResp)
    (inp : Nat → Sram.In) (hs : SramAt c k sc m0 x r inp)
    (t0 : Nat) (hq : OthersQuiet c x r t0 1) (hheld : RootHeld x t0 1)
    (hcyc : (x t0).cyc = true) (hstb : (x t0).stb = true) (hwe : (x t0).we = true)
    (hsel : wbSelected c (x t0).adr = some k)
    (hidle : (Sram.st sc m0 inp t0).ack = false) :
    (Sram.st sc m0 inp (t0 + 1)).mem ((x t0).adr % 2 ^ s.adrW) =
      Sram.merge sc ((Sram.st sc m0 inp t0).mem ((x t0).adr % 2 ^ s.adrW)) ((x t0).datw % 2 ^ s.dw)
        (fun i => ((x t0).sel % 2 ^ s.selW).testBit i) ∧
    (∀ a, a ≠ (x t0).adr % 2 ^ s.adrW → (Sram.st sc m0 inp (t0 + 1)).mem a = (Sram.st sc m0 inp t0).mem a) ∧
    (wbResp c (x (t0 + 1)) (r (t0 + 1))).ack = true := by
  have hF := c01d_sin_fields c k s hk sc m0 x r inp hs t0
  have hreq := c01d_sram_req c k s hk sc m0 x r inp hs t0 hcyc hstb hsel hidle
  have hR := c01d_sram_resp c k s hk sc m0 x r inp hs t0 1 hq hheld hsel
  have hstep : ∀ a, (Sram.st sc m0 inp (t0 + 1)).mem a =
      (Sram.next sc (Sram.st sc m0 inp t0) (inp t0)).mem a := fun _ => rfl
  have hcond : (sc.writable && Sram.req (Sram.st sc m0 inp t0) (inp t0) && (inp t0).we) = true := by
    rw [hw, hreq, hF.2.2.1, hwe]; rfl
  refine ⟨?_, ?_, ?_⟩
  · rw [hstep, Sram.c15_mem_step, hcond, hF.2.2.2.1, hF.2.2.2.2.1, hF.2.2.2.2.2]
    simp only [if_true]
  · intro a ha
    rw [hstep, Sram.c15_mem_step, hF.2.2.2.1, if_neg ha]
  · rw [(hR (t0 + 1) (by omega) (by omega)).1, (Sram.ack_exact sc m0 inp t0).2]; exact hreq

/-- UNASSIGNED AT THE ROOT, SRAM side: while the root address selects no window, an SRAM behind the
    decoder keeps every stored word (up to the truncation to the data width the model makes explicit) -/
theorem root_unassigned_sram_untouched (c : WbCfg) (k : Nat) (sc : Sram.Cfg) (m0 : Nat → Nat)
    (x : Nat → WbReq) (r : Nat → Nat → WbResp) (inp : Nat → Sram.In)
    (hs : SramAt c k sc m0 x r inp) (t : Nat)
    (hsel : wbSelected c (x t).adr = none) (a : Nat) :
    (Sram.st sc m0 inp (t + 1)).mem a = (Sram.st sc m0 inp t).mem a ∨
    (Sram.st sc m0 inp (t + 1)).mem a = (Sram.st sc m0 inp t).mem a % 2 ^ (sc.lanes * sc.gran) := by
  have hc : (inp t).cyc = false := by
    rw [hs.inputs t]
    apply c07_cyc_false
    rw [hsel]
    intro e
    cases e
  have hreq : Sram.req (Sram.st sc m0 inp t) (inp t) = false := by
    unfold Sram.req
    rw [hc]; simp
  have hstep : (Sram.st sc m0 inp (t + 1)).mem a =
      (Sram.next sc (Sram.st sc m0 inp t) (inp t)).mem a := rfl
  rw [hstep, Sram.c15_mem_step, hreq]
  by_cases ha : a = (inp t).adr
  · right; simp [ha]
  · left; simp [ha]

/-! ## the decoder's choice is the static route of `E2E` -/

/-- the decoder configuration of an `E2E.WbTop` (only what address selection depends on) -/
def cfgOf (top : E2E.WbTop) : WbCfg :=
  { aw := top.aw, gb := top.gb, feat := ⟨false, false, false, false, false, false⟩
    subs := (top.starts.zip top.leaves).map fun p =>
      ⟨p.1, p.2.mapAw, p.2.mapAw - top.gb, 0, 0, ⟨false, false, false, false, false, false⟩⟩ }


theorem c01d_route_list (gb : Nat) (starts : List Nat) (leaves : List E2E.WbLeaf) (adr lane : Nat) :
    E2E.wbRouteList gb starts leaves adr lane =
      match List.findIdx? (fun p : Pat => p.matches adr)
          ((starts.zip leaves).map fun p => stripLow (windowPat p.1 p.2.mapAw) gb) with
      | none => none
      | some k => match leaves[k]? with
        | none => none
        | some l => E2E.leafRoute gb l (adr % 2 ^ (l.mapAw - gb)) lane := by
  induction starts generalizing leaves with
  | nil => simp [E2E.wbRouteList]
  | cons s ss ih =>
    cases leaves with
    | nil => simp [E2E.wbRouteList]
    | cons l ls =>
      simp only [E2E.wbRouteList, List.zip_cons_cons, List.map_cons, List.findIdx?_cons]
      by_cases hm : (stripLow (windowPat s l.mapAw) gb).matches adr = true
      · simp [hm]
      · simp only [hm]
        rw [ih ls]
        cases List.findIdx? (fun p : Pat => p.matches adr)
          ((ss.zip ls).map fun p => stripLow (windowPat p.1 p.2.mapAw) gb) with
        | none => simp
        | some k => simp

theorem c01d_pats (top : E2E.WbTop) (haw : 0 < top.aw) :
    wbPats (cfgOf top) =
      (top.starts.zip top.leaves).map fun p => stripLow (windowPat p.1 p.2.mapAw) top.gb := by
  unfold wbPats cfgOf
  simp only [List.map_map]
  apply List.map_congr_left
  intro p _
  simp only [Function.comp, wbPat, if_neg (Nat.ne_of_gt haw)]

/-- `hwRoute` (whose agreement with the root memory map is `E2E.route_eq_locate`) goes through the
    leaf the dynamic decoder model selects, at the truncated address that leaf's `adr` input carries -/
theorem route_via_selected (top : E2E.WbTop) (haw : 0 < top.aw) (a : Nat) :
    E2E.hwRoute top a =
      match wbSelected (cfgOf top) (a / 2 ^ top.gb) with
      | none => none
      | some k => match top.leaves[k]? with
        | none => none
        | some l => E2E.leafRoute top.gb l ((a / 2 ^ top.gb) % 2 ^ (l.mapAw - top.gb)) (a % 2 ^ top.gb) := by
  unfold E2E.hwRoute wbSelected firstMatch
  rw [c01d_route_list, c01d_pats top haw]

/-- non-vacuity: a 6-bit word-addressed root (4 granules per word) over an SRAM of 16 granules at 0
    and a bridge over a 32-address CSR multiplexer at 32: the decoder configuration of the top
    computes, word 9 selects the bridge, word 3 the SRAM, word 17 nobody; granule address 37 is
    routed through the bridge to chunk 1 of the register with resource id 11 -/
example :
    let top : E2E.WbTop :=
      ⟨2, 6, [0, 32], [.sram 7 4, .bridge (.mux 5 [11] [⟨4, 2, 16, true, true⟩])]⟩
    (cfgOf top).subs.length = 2 ∧
    wbSelected (cfgOf top) 9 = some 1 ∧ wbSelected (cfgOf top) 3 = some 0 ∧
    wbSelected (cfgOf top) 17 = none ∧
    E2E.hwRoute top 37 = some (11, 1) ∧ E2E.hwRoute top 13 = some (7, 13) := by
  decide

end E2ED
