import SocVerif.Props.C14
import SocVerif.Props.C06T
/-!
# C14 (behind anything) — the event monitor's registers behind ANY CSR hierarchy

`Props/C14.lean` proves the register-level behaviour of `csr.EventMonitor` for an initiator connected
directly to its own multiplexer. The property also says "whether attached through a decoder or by
connecting an initiator interface to it". Here the two mask registers sit anywhere in a CSR
hierarchy: the CSR side is ANY behaviour `B` that meets `CsrT.CsrSpec` for a layout containing the two
registers at base address `base` — every tree of CSR decoders over multiplexers does
(`CsrT.tree_meets_spec`), and so does the monitor's own multiplexer (`CsrT.mux_meets_spec`). The glue of
`EventMonitor.elaborate` (enable latched on the enable register's write strobe, clear = the pending
register's write data while strobed, both registers presenting the monitor state) closes the loop
(`Closed`). `direct_is_closed` shows that the concrete model `CsrMon.st` (the one the driver runs
against the real component) is the instance `B = muxBeh`, `base = 0`.

Helper lemmas (prefixed `c14t_`) may be added ABOVE the theorems; definitions and theorem statements
are fixed.
-/
namespace CsrMonT
open Mux Ev CsrT CsrMon

/-- the two mask registers at the addresses the enclosing memory map reports -/
def enR (c : Cfg) (base : Nat) : Reg := shift base (enableReg c)
def peR (c : Cfg) (base : Nat) : Reg := shift base (pendingReg c)

/-- one cycle of what the outside does: the CSR bus at the top of the hierarchy and the event lines -/
structure BusIn where
  addr  : Nat
  rstb  : Bool
  wstb  : Bool
  wdata : Nat
  i     : Nat → Bool

/-- the CSR input stream of the hierarchy: the bus, and what the two registers present — the enable
    mask and the pending mask of the monitor (`element.r_data.eq(monitor.enable / pending)`) -/
def cin (c : Cfg) (base : Nat) (bus : Nat → BusIn) (ms : Nat → MState) (en : Nat → Nat → Bool) :
    Nat → CIn := fun t =>
  ⟨(bus t).addr, (bus t).rstb, (bus t).wstb, (bus t).wdata,
   fun r => if r.start = base then Act.ofBits c.n (en t) else Act.ofBits c.n (ms t).pending⟩

/-- `monitor.clear`: the pending register's `w_data` while its `w_stb` -/
def clearT (c : Cfg) (base : Nat) (B : Beh) (inp : Nat → CIn) (t : Nat) : Nat → Bool := fun k =>
  B.wstbE inp t (peR c base) && (B.wdataE inp t (peR c base)).testBit k

/-- what the monitor sees in cycle `t` -/
def monInT (c : Cfg) (base : Nat) (B : Beh) (bus : Nat → BusIn) (ms : Nat → MState)
    (en : Nat → Nat → Bool) (t : Nat) : MIn :=
  ⟨(bus t).i, en t, clearT c base B (cin c base bus ms en) t⟩

/-- the glue of `EventMonitor.elaborate`, closing the loop between the CSR hierarchy `B` and the
    monitor: `ms` is the monitor's state, `en` the registered enable mask -/
structure Closed (c : Cfg) (base : Nat) (B : Beh) (bus : Nat → BusIn) (ms : Nat → MState)
    (en : Nat → Nat → Bool) : Prop where
  ms0 : ms 0 = minit
  en0 : en 0 = fun _ => false
  mstep : ∀ t, ms (t + 1) = mnext c.modes (ms t) (monInT c base B bus ms en t)
  estep : ∀ t, en (t + 1) =
    if B.wstbE (cin c base bus ms en) t (enR c base)
    then fun k => decide (k < c.n) && (B.wdataE (cin c base bus ms en) t (enR c base)).testBit k
    else en t

/-- a write transaction to register `r` at the top of the hierarchy: chunks `0 … len-1` written in
    ascending order at times `τ`, with values `v`, and no other write strobe in between -/
structure WriteTxnB (bus : Nat → BusIn) (r : Reg) (τ : Nat → Nat) (v : Nat → Nat) : Prop where
  mono  : ∀ k, k + 1 < r.len → τ k < τ (k + 1)
  write : ∀ k, k < r.len → (bus (τ k)).wstb = true ∧ (bus (τ k)).addr = r.start + k ∧ (bus (τ k)).wdata = v k
  quiet : ∀ t, τ 0 ≤ t → t ≤ τ (r.len - 1) → (∀ k, k < r.len → t ≠ τ k) → (bus t).wstb = false

theorem c14t_w1c (c : Cfg) (base : Nat) (B : Beh) (layout : List Reg)
    (hspec : CsrSpec c.dw layout B) (hmem : peR c base ∈ layout)
    (bus : Nat → BusIn) (ms : Nat → MState) (en : Nat → Nat → Bool) (hcl : Closed c base B bus ms en)
    (τ v : Nat → Nat) (h : WriteTxnB bus (peR c base) τ v) (k : Nat) (hk : k < c.modes.length) :
    (ms (τ ((peR c base).len - 1) + 1 + 1)).pending k =
      (trgOut c.modes (ms (τ ((peR c base).len - 1) + 1))
          (monInT c base B bus ms en (τ ((peR c base).len - 1) + 1)) k ||
        ((ms (τ ((peR c base).len - 1) + 1)).pending k &&
          !(Mux.concat c.dw v (peR c base).len % 2 ^ c.n).testBit k)) := by
  have hlen : 1 ≤ (peR c base).len := c14_regLen_pos c
  have hw := hspec.write_concat (cin c base bus ms en) (peR c base) hmem rfl τ v h.mono h.write h.quiet
  have hlast := h.write ((peR c base).len - 1) (by omega)
  have hs := hspec.wstb_exact (cin c base bus ms en) (τ ((peR c base).len - 1)) (peR c base) hmem
  have hs' : B.wstbE (cin c base bus ms en) (τ ((peR c base).len - 1) + 1) (peR c base) = true := by
    rw [hs]
    show (true && (bus _).wstb && ((bus _).addr == (peR c base).stop - 1)) = true
    rw [hlast.1, hlast.2.1]
    simp only [Reg.stop, Bool.and_self, Bool.true_and, beq_iff_eq]
    omega
  have hk' : c.modes[k]? = some c.modes[k] := List.getElem?_eq_getElem hk
  generalize τ ((peR c base).len - 1) + 1 = t1 at hw hs' ⊢
  rw [hcl.mstep t1]
  have hc : (monInT c base B bus ms en t1).clear k =
      (Mux.concat c.dw v (peR c base).len % 2 ^ c.n).testBit k := by
    show (B.wstbE (cin c base bus ms en) t1 (peR c base) &&
      (B.wdataE (cin c base bus ms en) t1 (peR c base)).testBit k) = _
    rw [hs', hw]; rfl
  simp only [mnext, trgOut, hk', hc]
  cases trg c.modes[k] ((ms t1).prev k) ((monInT c base B bus ms en t1).i k) <;>
    cases (Mux.concat c.dw v (peR c base).len % 2 ^ c.n).testBit k <;>
    cases (ms t1).pending k <;> rfl

/-- the pending register is strobed exactly one cycle after a bus write to ITS last address — a write
    anywhere else in the hierarchy never clears an event -/
theorem pending_strobe_exact (c : Cfg) (base : Nat) (B : Beh) (layout : List Reg)
    (hspec : CsrSpec c.dw layout B) (hmem : peR c base ∈ layout)
    (bus : Nat → BusIn) (ms : Nat → MState) (en : Nat → Nat → Bool) (t : Nat) :
    B.wstbE (cin c base bus ms en) (t + 1) (peR c base) =
      ((bus t).wstb && ((bus t).addr == (peR c base).stop - 1)) ∧
    B.wstbE (cin c base bus ms en) 0 (peR c base) = false := by
  refine ⟨?_, hspec.wstb0 _ _ hmem⟩
  rw [hspec.wstb_exact _ t _ hmem]
  rfl

/-- without a write strobe on the pending register nothing is cleared -/
theorem no_clear_without_write_behind (c : Cfg) (base : Nat) (B : Beh)
    (bus : Nat → BusIn) (ms : Nat → MState) (en : Nat → Nat → Bool) (hcl : Closed c base B bus ms en)
    (t k : Nat) (hk : k < c.modes.length)
    (h : B.wstbE (cin c base bus ms en) t (peR c base) = false) :
    (ms (t + 1)).pending k =
      (trgOut c.modes (ms t) (monInT c base B bus ms en t) k || (ms t).pending k) := by
  have hk' : c.modes[k]? = some c.modes[k] := List.getElem?_eq_getElem hk
  rw [hcl.mstep t]
  simp only [mnext, trgOut, hk', monInT, clearT, h, Bool.false_and]
  cases trg c.modes[k] ((ms t).prev k) ((bus t).i k) <;> simp

/-- WRITE-ONE-TO-CLEAR behind any hierarchy: in the cycle after the last chunk of a write transaction
    to the pending register (at the addresses the enclosing map reports), exactly the bits written as
    one are cleared — unless their source triggers in that very cycle — and bits written as zero keep
    their value -/
theorem pending_w1c_behind (c : Cfg) (base : Nat) (B : Beh) (layout : List Reg)
    (hspec : CsrSpec c.dw layout B) (hmem : peR c base ∈ layout)
    (bus : Nat → BusIn) (ms : Nat → MState) (en : Nat → Nat → Bool) (hcl : Closed c base B bus ms en)
    (τ v : Nat → Nat) (h : WriteTxnB bus (peR c base) τ v) (k : Nat) (hk : k < c.modes.length)
    (hkn : k < c.n) :
    let t1 := τ ((peR c base).len - 1) + 1
    (ms (t1 + 1)).pending k =
      (trgOut c.modes (ms t1) (monInT c base B bus ms en t1) k ||
        ((ms t1).pending k && !(Mux.concat c.dw v (peR c base).len % 2 ^ c.n).testBit k)) := by
  exact c14t_w1c c base B layout hspec hmem bus ms en hcl τ v h k hk

/-- the enable mask is whatever the last completed write transaction to the enable register wrote -/
theorem enable_latched_behind (c : Cfg) (base : Nat) (B : Beh) (layout : List Reg)
    (hspec : CsrSpec c.dw layout B) (hmem : enR c base ∈ layout)
    (bus : Nat → BusIn) (ms : Nat → MState) (en : Nat → Nat → Bool) (hcl : Closed c base B bus ms en)
    (τ v : Nat → Nat) (h : WriteTxnB bus (enR c base) τ v) (k : Nat) :
    en (τ ((enR c base).len - 1) + 2) k =
      (decide (k < c.n) && (Mux.concat c.dw v (enR c base).len % 2 ^ c.n).testBit k) := by
  have hlen : 1 ≤ (enR c base).len := c14_regLen_pos c
  have hw := hspec.write_concat (cin c base bus ms en) (enR c base) hmem rfl τ v h.mono h.write h.quiet
  have hlast := h.write ((enR c base).len - 1) (by omega)
  have hs := hspec.wstb_exact (cin c base bus ms en) (τ ((enR c base).len - 1)) (enR c base) hmem
  have hs' : B.wstbE (cin c base bus ms en) (τ ((enR c base).len - 1) + 1) (enR c base) = true := by
    rw [hs]
    show (true && (bus _).wstb && ((bus _).addr == (enR c base).stop - 1)) = true
    rw [hlast.1, hlast.2.1]
    simp only [Reg.stop, Bool.and_self, Bool.true_and, beq_iff_eq]
    omega
  rw [show τ ((enR c base).len - 1) + 2 = (τ ((enR c base).len - 1) + 1) + 1 from rfl, hcl.estep]
  simp only [hs', if_true, hw]
  rfl

/-- … and it keeps its value in every cycle that does not follow a bus write to the enable
    register's last address -/
theorem enable_kept_behind (c : Cfg) (base : Nat) (B : Beh) (layout : List Reg)
    (hspec : CsrSpec c.dw layout B) (hmem : enR c base ∈ layout)
    (bus : Nat → BusIn) (ms : Nat → MState) (en : Nat → Nat → Bool) (hcl : Closed c base B bus ms en)
    (t : Nat) (h : ((bus t).wstb && ((bus t).addr == (enR c base).stop - 1)) = false) :
    en (t + 2) = en (t + 1) := by
  have hs := hspec.wstb_exact (cin c base bus ms en) t (enR c base) hmem
  have hs' : B.wstbE (cin c base bus ms en) (t + 1) (enR c base) = false := by
    rw [hs]
    show (true && (bus t).wstb && ((bus t).addr == (enR c base).stop - 1)) = false
    rw [Bool.true_and]; exact h
  rw [show t + 2 = (t + 1) + 1 from rfl, hcl.estep]
  simp only [hs', Bool.false_eq_true, if_false]

/-- READ BACK behind any hierarchy: a multi-chunk read of the enable or the pending register is an
    atomic snapshot of the mask as it was when the first chunk was read, whatever events fire
    meanwhile -/
theorem mask_read_atomic_behind (c : Cfg) (base : Nat) (B : Beh) (layout : List Reg)
    (hspec : CsrSpec c.dw layout B)
    (bus : Nat → BusIn) (ms : Nat → MState) (en : Nat → Nat → Bool)
    (r : Reg) (hr : r = enR c base ∨ r = peR c base) (hmem : r ∈ layout)
    (t0 t1 : Nat) (hle : t0 ≤ t1)
    (h0 : (bus t0).rstb = true ∧ (bus t0).addr = r.start)
    (h1 : (bus t1).rstb = true ∧ r.start ≤ (bus t1).addr ∧ (bus t1).addr < r.stop)
    (hquiet : ∀ t, t0 < t → t ≤ t1 → (bus t).rstb = true → ∀ q ∈ layout, q.rd = true → (bus t).addr ≠ q.start) :
    B.rdata (cin c base bus ms en) (t1 + 1) =
      slice c.dw (if r.start = base then Act.ofBits c.n (en t0) else Act.ofBits c.n (ms t0).pending)
        ((bus t1).addr - r.start) := by
  have hrd : r.rd = true := by rcases hr with rfl | rfl <;> rfl
  exact hspec.snapshot (cin c base bus ms en) r hmem hrd t0 t1 hle h0 h1 hquiet

/-- the interrupt line follows enable-and-pending -/
theorem irq_line_behind (c : Cfg) (base : Nat) (B : Beh) (bus : Nat → BusIn) (ms : Nat → MState)
    (en : Nat → Nat → Bool) (t : Nat) :
    line c.modes (ms t) (monInT c base B bus ms en t) = true ↔
      ∃ k, k < c.modes.length ∧ en t k = true ∧ (ms t).pending k = true := by
  rw [Ev.line_iff]
  rfl

/-! ## instances -/

/-- the bus stream of the concrete model as a `BusIn` stream -/
def busOf (inp : Nat → CsrMon.In) : Nat → BusIn := fun t =>
  ⟨(inp t).addr, (inp t).rstb, (inp t).wstb, (inp t).wdata, (inp t).i⟩

/-- THE CONCRETE MODEL IS AN INSTANCE: the streams of `CsrMon.st` (the model the driver runs against the
    real `csr.EventMonitor`) close the loop with the monitor's own multiplexer at base 0 -/
theorem direct_is_closed (c : Cfg) (hdw : 0 < c.dw) (S : Nat) (inp : Nat → CsrMon.In) :
    Closed c 0 (muxBeh c.dw S (regs c)) (busOf inp)
      (fun t => (st c S inp t).mon) (fun t => (st c S inp t).enable) := by
  have hen : enR c 0 = enableReg c := rfl
  have hpe : peR c 0 = pendingReg c := rfl
  refine ⟨rfl, rfl, ?_, ?_⟩
  · intro t
    show (next c S (st c S inp t) (inp t)).mon = _
    show mnext c.modes (st c S inp t).mon (monIn c S (st c S inp t) (inp t)) = _
    congr 1
    show (⟨(inp t).i, (st c S inp t).enable, clearBits c S (st c S inp t)⟩ : MIn) =
      ⟨(inp t).i, (st c S inp t).enable, _⟩
    congr 1
    funext k
    show ((st c S inp t).ws.estb (pendingReg c) &&
      (elemWdata c.dw S (st c S inp t).ws (pendingReg c)).testBit k) = _
    rw [(mux_inside c S inp t).2]
    rfl
  · intro t
    show (next c S (st c S inp t) (inp t)).enable = _
    show (if (st c S inp t).ws.estb (enableReg c)
              then fun k => decide (k < c.n) && (elemWdata c.dw S (st c S inp t).ws (enableReg c)).testBit k
              else (st c S inp t).enable) = _
    rw [(mux_inside c S inp t).2]
    rfl

/-- … and its multiplexer meets the specification for the monitor's own layout -/
theorem direct_meets_spec (c : Cfg) (hdw : 0 < c.dw) (S : Nat) :
    CsrSpec c.dw (regs c) (muxBeh c.dw S (regs c)) ∧ enR c 0 ∈ regs c ∧ peR c 0 ∈ regs c := by
  refine ⟨mux_meets_spec c.dw S (regs c) (layout_fits c hdw).1, ?_, ?_⟩
  · show enR c 0 ∈ [enableReg c, pendingReg c]
    exact List.mem_cons_self
  · show peR c 0 ∈ [enableReg c, pendingReg c]
    exact List.mem_cons_of_mem _ List.mem_cons_self

/-- BEHIND ANY TREE OF DECODERS: for every well-formed tree of CSR decoders over multiplexers whose
    flattened layout (the registers at the addresses `all_resources()` reports) contains the monitor's
    two registers at `base`, write-one-to-clear holds for transactions at those addresses -/
theorem pending_w1c_behind_tree (c : Cfg) (base : Nat) (tr : BTree) (hwf : tr.wf)
    (hmem : peR c base ∈ tr.layout)
    (bus : Nat → BusIn) (ms : Nat → MState) (en : Nat → Nat → Bool)
    (hcl : Closed c base (tr.beh c.dw) bus ms en)
    (τ v : Nat → Nat) (h : WriteTxnB bus (peR c base) τ v) (k : Nat) (hk : k < c.modes.length)
    (hkn : k < c.n) :
    let t1 := τ ((peR c base).len - 1) + 1
    (ms (t1 + 1)).pending k =
      (trgOut c.modes (ms t1) (monInT c base (tr.beh c.dw) bus ms en t1) k ||
        ((ms t1).pending k && !(Mux.concat c.dw v (peR c base).len % 2 ^ c.n).testBit k)) := by
  exact pending_w1c_behind c base (tr.beh c.dw) tr.layout (tree_meets_spec c.dw tr hwf) hmem
    bus ms en hcl τ v h k hk hkn

/-- non-vacuity: 9 events on an 8-bit bus; the monitor's multiplexer in the window at 8 of a decoder
    that also has another multiplexer at 0 — the tree is well-formed and its flattened layout contains
    the two mask registers at base 8 -/
example :
    let c : Cfg := ⟨9, 8, 0, List.replicate 9 Mode.level⟩
    let tr : BTree := .dec [0, 8] [2, 3] [.mux 1 [⟨0, 1, 8, true, true⟩], .mux 2 (regs c)]
    enR c 8 ∈ tr.layout ∧ peR c 8 ∈ tr.layout ∧ (peR c 8).start = 10 ∧ (peR c 8).stop = 12 := by
  decide

end CsrMonT
