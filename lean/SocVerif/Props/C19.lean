import SocVerif.ShadowElab
/-!
# C19 — every accepted component elaborates, terminates, and does so repeatably

The part of C19 a theorem can carry: the only unbounded loop of the package (`_Shadow.prepare`) and
the only state that survives `elaborate()` (the `_Shadow` objects of `csr.Multiplexer`).
`Mux.prepare_spec` and `Mux.original_prepare_diverges` are already proved in `SocVerif/Shadow.lean`.
Helper lemmas (prefixed `c19_`) may be added ABOVE the theorems; model definitions and theorem
statements are fixed.
-/
namespace Mux

theorem c19_add_ok (s s2 : ShState) (x : Reg) (h : ShState.add s x = .ok s2) :
    s2.ranges.contains x = true ∧ (∀ r, s.ranges.contains r = true → s2.ranges.contains r = true) := by
  unfold ShState.add at h
  by_cases hf : s.frozen = true
  · rw [if_pos hf] at h
    by_cases hc : s.ranges.contains x = true
    · rw [if_pos hc] at h
      cases h
      exact ⟨hc, fun r hr => hr⟩
    · rw [if_neg hc] at h; cases h
  · rw [if_neg hf] at h
    cases h
    by_cases hc : s.ranges.contains x = true
    · simp only [if_pos hc]
      exact ⟨hc, fun r hr => hr⟩
    · simp only [if_neg hc]
      refine ⟨?_, ?_⟩
      · simp
      · intro r hr
        simp only [List.contains_iff_mem] at hr ⊢
        simp [hr]

theorem c19_addAll_contains (regs : List Reg) : ∀ (s s' : ShState), addAll ShState.add s regs = .ok s' →
    (∀ r ∈ regs, s'.ranges.contains r = true) ∧ (∀ r, s.ranges.contains r = true → s'.ranges.contains r = true) := by
  induction regs with
  | nil =>
    intro s s' h
    simp only [addAll] at h
    cases h
    exact ⟨fun r hr => (by cases hr), fun r hr => hr⟩
  | cons x xs ih =>
    intro s s' h
    simp only [addAll] at h
    cases h2 : ShState.add s x with
    | error e => rw [h2] at h; cases h
    | ok s2 =>
      rw [h2] at h
      have h3 := c19_add_ok s s2 x h2
      have h4 := ih s2 s' h
      refine ⟨?_, fun r hr => h4.2 r (h3.2 r hr)⟩
      intro r hr
      rcases List.mem_cons.mp hr with rfl | hr
      · exact h4.2 _ h3.1
      · exact h4.1 r hr

theorem c19_addAll_frozen (regs : List Reg) (s : ShState) (hf : s.frozen = true)
    (hc : ∀ r ∈ regs, s.ranges.contains r = true) : addAll ShState.add s regs = .ok s := by
  induction regs with
  | nil => rfl
  | cons x xs ih =>
    have hx : ShState.add s x = .ok s := by
      unfold ShState.add
      rw [if_pos hf, if_pos (hc x (List.mem_cons_self ..))]
    simp only [addAll, hx]
    exact ih (fun r hr => hc r (List.mem_cons_of_mem _ hr))

theorem c19_addAll_frozen_eq (regs : List Reg) (s s' : ShState) (hf : s.frozen = true)
    (h : addAll ShState.add s regs = .ok s') : s' = s := by
  induction regs with
  | nil => simp only [addAll] at h; cases h; rfl
  | cons x xs ih =>
    simp only [addAll] at h
    unfold ShState.add at h
    rw [if_pos hf] at h
    by_cases hc : s.ranges.contains x = true
    · rw [if_pos hc] at h; exact ih h
    · rw [if_neg hc] at h; cases h

theorem c19_prepare_frozen (s : ShState) (hf : s.frozen = true) : s.prepare = .ok s := by
  unfold ShState.prepare; rw [if_pos hf]

theorem c19_prepare_ok (s s1 : ShState) (h : s.prepare = .ok s1) :
    s1.frozen = true ∧ s1.ranges = s.ranges := by
  unfold ShState.prepare at h
  by_cases hf : s.frozen = true
  · rw [if_pos hf] at h; cases h; exact ⟨hf, rfl⟩
  · rw [if_neg hf] at h
    simp only at h
    by_cases hs : 0 < s.size
    · rw [dif_pos hs] at h
      split at h
      · cases h; exact ⟨rfl, rfl⟩
      · cases h
    · rw [dif_neg hs] at h; cases h

theorem c19_elab_ok (s s1 : ShState) (regs : List Reg) (h : elabShadow s regs = .ok s1) :
    ∃ s', addAll ShState.add s regs = .ok s' ∧ s'.prepare = .ok s1 := by
  unfold elabShadow at h
  cases h2 : addAll ShState.add s regs with
  | error e => rw [h2] at h; cases h
  | ok s' => rw [h2] at h; exact ⟨s', rfl, h⟩

/-- termination and exactness of the repaired `prepare()`: it always returns (the definition is
    accepted by well-founded recursion), a returned size is balanced and is the start size times a
    power of two, and it refuses only when no doubling can ever balance the shadow -/
theorem prepare_total_and_exact (regs : List Reg) (hpos : ∀ r ∈ regs, 1 ≤ r.len) (ov S : Nat) (hS : 0 < S) :
    (∀ S', prepare regs ov S hS = some S' → balanced S' regs ov = true ∧ ∃ k, S' = S * 2 ^ k) ∧
    (prepare regs ov S hS = none → ∀ k, balanced (S * 2 ^ k) regs ov = false) := by
  have := prepare_spec regs hpos ov S hS
  cases h : prepare regs ov S hS with
  | none =>
    rw [h] at this
    exact ⟨fun S' hS' => (by cases hS'), fun _ => this⟩
  | some S0 =>
    rw [h] at this
    exact ⟨fun S' hS' => (by cases hS'; exact this), fun hn => (by cases hn)⟩

/-- a successful elaboration leaves the shadow prepared and knowing every register -/
theorem elab_prepares (s s1 : ShState) (regs : List Reg) (h : elabShadow s regs = .ok s1) :
    s1.frozen = true ∧ ∀ r ∈ regs, s1.ranges.contains r = true := by
  obtain ⟨s', ha, hp⟩ := c19_elab_ok s s1 regs h
  have h1 := c19_prepare_ok s' s1 hp
  have h2 := c19_addAll_contains regs s s' ha
  refine ⟨h1.1, ?_⟩
  intro r hr
  rw [h1.2]; exact h2.1 r hr

/-- repeatability: a component instance can be elaborated as many times as the user wishes — the
    second (hence every further) elaboration succeeds, leaves the state unchanged and therefore
    yields the same hardware -/
theorem elab_idempotent (s s1 : ShState) (regs : List Reg) (h : elabShadow s regs = .ok s1) :
    elabShadow s1 regs = .ok s1 ∧ hardwareOf s1 = hardwareOf s1 := by
  refine ⟨?_, rfl⟩
  have hp := elab_prepares s s1 regs h
  unfold elabShadow
  rw [c19_addAll_frozen regs s1 hp.1 hp.2]
  exact c19_prepare_frozen s1 hp.1

theorem elab_n_times (s s1 : ShState) (regs : List Reg) (h : elabShadow s regs = .ok s1) (n : Nat) :
    Nat.rec (motive := fun _ => Except ElabErr ShState) (.ok s1)
      (fun _ acc => match acc with | .ok x => elabShadow x regs | .error e => .error e) n = .ok s1 := by
  induction n with
  | zero => rfl
  | succ n ih =>
    show (match (Nat.rec (motive := fun _ => Except ElabErr ShState) (.ok s1)
      (fun _ acc => match acc with | .ok x => elabShadow x regs | .error e => .error e) n) with
      | .ok x => elabShadow x regs | .error e => .error e) = .ok s1
    rw [ih]
    exact (elab_idempotent s s1 regs h).1

/-- the record of defect D1: with the original `_Shadow.add`, the second elaboration of any
    multiplexer that has at least one register of this shadow fails with AttributeError -/
theorem original_second_elaboration_fails (s s1 : ShState) (regs : List Reg) (hne : regs ≠ [])
    (h : elabShadowOrig s regs = .ok s1) : elabShadowOrig s1 regs = .error .attributeError := by
  have hf : s1.frozen = true := by
    unfold elabShadowOrig at h
    cases h2 : addAll ShState.addOrig s regs with
    | error e => rw [h2] at h; cases h
    | ok s' => rw [h2] at h; exact (c19_prepare_ok s' s1 h).1
  cases regs with
  | nil => exact absurd rfl hne
  | cons x xs =>
    unfold elabShadowOrig
    simp only [addAll, ShState.addOrig, hf, if_true]

theorem c19_addAll_frozen_all (regs : List Reg) (s s' : ShState) (hf : s.frozen = true)
    (h : addAll ShState.add s regs = .ok s') : ∀ r ∈ regs, s.ranges.contains r = true := by
  induction regs with
  | nil => intro r hr; cases hr
  | cons x xs ih =>
    simp only [addAll] at h
    unfold ShState.add at h
    rw [if_pos hf] at h
    by_cases hc : s.ranges.contains x = true
    · rw [if_pos hc] at h
      intro r hr
      rcases List.mem_cons.mp hr with rfl | hr
      · exact hc
      · exact ih h r hr
    · rw [if_neg hc] at h; cases h

/-- A PREPARED SHADOW NEVER SILENTLY WORKS FROM A STALE REGISTER SET (the map of a multiplexer is not frozen: registers may
    be added to it between two elaborations). If a later elaboration over a possibly different register list succeeds, then
    every register of that list was already known to the prepared shadow, and the state (hence the generated hardware) is
    unchanged; -/
theorem later_elaboration_ok_iff_known (s s1 s2 : ShState) (regs regs' : List Reg)
    (h : elabShadow s regs = .ok s1) (h2 : elabShadow s1 regs' = .ok s2) :
    (∀ r ∈ regs', s1.ranges.contains r = true) ∧ s2 = s1 := by
  have hp := elab_prepares s s1 regs h
  obtain ⟨s', ha, hq⟩ := c19_elab_ok s1 s2 regs' h2
  have he := c19_addAll_frozen_eq regs' s1 s' hp.1 ha
  rw [he] at ha hq
  refine ⟨c19_addAll_frozen_all regs' s1 s1 hp.1 ha, ?_⟩
  rw [c19_prepare_frozen s1 hp.1] at hq
  cases hq; rfl

/-- … and a register that was added after the first elaboration makes the next one stop with the descriptive refusal
    (`lateRegister`, a ValueError since repair D15 — an AssertionError before it), never with a silent success -/
theorem late_register_refused (s s1 : ShState) (regs regs' : List Reg) (r : Reg)
    (h : elabShadow s regs = .ok s1) (hr : r ∈ regs') (hnew : s1.ranges.contains r = false) :
    elabShadow s1 regs' = .error .lateRegister := by
  have hp := elab_prepares s s1 regs h
  have key : ∀ (l : List Reg), (∃ x ∈ l, s1.ranges.contains x = false) →
      addAll ShState.add s1 l = .error .lateRegister := by
    intro l
    induction l with
    | nil => rintro ⟨x, hx, _⟩; cases hx
    | cons y ys ih =>
      rintro ⟨x, hx, hxn⟩
      simp only [addAll]
      unfold ShState.add
      rw [if_pos hp.1]
      by_cases hc : s1.ranges.contains y = true
      · rw [if_pos hc]
        rcases List.mem_cons.mp hx with rfl | hx'
        · rw [hxn] at hc; cases hc
        · exact ih ⟨x, hx', hxn⟩
      · rw [if_neg hc]
  unfold elabShadow
  rw [key regs' ⟨r, hr, hnew⟩]

/-- non-vacuity: two registers, limit 1: elaborated twice with the same result -/
example :
    let regs : List Reg := [⟨0, 2, 16, true, true⟩, ⟨2, 1, 8, true, true⟩]
    (elabShadow (ShState.new (some 1)) regs).toOption.map hardwareOf = some (regs, 2) ∧
    ((elabShadow (ShState.new (some 1)) regs).toOption.bind fun s1 => (elabShadow s1 regs).toOption.map hardwareOf) = some (regs, 2) := by
  decide +kernel

/-- non-vacuity of the late-register theorems: after an elaboration over one register, a second register in the list is refused -/
example :
    let r0 : Reg := ⟨0, 2, 16, true, true⟩
    let r1 : Reg := ⟨2, 1, 8, true, true⟩
    ((elabShadow (ShState.new none) [r0]).toOption.map fun s1 =>
      match elabShadow s1 [r0, r1] with | .error .lateRegister => true | _ => false) = some true := by
  decide +kernel

end Mux
