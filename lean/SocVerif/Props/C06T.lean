import SocVerif.CsrTree
import SocVerif.Props.C06
/-!
# C06 (closing clause) — registers spread over a tree of decoders behave exactly like the same
# registers on one multiplexer at the addresses the memory map reports

Stated as: a multiplexer meets `CsrSpec` of its own layout (by the C04/C05 theorems), and a
decoder whose subordinates meet `CsrSpec` of their layouts meets `CsrSpec` of the flattened layout
(each subordinate sees the projection of the input stream, in which foreign accesses are idle
cycles; unaddressed subordinates return zero). By induction every tree of decoders and the one
flat multiplexer over the same absolute layout meet the *same* specification, which under the bus
protocol determines every observable the property mentions.
Available: Props/C04.lean (`r_stb_exact`, `r_data_zero_initially`, `r_data_zero_unless`,
`read_is_snapshot`), Props/C05.lean (`w_stb_initially`, `w_stb_exact`, `write_concat`),
Props/C06.lean (`pattern_iff_range`, `c06_mod`, `c06_win`). Helper lemmas (prefixed `c06t_`) may be
added ABOVE the theorems; model definitions and theorem statements are fixed.
-/
namespace CsrT
open Mux Dec

/-! ## helper lemmas -/

theorem c06t_shift_stop (s : Nat) (q : Reg) : (shift s q).stop = q.stop + s := by
  show q.start + s + q.len = q.start + q.len + s
  omega

theorem c06t_unshift (s : Nat) (q : Reg) :
    ({ shift s q with start := (shift s q).start - s } : Reg) = q := by
  cases q; simp [shift]

theorem c06t_fold_zero {α : Type} (f : α → Nat) (l : List α) (a : Nat) (h : ∀ y ∈ l, f y = 0) :
    l.foldl (fun acc y => acc ||| f y) a = a := by
  induction l generalizing a with
  | nil => rfl
  | cons x xs ih =>
    simp only [List.foldl_cons]
    rw [h x (List.mem_cons_self ..), Nat.or_zero]
    exact ih a (fun y hy => h y (List.mem_cons_of_mem _ hy))

theorem c06t_fold_single {α : Type} (f : α → Nat) (l1 l2 : List α) (x : α)
    (h1 : ∀ y ∈ l1, f y = 0) (h2 : ∀ y ∈ l2, f y = 0) :
    (l1 ++ x :: l2).foldl (fun acc y => acc ||| f y) 0 = f x := by
  rw [List.foldl_append, c06t_fold_zero f l1 0 h1, List.foldl_cons, Nat.zero_or,
    c06t_fold_zero f l2 _ h2]

theorem c06t_fold_ne_zero {α : Type} (f : α → Nat) (l : List α)
    (h : l.foldl (fun acc y => acc ||| f y) 0 ≠ 0) : ∃ y ∈ l, f y ≠ 0 := by
  by_cases hex : ∃ y ∈ l, f y ≠ 0
  · exact hex
  · exfalso; apply h; apply c06t_fold_zero
    intro y hy
    by_cases hz : f y = 0
    · exact hz
    · exact absurd ⟨y, hy, hz⟩ hex

theorem c06t_proj_rstb (s aw : Nat) (inp : Nat → CIn) (t : Nat) (hal : s % 2 ^ aw = 0) :
    (proj s aw inp t).rstb = true ↔
      (s ≤ (inp t).addr ∧ (inp t).addr < s + 2 ^ aw) ∧ (inp t).rstb = true := by
  show ((windowPat s aw).matches (inp t).addr && (inp t).rstb) = true ↔ _
  rw [Bool.and_eq_true, pattern_iff_range s aw _ hal]

theorem c06t_proj_wstb (s aw : Nat) (inp : Nat → CIn) (t : Nat) (hal : s % 2 ^ aw = 0) :
    (proj s aw inp t).wstb = true ↔
      (s ≤ (inp t).addr ∧ (inp t).addr < s + 2 ^ aw) ∧ (inp t).wstb = true := by
  show ((windowPat s aw).matches (inp t).addr && (inp t).wstb) = true ↔ _
  rw [Bool.and_eq_true, pattern_iff_range s aw _ hal]

theorem c06t_addr_iff (s aw a x : Nat) (hal : s % 2 ^ aw = 0) (hx : x < 2 ^ aw) :
    ((s ≤ a ∧ a < s + 2 ^ aw) ∧ a % 2 ^ aw = x) ↔ a = x + s := by
  constructor
  · rintro ⟨⟨h1, h2⟩, h3⟩
    rw [c06_mod _ _ _ (Nat.two_pow_pos _) hal h1 h2] at h3
    omega
  · rintro rfl
    refine ⟨⟨by omega, by omega⟩, ?_⟩
    rw [c06_mod _ _ _ (Nat.two_pow_pos _) hal (by omega) (by omega)]
    omega

theorem c06t_stb_transport (s aw : Nat) (hal : s % 2 ^ aw = 0) (b stb : Bool) (a x : Nat)
    (hx : x < 2 ^ aw) :
    (b && ((windowPat s aw).matches a && stb) && (a % 2 ^ aw == x)) = (b && stb && (a == x + s)) := by
  have key := c06t_addr_iff s aw a x hal hx
  apply Bool.eq_iff_iff.mpr
  simp only [Bool.and_eq_true, beq_iff_eq, pattern_iff_range s aw a hal]
  constructor
  · rintro ⟨⟨hb, hw, hs⟩, hm⟩
    exact ⟨⟨hb, hs⟩, key.mp ⟨hw, hm⟩⟩
  · rintro ⟨⟨hb, hs⟩, ha⟩
    have := key.mpr ha
    exact ⟨⟨hb, this.1, hs⟩, this.2⟩

theorem c06t_mem_flat {subs : List (Sub × List Reg)} {R : Reg} (h : R ∈ flatLayout subs) :
    ∃ p ∈ subs, ∃ q ∈ p.2, R = shift p.1.start q := by
  simp only [flatLayout, List.mem_flatMap, List.mem_map] at h
  obtain ⟨p, hp, q, hq, rfl⟩ := h
  exact ⟨p, hp, q, hq, rfl⟩

theorem c06t_flat_mem {subs : List (Sub × List Reg)} {p : Sub × List Reg} {q : Reg}
    (hp : p ∈ subs) (hq : q ∈ p.2) : shift p.1.start q ∈ flatLayout subs := by
  simp only [flatLayout, List.mem_flatMap, List.mem_map]
  exact ⟨p, hp, q, hq, rfl⟩

theorem c06t_split {subs : List (Sub × List Reg)}
    (hs : subs.Pairwise (fun a b => a.1.start + 2 ^ a.1.aw ≤ b.1.start))
    {p : Sub × List Reg} (hp : p ∈ subs) :
    ∃ l1 l2, subs = l1 ++ p :: l2 ∧ (∀ a ∈ l1, a.1.start + 2 ^ a.1.aw ≤ p.1.start) ∧
      (∀ b ∈ l2, p.1.start + 2 ^ p.1.aw ≤ b.1.start) := by
  obtain ⟨l1, l2, rfl⟩ := List.append_of_mem hp
  rw [List.pairwise_append] at hs
  obtain ⟨_, h2, h3⟩ := hs
  exact ⟨l1, l2, rfl, fun a ha => h3 a ha p (List.mem_cons_self ..), (List.pairwise_cons.mp h2).1⟩

theorem c06t_pick (subs : List (Sub × List Reg))
    (hs : subs.Pairwise (fun a b => a.1.start + 2 ^ a.1.aw ≤ b.1.start))
    (p : Sub × List Reg) (hp : p ∈ subs) (x : Nat) (h1 : p.1.start ≤ x) (h2 : x < p.1.start + 2 ^ p.1.aw) :
    (subs.map (·.1)).find? (fun sb => decide (sb.start ≤ x ∧ x < sb.start + 2 ^ sb.aw)) = some p.1 := by
  induction subs with
  | nil => cases hp
  | cons p0 rest ih =>
    rw [List.pairwise_cons] at hs
    rw [List.map_cons, List.find?_cons]
    rcases List.mem_cons.mp hp with rfl | hmem
    · simp [h1, h2]
    · have := hs.1 p hmem
      have hf : decide (p0.1.start ≤ x ∧ x < p0.1.start + 2 ^ p0.1.aw) = false := by
        apply decide_eq_false; omega
      simp only [hf]
      exact ih hs.2 hmem

theorem c06t_other_zero (W : Nat) (p' : Sub × List Reg) (hspec : CsrSpec W p'.2 p'.1.beh)
    (hal : p'.1.start % 2 ^ p'.1.aw = 0) (inp : Nat → CIn) (t : Nat)
    (hout : ¬ (p'.1.start ≤ (inp t).addr ∧ (inp t).addr < p'.1.start + 2 ^ p'.1.aw)) :
    p'.1.beh.rdata (proj p'.1.start p'.1.aw inp) (t + 1) = 0 := by
  by_cases hz : p'.1.beh.rdata (proj p'.1.start p'.1.aw inp) (t + 1) = 0
  · exact hz
  · have := (hspec.rdata_zero_unless _ t hz).1
    rw [c06t_proj_rstb _ _ _ _ hal] at this
    exact absurd this.1 hout


/-- a multiplexer meets the specification of its own layout, whatever the shadow size -/
theorem mux_meets_spec (W S : Nat) (regs : List Reg) (hwf : WF regs) :
    CsrSpec W regs (muxBeh W S regs) := by
  refine ⟨?_, ?_, ?_, ?_, ?_, ?_, ?_⟩
  · intro inp t r hr
    exact Mux.r_stb_exact S regs hwf (fun u => toR (inp u)) t r hr
  · intro inp
    exact Mux.r_data_zero_initially W S regs (fun u => toR (inp u))
  · intro inp t h
    exact Mux.r_data_zero_unless W S regs hwf (fun u => toR (inp u)) t h
  · intro inp r hr hrd t0 t1 hle h0 h1 hq
    exact Mux.read_is_snapshot W S regs hwf (fun u => toR (inp u)) r hr hrd t0 t1 hle h0 h1 hq
  · intro inp r _
    exact Mux.w_stb_initially S regs (fun u => toW (inp u)) r
  · intro inp t r hr
    exact Mux.w_stb_exact S regs hwf (fun u => toW (inp u)) t r hr
  · intro inp r hr hwr τ v hm hw hq
    exact (Mux.write_concat W S regs hwf (fun u => toW (inp u)) r hr hwr τ v hm hw hq).2

/-- well-formed decoder: windows aligned to their size, ascending and disjoint; every
    subordinate's registers inside its `2^aw` addresses -/
structure DecWF (subs : List (Sub × List Reg)) : Prop where
  aligned : ∀ p ∈ subs, p.1.start % 2 ^ p.1.aw = 0
  sorted  : subs.Pairwise (fun a b => a.1.start + 2 ^ a.1.aw ≤ b.1.start)
  inside  : ∀ p ∈ subs, ∀ r ∈ p.2, r.stop ≤ 2 ^ p.1.aw ∧ 1 ≤ r.len


theorem c06t_pick_flat (subs : List (Sub × List Reg)) (hwf : DecWF subs) (p : Sub × List Reg)
    (hp : p ∈ subs) (q : Reg) (hq : q ∈ p.2) :
    (subs.map (·.1)).find? (fun sb => decide (sb.start ≤ (shift p.1.start q).start ∧
      (shift p.1.start q).start < sb.start + 2 ^ sb.aw)) = some p.1 := by
  have hins := hwf.inside p hp q hq
  have hqs : q.stop = q.start + q.len := rfl
  exact c06t_pick subs hwf.sorted p hp (shift p.1.start q).start
    (by show p.1.start ≤ q.start + p.1.start; omega)
    (by show q.start + p.1.start < _; omega)

theorem c06t_rstbE_eq (subs : List (Sub × List Reg)) (hwf : DecWF subs) (p : Sub × List Reg)
    (hp : p ∈ subs) (q : Reg) (hq : q ∈ p.2) (inp : Nat → CIn) (t : Nat) :
    (decBeh (subs.map (·.1))).rstbE inp t (shift p.1.start q) =
      p.1.beh.rstbE (proj p.1.start p.1.aw inp) t q := by
  have hpk := c06t_pick_flat subs hwf p hp q hq
  simp only [decBeh, hpk]
  rw [c06t_unshift]

theorem c06t_wstbE_eq (subs : List (Sub × List Reg)) (hwf : DecWF subs) (p : Sub × List Reg)
    (hp : p ∈ subs) (q : Reg) (hq : q ∈ p.2) (inp : Nat → CIn) (t : Nat) :
    (decBeh (subs.map (·.1))).wstbE inp t (shift p.1.start q) =
      p.1.beh.wstbE (proj p.1.start p.1.aw inp) t q := by
  have hpk := c06t_pick_flat subs hwf p hp q hq
  simp only [decBeh, hpk]
  rw [c06t_unshift]

theorem c06t_wdataE_eq (subs : List (Sub × List Reg)) (hwf : DecWF subs) (p : Sub × List Reg)
    (hp : p ∈ subs) (q : Reg) (hq : q ∈ p.2) (inp : Nat → CIn) (t : Nat) :
    (decBeh (subs.map (·.1))).wdataE inp t (shift p.1.start q) =
      p.1.beh.wdataE (proj p.1.start p.1.aw inp) t q := by
  have hpk := c06t_pick_flat subs hwf p hp q hq
  simp only [decBeh, hpk]
  rw [c06t_unshift]

/-- when the address of cycle `t` lies in the window of `p`, the decoder's read data in cycle
    `t+1` is that of `p` (all other subordinates saw an idle cycle and return zero) -/
theorem c06t_rdata_sel (W : Nat) (subs : List (Sub × List Reg)) (hwf : DecWF subs)
    (hsub : ∀ p ∈ subs, CsrSpec W p.2 p.1.beh) (p : Sub × List Reg) (hp : p ∈ subs)
    (inp : Nat → CIn) (t : Nat)
    (hin : p.1.start ≤ (inp t).addr ∧ (inp t).addr < p.1.start + 2 ^ p.1.aw) :
    (decBeh (subs.map (·.1))).rdata inp (t + 1) =
      p.1.beh.rdata (proj p.1.start p.1.aw inp) (t + 1) := by
  obtain ⟨l1, l2, rfl, h1, h2⟩ := c06t_split hwf.sorted hp
  show ((l1 ++ p :: l2).map (·.1)).foldl
    (fun acc sb => acc ||| sb.beh.rdata (proj sb.start sb.aw inp) (t + 1)) 0 = _
  rw [List.map_append, List.map_cons]
  apply c06t_fold_single (fun sb : Sub => sb.beh.rdata (proj sb.start sb.aw inp) (t + 1))
  · intro y hy
    obtain ⟨a, ha, rfl⟩ := List.mem_map.mp hy
    have hm : a ∈ l1 ++ p :: l2 := List.mem_append_left _ ha
    have := h1 a ha
    exact c06t_other_zero W a (hsub a hm) (hwf.aligned a hm) inp t (by omega)
  · intro y hy
    obtain ⟨b, hb, rfl⟩ := List.mem_map.mp hy
    have hm : b ∈ l1 ++ p :: l2 := List.mem_append_right _ (List.mem_cons_of_mem _ hb)
    have := h2 b hb
    exact c06t_other_zero W b (hsub b hm) (hwf.aligned b hm) inp t (by omega)

theorem c06t_dec_rstb_exact (W : Nat) (subs : List (Sub × List Reg)) (hwf : DecWF subs)
    (hsub : ∀ p ∈ subs, CsrSpec W p.2 p.1.beh) :
    ∀ inp t r, r ∈ flatLayout subs →
      (decBeh (subs.map (·.1))).rstbE inp t r = (r.rd && (inp t).rstb && ((inp t).addr == r.start)) := by
  intro inp t R hR
  obtain ⟨p, hp, q, hq, rfl⟩ := c06t_mem_flat hR
  have hins := hwf.inside p hp q hq
  have hqs : q.stop = q.start + q.len := rfl
  rw [c06t_rstbE_eq subs hwf p hp q hq, (hsub p hp).rstb_exact _ t q hq]
  exact c06t_stb_transport p.1.start p.1.aw (hwf.aligned p hp) q.rd (inp t).rstb (inp t).addr q.start
    (by omega)

theorem c06t_dec_zero0 (W : Nat) (subs : List (Sub × List Reg))
    (hsub : ∀ p ∈ subs, CsrSpec W p.2 p.1.beh) :
    ∀ inp, (decBeh (subs.map (·.1))).rdata inp 0 = 0 := by
  intro inp
  show (subs.map (·.1)).foldl (fun acc sb => acc ||| sb.beh.rdata (proj sb.start sb.aw inp) 0) 0 = 0
  apply c06t_fold_zero (fun sb : Sub => sb.beh.rdata (proj sb.start sb.aw inp) 0)
  intro y hy
  obtain ⟨a, ha, rfl⟩ := List.mem_map.mp hy
  exact (hsub a ha).rdata_zero0 _

theorem c06t_dec_zero_unless (W : Nat) (subs : List (Sub × List Reg)) (hwf : DecWF subs)
    (hsub : ∀ p ∈ subs, CsrSpec W p.2 p.1.beh) :
    ∀ inp t, (decBeh (subs.map (·.1))).rdata inp (t + 1) ≠ 0 →
      (inp t).rstb = true ∧ ∃ r ∈ flatLayout subs, r.rd = true ∧ r.start ≤ (inp t).addr ∧
        (inp t).addr < r.stop := by
  intro inp t h
  obtain ⟨y, hy, hne⟩ := c06t_fold_ne_zero
    (fun sb : Sub => sb.beh.rdata (proj sb.start sb.aw inp) (t + 1))
    (subs.map (fun x : Sub × List Reg => x.1)) h
  obtain ⟨p, hp, rfl⟩ := List.mem_map.mp hy
  have hal := hwf.aligned p hp
  obtain ⟨hstb, q, hq, hrd, hlo, hhi⟩ := (hsub p hp).rdata_zero_unless _ t hne
  rw [c06t_proj_rstb _ _ _ _ hal] at hstb
  have hmod : (proj p.1.start p.1.aw inp t).addr = (inp t).addr - p.1.start :=
    c06_mod _ _ _ (Nat.two_pow_pos _) hal hstb.1.1 hstb.1.2
  rw [hmod] at hlo hhi
  refine ⟨hstb.2, shift p.1.start q, c06t_flat_mem hp hq, hrd, ?_, ?_⟩
  · show q.start + p.1.start ≤ _
    omega
  · rw [c06t_shift_stop]; omega

theorem c06t_dec_snapshot (W : Nat) (subs : List (Sub × List Reg)) (hwf : DecWF subs)
    (hsub : ∀ p ∈ subs, CsrSpec W p.2 p.1.beh) :
    ∀ inp r, r ∈ flatLayout subs → r.rd = true → ∀ t0 t1, t0 ≤ t1 →
    ((inp t0).rstb = true ∧ (inp t0).addr = r.start) →
    ((inp t1).rstb = true ∧ r.start ≤ (inp t1).addr ∧ (inp t1).addr < r.stop) →
    (∀ t, t0 < t → t ≤ t1 → (inp t).rstb = true → ∀ q ∈ flatLayout subs, q.rd = true →
      (inp t).addr ≠ q.start) →
    (decBeh (subs.map (·.1))).rdata inp (t1 + 1) = slice W ((inp t0).rval r) ((inp t1).addr - r.start) := by
  intro inp R hR hrd t0 t1 hle h0 h1 hquiet
  obtain ⟨p, hp, q, hq, rfl⟩ := c06t_mem_flat hR
  have hal := hwf.aligned p hp
  have hins := hwf.inside p hp q hq
  have hqs : q.stop = q.start + q.len := rfl
  have hs : (shift p.1.start q).start = q.start + p.1.start := rfl
  rw [hs] at h0 h1
  rw [c06t_shift_stop] at h1
  have hin0 : p.1.start ≤ (inp t0).addr ∧ (inp t0).addr < p.1.start + 2 ^ p.1.aw := by omega
  have hin1 : p.1.start ≤ (inp t1).addr ∧ (inp t1).addr < p.1.start + 2 ^ p.1.aw := by omega
  have hm0 : (proj p.1.start p.1.aw inp t0).addr = (inp t0).addr - p.1.start :=
    c06_mod _ _ _ (Nat.two_pow_pos _) hal hin0.1 hin0.2
  have hm1 : (proj p.1.start p.1.aw inp t1).addr = (inp t1).addr - p.1.start :=
    c06_mod _ _ _ (Nat.two_pow_pos _) hal hin1.1 hin1.2
  rw [c06t_rdata_sel W subs hwf hsub p hp inp t1 hin1]
  have key := (hsub p hp).snapshot (proj p.1.start p.1.aw inp) q hq hrd t0 t1 hle
    ⟨(c06t_proj_rstb _ _ _ _ hal).mpr ⟨hin0, h0.1⟩, by rw [hm0]; omega⟩
    ⟨(c06t_proj_rstb _ _ _ _ hal).mpr ⟨hin1, h1.1⟩, by rw [hm1]; omega, by rw [hm1]; omega⟩
    (by
      intro t ht0 ht1 hr q' hq' hrd' heq
      rw [c06t_proj_rstb _ _ _ _ hal] at hr
      have hm : (proj p.1.start p.1.aw inp t).addr = (inp t).addr - p.1.start :=
        c06_mod _ _ _ (Nat.two_pow_pos _) hal hr.1.1 hr.1.2
      rw [hm] at heq
      apply hquiet t ht0 ht1 hr.2 (shift p.1.start q') (c06t_flat_mem hp hq') hrd'
      show (inp t).addr = q'.start + p.1.start
      omega)
  rw [key, hm1, hs]
  show slice W ((inp t0).rval (shift p.1.start q)) _ = _
  congr 1
  omega

theorem c06t_dec_wstb0 (W : Nat) (subs : List (Sub × List Reg)) (hwf : DecWF subs)
    (hsub : ∀ p ∈ subs, CsrSpec W p.2 p.1.beh) :
    ∀ inp r, r ∈ flatLayout subs → (decBeh (subs.map (·.1))).wstbE inp 0 r = false := by
  intro inp R hR
  obtain ⟨p, hp, q, hq, rfl⟩ := c06t_mem_flat hR
  rw [c06t_wstbE_eq subs hwf p hp q hq]
  exact (hsub p hp).wstb0 _ q hq

theorem c06t_dec_wstb_exact (W : Nat) (subs : List (Sub × List Reg)) (hwf : DecWF subs)
    (hsub : ∀ p ∈ subs, CsrSpec W p.2 p.1.beh) :
    ∀ inp t r, r ∈ flatLayout subs →
      (decBeh (subs.map (·.1))).wstbE inp (t + 1) r =
        (r.wr && (inp t).wstb && ((inp t).addr == r.stop - 1)) := by
  intro inp t R hR
  obtain ⟨p, hp, q, hq, rfl⟩ := c06t_mem_flat hR
  have hins := hwf.inside p hp q hq
  have hqs : q.stop = q.start + q.len := rfl
  rw [c06t_wstbE_eq subs hwf p hp q hq, (hsub p hp).wstb_exact _ t q hq, c06t_shift_stop]
  have e : q.stop + p.1.start - 1 = q.stop - 1 + p.1.start := by omega
  rw [e]
  exact c06t_stb_transport p.1.start p.1.aw (hwf.aligned p hp) q.wr (inp t).wstb (inp t).addr
    (q.stop - 1) (by omega)

theorem c06t_dec_write_concat (W : Nat) (subs : List (Sub × List Reg)) (hwf : DecWF subs)
    (hsub : ∀ p ∈ subs, CsrSpec W p.2 p.1.beh) :
    ∀ inp r, r ∈ flatLayout subs → r.wr = true → ∀ (τ v : Nat → Nat),
    (∀ k, k + 1 < r.len → τ k < τ (k + 1)) →
    (∀ k, k < r.len → (inp (τ k)).wstb = true ∧ (inp (τ k)).addr = r.start + k ∧ (inp (τ k)).wdata = v k) →
    (∀ t, τ 0 ≤ t → t ≤ τ (r.len - 1) → (∀ k, k < r.len → t ≠ τ k) → (inp t).wstb = false) →
    (decBeh (subs.map (·.1))).wdataE inp (τ (r.len - 1) + 1) r = Mux.concat W v r.len % 2 ^ r.width := by
  intro inp R hR hwr τ v hmono hwrite hquiet
  obtain ⟨p, hp, q, hq, rfl⟩ := c06t_mem_flat hR
  have hal := hwf.aligned p hp
  have hins := hwf.inside p hp q hq
  have hqs : q.stop = q.start + q.len := rfl
  rw [c06t_wdataE_eq subs hwf p hp q hq]
  show p.1.beh.wdataE (proj p.1.start p.1.aw inp) (τ (q.len - 1) + 1) q =
    Mux.concat W v q.len % 2 ^ q.width
  apply (hsub p hp).write_concat (proj p.1.start p.1.aw inp) q hq hwr τ v hmono
  · intro k hk
    obtain ⟨a, b, c⟩ := hwrite k hk
    have b' : (inp (τ k)).addr = q.start + p.1.start + k := b
    have hin : p.1.start ≤ (inp (τ k)).addr ∧ (inp (τ k)).addr < p.1.start + 2 ^ p.1.aw := by omega
    refine ⟨(c06t_proj_wstb _ _ _ _ hal).mpr ⟨hin, a⟩, ?_, c⟩
    show (inp (τ k)).addr % 2 ^ p.1.aw = q.start + k
    rw [c06_mod _ _ _ (Nat.two_pow_pos _) hal hin.1 hin.2]
    omega
  · intro t h1 h2 h3
    have := hquiet t h1 h2 h3
    show ((windowPat p.1.start p.1.aw).matches (inp t).addr && (inp t).wstb) = false
    rw [this]
    exact Bool.and_false _

/-- a decoder over subordinates that meet the specification of their layouts meets the
    specification of the flattened layout -/
theorem decoder_meets_spec (W : Nat) (subs : List (Sub × List Reg)) (hwf : DecWF subs)
    (hsub : ∀ p ∈ subs, CsrSpec W p.2 p.1.beh) :
    CsrSpec W (flatLayout subs) (decBeh (subs.map (·.1))) :=
  ⟨c06t_dec_rstb_exact W subs hwf hsub, c06t_dec_zero0 W subs hsub,
   c06t_dec_zero_unless W subs hwf hsub, c06t_dec_snapshot W subs hwf hsub,
   c06t_dec_wstb0 W subs hwf hsub, c06t_dec_wstb_exact W subs hwf hsub,
   c06t_dec_write_concat W subs hwf hsub⟩

/-- two levels, as a corollary: a decoder over multiplexers behaves (in every clause of the
    specification) like registers at the flattened absolute addresses — the same statement the
    flat multiplexer over `flatLayout` satisfies by `mux_meets_spec` -/
theorem decoder_over_muxes (W : Nat) (subs : List (Nat × Nat × Nat × List Reg))   -- (start, aw, shadow size, registers)
    (hwf : DecWF (subs.map fun p => (⟨p.1, p.2.1, muxBeh W p.2.2.1 p.2.2.2⟩, p.2.2.2)))
    (hregs : ∀ p ∈ subs, WF p.2.2.2) :
    CsrSpec W (flatLayout (subs.map fun p => (⟨p.1, p.2.1, muxBeh W p.2.2.1 p.2.2.2⟩, p.2.2.2)))
      (decBeh (subs.map fun p => ⟨p.1, p.2.1, muxBeh W p.2.2.1 p.2.2.2⟩)) := by
  have h := decoder_meets_spec W
    (subs.map fun p => (⟨p.1, p.2.1, muxBeh W p.2.2.1 p.2.2.2⟩, p.2.2.2)) hwf (by
      intro p hp
      obtain ⟨x, hx, rfl⟩ := List.mem_map.mp hp
      exact mux_meets_spec W _ _ (hregs x hx))
  rw [List.map_map] at h
  exact h

/-- arbitrary nesting: trees of decoders over multiplexers -/
inductive BTree where
  | mux (S : Nat) (regs : List Reg)
  | dec (starts aws : List Nat) (kids : List BTree)

mutual
def BTree.beh (W : Nat) : BTree → Beh
  | .mux S regs => muxBeh W S regs
  | .dec starts aws kids => decBeh (BTree.subs W starts aws kids)
def BTree.subs (W : Nat) : List Nat → List Nat → List BTree → List Sub
  | s :: ss, a :: as, t :: ts => ⟨s, a, t.beh W⟩ :: BTree.subs W ss as ts
  | _, _, _ => []
end

mutual
/-- the registers of a tree at the addresses its memory map reports (`all_resources()`) -/
def BTree.layout : BTree → List Reg
  | .mux _ regs => regs
  | .dec starts aws kids => BTree.layoutList starts aws kids
def BTree.layoutList : List Nat → List Nat → List BTree → List Reg
  | s :: ss, _ :: as, t :: ts => t.layout.map (shift s) ++ BTree.layoutList ss as ts
  | _, _, _ => []
end

mutual
def BTree.wf : BTree → Prop
  | .mux _ regs => WF regs
  | .dec starts aws kids => BTree.wfList starts aws kids
def BTree.wfList : List Nat → List Nat → List BTree → Prop
  | s :: ss, a :: as, t :: ts => t.wf ∧ s % 2 ^ a = 0 ∧ (∀ r ∈ t.layout, r.stop ≤ 2 ^ a ∧ 1 ≤ r.len) ∧
      (∀ s' ∈ ss, s + 2 ^ a ≤ s') ∧ BTree.wfList ss as ts
  | [], [], [] => True
  | _, _, _ => False
end

def c06t_pairs (W : Nat) : List Nat → List Nat → List BTree → List (Sub × List Reg)
  | s :: ss, a :: as, t :: ts => (⟨s, a, t.beh W⟩, t.layout) :: c06t_pairs W ss as ts
  | _, _, _ => []

theorem c06t_pairs_map (W : Nat) : ∀ (ss as : List Nat) (ts : List BTree),
    (c06t_pairs W ss as ts).map (·.1) = BTree.subs W ss as ts
  | s :: ss, a :: as, t :: ts => by
    simp [c06t_pairs, BTree.subs, c06t_pairs_map W ss as ts]
  | [], _, _ => by simp [c06t_pairs, BTree.subs]
  | _ :: _, [], _ => by simp [c06t_pairs, BTree.subs]
  | _ :: _, _ :: _, [] => by simp [c06t_pairs, BTree.subs]

theorem c06t_pairs_flat (W : Nat) : ∀ (ss as : List Nat) (ts : List BTree),
    flatLayout (c06t_pairs W ss as ts) = BTree.layoutList ss as ts
  | s :: ss, a :: as, t :: ts => by
    have ih := c06t_pairs_flat W ss as ts
    simp only [flatLayout] at ih
    simp [c06t_pairs, BTree.layoutList, flatLayout, ih]
  | [], _, _ => by simp [c06t_pairs, BTree.layoutList, flatLayout]
  | _ :: _, [], _ => by simp [c06t_pairs, BTree.layoutList, flatLayout]
  | _ :: _, _ :: _, [] => by simp [c06t_pairs, BTree.layoutList, flatLayout]

theorem c06t_pairs_start (W : Nat) : ∀ (ss as : List Nat) (ts : List BTree),
    ∀ p ∈ c06t_pairs W ss as ts, p.1.start ∈ ss
  | s :: ss, a :: as, t :: ts => by
    intro p hp
    simp only [c06t_pairs, List.mem_cons] at hp
    rcases hp with rfl | hp
    · exact List.mem_cons_self ..
    · exact List.mem_cons_of_mem _ (c06t_pairs_start W ss as ts p hp)
  | [], _, _ => by simp [c06t_pairs]
  | _ :: _, [], _ => by simp [c06t_pairs]
  | _ :: _, _ :: _, [] => by simp [c06t_pairs]

theorem c06t_pairs_wf (W : Nat) : ∀ (ss as : List Nat) (ts : List BTree),
    BTree.wfList ss as ts → DecWF (c06t_pairs W ss as ts)
  | s :: ss, a :: as, t :: ts => by
    intro h
    simp only [BTree.wfList] at h
    obtain ⟨_, hal, hins, hsrt, hrest⟩ := h
    have ih := c06t_pairs_wf W ss as ts hrest
    refine ⟨?_, ?_, ?_⟩
    · intro p hp
      simp only [c06t_pairs, List.mem_cons] at hp
      rcases hp with rfl | hp
      · exact hal
      · exact ih.aligned p hp
    · simp only [c06t_pairs, List.pairwise_cons]
      exact ⟨fun b hb => hsrt _ (c06t_pairs_start W ss as ts b hb), ih.sorted⟩
    · intro p hp
      simp only [c06t_pairs, List.mem_cons] at hp
      rcases hp with rfl | hp
      · exact hins
      · exact ih.inside p hp
  | [], [], [] => by
    intro _
    exact ⟨by simp [c06t_pairs], by simp [c06t_pairs], by simp [c06t_pairs]⟩
  | [], [], _ :: _ => by intro h; simp [BTree.wfList] at h
  | [], _ :: _, _ => by intro h; simp [BTree.wfList] at h
  | _ :: _, [], _ => by intro h; simp [BTree.wfList] at h
  | _ :: _, _ :: _, [] => by intro h; simp [BTree.wfList] at h

mutual
theorem c06t_tree (W : Nat) : ∀ (t : BTree), t.wf → CsrSpec W t.layout (t.beh W)
  | .mux S regs, h => by
    simp only [BTree.wf] at h
    simp only [BTree.layout, BTree.beh]
    exact mux_meets_spec W S regs h
  | .dec starts aws kids, h => by
    simp only [BTree.wf] at h
    simp only [BTree.layout, BTree.beh]
    rw [← c06t_pairs_flat W, ← c06t_pairs_map W]
    exact decoder_meets_spec W _ (c06t_pairs_wf W starts aws kids h) (c06t_list W starts aws kids h)
theorem c06t_list (W : Nat) : ∀ (ss as : List Nat) (ts : List BTree), BTree.wfList ss as ts →
    ∀ p ∈ c06t_pairs W ss as ts, CsrSpec W p.2 p.1.beh
  | s :: ss, a :: as, t :: ts, h => by
    intro p hp
    simp only [BTree.wfList] at h
    simp only [c06t_pairs, List.mem_cons] at hp
    rcases hp with rfl | hp
    · exact c06t_tree W t h.1
    · exact c06t_list W ss as ts h.2.2.2.2 p hp
  | [], _, _, _ => by simp [c06t_pairs]
  | _ :: _, [], _, _ => by simp [c06t_pairs]
  | _ :: _, _ :: _, [], _ => by simp [c06t_pairs]
end

/-- EVERY tree of decoders over multiplexers meets the specification of its flattened layout —
    exactly the specification that one flat multiplexer over `t.layout` meets (`mux_meets_spec`):
    in this sense a tree of decoders behaves like the same registers on one multiplexer at the
    addresses the memory map reports. -/
theorem tree_meets_spec (W : Nat) (t : BTree) (h : t.wf) : CsrSpec W t.layout (t.beh W) :=
  c06t_tree W t h

/-- non-vacuity: a decoder with a two-register multiplexer at 0 (4 addresses) and a one-register
    multiplexer at 8 (8 addresses) is well-formed; its flattened layout is the three registers at
    their absolute addresses -/
theorem c06t_wf2 : WF [(⟨0, 2, 16, true, true⟩ : Reg), ⟨2, 1, 8, true, false⟩] := by
  refine ⟨by decide, ?_⟩
  intro a ha b hb hne
  simp only [List.mem_cons, List.not_mem_nil, or_false] at ha hb
  rcases ha with rfl | rfl <;> rcases hb with rfl | rfl <;>
    first | exact absurd rfl hne | (unfold Disjoint Reg.stop; simp)

theorem c06t_wf1 : WF [(⟨1, 3, 20, true, true⟩ : Reg)] := by
  refine ⟨by decide, ?_⟩
  intro a ha b hb hne
  simp only [List.mem_cons, List.not_mem_nil, or_false] at ha hb
  subst ha; subst hb; exact absurd rfl hne

example :
    let t := BTree.dec [0, 8] [2, 3] [.mux 2 [⟨0, 2, 16, true, true⟩, ⟨2, 1, 8, true, false⟩], .mux 4 [⟨1, 3, 20, true, true⟩]]
    t.wf ∧ t.layout = [⟨0, 2, 16, true, true⟩, ⟨2, 1, 8, true, false⟩, ⟨9, 3, 20, true, true⟩] := by
  refine ⟨?_, by decide⟩
  simp only [BTree.wf, BTree.wfList, BTree.layout]
  refine ⟨c06t_wf2, by decide, by decide, ?_, c06t_wf1, by decide, by decide, ?_, trivial⟩
  · intro s' hs'; simp only [List.mem_cons, List.not_mem_nil, or_false] at hs'; subst hs'; decide
  · intro s' hs'; cases hs'

end CsrT
