import SocVerif.Props.C11
import SocVerif.Props.C06T
/-!
# C11 / C12 (composition) — from the CSR bus to the fields of a register

`csr.Bridge` puts `csr.Register`s behind a `csr.Multiplexer`; C11 (`RegPack`) is about a register's
element port and its fields, C04/C05/C06 (`CsrT.CsrSpec`) about the bus and the element ports. Here
the two are composed: for ANY CSR target `B` that meets `CsrSpec` for its layout (a multiplexer, or
any tree of decoders over multiplexers: `CsrT.tree_meets_spec`), and a register `R` of the layout
whose element is wired to the field list `fs` (`R.width = widthSum fs`):

* a protocol-following bus write of `R` hands every writable field its own bit range of the
  concatenated chunks, with the field's write strobe, one cycle after the last chunk;
* a bus read of `R` returns the chunks of the packed field values as they were when the first chunk
  was read (readable fields at their bit ranges, zero elsewhere);
* a field sees a read strobe exactly when it is readable and the bus reads the first address of `R`.

Available: the fields of `CsrT.CsrSpec` (SocVerif/CsrTree.lean), `RegPack.read_value`,
`RegPack.write_slice`, `RegPack.fields_contiguous`, `RegPack.read_value_bounded`
(Props/C11.lean), `Mux.concat` (Props/C05.lean), `Mux.slice`. Helper lemmas (prefixed `c11b_`)
may be added ABOVE the theorems; model definitions and theorem statements are fixed.
-/
namespace RegBridge
open Mux CsrT RegPack

/-- what the fields of register `R` see on the register's element port in cycle `t`, when the
    register sits behind the CSR target `B` driven by the bus stream `inp`; `fr t k` is the value
    field `k` presents in cycle `t` -/
def elemIn (B : Beh) (inp : Nat → CIn) (R : Reg) (fr : Nat → Nat → Nat) (t : Nat) : EIn :=
  ⟨B.rstbE inp t R, B.wstbE inp t R, B.wdataE inp t R, fr t⟩

/-- the value the register presents to the bus in cycle `t`: its fields packed (`Register.elaborate`) -/
def packed (fs : List Flat) (fr : Nat → Nat → Nat) (t : Nat) : Nat := elemRdata fs ⟨false, false, 0, fr t⟩

/-- the loop is closed: the value `R` presents on its element port is the packed fields -/
def Wired (inp : Nat → CIn) (R : Reg) (fs : List Flat) (fr : Nat → Nat → Nat) : Prop :=
  ∀ t, (inp t).rval R = packed fs fr t

theorem c11b_go_eq (x : EIn) (k off : Nat) (fs : List Flat) :
    elemRdataGo x k off fs = elemRdataGo ⟨false, false, 0, x.fr⟩ k off fs := by
  induction fs generalizing k off with
  | nil => simp only [elemRdataGo]
  | cons f fs ih => simp only [elemRdataGo]; rw [ih (k + 1) (off + f.w)]

theorem c11b_take_le (fs : List Flat) (k : Nat) (f : Flat) (hk : fs[k]? = some f) :
    widthSum (fs.take k) + f.w ≤ widthSum fs := by
  induction fs generalizing k with
  | nil => simp at hk
  | cons g fs ih =>
    cases k with
    | zero =>
      simp only [List.getElem?_cons_zero, Option.some.injEq] at hk
      subst hk
      simp only [List.take_zero, c11_widthSum_nil, c11_widthSum_cons]
      omega
    | succ k =>
      simp only [List.getElem?_cons_succ] at hk
      have := ih k hk
      simp only [List.take_succ_cons, c11_widthSum_cons]
      omega

/-- `elemRdata` does not depend on the strobes or the write data -/
theorem packed_eq (fs : List Flat) (x : EIn) : elemRdata fs x = elemRdata fs ⟨false, false, 0, x.fr⟩ := by
  unfold elemRdata
  exact c11b_go_eq x 0 0 fs

/-- BUS WRITE → FIELDS: after the chunks `v 0 … v (len-1)` of `R` were written in order (times
    `τ k`, no other write strobe in between), every writable field `f` (index `k`) has its write
    strobe and receives exactly its own bit range of the concatenation, one cycle after the last chunk -/
theorem field_write_through_bus (W : Nat) (layout : List Reg) (B : Beh) (hspec : CsrSpec W layout B)
    (R : Reg) (hR : R ∈ layout) (hwr : R.wr = true) (hlen : 1 ≤ R.len)
    (fs : List Flat) (hw : R.width = widthSum fs) (fr : Nat → Nat → Nat)
    (inp : Nat → CIn) (τ v : Nat → Nat)
    (hmono : ∀ k, k + 1 < R.len → τ k < τ (k + 1))
    (hwrites : ∀ k, k < R.len → (inp (τ k)).wstb = true ∧ (inp (τ k)).addr = R.start + k ∧ (inp (τ k)).wdata = v k)
    (hquiet : ∀ t, τ 0 ≤ t → t ≤ τ (R.len - 1) → (∀ k, k < R.len → t ≠ τ k) → (inp t).wstb = false)
    (k : Nat) (f : Flat) (hk : fs[k]? = some f) (hfw : f.acc.writable = true) :
    let t1 := τ (R.len - 1) + 1
    fieldWstb f (elemIn B inp R fr t1) = true ∧
    ∀ b, b < f.w →
      (fieldWdata f (widthSum (fs.take k)) (elemIn B inp R fr t1)).testBit b =
        (Mux.concat W v R.len).testBit (widthSum (fs.take k) + b) := by
  intro t1
  have hst := hspec.wstb_exact inp (τ (R.len - 1)) R hR
  have hwc := hspec.write_concat inp R hR hwr τ v hmono hwrites hquiet
  obtain ⟨hws, haddr, _⟩ := hwrites (R.len - 1) (by omega)
  have hstop : (inp (τ (R.len - 1))).addr = R.stop - 1 := by
    rw [haddr]; unfold Reg.stop; omega
  refine ⟨?_, ?_⟩
  · show (f.acc.writable && B.wstbE inp (τ (R.len - 1) + 1) R) = true
    rw [hst, hfw, hwr, hws, hstop]
    simp
  · intro b hb
    rw [write_slice f _ _ hfw b hb]
    show (B.wdataE inp (τ (R.len - 1) + 1) R).testBit (widthSum (fs.take k) + b) = _
    rw [hwc, Nat.testBit_mod_two_pow]
    have := c11b_take_le fs k f hk
    have hlt : widthSum (fs.take k) + b < R.width := by omega
    simp [hlt]

/-- a field that is not writable never sees write data, and its strobe is never asserted -/
theorem nonwritable_field_inert (B : Beh) (inp : Nat → CIn) (R : Reg) (fr : Nat → Nat → Nat) (t : Nat)
    (f : Flat) (off : Nat) (hfw : f.acc.writable = false) :
    fieldWstb f (elemIn B inp R fr t) = false ∧ fieldWdata f off (elemIn B inp R fr t) = 0 := by
  unfold fieldWstb fieldWdata
  simp [hfw]

/-- BUS READ → FIELDS: a chunk of `R` read at `t1`, after its first chunk was read at `t0 ≤ t1` (no
    first chunk of a readable register read in between), is the corresponding chunk of the fields
    as packed at `t0` -/
theorem bus_read_returns_packed_fields (W : Nat) (layout : List Reg) (B : Beh) (hspec : CsrSpec W layout B)
    (R : Reg) (hR : R ∈ layout) (hrd : R.rd = true)
    (fs : List Flat) (fr : Nat → Nat → Nat) (inp : Nat → CIn) (hwired : Wired inp R fs fr)
    (t0 t1 : Nat) (hle : t0 ≤ t1)
    (h0 : (inp t0).rstb = true ∧ (inp t0).addr = R.start)
    (h1 : (inp t1).rstb = true ∧ R.start ≤ (inp t1).addr ∧ (inp t1).addr < R.stop)
    (hquiet : ∀ t, t0 < t → t ≤ t1 → (inp t).rstb = true → ∀ q ∈ layout, q.rd = true → (inp t).addr ≠ q.start) :
    B.rdata inp (t1 + 1) = slice W (packed fs fr t0) ((inp t1).addr - R.start) := by
  rw [hspec.snapshot inp R hR hrd t0 t1 hle h0 h1 hquiet, hwired t0]

/-- and in the packed value, readable field `k` occupies exactly its bit range (value as presented
    at `t0`, truncated to the field width), non-readable fields read as zero -/
theorem packed_field (fs : List Flat) (fr : Nat → Nat → Nat) (t0 k : Nat) (f : Flat) (hk : fs[k]? = some f) :
    packed fs fr t0 / 2 ^ widthSum (fs.take k) % 2 ^ f.w = (if f.acc.readable then fr t0 k % 2 ^ f.w else 0) := by
  unfold packed
  exact read_value fs _ k f hk

/-- FIELD READ STROBE: field `f` of `R` sees a read strobe exactly when it is readable, `R` is
    readable and the bus reads the first address of `R` in that cycle -/
theorem field_read_strobe (W : Nat) (layout : List Reg) (B : Beh) (hspec : CsrSpec W layout B)
    (R : Reg) (hR : R ∈ layout) (fr : Nat → Nat → Nat) (inp : Nat → CIn) (t : Nat) (f : Flat) :
    fieldRstb f (elemIn B inp R fr t) =
      (f.acc.readable && (R.rd && (inp t).rstb && ((inp t).addr == R.start))) := by
  show (f.acc.readable && B.rstbE inp t R) = _
  rw [hspec.rstb_exact inp t R hR]

/-- non-vacuity: a 12-bit register of three fields (rw 4 bits, w 3 bits, r 5 bits): the packed value
    shows the readable fields at their ranges and zero for the write-only one -/
example :
    let fs : List Flat := [⟨[.name "a"], 4, .rw⟩, ⟨[.name "b"], 3, .w⟩, ⟨[.name "c"], 5, .r⟩]
    packed fs (fun _ k => [0xF, 0x7, 0x15].getD k 0) 0 = 0xF + 0x15 * 2 ^ 7 ∧ widthSum fs = 12 := by
  decide

end RegBridge
