import SocVerif.Decoders
/-!
# C07 — the Wishbone decoder selects one subordinate and relays only its responses

Theorems about the Wishbone half of `SocVerif/Decoders.lean` for every decoder geometry, feature
subset, number/order/size of windows and every combination of request signals and responses.
The decoder's memory map counts granules: a bus word address `adr` covers the granule addresses
`[adr * 2^gb, (adr+1) * 2^gb)`. Windows are aligned to their size. Helper lemmas (prefixed `c07_`)
may be added ABOVE the theorems; model definitions and theorem statements are fixed.
-/
namespace Dec

theorem c07_win (m start a : Nat) (hm : 0 < m) (hal : start % m = 0) :
    a / m = start / m ↔ start ≤ a ∧ a < start + m := by
  have h := Nat.div_add_mod start m
  rw [hal] at h
  rw [Nat.div_eq_iff hm, Nat.mul_comm (start / m) m]
  generalize start / m = q at *
  generalize m * q = t at *
  omega

theorem c07_pat_big (c : WbCfg) (s : WbSub) (haw : 0 < c.aw) (hgb : c.gb ≤ s.mapAw) :
    wbPat c s = ⟨s.start / 2 ^ s.mapAw, s.mapAw - c.gb⟩ := by
  unfold wbPat stripLow windowPat
  simp only [if_neg (Nat.ne_of_gt haw), if_pos hgb]

theorem c07_pow_split (gb mapAw : Nat) (hgb : gb ≤ mapAw) :
    2 ^ mapAw = 2 ^ (mapAw - gb) * 2 ^ gb := by
  rw [← Nat.pow_add, Nat.sub_add_cancel hgb]

theorem c07_any_one (n k : Nat) (f : Nat → Bool) (hk : k < n)
    (h : ∀ j, j < n → j ≠ k → f j = false) : (List.range n).any f = f k := by
  rw [Bool.eq_iff_iff, List.any_eq_true]
  constructor
  · rintro ⟨j, hj, hf⟩
    by_cases e : j = k
    · exact e ▸ hf
    · rw [h j (List.mem_range.mp hj) e] at hf
      exact Bool.noConfusion hf
  · intro hf
    exact ⟨k, List.mem_range.mpr hk, hf⟩

theorem c07_any_none (n : Nat) (f : Nat → Bool)
    (h : ∀ j, j < n → f j = false) : (List.range n).any f = false := by
  cases e : (List.range n).any f with
  | false => rfl
  | true =>
    obtain ⟨j, hj, hf⟩ := List.any_eq_true.mp e
    rw [h j (List.mem_range.mp hj)] at hf
    exact Bool.noConfusion hf

theorem c07_cyc_false (c : WbCfg) (x : WbReq) (j : Nat)
    (h : wbSelected c x.adr ≠ some j) : (wbSubReq c x j).cyc = false := by
  unfold wbSubReq
  cases c.subs[j]? with
  | none => rfl
  | some s =>
    have : (wbSelected c x.adr == some j) = false := by
      cases e : wbSelected c x.adr == some j with
      | false => rfl
      | true => exact absurd (by simpa using e) h
    simp only [this, Bool.false_and]

/-- window at least one bus word wide (dense windows between equal granularities; sparse windows of
    subordinates with at least `gb` map address bits): the pattern matches exactly the bus words
    that lie inside the window -/
theorem wb_pattern_iff_window (c : WbCfg) (s : WbSub) (haw : 0 < c.aw) (hal : s.start % 2 ^ s.mapAw = 0)
    (hgb : c.gb ≤ s.mapAw) (adr : Nat) :
    (wbPat c s).matches adr = true ↔ s.start ≤ adr * 2 ^ c.gb ∧ adr * 2 ^ c.gb < s.start + 2 ^ s.mapAw := by
  rw [c07_pat_big c s haw hgb]
  unfold Pat.matches
  simp only [beq_iff_eq]
  rw [← c07_win (2 ^ s.mapAw) s.start (adr * 2 ^ c.gb) (Nat.two_pow_pos _) hal]
  rw [c07_pow_split c.gb s.mapAw hgb, Nat.mul_div_mul_right _ _ (Nat.two_pow_pos _)]

/-- window narrower than a bus word (a small sparse subordinate): the pattern matches exactly the
    one bus word that contains the window -/
theorem wb_pattern_small_window (c : WbCfg) (s : WbSub) (haw : 0 < c.aw) (hal : s.start % 2 ^ s.mapAw = 0)
    (hgb : s.mapAw < c.gb) (adr : Nat) :
    (wbPat c s).matches adr = true ↔ adr = s.start / 2 ^ c.gb := by
  have hpat : wbPat c s = ⟨s.start / 2 ^ s.mapAw / 2 ^ (c.gb - s.mapAw), 0⟩ := by
    unfold wbPat stripLow windowPat
    simp only [if_neg (Nat.ne_of_gt haw), if_neg (Nat.not_le.mpr hgb)]
  rw [hpat]
  unfold Pat.matches
  simp only [beq_iff_eq, Nat.pow_zero, Nat.div_one]
  rw [Nat.div_div_eq_div_mul, ← Nat.pow_add, Nat.add_sub_cancel' (Nat.le_of_lt hgb)]

/-- at most one subordinate sees the cycle signal -/
theorem at_most_one_cyc (c : WbCfg) (x : WbReq) (j k : Nat)
    (hj : (wbSubReq c x j).cyc = true) (hk : (wbSubReq c x k).cyc = true) : j = k := by
  have h1 : wbSelected c x.adr = some j := by
    cases e : decide (wbSelected c x.adr = some j) with
    | true => exact of_decide_eq_true e
    | false =>
      rw [c07_cyc_false c x j (of_decide_eq_false e)] at hj
      exact Bool.noConfusion hj
  have h2 : wbSelected c x.adr = some k := by
    cases e : decide (wbSelected c x.adr = some k) with
    | true => exact of_decide_eq_true e
    | false =>
      rw [c07_cyc_false c x k (of_decide_eq_false e)] at hk
      exact Bool.noConfusion hk
  rw [h1] at h2
  exact Option.some.inj h2

/-- the selected subordinate receives the offset within its (dense, aligned, word-sized-or-larger)
    window as address, together with unmodified write data, write enable and strobe, the select
    bits, and the optional lock/burst signals or their defaults -/
theorem request_forwarded (c : WbCfg) (x : WbReq) (k : Nat) (s : WbSub) (hk : c.subs[k]? = some s)
    (hsel : wbSelected c x.adr = some k) (haw : 0 < c.aw)
    (hal : s.start % 2 ^ s.mapAw = 0) (hgb : c.gb ≤ s.mapAw) (hadr : s.adrW = s.mapAw - c.gb)
    (hdw : x.datw < 2 ^ s.dw) (hselw : x.sel < 2 ^ s.selW) :
    let o := wbSubReq c x k
    o.cyc = x.cyc ∧ o.stb = x.stb ∧ o.we = x.we ∧ o.datw = x.datw ∧ o.sel = x.sel ∧
    o.adr = x.adr - s.start / 2 ^ c.gb ∧
    o.lock = (s.feat.lock && c.feat.lock && x.lock) ∧
    o.cti = (if s.feat.cti && c.feat.cti then x.cti else 0) ∧
    o.bte = (if s.feat.bte && c.feat.bte then x.bte else 0) := by
  have hm : (wbPat c s).matches x.adr = true := by
    unfold wbSelected firstMatch at hsel
    obtain ⟨hlt, hmm, _⟩ := List.findIdx?_eq_some_iff_getElem.mp hsel
    obtain ⟨hlt', rfl⟩ := List.getElem?_eq_some_iff.mp hk
    have : (wbPats c)[k] = wbPat c c.subs[k] := by simp [wbPats]
    rw [this] at hmm
    exact hmm
  rw [c07_pat_big c s haw hgb] at hm
  unfold Pat.matches at hm
  simp only [beq_iff_eq] at hm
  have hadr' : x.adr % 2 ^ s.adrW = x.adr - s.start / 2 ^ c.gb := by
    rw [hadr]
    have hs := Nat.div_add_mod s.start (2 ^ s.mapAw)
    rw [hal, c07_pow_split c.gb s.mapAw hgb] at hs
    have hs2 : s.start / 2 ^ c.gb = 2 ^ (s.mapAw - c.gb) * (s.start / 2 ^ s.mapAw) := by
      conv => lhs; rw [← hs]
      rw [Nat.add_zero, Nat.mul_comm (2 ^ (s.mapAw - c.gb)) (2 ^ c.gb), Nat.mul_assoc,
        Nat.mul_div_cancel_left _ (Nat.two_pow_pos _), c07_pow_split c.gb s.mapAw hgb,
        Nat.mul_comm (2 ^ c.gb)]
    rw [hs2, ← hm]
    have := Nat.div_add_mod x.adr (2 ^ (s.mapAw - c.gb))
    omega
  unfold wbSubReq
  simp only [hk, hsel, beq_self_eq_true, Bool.true_and, Nat.mod_eq_of_lt hdw,
    Nat.mod_eq_of_lt hselw, hadr']
  exact ⟨by trivial, by trivial, by trivial, by trivial, by trivial, by trivial, by trivial,
    by trivial, by trivial⟩

/-- subordinates respond only while selected (as Wishbone requires): every subordinate that does
    not see `cyc` keeps its response lines low (its read data is arbitrary) -/
def RespondOnlyWhenSelected (c : WbCfg) (x : WbReq) (r : Nat → WbResp) : Prop :=
  ∀ k, k < c.subs.length → (wbSubReq c x k).cyc = false →
    (r k).ack = false ∧ (r k).err = false ∧ (r k).rty = false ∧ (r k).stall = false

/-- then the upstream acknowledge, error, retry, stall and read data are exactly those of the
    selected subordinate (those the decoder and the subordinate both have) -/
theorem responses_of_selected (c : WbCfg) (x : WbReq) (r : Nat → WbResp) (k : Nat) (s : WbSub)
    (hk : c.subs[k]? = some s) (hsel : wbSelected c x.adr = some k)
    (hr : RespondOnlyWhenSelected c x r) :
    (wbResp c x r).ack = (r k).ack ∧
    (wbResp c x r).err = (c.feat.err && s.feat.err && (r k).err) ∧
    (wbResp c x r).rty = (c.feat.rty && s.feat.rty && (r k).rty) ∧
    (wbResp c x r).stall = (c.feat.stall && s.feat.stall && (r k).stall) ∧
    (wbResp c x r).datr = (r k).datr := by
  obtain ⟨hlt, _⟩ := List.getElem?_eq_some_iff.mp hk
  have hoff : ∀ j, j < c.subs.length → j ≠ k →
      (r j).ack = false ∧ (r j).err = false ∧ (r j).rty = false ∧ (r j).stall = false := by
    intro j hj hne
    apply hr j hj
    apply c07_cyc_false
    rw [hsel]
    intro e
    exact hne (Option.some.inj e).symm
  unfold wbResp
  simp only [hsel]
  refine ⟨?_, ?_, ?_, ?_, by trivial⟩
  · exact c07_any_one _ k _ hlt (fun j hj hne => (hoff j hj hne).1)
  · rw [c07_any_one _ k _ hlt (fun j hj hne => by rw [(hoff j hj hne).2.1, Bool.and_false])]
    simp only [hk, Option.map_some, Option.getD_some, Bool.and_assoc]
  · rw [c07_any_one _ k _ hlt (fun j hj hne => by rw [(hoff j hj hne).2.2.1, Bool.and_false])]
    simp only [hk, Option.map_some, Option.getD_some, Bool.and_assoc]
  · rw [c07_any_one _ k _ hlt (fun j hj hne => by rw [(hoff j hj hne).2.2.2, Bool.and_false])]
    simp only [hk, Option.map_some, Option.getD_some, Bool.and_assoc]

/-- an address that selects nobody produces no response and zero read data -/
theorem nobody_selected_silent (c : WbCfg) (x : WbReq) (r : Nat → WbResp)
    (hsel : wbSelected c x.adr = none) (hr : RespondOnlyWhenSelected c x r) :
    (wbResp c x r).ack = false ∧ (wbResp c x r).err = false ∧ (wbResp c x r).rty = false ∧
    (wbResp c x r).stall = false ∧ (wbResp c x r).datr = 0 ∧
    ∀ k, (wbSubReq c x k).cyc = false := by
  have hcyc : ∀ k, (wbSubReq c x k).cyc = false := by
    intro k
    apply c07_cyc_false
    rw [hsel]
    intro e
    cases e
  have hoff : ∀ j, j < c.subs.length →
      (r j).ack = false ∧ (r j).err = false ∧ (r j).rty = false ∧ (r j).stall = false :=
    fun j hj => hr j hj (hcyc j)
  unfold wbResp
  simp only [hsel]
  refine ⟨?_, ?_, ?_, ?_, by trivial, hcyc⟩
  · exact c07_any_none _ _ (fun j hj => (hoff j hj).1)
  · rw [c07_any_none _ _ (fun j hj => by rw [(hoff j hj).2.1, Bool.and_false]), Bool.and_false]
  · rw [c07_any_none _ _ (fun j hj => by rw [(hoff j hj).2.2.1, Bool.and_false]), Bool.and_false]
  · rw [c07_any_none _ _ (fun j hj => by rw [(hoff j hj).2.2.2, Bool.and_false]), Bool.and_false]

/-- non-vacuity: 32-bit decoder with byte granularity (gb = 2), two dense windows of 16 and 32
    granules; word address 9 (granules 36..39) lies in the second window at word offset 1 -/
example :
    let f : Feat := ⟨true, false, false, true, false, false⟩
    let c : WbCfg := ⟨6, 2, f, [⟨0, 4, 2, 32, 4, f⟩, ⟨32, 5, 3, 32, 4, ⟨false, false, false, false, true, false⟩⟩]⟩
    let x : WbReq := ⟨true, true, true, true, 9, 0xDEAD, 0b0101, 2, 1⟩
    wbSelected c 9 = some 1 ∧ (wbSubReq c x 1).cyc = true ∧ (wbSubReq c x 1).adr = 1 ∧
    (wbSubReq c x 0).cyc = false ∧ (wbSubReq c x 0).stb = true ∧
    (wbSubReq c x 1).lock = false ∧ (wbSubReq c x 1).cti = 0 ∧ wbSelected c 17 = none := by
  decide

end Dec
