import SocVerif.Builder
import SocVerif.Props.C02
import SocVerif.Props.C18
/-!
# C17 — the CSR builder lays registers out deterministically at the promised offsets

Theorems about the `Bld` model of `csr.Builder` on top of the memory-map model (`MemMap`), for every
builder geometry and every sequence of add / Cluster / Index / freeze / as_memory_map calls.
Available: everything in `SocVerif/Props/C02.lean` (`MemMap.MInv`, `addResource_spec`,
`alignUp_spec`, …), `SocVerif/Props/C18.lean` (`NInv`, `addResource_ninv`, …) and
`Mux.len_le_rsz`-style facts about `Mux.clog2` in `SocVerif/Mux.lean`.
Helper lemmas (prefixed `c17_`) may be added ABOVE the theorems; model definitions and theorem
statements are fixed.
-/
namespace Bld
open MemMap Names

/-- one `add_resource` call of `as_memory_map()` -/
def place (b : Builder) (m : MMap) (r : BReg) : Option (MMap × Nat × Nat) :=
  addResource m r.id r.name (regSize b.dw r.width) (r.offset.map fun o => o * b.gran / b.dw)
    (some (Mux.clog2 (regSize b.dw r.width)))

/-- `as_memory_map()` from an intermediate map over the remaining registers -/
def asFrom (b : Builder) (m : MMap) (rs : List BReg) : Option MMap :=
  rs.foldl (fun acc r => match acc with
    | none => none
    | some m => match place b m r with | some (m', _, _) => some m' | none => none) (some m)


/-! ## helper lemmas -/

theorem c17_foldl_none (b : Builder) (rs : List BReg) :
    rs.foldl (fun acc r => match acc with
      | none => none
      | some m => match place b m r with | some (m', _, _) => some m' | none => none)
      (none : Option MMap) = none := by
  induction rs with
  | nil => rfl
  | cons r rs ih => exact ih

theorem c17_asFrom_cons (b : Builder) (m : MMap) (r : BReg) (rs : List BReg) :
    asFrom b m (r :: rs) =
      match place b m r with | some (m', _, _) => asFrom b m' rs | none => none := by
  unfold asFrom
  rw [List.foldl_cons]
  simp only
  cases hp : place b m r with
  | none => exact c17_foldl_none b rs
  | some p => obtain ⟨m', s, e⟩ := p; rfl

theorem c17_clog2_le (n : Nat) : n ≤ 2 ^ Mux.clog2 n := by
  unfold Mux.clog2
  split
  · rename_i h; have : (2:Nat)^0 = 1 := rfl; omega
  · rename_i h
    have := @Nat.lt_log2_self (n - 1)
    rw [Nat.pow_succ]; omega

theorem c17_clog2_lt (n : Nat) (h : 1 < n) : 2 ^ Mux.clog2 n < 2 * n := by
  unfold Mux.clog2
  rw [if_neg (by omega)]
  have := @Nat.log2_self_le (n - 1) (by omega)
  rw [Nat.pow_succ]; omega

theorem c17_clog2_small (n : Nat) (h : n ≤ 1) : 2 ^ Mux.clog2 n = 1 := by
  unfold Mux.clog2
  rw [if_pos h]

theorem c17_alignUp_eq (v a : Nat) (h0 : 0 < v) (h1 : v ≤ 2 ^ a) : alignUp v a = 2 ^ a := by
  obtain ⟨hge, hmod, hleast⟩ := alignUp_spec v a
  have hp : 0 < 2 ^ a := Nat.two_pow_pos a
  have hle : alignUp v a ≤ 2 ^ a := hleast _ h1 (Nat.mod_self _)
  have hge' : 2 ^ a ≤ alignUp v a := by
    apply Nat.le_of_dvd (by omega)
    exact Nat.dvd_of_mod_eq_zero hmod
  omega

theorem c17_size (n : Nat) : alignUp (max n 1) (Mux.clog2 n) = 2 ^ Mux.clog2 n := by
  apply c17_alignUp_eq
  · omega
  · have := c17_clog2_le n
    have := Nat.two_pow_pos (Mux.clog2 n)
    omega

theorem c17_add_all (m : MMap) (hm : MInv m) (hal : m.al = 0) (id : Nat) (name : Name) (size : Nat)
    (addr : Option Nat) (m' : MMap) (s e : Nat)
    (h : addResource m id name size addr (some (Mux.clog2 size)) = some (m', s, e)) :
    e = s + 2 ^ Mux.clog2 size ∧ e ≤ 2 ^ m.aw ∧
    (match (generalizing := false) addr with
     | some a => s = a
     | none => s = alignUp m.next (Mux.clog2 size)) ∧
    m'.next = e ∧ m'.al = 0 ∧ m'.aw = m.aw ∧
    (∀ t ∈ m.items, t.hi ≤ s ∨ e ≤ t.lo) ∧
    m'.items.Perm (Tree.res id name s e :: m.items) ∧ MInv m' := by
  obtain ⟨_, _, hm'⟩ := c02_addResource_some h
  have hal' : m'.al = 0 := by rw [hm']; exact hal
  have haw' : m'.aw = m.aw := by rw [hm']
  cases addr with
  | none =>
    have hs := addResource_spec m hm _ _ _ _ _ m' s e h
    simp only [hal, Nat.max_zero] at hs
    obtain ⟨h1, h2, h3, h4, h5, h6, h7, h8⟩ := hs
    rw [c17_size] at h1
    exact ⟨by omega, h3, h4, h5, hal', haw', h6, h7, h8⟩
  | some a =>
    have hs := addResource_spec m hm _ _ _ _ _ m' s e h
    simp only [hal, Nat.max_zero] at hs
    obtain ⟨h1, h2, h3, h4, h5, h6, h7, h8⟩ := hs
    rw [c17_size] at h1
    exact ⟨by omega, h3, h4, h5, hal', haw', h6, h7, h8⟩

theorem c17_place_all (b : Builder) (m : MMap) (hm : MInv m) (hal : m.al = 0) (r : BReg) (m' : MMap)
    (s e : Nat) (h : place b m r = some (m', s, e)) :
    e = s + 2 ^ Mux.clog2 (regSize b.dw r.width) ∧ e ≤ 2 ^ m.aw ∧
    (match r.offset with
     | some o => s = o * b.gran / b.dw
     | none => s = alignUp m.next (Mux.clog2 (regSize b.dw r.width))) ∧
    m'.next = e ∧ m'.al = 0 ∧ m'.aw = m.aw ∧
    (∀ t ∈ m.items, t.hi ≤ s ∨ e ≤ t.lo) ∧
    m'.items.Perm (Tree.res r.id r.name s e :: m.items) ∧ MInv m' := by
  unfold place at h
  cases ho : r.offset with
  | none => rw [ho] at h; exact c17_add_all m hm hal _ _ _ _ m' s e h
  | some o => rw [ho] at h; exact c17_add_all m hm hal _ _ _ _ m' s e h

theorem c17_step_add (b : Builder) (id : Nat) (nm : String) (w : Nat) (off : Option Nat) :
    step b (.add id (some nm) w off) =
      if b.frozen = true ∨ nm.isEmpty = true ∨ (∃ o, off = some o ∧ o % (b.dw / b.gran) ≠ 0) ∨
          b.regs.any (·.id == id) = true then (b, .refused)
      else ({ b with regs := b.regs ++ [⟨id, b.scope ++ [.str nm], off, w⟩] }, .ok) := by
  simp only [step]
  by_cases h1 : b.frozen = true
  · simp only [h1, if_true, true_or]
  by_cases h2 : nm.isEmpty = true
  · simp [h1, h2]
  by_cases h4 : b.regs.any (·.id == id) = true
  · cases off <;> simp [h1, h2, h4]
  cases off with
  | none => simp [h1, h2, h4]
  | some o =>
    by_cases h3 : o % (b.dw / b.gran) = 0
    · simp [h1, h2, h4, h3]
    · simp [h1, h2, h4, h3]

theorem c17_asFrom_inv (b : Builder) (rs : List BReg) : ∀ (m m' : MMap), MInv m → m.al = 0 →
    NInv m.names → asFrom b m rs = some m' →
    MInv m' ∧ NInv m'.names ∧ m'.items.length = m.items.length + rs.length ∧
    (∀ t ∈ m.items, t ∈ m'.items) ∧
    ∀ r ∈ rs, ∃ s e, Tree.res r.id r.name s e ∈ m'.items := by
  induction rs with
  | nil =>
    intro m m' hm hal hn h
    simp only [asFrom, List.foldl_nil, Option.some.injEq] at h
    subst h
    exact ⟨hm, hn, rfl, fun t ht => ht, fun r hr => by cases hr⟩
  | cons r rs ih =>
    intro m m' hm hal hn h
    rw [c17_asFrom_cons] at h
    cases hp : place b m r with
    | none => rw [hp] at h; cases h
    | some p =>
      obtain ⟨m1, s, e⟩ := p
      rw [hp] at h
      simp only at h
      obtain ⟨_, _, _, _, hal1, _, _, hperm, hm1⟩ := c17_place_all b m hm hal r m1 s e hp
      have hn1 : NInv m1.names := addResource_ninv m hn _ _ _ _ _ m1 s e hp
      obtain ⟨i1, i2, i3, i4, i5⟩ := ih m1 m' hm1 hal1 hn1 h
      refine ⟨i1, i2, ?_, ?_, ?_⟩
      · rw [i3, hperm.length_eq]; simp only [List.length_cons]; omega
      · intro t ht
        exact i4 t (hperm.mem_iff.mpr (List.mem_cons_of_mem _ ht))
      · intro r' hr'
        rcases List.mem_cons.mp hr' with rfl | hr'
        · exact ⟨s, e, i4 _ (hperm.mem_iff.mpr List.mem_cons_self)⟩
        · exact i5 r' hr'

/-- registers are placed one after the other, in insertion order, each by one `add_resource`;
    a refused placement makes the whole conversion fail (nothing is silently adjusted) -/
theorem as_map_unfold (b : Builder) :
    asMemoryMap b = asFrom b { aw := b.aw, dw := b.dw, al := 0 } b.regs ∧
    (∀ m r rs, asFrom b m (r :: rs) =
      match place b m r with | some (m', _, _) => asFrom b m' rs | none => none) ∧
    (∀ m, asFrom b m [] = some m) := by
  exact ⟨rfl, c17_asFrom_cons b, fun m => rfl⟩

/-- the number of addresses a register occupies: `ceil(width / data_width)` rounded up to a power
    of two (one address for a zero-width register) -/
theorem size_pow2 (n : Nat) : alignUp (max n 1) (Mux.clog2 n) = 2 ^ Mux.clog2 n ∧
    (n ≤ 2 ^ Mux.clog2 n) ∧ (1 < n → 2 ^ Mux.clog2 n < 2 * n) := by
  exact ⟨c17_size n, c17_clog2_le n, c17_clog2_lt n⟩

/-- where one register goes (the map's own alignment is 0, as in `as_memory_map()`): an explicit
    offset is honoured exactly at `offset * granularity / data_width`; otherwise the register goes
    to the first address at or after the end of the previously placed register (the cursor) that
    is aligned to its own (rounded) size; it occupies that rounded size; the cursor moves to its
    end; it is disjoint from everything placed before and inside the address space -/
theorem place_spec (b : Builder) (m : MMap) (hm : MInv m) (hal : m.al = 0) (r : BReg) (m' : MMap) (s e : Nat)
    (h : place b m r = some (m', s, e)) :
    let sz := 2 ^ Mux.clog2 (regSize b.dw r.width)
    e = s + sz ∧ e ≤ 2 ^ m.aw ∧
    (match r.offset with
     | some o => s = o * b.gran / b.dw
     | none => m.next ≤ s ∧ s % sz = 0 ∧ ∀ x, m.next ≤ x → x % sz = 0 → s ≤ x) ∧
    m'.next = e ∧ m'.al = 0 ∧ m'.aw = m.aw ∧
    (∀ t ∈ m.items, t.hi ≤ s ∨ e ≤ t.lo) ∧
    m'.items.Perm (Tree.res r.id r.name s e :: m.items) ∧ MInv m' := by
  obtain ⟨h1, h2, h3, h4, h5, h6, h7, h8, h9⟩ := c17_place_all b m hm hal r m' s e h
  refine ⟨h1, h2, ?_, h4, h5, h6, h7, h8, h9⟩
  cases ho : r.offset with
  | some o => rw [ho] at h3; exact h3
  | none =>
    rw [ho] at h3
    simp only at h3 ⊢
    obtain ⟨a1, a2, a3⟩ := alignUp_spec m.next (Mux.clog2 (regSize b.dw r.width))
    rw [h3]
    exact ⟨a1, a2, a3⟩

/-- a successful conversion yields a map that holds every register exactly once, under its own
    name, with pairwise disjoint in-bounds ranges and a prefix-free namespace -/
theorem as_map_complete (b : Builder) (m : MMap) (h : asMemoryMap b = some m) :
    MInv m ∧ NInv m.names ∧ m.items.length = b.regs.length ∧
    ∀ r ∈ b.regs, ∃ s e, Tree.res r.id r.name s e ∈ m.items := by
  have h0 : asFrom b { aw := b.aw, dw := b.dw, al := 0 } b.regs = some m := h
  have hI : MInv ({ aw := b.aw, dw := b.dw, al := 0 } : MMap) :=
    ⟨⟨by simp [ranges], by simp [ranges]⟩, by simp⟩
  obtain ⟨i1, i2, i3, _, i5⟩ := c17_asFrom_inv b b.regs _ m hI rfl NInv_nil h0
  exact ⟨i1, i2, by simpa using i3, i5⟩

/-- registers are named by their full scope path: `add` records the scope current at that moment
    followed by the register's own name; `Cluster`/`Index` push a part, leaving pops it -/
theorem name_is_scope_path (b : Builder) (id : Nat) (nm : String) (w : Nat) (off : Option Nat) (b' : Builder)
    (h : step b (.add id (some nm) w off) = (b', .ok)) :
    b'.regs = b.regs ++ [⟨id, b.scope ++ [.str nm], off, w⟩] ∧ b'.scope = b.scope := by
  rw [c17_step_add] at h
  split at h
  · cases h
  · simp only [Prod.mk.injEq, and_true] at h
    subst h
    exact ⟨rfl, rfl⟩

theorem scope_push_pop (b : Builder) (nm : String) (hne : nm.isEmpty = false) (k : Nat) :
    (step b (.cluster (some nm))).1.scope = b.scope ++ [.str nm] ∧
    (step b (.index (some k))).1.scope = b.scope ++ [.int k] ∧
    (step (step b (.cluster (some nm))).1 .exit).1.scope = b.scope ∧
    (step (step b (.index (some k))).1 .exit).1.scope = b.scope := by
  simp only [step, hne, Bool.false_eq_true, if_false, List.dropLast_concat, and_self]

/-- a frozen builder accepts no further registers, and `add` never changes anything when it refuses -/
theorem frozen_refuses (b : Builder) (hf : b.frozen = true) (id : Nat) (nm : Option String) (w : Nat) (off : Option Nat) :
    step b (.add id nm w off) = (b, .refused) := by
  simp only [step, hf, if_true]

theorem refusal_atomic (b : Builder) (op : Op) (h : (step b op).2 = .refused) : (step b op).1 = b := by
  cases op with
  | add id name width offset =>
    cases name with
    | none =>
      simp only [step]
      split <;> rfl
    | some nm =>
      rw [c17_step_add] at h ⊢
      split
      · rfl
      · rename_i hc; rw [if_neg hc] at h; cases h
  | cluster name =>
    cases name with
    | none => rfl
    | some nm =>
      simp only [step] at h ⊢
      split
      · rfl
      · rename_i hc; rw [if_neg hc] at h; cases h
  | index n =>
    cases n with
    | none => rfl
    | some k => simp [step] at h
  | exit => simp [step] at h
  | freeze => simp [step] at h

/-- an explicit offset must be a multiple of `data_width / granularity` bytes -/
theorem offset_multiple_guard (b : Builder) (id : Nat) (nm : String) (w o : Nat)
    (h : o % (b.dw / b.gran) ≠ 0) : step b (.add id (some nm) w (some o)) = (b, .refused) := by
  rw [c17_step_add, if_pos]
  exact Or.inr (Or.inr (Or.inl ⟨o, rfl, h⟩))

/-- non-vacuity: 8-bit bus, byte granularity: a 24-bit register (3 words → 4 addresses), a 1-word
    register in a cluster at explicit offset 8, and an implicit one after it -/
example :
    let b := run { aw := 5, dw := 8, gran := 8 }
      [.add 0 (some "a") 24 none, .cluster (some "c"), .index (some 1), .add 1 (some "b") 8 (some 8),
       .exit, .add 2 (some "d") 9 none, .exit]
    (asMemoryMap b).map (fun m => m.items.map fun t => (t.ident, t.lo, t.hi)) = some [(0, 0, 4), (1, 8, 9), (2, 10, 12)] ∧
    (b.regs.map (·.name)) = [[.str "a"], [.str "c", .int 1, .str "b"], [.str "c", .str "d"]] := by
  decide

end Bld
