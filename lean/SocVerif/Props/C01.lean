import SocVerif.E2E
import SocVerif.Props.C03
import SocVerif.Props.C06
import SocVerif.Props.C07
/-!
# C01 — the memory map tells the truth about the hardware, end to end

The static routing theorem: for every hardware tree in the property's domain and EVERY root
address, the place the hardware's address path (`E2E.hwRoute`: decoder patterns, low address bits,
the bridge's `Cat(cycle, adr)`, register ranges) delivers a single-granule access to is exactly
the resource and the offset that the root memory map reports for that address (`E2E.locate` over
`all_resources()`), and nothing is reached when the map leaves the address unassigned; moreover
the map the constructors build is well-formed, so that `decode_address` agrees (C03).
Available: Props/C03.lean (`MemMap.Tree.ok`, `decode_iff_reported`, `decode_none_iff`,
`all_within`, `all_sorted`), Props/C06.lean (`Dec.pattern_iff_range`, `c06_*` arithmetic helpers),
Props/C07.lean (`Dec.wb_pattern_iff_window`, `c07_*`). Helper lemmas (prefixed `c01_`) may be
added ABOVE the theorems; model definitions and theorem statements are fixed.
-/
namespace E2E
open Dec MemMap

/-- registers of a multiplexer: non-empty, ascending, disjoint, inside the address space -/
def regsOk (aw : Nat) : List Nat → List Mux.Reg → Prop
  | _ :: ids, r :: rs => 1 ≤ r.len ∧ r.stop ≤ 2 ^ aw ∧ (∀ q ∈ rs, r.stop ≤ q.start) ∧ regsOk aw ids rs
  | [], [] => True
  | _, _ => False

/- well-formed CSR hardware: windows aligned to their size (implicit placement, or explicit
    addresses that are multiples of the window size), ascending, disjoint, inside the decoder -/
mutual
def CsrHw.wf : CsrHw → Prop
  | .mux aw ids regs => regsOk aw ids regs
  | .dec aw starts subs => CsrHw.wfList aw starts subs
def CsrHw.wfList (aw : Nat) : List Nat → List CsrHw → Prop
  | s :: ss, t :: ts => t.wf ∧ s % 2 ^ t.aw = 0 ∧ s + 2 ^ t.aw ≤ 2 ^ aw ∧
      (∀ s' ∈ ss, s + 2 ^ t.aw ≤ s') ∧ CsrHw.wfList aw ss ts
  | [], [] => True
  | _, _ => False
end

def WbLeaf.wf : WbLeaf → Prop
  | .sram _ _ => True
  | .bridge t => t.wf

/-- well-formed root: dense windows between equal granularities (each at least one bus word:
    `gb ≤ mapAw`), aligned to their size, ascending, disjoint, inside the root address space -/
def wbWf (gb aw : Nat) : List Nat → List WbLeaf → Prop
  | s :: ss, l :: ls => l.wf ∧ gb ≤ l.mapAw ∧ s % 2 ^ l.mapAw = 0 ∧ s + 2 ^ l.mapAw ≤ 2 ^ (aw + gb) ∧
      (∀ s' ∈ ss, s + 2 ^ l.mapAw ≤ s') ∧ wbWf gb aw ss ls
  | [], [] => True
  | _, _ => False

def WbTop.wf (top : WbTop) : Prop := wbWf top.gb top.aw top.starts top.leaves

/-! ### helper lemmas (C01) -/

/-- the lookup predicate of `locate` -/
def c01_hit (a : Nat) (i : Info) : Bool := decide (i.s ≤ a) && decide (a < i.e)

theorem c01_locate_def (items : List Tree) (a : Nat) :
    locate items a = ((Tree.allList 0 items).find? (c01_hit a)).map fun i => (i.id, a - i.s) := rfl

/-- looking up `a` behind a ratio-1 window at base `s` is looking up `a - s` in the child list -/
theorem c01_find_shift (s a : Nat) (hs : s ≤ a) : ∀ L : List Info,
    ((L.map (translate none s 1)).find? (c01_hit a)).map (fun i => (i.id, a - i.s)) =
    (L.find? (c01_hit (a - s))).map (fun i => (i.id, (a - s) - i.s))
  | [] => rfl
  | i :: L => by
    have ih := c01_find_shift s a hs L
    simp only [List.map_cons, List.find?_cons]
    have e : c01_hit a (translate none s 1 i) = c01_hit (a - s) i := by
      simp only [c01_hit, translate, Nat.div_one]
      rw [Bool.eq_iff_iff]; simp only [Bool.and_eq_true, decide_eq_true_eq]; omega
    rw [e]
    cases h : c01_hit (a - s) i with
    | true =>
      simp only [Option.map_some, translate, Nat.div_one]
      congr 2; omega
    | false => exact ih

theorem c01_find_none (a : Nat) (L : List Info) (h : ∀ i ∈ L, ¬ (i.s ≤ a ∧ a < i.e)) :
    L.find? (c01_hit a) = none := by
  rw [List.find?_eq_none]
  intro i hi hc
  simp only [c01_hit, Bool.and_eq_true, decide_eq_true_eq] at hc
  exact h i hi hc

theorem c01_locate_none (items : List Tree) (a : Nat)
    (h : ∀ i ∈ Tree.allList 0 items, ¬ (i.s ≤ a ∧ a < i.e)) : locate items a = none := by
  rw [c01_locate_def, c01_find_none a _ h]; rfl

theorem c01_locate_nil (a : Nat) : locate [] a = none := rfl

/-- `locate` over a list that starts with an anonymous ratio-1 window: the shifted children
    first, then the rest -/
theorem c01_locate_cons_win (s e : Nat) (kids rest : List Tree) (a : Nat) :
    locate (Tree.win 0 none s e 1 0 kids [] :: rest) a =
      if s ≤ a then (locate kids (a - s)).or (locate rest a) else locate rest a := by
  simp only [c01_locate_def, Tree.allList, Tree.all, List.find?_append, Option.map_or]
  by_cases hs : s ≤ a
  · rw [if_pos hs, c01_find_shift s a hs]
  · rw [if_neg hs, c01_find_none a _ ?_]
    · rfl
    · intro i hi
      simp only [List.mem_map] at hi
      obtain ⟨j, _, rfl⟩ := hi
      simp only [translate, Nat.div_one]
      omega

theorem c01_locate_cons_res (id : Nat) (nm : Names.Name) (s e : Nat) (rest : List Tree) (a : Nat) :
    locate (Tree.res id nm s e :: rest) a =
      if s ≤ a ∧ a < e then some (id, a - s) else locate rest a := by
  simp only [c01_locate_def, Tree.allList, Tree.all, List.singleton_append, List.find?_cons]
  by_cases h : s ≤ a ∧ a < e
  · have : c01_hit a ⟨id, [nm], s, e, 0⟩ = true := by
      simp only [c01_hit, Bool.and_eq_true, decide_eq_true_eq]; exact h
    rw [if_pos h, this]; rfl
  · have : c01_hit a ⟨id, [nm], s, e, 0⟩ = false := by
      rw [Bool.eq_false_iff]; intro hc
      simp only [c01_hit, Bool.and_eq_true, decide_eq_true_eq] at hc; exact h hc
    rw [if_neg h, this]

/-! #### multiplexer level -/

theorem c01_mux_route : ∀ (ids : List Nat) (regs : List Mux.Reg) (a : Nat),
    muxRoute ids regs a = locate (muxItems ids regs) a
  | [], _, _ => by simp only [muxRoute, muxItems]; rfl
  | _ :: _, [], _ => by simp only [muxRoute, muxItems]; rfl
  | id :: ids, r :: rs, a => by
    simp only [muxRoute, muxItems]
    rw [c01_locate_cons_res, c01_mux_route ids rs a]

theorem c01_mux_lo : ∀ (ids : List Nat) (regs : List Mux.Reg), ∀ u ∈ muxItems ids regs,
    ∃ q ∈ regs, u.lo = q.start
  | [], _, u, hu => by simp only [muxItems] at hu; cases hu
  | _ :: _, [], u, hu => by simp only [muxItems] at hu; cases hu
  | id :: ids, r :: rs, u, hu => by
    simp only [muxItems, List.mem_cons] at hu
    rcases hu with rfl | hu
    · exact ⟨r, List.mem_cons_self .., rfl⟩
    · obtain ⟨q, hq, h⟩ := c01_mux_lo ids rs u hu
      exact ⟨q, List.mem_cons_of_mem _ hq, h⟩

theorem c01_mux_ok (aw : Nat) : ∀ (ids : List Nat) (regs : List Mux.Reg), regsOk aw ids regs →
    Tree.okList (muxItems ids regs) ∧ ∀ i ∈ Tree.allList 0 (muxItems ids regs), i.e ≤ 2 ^ aw
  | [], [], _ => by
    simp only [muxItems, Tree.okList, Tree.allList]
    exact ⟨trivial, fun i hi => by cases hi⟩
  | [], _ :: _, h => by simp only [regsOk] at h
  | _ :: _, [], h => by simp only [regsOk] at h
  | id :: ids, r :: rs, h => by
    simp only [regsOk] at h
    obtain ⟨hlen, hfit, hsort, hrest⟩ := h
    obtain ⟨ih1, ih2⟩ := c01_mux_ok aw ids rs hrest
    simp only [muxItems, Tree.okList, Tree.ok, Tree.allList, Tree.all, List.singleton_append,
      List.mem_cons, Tree.hi]
    refine ⟨⟨?_, ih1, ?_⟩, ?_⟩
    · unfold Mux.Reg.stop; omega
    · intro u hu
      obtain ⟨q, hq, hlo⟩ := c01_mux_lo ids rs u hu
      rw [hlo]; exact hsort q hq
    · rintro i (rfl | hi)
      · exact hfit
      · exact ih2 i hi

/-! #### CSR decoder level -/

theorem c01_itemsList_lo : ∀ (starts : List Nat) (subs : List CsrHw), ∀ u ∈ CsrHw.itemsList starts subs,
    u.lo ∈ starts
  | [], _, u, hu => by simp only [CsrHw.itemsList] at hu; cases hu
  | _ :: _, [], u, hu => by simp only [CsrHw.itemsList] at hu; cases hu
  | s :: ss, t :: ts, u, hu => by
    simp only [CsrHw.itemsList, List.mem_cons] at hu
    rcases hu with rfl | hu
    · exact List.mem_cons_self ..
    · exact List.mem_cons_of_mem _ (c01_itemsList_lo ss ts u hu)

/-- an anonymous ratio-1 window over an ok child list whose entries fit is ok, and its entries
    end at or before `s + bound` -/
theorem c01_win_ok (s n : Nat) (kids : List Tree) (hk : Tree.okList kids)
    (hb : ∀ i ∈ Tree.allList 0 kids, i.e ≤ 2 ^ n) :
    (Tree.win 0 none s (s + 2 ^ n) 1 0 kids []).ok ∧
    ∀ i ∈ (Tree.win 0 none s (s + 2 ^ n) 1 0 kids []).all 0, s ≤ i.s ∧ i.e ≤ s + 2 ^ n := by
  have hp := Nat.two_pow_pos n
  refine ⟨?_, ?_⟩
  · simp only [Tree.ok, Nat.mod_one, Nat.div_one]
    refine ⟨by omega, by omega, hk, ?_⟩
    intro i hi
    have := hb i hi
    exact ⟨trivial, trivial, by omega⟩
  · intro i hi
    simp only [Tree.all, List.mem_map] at hi
    obtain ⟨j, hj, rfl⟩ := hi
    have h1 := hb j hj
    have h2 := allList_nonempty 0 kids hk j hj
    simp only [translate, Nat.div_one]
    omega

mutual
theorem c01_items_ok : ∀ (t : CsrHw), t.wf →
    Tree.okList t.items ∧ ∀ i ∈ Tree.allList 0 t.items, i.e ≤ 2 ^ t.aw
  | .mux aw ids regs, h => by
    simp only [CsrHw.wf] at h
    simp only [CsrHw.items, CsrHw.aw]
    exact c01_mux_ok aw ids regs h
  | .dec aw starts subs, h => by
    simp only [CsrHw.wf] at h
    simp only [CsrHw.items, CsrHw.aw]
    exact c01_itemsList_ok aw starts subs h
theorem c01_itemsList_ok : ∀ (aw : Nat) (starts : List Nat) (subs : List CsrHw),
    CsrHw.wfList aw starts subs →
    Tree.okList (CsrHw.itemsList starts subs) ∧
    ∀ i ∈ Tree.allList 0 (CsrHw.itemsList starts subs), i.e ≤ 2 ^ aw
  | _, [], [], _ => by
    simp only [CsrHw.itemsList, Tree.okList, Tree.allList]
    exact ⟨trivial, fun i hi => by cases hi⟩
  | _, [], _ :: _, h => by simp only [CsrHw.wfList] at h
  | _, _ :: _, [], h => by simp only [CsrHw.wfList] at h
  | aw, s :: ss, t :: ts, h => by
    simp only [CsrHw.wfList] at h
    obtain ⟨htwf, hal, hfit, hsort, hrest⟩ := h
    obtain ⟨hk, hb⟩ := c01_items_ok t htwf
    obtain ⟨hr1, hr2⟩ := c01_itemsList_ok aw ss ts hrest
    obtain ⟨hw1, hw2⟩ := c01_win_ok s t.aw t.items hk hb
    simp only [CsrHw.itemsList, Tree.okList, Tree.allList, List.mem_append, Tree.hi]
    refine ⟨⟨hw1, hr1, ?_⟩, ?_⟩
    · intro u hu
      exact hsort _ (c01_itemsList_lo ss ts u hu)
    · rintro i (hi | hi)
      · have := (hw2 i hi).2; omega
      · exact hr2 i hi
end

mutual
theorem c01_route : ∀ (t : CsrHw), t.wf → ∀ a, a < 2 ^ t.aw → t.route a = locate t.items a
  | .mux aw ids regs, _, a, _ => by
    simp only [CsrHw.route, CsrHw.items]
    exact c01_mux_route ids regs a
  | .dec aw starts subs, h, a, _ => by
    simp only [CsrHw.wf] at h
    simp only [CsrHw.route, CsrHw.items]
    exact c01_routeList aw starts subs h a
theorem c01_routeList : ∀ (aw : Nat) (starts : List Nat) (subs : List CsrHw),
    CsrHw.wfList aw starts subs → ∀ a,
    CsrHw.routeList starts subs a = locate (CsrHw.itemsList starts subs) a
  | _, [], _, _, a => by simp only [CsrHw.routeList, CsrHw.itemsList]; rfl
  | _, _ :: _, [], _, a => by simp only [CsrHw.routeList, CsrHw.itemsList]; rfl
  | aw, s :: ss, t :: ts, h, a => by
    simp only [CsrHw.wfList] at h
    obtain ⟨htwf, hal, hfit, hsort, hrest⟩ := h
    obtain ⟨hk, hb⟩ := c01_items_ok t htwf
    obtain ⟨hr1, hr2⟩ := c01_itemsList_ok aw ss ts hrest
    have ih := c01_routeList aw ss ts hrest a
    simp only [CsrHw.routeList, CsrHw.itemsList]
    rw [c01_locate_cons_win]
    have hpat := pattern_iff_range s t.aw a hal
    by_cases hm : (windowPat s t.aw).matches a = true
    · rw [if_pos hm]
      obtain ⟨h1, h2⟩ := hpat.mp hm
      rw [if_pos h1, c06_mod _ _ _ (Nat.two_pow_pos _) hal h1 h2,
        c01_route t htwf (a - s) (by omega)]
      rw [c01_locate_none (CsrHw.itemsList ss ts) a ?_, Option.or_none]
      intro i hi
      obtain ⟨u, hu, hlo, _⟩ := allList_within_later 0 _ hr1 i hi
      have := hsort _ (c01_itemsList_lo ss ts u hu)
      omega
    · rw [if_neg hm]
      have hnot : ¬ (s ≤ a ∧ a < s + 2 ^ t.aw) := fun hh => hm (hpat.mpr hh)
      by_cases h1 : s ≤ a
      · rw [if_pos h1, c01_locate_none t.items (a - s) ?_, Option.none_or]
        · exact ih
        · intro i hi
          have := hb i hi
          omega
      · rw [if_neg h1]; exact ih
end

/-! #### Wishbone level -/

/-- the Wishbone `Case` pattern (granularity bits stripped) applied to the word address of
    granule `a` matches exactly the granules of the (aligned, at least word-sized) window -/
theorem c01_wb_pat (s mapAw gb a : Nat) (hal : s % 2 ^ mapAw = 0) (hgb : gb ≤ mapAw) :
    (stripLow (windowPat s mapAw) gb).matches (a / 2 ^ gb) = true ↔ s ≤ a ∧ a < s + 2 ^ mapAw := by
  unfold stripLow windowPat Pat.matches
  simp only [if_pos hgb, beq_iff_eq]
  rw [Nat.div_div_eq_div_mul, ← Nat.pow_add, Nat.add_sub_cancel' hgb]
  exact c06_win _ _ _ (Nat.two_pow_pos _) hal

/-- word offset in the window, re-assembled with the granule lane, is the granule offset -/
theorem c01_wb_off (s mapAw gb a : Nat) (hal : s % 2 ^ mapAw = 0) (hgb : gb ≤ mapAw)
    (h1 : s ≤ a) (h2 : a < s + 2 ^ mapAw) :
    (a / 2 ^ gb) % 2 ^ (mapAw - gb) * 2 ^ gb + a % 2 ^ gb = a - s := by
  rw [← c06_mod _ _ _ (Nat.two_pow_pos _) hal h1 h2]
  have e : 2 ^ mapAw = 2 ^ gb * 2 ^ (mapAw - gb) := by
    rw [← Nat.pow_add, Nat.add_sub_cancel' hgb]
  rw [e, Nat.mod_mul, Nat.mul_comm, Nat.add_comm]

theorem c01_leaf_ok (l : WbLeaf) (hl : l.wf) :
    Tree.okList (leafItems l) ∧ ∀ i ∈ Tree.allList 0 (leafItems l), i.e ≤ 2 ^ l.mapAw := by
  cases l with
  | sram id n =>
    simp only [leafItems, Tree.okList, Tree.ok, Tree.allList, Tree.all, List.append_nil,
      List.mem_singleton, WbLeaf.mapAw]
    refine ⟨⟨Nat.two_pow_pos n, trivial, fun u hu => by cases hu⟩, ?_⟩
    rintro i rfl
    exact Nat.le_refl _
  | bridge t =>
    simp only [WbLeaf.wf] at hl
    obtain ⟨hk, hb⟩ := c01_items_ok t hl
    obtain ⟨hw1, hw2⟩ := c01_win_ok 0 t.aw t.items hk hb
    simp only [Nat.zero_add] at hw1 hw2
    simp only [leafItems, Tree.okList, Tree.allList, List.append_nil, WbLeaf.mapAw]
    refine ⟨⟨hw1, trivial, fun u hu => by cases hu⟩, ?_⟩
    intro i hi
    exact (hw2 i hi).2

/-- a selected leaf delivers granule offset `o` of its window where its own map says -/
theorem c01_leaf_route (gb : Nat) (l : WbLeaf) (hl : l.wf) (adr' lane o : Nat)
    (ho : adr' * 2 ^ gb + lane = o) (hlt : o < 2 ^ l.mapAw) :
    leafRoute gb l adr' lane = locate (leafItems l) o := by
  cases l with
  | sram id n =>
    simp only [WbLeaf.mapAw] at hlt
    simp only [leafRoute, leafItems, ho]
    rw [c01_locate_cons_res, if_pos ⟨Nat.zero_le _, hlt⟩, Nat.sub_zero]
  | bridge t =>
    simp only [WbLeaf.mapAw] at hlt
    simp only [WbLeaf.wf] at hl
    simp only [leafRoute, leafItems, ho]
    rw [c01_locate_cons_win, if_pos (Nat.zero_le _), Nat.sub_zero, c01_locate_nil, Option.or_none]
    exact c01_route t hl o hlt

theorem c01_wbItems_lo : ∀ (starts : List Nat) (leaves : List WbLeaf), ∀ u ∈ wbItems starts leaves,
    u.lo ∈ starts
  | [], _, u, hu => by simp only [wbItems] at hu; cases hu
  | _ :: _, [], u, hu => by simp only [wbItems] at hu; cases hu
  | s :: ss, l :: ls, u, hu => by
    simp only [wbItems, List.mem_cons] at hu
    rcases hu with rfl | hu
    · exact List.mem_cons_self ..
    · exact List.mem_cons_of_mem _ (c01_wbItems_lo ss ls u hu)

theorem c01_wbItems_ok (gb aw : Nat) : ∀ (starts : List Nat) (leaves : List WbLeaf),
    wbWf gb aw starts leaves →
    Tree.okList (wbItems starts leaves) ∧
    ∀ i ∈ Tree.allList 0 (wbItems starts leaves), i.e ≤ 2 ^ (aw + gb)
  | [], [], _ => by
    simp only [wbItems, Tree.okList, Tree.allList]
    exact ⟨trivial, fun i hi => by cases hi⟩
  | [], _ :: _, h => by simp only [wbWf] at h
  | _ :: _, [], h => by simp only [wbWf] at h
  | s :: ss, l :: ls, h => by
    simp only [wbWf] at h
    obtain ⟨hlwf, hgb, hal, hfit, hsort, hrest⟩ := h
    obtain ⟨hk, hb⟩ := c01_leaf_ok l hlwf
    obtain ⟨hr1, hr2⟩ := c01_wbItems_ok gb aw ss ls hrest
    obtain ⟨hw1, hw2⟩ := c01_win_ok s l.mapAw (leafItems l) hk hb
    simp only [wbItems, Tree.okList, Tree.allList, List.mem_append, Tree.hi]
    refine ⟨⟨hw1, hr1, ?_⟩, ?_⟩
    · intro u hu
      exact hsort _ (c01_wbItems_lo ss ls u hu)
    · rintro i (hi | hi)
      · have := (hw2 i hi).2; omega
      · exact hr2 i hi

theorem c01_wbRoute (gb aw : Nat) : ∀ (starts : List Nat) (leaves : List WbLeaf),
    wbWf gb aw starts leaves → ∀ a,
    wbRouteList gb starts leaves (a / 2 ^ gb) (a % 2 ^ gb) = locate (wbItems starts leaves) a
  | [], _, _, a => by simp only [wbRouteList, wbItems]; rfl
  | _ :: _, [], _, a => by simp only [wbRouteList, wbItems]; rfl
  | s :: ss, l :: ls, h, a => by
    simp only [wbWf] at h
    obtain ⟨hlwf, hgb, hal, hfit, hsort, hrest⟩ := h
    obtain ⟨hk, hb⟩ := c01_leaf_ok l hlwf
    obtain ⟨hr1, hr2⟩ := c01_wbItems_ok gb aw ss ls hrest
    have ih := c01_wbRoute gb aw ss ls hrest a
    simp only [wbRouteList, wbItems]
    rw [c01_locate_cons_win]
    have hpat := c01_wb_pat s l.mapAw gb a hal hgb
    by_cases hm : (stripLow (windowPat s l.mapAw) gb).matches (a / 2 ^ gb) = true
    · rw [if_pos hm]
      obtain ⟨h1, h2⟩ := hpat.mp hm
      rw [if_pos h1, c01_leaf_route gb l hlwf _ _ (a - s) (c01_wb_off s l.mapAw gb a hal hgb h1 h2)
        (by omega)]
      rw [c01_locate_none (wbItems ss ls) a ?_, Option.or_none]
      intro i hi
      obtain ⟨u, hu, hlo, _⟩ := allList_within_later 0 _ hr1 i hi
      have := hsort _ (c01_wbItems_lo ss ls u hu)
      omega
    · rw [if_neg hm]
      have hnot : ¬ (s ≤ a ∧ a < s + 2 ^ l.mapAw) := fun hh => hm (hpat.mpr hh)
      by_cases h1 : s ≤ a
      · rw [if_pos h1, c01_locate_none (leafItems l) (a - s) ?_, Option.none_or]
        · exact ih
        · intro i hi
          have := hb i hi
          omega
      · rw [if_neg h1]; exact ih

/-- CSR level: the decoder/multiplexer tree delivers address `a` exactly where its memory map says -/
theorem csr_route_eq_locate (t : CsrHw) (h : t.wf) (a : Nat) (ha : a < 2 ^ t.aw) :
    t.route a = locate t.items a :=
  c01_route t h a ha

/-- the memory map built for a well-formed CSR tree is well-formed (C03's `Tree.okList`), and all
    its reported ranges lie inside the tree's address space -/
theorem csr_items_ok (t : CsrHw) (h : t.wf) :
    Tree.okList t.items ∧ ∀ i ∈ Tree.allList 0 t.items, i.e ≤ 2 ^ t.aw :=
  c01_items_ok t h

/-- END TO END: a root access reaches a leaf register chunk or memory granule iff the root memory
    map assigns that address to that leaf, and at exactly the offset the map reports -/
theorem route_eq_locate (top : WbTop) (h : top.wf) (a : Nat) (ha : a < 2 ^ (top.aw + top.gb)) :
    hwRoute top a = locate (rootMap top) a :=
  c01_wbRoute top.gb top.aw top.starts top.leaves h a

theorem root_map_ok (top : WbTop) (h : top.wf) : Tree.okList (rootMap top) :=
  (c01_wbItems_ok top.gb top.aw top.starts top.leaves h).1

/-- … and `decode_address` of the root map names the same resource -/
theorem route_agrees_with_decode (top : WbTop) (h : top.wf) (a : Nat) (ha : a < 2 ^ (top.aw + top.gb)) :
    (hwRoute top a).map (·.1) = Tree.decodeList (rootMap top) a := by
  have hok := root_map_ok top h
  rw [route_eq_locate top h a ha, c01_locate_def]
  cases hf : (Tree.allList 0 (rootMap top)).find? (c01_hit a) with
  | none =>
    simp only [Option.map_none]
    symm
    rw [decode_none_iff 0 _ hok]
    intro i hi hc
    have := List.find?_eq_none.mp hf i hi
    apply this
    simp only [c01_hit, Bool.and_eq_true, decide_eq_true_eq]
    exact hc
  | some i =>
    have hp := List.find?_some hf
    have hm := List.mem_of_find?_eq_some hf
    simp only [c01_hit, Bool.and_eq_true, decide_eq_true_eq] at hp
    simp only [Option.map_some]
    symm
    exact decodeList_complete 0 _ hok i hm a hp.1 hp.2

/-- addresses the map leaves unassigned reach nothing -/
theorem unassigned_reaches_nothing (top : WbTop) (h : top.wf) (a : Nat) (ha : a < 2 ^ (top.aw + top.gb))
    (hun : Tree.decodeList (rootMap top) a = none) : hwRoute top a = none := by
  have := route_agrees_with_decode top h a ha
  rw [hun] at this
  cases hr : hwRoute top a with
  | none => rfl
  | some x => rw [hr] at this; cases this

/-- non-vacuity: 16-bit Wishbone over 8-bit CSR (gb = 1); an SRAM of 8 granules at 0 and a bridge at
    16 in front of a decoder with a multiplexer at CSR address 4 holding a 3-chunk register at 1 -/
example :
    let mux := CsrHw.mux 2 [7] [⟨1, 3, 20, true, true⟩]
    let dec := CsrHw.dec 3 [4] [mux]
    let top : WbTop := ⟨1, 4, [0, 16], [.sram 9 3, .bridge dec]⟩
    top.wf ∧ hwRoute top 5 = some (9, 5) ∧ hwRoute top 22 = some (7, 1) ∧ hwRoute top 20 = none ∧
    hwRoute top 9 = none ∧ locate (rootMap top) 22 = some (7, 1) ∧ Tree.decodeList (rootMap top) 22 = some 7 := by
  refine ⟨?_, ?_, ?_, ?_, ?_, ?_, ?_⟩
  · simp [WbTop.wf, wbWf, WbLeaf.wf, WbLeaf.mapAw, CsrHw.wf, CsrHw.wfList, CsrHw.aw, regsOk,
      Mux.Reg.stop]
  · decide
  · decide
  · decide
  · decide
  · decide
  · decide

end E2E
