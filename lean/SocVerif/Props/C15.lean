import SocVerif.Sram
/-!
# C15 — the Wishbone SRAM behaves as a memory with a one-cycle, single acknowledge

Theorems about the `Sram` model for every geometry, initial contents and cycle-by-cycle input
sequence (no protocol assumption at all). Helper lemmas (prefixed `c15_`) may be added ABOVE the
theorems; model definitions and theorem statements are fixed.
-/
namespace Sram

/-! ## helper lemmas: base-`2^g` digit expansion -/

/-- the number whose `i`-th base-`2^g` digit is `d i`, for `i < n` (shape of `merge`) -/
def c15_dsum (g : Nat) (d : Nat → Nat) (n : Nat) : Nat :=
  (List.range n).foldl (fun acc i => acc + d i * 2 ^ (i * g)) 0

theorem c15_merge_eq (c : Cfg) (old new : Nat) (en : Nat → Bool) :
    merge c old new en
      = c15_dsum c.gran (fun i => if en i then lane c new i else lane c old i) c.lanes := rfl

theorem c15_dsum_zero (g : Nat) (d : Nat → Nat) : c15_dsum g d 0 = 0 := rfl

theorem c15_dsum_succ (g : Nat) (d : Nat → Nat) (n : Nat) :
    c15_dsum g d (n + 1) = c15_dsum g d n + d n * 2 ^ (n * g) := by
  unfold c15_dsum
  rw [List.range_succ, List.foldl_append]
  rfl

theorem c15_pow_succ_mul (n g : Nat) : 2 ^ ((n + 1) * g) = 2 ^ (n * g) * 2 ^ g := by
  rw [Nat.succ_mul, Nat.pow_add]

theorem c15_dsum_lt (g : Nat) (d : Nat → Nat) (hd : ∀ i, d i < 2 ^ g) (n : Nat) :
    c15_dsum g d n < 2 ^ (n * g) := by
  induction n with
  | zero => rw [c15_dsum_zero]; exact Nat.two_pow_pos _
  | succ n ih =>
    rw [c15_dsum_succ, c15_pow_succ_mul]
    have h1 : (d n + 1) * 2 ^ (n * g) ≤ 2 ^ g * 2 ^ (n * g) := Nat.mul_le_mul_right _ (hd n)
    rw [Nat.succ_mul] at h1
    rw [Nat.mul_comm (2 ^ (n * g)) (2 ^ g)]
    omega

theorem c15_dsum_digit (g : Nat) (d : Nat → Nat) (hd : ∀ i, d i < 2 ^ g) (n i : Nat) (hi : i < n) :
    c15_dsum g d n / 2 ^ (i * g) % 2 ^ g = d i := by
  induction n with
  | zero => omega
  | succ n ih =>
    rw [c15_dsum_succ]
    by_cases h : i < n
    · obtain ⟨k, hk⟩ : ∃ k, n = i + 1 + k := ⟨n - i - 1, by omega⟩
      have e : 2 ^ (n * g) = 2 ^ (k * g) * 2 ^ g * 2 ^ (i * g) := by
        rw [← Nat.pow_add, ← Nat.pow_add]
        congr 1
        rw [hk, Nat.add_mul, Nat.add_mul, Nat.one_mul]
        omega
      have e2 : d n * 2 ^ (n * g) = (d n * 2 ^ (k * g) * 2 ^ g) * 2 ^ (i * g) := by
        rw [e, Nat.mul_assoc, Nat.mul_assoc, Nat.mul_assoc]
      rw [e2, Nat.add_mul_div_right _ _ (Nat.two_pow_pos _), Nat.add_mul_mod_self_right]
      exact ih h
    · have : i = n := by omega
      subst this
      rw [Nat.add_mul_div_right _ _ (Nat.two_pow_pos _),
        Nat.div_eq_of_lt (c15_dsum_lt g d hd i), Nat.zero_add, Nat.mod_eq_of_lt (hd i)]

theorem c15_dsum_self (g v n : Nat) :
    c15_dsum g (fun i => v / 2 ^ (i * g) % 2 ^ g) n = v % 2 ^ (n * g) := by
  induction n with
  | zero => rw [c15_dsum_zero, Nat.zero_mul, Nat.pow_zero, Nat.mod_one]
  | succ n ih =>
    rw [c15_dsum_succ, ih, c15_pow_succ_mul, Nat.mod_mul, Nat.mul_comm (2 ^ (n * g))]

theorem c15_lane_lt (c : Cfg) (v i : Nat) : lane c v i < 2 ^ c.gran :=
  Nat.mod_lt _ (Nat.two_pow_pos _)

theorem c15_digit_lt (c : Cfg) (old new : Nat) (en : Nat → Bool) (i : Nat) :
    (if en i then lane c new i else lane c old i) < 2 ^ c.gran := by
  split <;> exact c15_lane_lt _ _ _

/-- `merge` always produces a word below `2 ^ (lanes * gran)` -/
theorem c15_merge_lt (c : Cfg) (old new : Nat) (en : Nat → Bool) :
    merge c old new en < 2 ^ (c.lanes * c.gran) := by
  rw [c15_merge_eq]
  exact c15_dsum_lt _ _ (c15_digit_lt c old new en) _

/-- merging with no granule enabled truncates `old` to `lanes * gran` bits … -/
theorem c15_merge_none (c : Cfg) (old new : Nat) :
    merge c old new (fun _ => false) = old % 2 ^ (c.lanes * c.gran) := by
  rw [c15_merge_eq]
  exact c15_dsum_self c.gran old c.lanes

/-- … hence is the identity on words that fit -/
theorem c15_merge_none_of_lt (c : Cfg) (old new : Nat) (h : old < 2 ^ (c.lanes * c.gran)) :
    merge c old new (fun _ => false) = old := by
  rw [c15_merge_none, Nat.mod_eq_of_lt h]

theorem c15_lanes_mul_gran (c : Cfg) (hd : c.gran ∣ c.dw) : c.lanes * c.gran = c.dw :=
  Nat.div_mul_cancel hd

/-- the stored words stay below `2 ^ (lanes * gran)` -/
theorem c15_mem_lt (c : Cfg) (m0 : Nat → Nat) (inp : Nat → In)
    (hm : ∀ a, m0 a < 2 ^ (c.lanes * c.gran)) (t : Nat) :
    ∀ a, (st c m0 inp t).mem a < 2 ^ (c.lanes * c.gran) := by
  induction t with
  | zero => exact hm
  | succ t ih =>
    intro a
    show (if a = (inp t).adr then _ else _) < _
    split
    · exact c15_merge_lt _ _ _ _
    · exact ih a

theorem c15_wen_true (c : Cfg) (s : State) (x : In)
    (h : (c.writable && req s x && x.we) = true) : wen c s x = x.sel := by
  funext i; simp only [wen, h, Bool.true_and]

theorem c15_wen_false (c : Cfg) (s : State) (x : In)
    (h : (c.writable && req s x && x.we) = false) : wen c s x = fun _ => false := by
  funext i; simp only [wen, h, Bool.false_and]

/-- one step of the stored memory, with the artefact made explicit: outside a write transfer the
    addressed word is rewritten with its own truncation to `lanes * gran` bits -/
theorem c15_mem_step (c : Cfg) (s : State) (x : In) (a : Nat) :
    (next c s x).mem a =
      if a = x.adr then
        (if c.writable && req s x && x.we then merge c (s.mem a) x.datw x.sel
         else s.mem a % 2 ^ (c.lanes * c.gran))
      else s.mem a := by
  show (if a = x.adr then merge c (s.mem a) x.datw (wen c s x) else s.mem a) = _
  by_cases ha : a = x.adr
  · simp only [ha, if_true]
    cases h : (c.writable && req s x && x.we)
    · rw [c15_wen_false c s x h, c15_merge_none]; simp
    · rw [c15_wen_true c s x h]; simp
  · simp only [ha, if_false]

/-- unconditional form of the read: the read-data register holds the *stored* word -/
theorem c15_read_stored (c : Cfg) (m0 : Nat → Nat) (inp : Nat → In) (t : Nat)
    (hr : (inp t).we = false) :
    (st c m0 inp (t + 1)).rdat = (st c m0 inp t).mem (inp t).adr := by
  show (if ren c (st c m0 inp t) (inp t) then _ else _) = _
  have : ren c (st c m0 inp t) (inp t) = true := by
    unfold ren; split <;> simp [hr]
  rw [this]; rfl

/-- a transfer is presented in cycle `t` when `cyc` and `stb` are high and the SRAM is not just
    acknowledging the previous one -/
def presented (c : Cfg) (m0 : Nat → Nat) (inp : Nat → In) (t : Nat) : Bool :=
  req (st c m0 inp t) (inp t)

/-- [all inputs] acknowledge exactly one cycle after a transfer is presented: never spontaneous,
    and low at reset -/
theorem ack_exact (c : Cfg) (m0 : Nat → Nat) (inp : Nat → In) (t : Nat) :
    (st c m0 inp 0).ack = false ∧ (st c m0 inp (t + 1)).ack = presented c m0 inp t := by
  refine ⟨rfl, ?_⟩
  show (if (st c m0 inp t).ack then false else ((inp t).cyc && (inp t).stb))
      = (!(st c m0 inp t).ack && (inp t).cyc && (inp t).stb)
  cases (st c m0 inp t).ack <;> simp

/-- never twice for one transfer: an acknowledge cycle is never followed by another one, even if
    `cyc`/`stb` are held -/
theorem ack_single (c : Cfg) (m0 : Nat → Nat) (inp : Nat → In) (t : Nat)
    (h : (st c m0 inp t).ack = true) : (st c m0 inp (t + 1)).ack = false := by
  show (if (st c m0 inp t).ack then false else ((inp t).cyc && (inp t).stb)) = false
  rw [h]; rfl

/-- the abstract memory: contents after all write transfers presented before time `t`
    (a write transfer replaces exactly the selected granules of the addressed word) -/
def absMem (c : Cfg) (m0 : Nat → Nat) (inp : Nat → In) : Nat → (Nat → Nat)
  | 0 => m0
  | t + 1 => fun a =>
    if c.writable && presented c m0 inp t && (inp t).we && (a == (inp t).adr)
    then merge c (absMem c m0 inp t a) (inp t).datw (inp t).sel
    else absMem c m0 inp t a

/-- the stored contents are exactly the abstract memory: every write transfer is performed once
    (in the cycle it is presented, not again in the acknowledge cycle even if `stb` is held),
    and nothing else ever changes the contents -/

-- FALSE AS STATED (original statement kept here):
--   theorem mem_is_abs (c : Cfg) (m0 : Nat → Nat) (inp : Nat → In) (t : Nat) :
--       (st c m0 inp t).mem = absMem c m0 inp t
-- Reason: `next` rewrites the addressed word in EVERY cycle with `merge … (wen …)`; with no write
-- enable set this is `old % 2 ^ (lanes * gran)` (`c15_merge_none`), so an initial word that does
-- not fit in `lanes * gran` bits is truncated by a mere idle cycle, while `absMem` keeps it.
-- Counterexample: `c = ⟨8, 8, true⟩`, `m0 = fun _ => 256`, all inputs idle with `adr = 0`, `t = 1`:
-- stored word 0 is `0`, abstract word 0 is `256` (`c15_mem_is_abs_cex`, `c15_mem_is_abs_false`).
theorem c15_mem_is_abs_cex :
    (st ⟨8, 8, true⟩ (fun _ => 256) (fun _ => ⟨false, false, false, 0, fun _ => false, 0⟩) 1).mem 0 = 0 ∧
    absMem ⟨8, 8, true⟩ (fun _ => 256) (fun _ => ⟨false, false, false, 0, fun _ => false, 0⟩) 1 0 = 256 := by
  decide

theorem c15_mem_is_abs_false :
    ¬ ∀ (c : Cfg) (m0 : Nat → Nat) (inp : Nat → In) (t : Nat),
        (st c m0 inp t).mem = absMem c m0 inp t := by
  intro h
  have h1 := congrFun
    (h ⟨8, 8, true⟩ (fun _ => 256) (fun _ => ⟨false, false, false, 0, fun _ => false, 0⟩) 1) 0
  rw [c15_mem_is_abs_cex.1, c15_mem_is_abs_cex.2] at h1
  exact absurd h1 (by decide)

/-- `mem_is_abs` under the ADDED hypothesis that every initial word fits in `lanes * gran` bits
    (the weakest geometry-independent bound that makes it true; conclusion unchanged) -/
theorem mem_is_abs_partial (c : Cfg) (m0 : Nat → Nat) (inp : Nat → In)
    (hm : ∀ a, m0 a < 2 ^ (c.lanes * c.gran)) (t : Nat) :
    (st c m0 inp t).mem = absMem c m0 inp t := by
  induction t with
  | zero => rfl
  | succ t ih =>
    funext a
    have hlt := c15_mem_lt c m0 inp hm t a
    show (next c (st c m0 inp t) (inp t)).mem a
      = (if c.writable && req (st c m0 inp t) (inp t) && (inp t).we && (a == (inp t).adr)
         then merge c (absMem c m0 inp t a) (inp t).datw (inp t).sel
         else absMem c m0 inp t a)
    rw [c15_mem_step, ← ih, Nat.mod_eq_of_lt hlt]
    by_cases ha : a = (inp t).adr
    · cases h : (c.writable && req (st c m0 inp t) (inp t) && (inp t).we) <;> simp [ha]
    · simp [ha]

/-- the same in the well-formed-geometry form: ADDED hypotheses `gran ∣ dw` and all initial words
    below `2 ^ dw` -/
theorem mem_is_abs_partial_dw (c : Cfg) (hd : c.gran ∣ c.dw) (m0 : Nat → Nat) (inp : Nat → In)
    (hm : ∀ a, m0 a < 2 ^ c.dw) (t : Nat) :
    (st c m0 inp t).mem = absMem c m0 inp t :=
  mem_is_abs_partial c m0 inp (by rw [c15_lanes_mul_gran c hd]; exact hm) t

/-- a read returns, together with the acknowledge, the value most recently written to that word
    (initially the init contents) -/

-- FALSE AS STATED (original statement kept here):
--   theorem read_your_writes (c : Cfg) (m0 : Nat → Nat) (inp : Nat → In) (t : Nat)
--       (hp : presented c m0 inp t = true) (hr : (inp t).we = false) :
--       (st c m0 inp (t + 1)).ack = true ∧
--       (st c m0 inp (t + 1)).rdat = absMem c m0 inp t (inp t).adr
-- Same reason as `mem_is_abs`. Counterexample: `c = ⟨8, 8, true⟩`, `m0 = fun _ => 256`, cycle 0 idle
-- (`adr = 0`), cycle 1 a read of word 0: the read returns `0`, the abstract word is `256`.
theorem c15_read_your_writes_cex :
    let c : Cfg := ⟨8, 8, true⟩
    let inp : Nat → In := fun t => ⟨t == 1, t == 1, false, 0, fun _ => false, 0⟩
    presented c (fun _ => 256) inp 1 = true ∧ (inp 1).we = false ∧
    (st c (fun _ => 256) inp 2).rdat = 0 ∧ absMem c (fun _ => 256) inp 1 (inp 1).adr = 256 := by
  decide

/-- `read_your_writes` under the ADDED hypothesis that every initial word fits in `lanes * gran`
    bits (conclusion unchanged; the acknowledge half and `rdat = stored word` hold without it, see
    `ack_exact` and `c15_read_stored`) -/
theorem read_your_writes_partial (c : Cfg) (m0 : Nat → Nat) (inp : Nat → In)
    (hm : ∀ a, m0 a < 2 ^ (c.lanes * c.gran)) (t : Nat)
    (hp : presented c m0 inp t = true) (hr : (inp t).we = false) :
    (st c m0 inp (t + 1)).ack = true ∧ (st c m0 inp (t + 1)).rdat = absMem c m0 inp t (inp t).adr := by
  refine ⟨by rw [(ack_exact c m0 inp t).2]; exact hp, ?_⟩
  rw [c15_read_stored c m0 inp t hr, mem_is_abs_partial c m0 inp hm t]

theorem read_your_writes_partial_dw (c : Cfg) (hd : c.gran ∣ c.dw) (m0 : Nat → Nat) (inp : Nat → In)
    (hm : ∀ a, m0 a < 2 ^ c.dw) (t : Nat)
    (hp : presented c m0 inp t = true) (hr : (inp t).we = false) :
    (st c m0 inp (t + 1)).ack = true ∧ (st c m0 inp (t + 1)).rdat = absMem c m0 inp t (inp t).adr :=
  read_your_writes_partial c m0 inp (by rw [c15_lanes_mul_gran c hd]; exact hm) t hp hr

/-- a write updates only the granules whose select bits are set (`i` ranges over the lanes of a
    well-formed geometry: `gran` divides `dw`, stored words are below `2^dw`) -/
theorem write_masked (c : Cfg) (hg : 0 < c.gran) (old new : Nat) (en : Nat → Bool) (i : Nat) (hi : i < c.lanes) :
    lane c (merge c old new en) i = (if en i then lane c new i else lane c old i) := by
  have _ := hg   -- not needed: `gran = 0` gives `lanes = 0`, so there is no lane `i`
  rw [c15_merge_eq]
  exact c15_dsum_digit c.gran _ (c15_digit_lt c old new en) c.lanes i hi

/-- a read-only SRAM acknowledges writes but never changes its contents -/

-- FALSE AS STATED (original statement kept here):
--   theorem readonly_immutable (c : Cfg) (hro : c.writable = false) (m0 : Nat → Nat)
--       (inp : Nat → In) (t : Nat) :
--       (st c m0 inp t).mem = m0 ∧
--       (presented c m0 inp t = true → (st c m0 inp (t + 1)).ack = true)
-- Same reason as `mem_is_abs` (first conjunct only; the second is unconditional).
-- Counterexample: `c = ⟨8, 8, false⟩`, `m0 = fun _ => 256`, idle inputs with `adr = 0`, `t = 1`.
theorem c15_readonly_immutable_cex :
    (st ⟨8, 8, false⟩ (fun _ => 256) (fun _ => ⟨false, false, false, 0, fun _ => false, 0⟩) 1).mem 0 = 0 := by
  decide

theorem c15_absMem_readonly (c : Cfg) (hro : c.writable = false) (m0 : Nat → Nat) (inp : Nat → In)
    (t : Nat) : absMem c m0 inp t = m0 := by
  induction t with
  | zero => rfl
  | succ t ih =>
    funext a
    show (if c.writable && presented c m0 inp t && (inp t).we && (a == (inp t).adr) then _ else _) = _
    rw [hro, ih]; simp

/-- `readonly_immutable` under the ADDED hypothesis that every initial word fits in
    `lanes * gran` bits (conclusion unchanged) -/
theorem readonly_immutable_partial (c : Cfg) (hro : c.writable = false) (m0 : Nat → Nat)
    (inp : Nat → In) (hm : ∀ a, m0 a < 2 ^ (c.lanes * c.gran)) (t : Nat) :
    (st c m0 inp t).mem = m0 ∧
    (presented c m0 inp t = true → (st c m0 inp (t + 1)).ack = true) := by
  refine ⟨?_, fun hp => by rw [(ack_exact c m0 inp t).2]; exact hp⟩
  rw [mem_is_abs_partial c m0 inp hm t, c15_absMem_readonly c hro]

theorem readonly_immutable_partial_dw (c : Cfg) (hro : c.writable = false) (hd : c.gran ∣ c.dw)
    (m0 : Nat → Nat) (inp : Nat → In) (hm : ∀ a, m0 a < 2 ^ c.dw) (t : Nat) :
    (st c m0 inp t).mem = m0 ∧
    (presented c m0 inp t = true → (st c m0 inp (t + 1)).ack = true) :=
  readonly_immutable_partial c hro m0 inp (by rw [c15_lanes_mul_gran c hd]; exact hm) t

/-- the unconditional part of `readonly_immutable`: a read-only SRAM acknowledges every presented
    transfer (reads and writes alike), and its stored words only ever change by truncation -/
theorem c15_readonly_trunc (c : Cfg) (hro : c.writable = false) (m0 : Nat → Nat) (inp : Nat → In)
    (t : Nat) (a : Nat) :
    (st c m0 inp t).mem a = m0 a ∨ (st c m0 inp t).mem a = m0 a % 2 ^ (c.lanes * c.gran) := by
  induction t with
  | zero => exact Or.inl rfl
  | succ t ih =>
    show (next c (st c m0 inp t) (inp t)).mem a = _ ∨ (next c (st c m0 inp t) (inp t)).mem a = _
    rw [c15_mem_step, hro]
    by_cases ha : a = (inp t).adr
    · simp only [ha, if_true, Bool.false_and]
      rw [← ha]
      rcases ih with h | h
      · right; rw [h]; simp
      · right; rw [h]; simp
    · simp only [ha, if_false]; exact ih

/-! ## unconditional forms for real memories

`amaranth.lib.memory.Memory(shape=unsigned(data_width), init=…)` holds every init word cast to
`data_width` bits and zero beyond the image; `image` is that content. For it the hypothesis of the
`_partial_dw` theorems holds by construction, so the property's statements are unconditional in the
init list given to the constructor (or assigned through `init`). -/

/-- what the memory holds initially for the init list `init` -/
def image (c : Cfg) (init : List Nat) : Nat → Nat := fun a => init.getD a 0 % 2 ^ c.dw

theorem c15_image_lt (c : Cfg) (init : List Nat) (a : Nat) : image c init a < 2 ^ c.dw :=
  Nat.mod_lt _ (Nat.two_pow_pos _)

/-- the stored memory is the abstract memory (initial image, then the masked writes of the
    presented write transfers), for every init list and every input history -/
theorem mem_is_abs_image (c : Cfg) (hd : c.gran ∣ c.dw) (init : List Nat) (inp : Nat → In) (t : Nat) :
    (st c (image c init) inp t).mem = absMem c (image c init) inp t :=
  mem_is_abs_partial_dw c hd (image c init) inp (c15_image_lt c init) t

/-- a presented read returns, with its acknowledge one cycle later, the value most recently written
    to that word (initially the init image), for every init list and every input history -/
theorem read_your_writes_image (c : Cfg) (hd : c.gran ∣ c.dw) (init : List Nat) (inp : Nat → In) (t : Nat)
    (hp : presented c (image c init) inp t = true) (hr : (inp t).we = false) :
    (st c (image c init) inp (t + 1)).ack = true ∧
    (st c (image c init) inp (t + 1)).rdat = absMem c (image c init) inp t (inp t).adr :=
  read_your_writes_partial_dw c hd (image c init) inp (c15_image_lt c init) t hp hr

/-- a read-only SRAM acknowledges writes but never changes its contents, for every init list -/
theorem readonly_immutable_image (c : Cfg) (hro : c.writable = false) (hd : c.gran ∣ c.dw)
    (init : List Nat) (inp : Nat → In) (t : Nat) :
    (st c (image c init) inp t).mem = image c init ∧
    (presented c (image c init) inp t = true → (st c (image c init) inp (t + 1)).ack = true) :=
  readonly_immutable_partial_dw c hro hd (image c init) inp (c15_image_lt c init) t


/-- non-vacuity: 32-bit words of 8-bit granules; a masked write held through its acknowledge is
    performed once; the read that follows returns the merged word with its acknowledge -/
example :
    let c : Cfg := ⟨32, 8, true⟩
    let inp : Nat → In := fun t =>
      match t with
      | 0 => ⟨true, true, true, 1, fun i => i == 0 || i == 2, 0xAABBCCDD⟩
      | 1 => ⟨true, true, true, 1, fun _ => true, 0x11111111⟩      -- held through the ack: ignored
      | 2 => ⟨true, true, false, 1, fun _ => true, 0⟩
      | _ => ⟨false, false, false, 0, fun _ => false, 0⟩
    (st c (fun _ => 0x01020304) inp 2).mem 1 = 0x01BB03DD ∧
    (st c (fun _ => 0x01020304) inp 3).ack = true ∧ (st c (fun _ => 0x01020304) inp 3).rdat = 0x01BB03DD ∧
    (st c (fun _ => 0x01020304) inp 4).ack = false := by
  decide

end Sram
