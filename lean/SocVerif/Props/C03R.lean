import SocVerif.Props.C02
import SocVerif.Props.C03
/-!
# C02 ⇒ C03: every memory map that can be built through the API is a well-formed tree

C03's theorems (`decode_iff_reported`, `all_sorted`, `find_eq_all`, …) assume `Tree.okList`: ranges
non-empty, siblings ascending and disjoint, a window's translated contents fit in its range, and
the three `_translate` asserts (divisibility by the ratio). This file shows that for every map of
every world reachable by `add_resource` / `add_window` / `align_to` / `freeze` histories the
structural part always holds, so `Tree.okList` follows from the asserts alone
(`Tree.allOkList`, which is what the real `all_resources()` checks with `assert`).
Available: Props/C02.lean (`MInv`, `inv_reachable`, `addResource_spec`, `addWindow_spec`,
`c02_*` extraction lemmas in C02Lemmas.lean, `RangeMap.RInv`), Props/C03.lean (`Tree.ok`,
`Tree.okList`, `all_within`, …). Helper lemmas/defs (prefixed `c03r_`) may be added ABOVE the
theorems; model definitions and theorem statements are fixed.
-/
namespace MemMap
open RangeMap Names

/- the structural part of well-formedness, for trees of any depth: every item has a non-empty
   range; siblings are ascending and disjoint; a window has a positive ratio and its children
   (recursively structural) all end at or below some bound `cb` with `cb / step ≤ e - s` -/
mutual
def Tree.struct : Tree → Prop
  | .res _ _ s e => s < e
  | .win _ _ s e step _ kids _ => s < e ∧ 0 < step ∧ Tree.structList kids ∧
      ∃ cb, (∀ k ∈ kids, k.hi ≤ cb) ∧ cb / step ≤ e - s
def Tree.structList : List Tree → Prop
  | [] => True
  | t :: ts => t.struct ∧ Tree.structList ts ∧ ∀ u ∈ ts, t.hi ≤ u.lo
end

/-! ### helper lemmas for `ok_of_struct` -/
mutual
theorem c03r_ok_aux : ∀ (t : Tree), t.struct → t.allOk = true → t.ok
  | .res _ _ s e, hs, _ => by simpa only [Tree.struct, Tree.ok] using hs
  | .win _ _ s e step cdw kids _, hs, ha => by
    simp only [Tree.struct] at hs
    obtain ⟨hse, hstep, hk, cb, hcb, hdiv⟩ := hs
    simp only [Tree.allOk, Bool.and_eq_true, List.all_eq_true] at ha
    obtain ⟨hak, htr⟩ := ha
    have hkids := c03r_okList_aux kids hk hak
    simp only [Tree.ok]
    refine ⟨hstep, hse, hkids, ?_⟩
    intro i hi
    have ht := htr i hi
    simp only [translateOk, Bool.and_eq_true, beq_iff_eq] at ht
    obtain ⟨u, hu, _, hue⟩ := allList_within_later cdw kids hkids i hi
    have h1 := hcb u hu
    have h2 : i.e / step ≤ cb / step := Nat.div_le_div_right (by omega)
    refine ⟨ht.1.2, ht.1.1, ?_⟩
    generalize i.e / step = q1 at *
    generalize cb / step = q2 at *
    omega
theorem c03r_okList_aux : ∀ (ts : List Tree), Tree.structList ts → Tree.allOkList ts = true →
    Tree.okList ts
  | [], _, _ => by simp only [Tree.okList]
  | t :: ts, hs, ha => by
    simp only [Tree.structList] at hs
    simp only [Tree.allOkList, Bool.and_eq_true] at ha
    simp only [Tree.okList]
    exact ⟨c03r_ok_aux t hs.1 ha.1, c03r_okList_aux ts hs.2.1 ha.2, hs.2.2⟩
end

/-- structure + the `_translate` asserts = C03's well-formedness -/
theorem ok_of_struct (ts : List Tree) (hs : Tree.structList ts) (ha : Tree.allOkList ts = true) :
    Tree.okList ts :=
  c03r_okList_aux ts hs ha

/-- the constructor's own validation: `MemoryMap(data_width=…)` must be positive -/
def OpsValid (ops : List Op) : Prop := ∀ op ∈ ops, match op with | .new _ dw _ => 0 < dw | _ => True

/-! ### helper lemmas for `reachable_struct` -/

theorem c03r_structList_iff : ∀ ts : List Tree,
    Tree.structList ts ↔ (∀ t ∈ ts, t.struct) ∧ ts.Pairwise (fun a b => a.hi ≤ b.lo)
  | [] => by simp [Tree.structList]
  | t :: ts => by
    simp only [Tree.structList, c03r_structList_iff ts, List.forall_mem_cons, List.pairwise_cons]
    constructor
    · rintro ⟨h1, ⟨h2, h3⟩, h4⟩; exact ⟨⟨h1, h2⟩, h4, h3⟩
    · rintro ⟨⟨h1, h2⟩, h4, h3⟩; exact ⟨h1, ⟨h2, h3⟩, h4⟩

/-- per-map invariant: C02's allocation invariant, a positive data width, every item structural -/
def c03r_MI (m : MMap) : Prop := MInv m ∧ 0 < m.dw ∧ ∀ t ∈ m.items, t.struct
def c03r_WI (w : World) : Prop := ∀ m ∈ w, c03r_MI m

theorem c03r_MI_structList {m : MMap} (h : c03r_MI m) : Tree.structList m.items :=
  (c03r_structList_iff _).mpr ⟨h.2.2, items_ascending m h.1⟩

theorem c03r_WI_set {w : World} (hw : c03r_WI w) {m' : MMap} (hm' : c03r_MI m') (h : Nat) :
    c03r_WI (w.set h m') := by
  intro x hx
  rcases List.mem_or_eq_of_mem_set hx with hx | rfl
  · exact hw x hx
  · exact hm'

theorem c03r_addWindow_dw {m : MMap} {h : Nat} {child : MMap} {name : Option Name} {addr : Option Nat}
    {sparse : Option Bool} {m' : MMap} {s e r : Nat}
    (hw : addWindow m h child name addr sparse = some (m', s, e, r)) :
    child.dw ≤ m.dw ∧ m'.dw = m.dw := by
  unfold addWindow at hw
  obtain ⟨h1, hw⟩ := ite_none_eq_some hw
  obtain ⟨h2, hw⟩ := ite_none_eq_some hw
  obtain ⟨h3, hw⟩ := ite_none_eq_some hw
  obtain ⟨h4, hw⟩ := ite_none_eq_some hw
  obtain ⟨h5, hw⟩ := ite_none_eq_some hw
  obtain ⟨h6, hw⟩ := ite_none_eq_some hw
  simp only at hw
  obtain ⟨h7, hw⟩ := ite_none_eq_some hw
  obtain ⟨h8, hw⟩ := ite_none_eq_some hw
  obtain ⟨h9, hw⟩ := ite_none_eq_some hw
  generalize (if (sparse == some true) = true then 1 else m.dw / child.dw) = ratio at hw ⊢
  cases hc : computeRange m addr (2 ^ child.aw / ratio) (max m.al (child.aw / ratio)) with
  | none => rw [hc] at hw; cases hw
  | some p =>
    obtain ⟨s', e'⟩ := p
    rw [hc] at hw
    simp only [Option.some.injEq, Prod.mk.injEq] at hw
    obtain ⟨rfl, rfl, rfl, rfl⟩ := hw
    exact ⟨by omega, rfl⟩

theorem c03r_step (w : World) (hw : c03r_WI w) (op : Op)
    (hv : match op with | .new _ dw _ => 0 < dw | _ => True) : c03r_WI (step w op).1 := by
  cases op with
  | new aw dw al =>
    simp only [step]
    intro m hm
    rcases List.mem_append.mp hm with hm | hm
    · exact hw m hm
    · simp only [List.mem_singleton] at hm
      subst hm
      exact ⟨⟨⟨by simp [ranges], by simp [ranges]⟩, by simp⟩, hv, by simp⟩
  | res h id name size addr al =>
    simp only [step]
    cases hm : w[h]? with
    | none => exact hw
    | some m =>
      simp only
      cases ha : addResource m id name size addr al with
      | none => exact hw
      | some p =>
        obtain ⟨m', s, e⟩ := p
        have hmI := hw m (List.mem_of_getElem? hm)
        have sp := addResource_spec m hmI.1 id name size addr al m' s e ha
        obtain ⟨_, _, rfl⟩ := c02_addResource_some ha
        refine c03r_WI_set hw ?_ h
        refine ⟨sp.2.2.2.2.2.2.2, hmI.2.1, ?_⟩
        intro t ht
        rcases List.mem_cons.mp ((insertItem_perm _ _).mem_iff.mp ht) with rfl | ht
        · simp only [Tree.struct]; exact sp.2.1
        · exact hmI.2.2 t ht
  | win h ch name addr sparse =>
    simp only [step]
    cases hm : w[h]? with
    | none => exact hw
    | some m =>
      cases hc : w[ch]? with
      | none => exact hw
      | some c =>
        simp only
        cases ha : addWindow m ch c name addr sparse with
        | none => exact hw
        | some p =>
          obtain ⟨m', s, e, r⟩ := p
          have hmI := hw m (List.mem_of_getElem? hm)
          have hcI := hw c (List.mem_of_getElem? hc)
          have sp := addWindow_spec m hmI.1 ch c name addr sparse m' s e r ha
          obtain ⟨_, _, _, _, _, hit⟩ := c02_addWindow_some ha
          obtain ⟨hdw, hdw'⟩ := c03r_addWindow_dw ha
          have hcI' : c03r_MI { c with frozen := true } := ⟨hcI.1.congr rfl rfl, hcI.2.1, hcI.2.2⟩
          refine c03r_WI_set (c03r_WI_set hw hcI' ch) ?_ h
          refine ⟨sp.2.2.2.2.2.2.2.2, by rw [hdw']; exact hmI.2.1, ?_⟩
          intro t ht
          rw [hit] at ht
          rcases List.mem_cons.mp ((insertItem_perm _ _).mem_iff.mp ht) with rfl | ht
          · simp only [Tree.struct]
            refine ⟨sp.2.2.1, ?_, c03r_MI_structList hcI, 2 ^ c.aw, hcI.1.bound, ?_⟩
            · rw [sp.1]
              split
              · omega
              · exact Nat.div_pos hdw hcI.2.1
            · have h0 := sp.2.1
              have h1 := alignUp_ge (max (2 ^ c.aw / r) 1) (max m.al (c.aw / r))
              generalize alignUp (max (2 ^ c.aw / r) 1) (max m.al (c.aw / r)) = A at *
              generalize 2 ^ c.aw / r = q at *
              omega
          · exact hmI.2.2 t ht
  | align h a =>
    simp only [step]
    cases hm : w[h]? with
    | none => exact hw
    | some m =>
      simp only
      have hmI := hw m (List.mem_of_getElem? hm)
      apply c03r_WI_set hw
      exact ⟨hmI.1.congr rfl rfl, hmI.2.1, hmI.2.2⟩
  | freeze h =>
    simp only [step]
    cases hm : w[h]? with
    | none => exact hw
    | some m =>
      simp only
      have hmI := hw m (List.mem_of_getElem? hm)
      apply c03r_WI_set hw
      exact ⟨hmI.1.congr rfl rfl, hmI.2.1, hmI.2.2⟩

theorem c03r_run (ops : List Op) : ∀ w : World, c03r_WI w → OpsValid ops → c03r_WI (run w ops) := by
  induction ops with
  | nil => intro w hw _; exact hw
  | cons op ops ih =>
    intro w hw hv
    exact ih _ (c03r_step w hw op (hv op (List.mem_cons_self ..)))
      (fun o ho => hv o (List.mem_cons_of_mem _ ho))

/-- every map of every reachable world is structurally well-formed (all nesting depths) -/
theorem reachable_struct (ops : List Op) (hv : OpsValid ops) : ∀ m ∈ run [] ops, Tree.structList m.items := by
  intro m hm
  exact c03r_MI_structList (c03r_run ops [] (by intro m hm; cases hm) hv m hm)

/-- hence: for every map the API can build, if `all_resources()` raises no assertion, the map is a
    well-formed tree and all of C03 applies to it -/
theorem reachable_ok (ops : List Op) (hv : OpsValid ops) (m : MMap) (hm : m ∈ run [] ops)
    (ha : Tree.allOkList m.items = true) : Tree.okList m.items :=
  ok_of_struct m.items (reachable_struct ops hv m hm) ha

/- for maps without dense windows (every ratio 1: sparse and same-width windows at any depth) the
    asserts always hold, so such maps are unconditionally well-formed -/
mutual
def Tree.ratioOne : Tree → Prop
  | .res .. => True
  | .win _ _ _ _ step _ kids _ => step = 1 ∧ Tree.ratioOneList kids
def Tree.ratioOneList : List Tree → Prop
  | [] => True
  | t :: ts => t.ratioOne ∧ Tree.ratioOneList ts
end

mutual
theorem c03r_allOk_aux : ∀ (t : Tree), t.ratioOne → t.allOk = true
  | .res .., _ => by simp only [Tree.allOk]
  | .win _ _ _ _ step cdw kids _, h => by
    simp only [Tree.ratioOne] at h
    obtain ⟨rfl, hk⟩ := h
    simp only [Tree.allOk, Bool.and_eq_true, List.all_eq_true]
    refine ⟨c03r_allOkList_aux kids hk, ?_⟩
    intro i _
    simp [translateOk, Nat.mod_one]
theorem c03r_allOkList_aux : ∀ (ts : List Tree), Tree.ratioOneList ts → Tree.allOkList ts = true
  | [], _ => by simp only [Tree.allOkList]
  | t :: ts, h => by
    simp only [Tree.ratioOneList] at h
    simp only [Tree.allOkList, Bool.and_eq_true]
    exact ⟨c03r_allOk_aux t h.1, c03r_allOkList_aux ts h.2⟩
end

theorem allOk_of_ratioOne (ts : List Tree) (h : Tree.ratioOneList ts) : Tree.allOkList ts = true :=
  c03r_allOkList_aux ts h

/-- non-vacuity: a concrete history (child map with a resource, windowed into a root that also has a
    resource) is valid, reaches a root with a non-empty window, and its asserts hold -/
example : OpsValid [.new 4 8 0, .res 0 0 [.str "a"] 3 none none, .new 2 8 0, .res 1 1 [.str "b"] 2 none none,
    .win 0 1 (some [.str "w"]) none none] := by
  intro op hop; simp at hop; rcases hop with h | h | h | h | h <;> subst h <;> simp

example : ((run [] [.new 4 8 0, .res 0 0 [.str "a"] 3 none none, .new 2 8 0, .res 1 1 [.str "b"] 2 none none,
    .win 0 1 (some [.str "w"]) none none]).head?.map (fun m => (m.items.length, Tree.allOkList m.items))) = some (2, true) := by
  decide

end MemMap
