import SocVerif.MemMap
import SocVerif.Props.C02Lemmas
/-!
# C02 — memory-map allocation never overlaps, overflows, misaligns or half-applies

Property theorems about the `MemMap` model (all histories of operations, all sizes).
Helper lemmas may be added ABOVE the theorems; the definitions of `SocVerif/MemMap.lean` and the
statements below are fixed.
-/
namespace MemMap
open RangeMap Names

/-- invariant of one map: the range list is sorted by start, ranges are non-empty and pairwise
    disjoint (`RInv`), every range ends inside `[0, 2^aw]`, and the cursor is inside too. -/
structure MInv (m : MMap) : Prop where
  rinv  : RInv (ranges m.items)
  bound : ∀ t ∈ m.items, t.hi ≤ 2 ^ m.aw

def WInv (w : World) : Prop := ∀ m ∈ w, MInv m

/-- inserting a fresh, bounded, non-overlapping item keeps the map invariant -/
theorem MInv.insert {m : MMap} (hm : MInv m) (t : Tree) (hlt : t.lo < t.hi) (hb : t.hi ≤ 2 ^ m.aw)
    (hno : overlaps (ranges m.items) ⟨t.lo, t.hi⟩ = []) (m' : MMap) (haw : m'.aw = m.aw)
    (hit : m'.items = insertItem m.items t) : MInv m' := by
  refine ⟨?_, ?_⟩
  · rw [hit, ranges_insertItem]
    exact insert_inv hm.rinv t.rng hlt hno
  · intro x hx
    rw [hit] at hx
    have := (insertItem_perm m.items t).mem_iff.mp hx
    rw [haw]
    rcases List.mem_cons.mp this with rfl | hx
    · exact hb
    · exact hm.bound x hx

theorem MInv.sep {m : MMap} (hm : MInv m) (s e : Nat) (hlt : s < e)
    (hno : overlaps (ranges m.items) ⟨s, e⟩ = []) : ∀ t ∈ m.items, t.hi ≤ s ∨ e ≤ t.lo := by
  intro t ht
  have := sep_of_no_overlap hm.rinv ⟨s, e⟩ hlt hno t.rng (List.mem_map_of_mem ht)
  exact this

theorem MInv.congr {m m' : MMap} (hm : MInv m) (haw : m'.aw = m.aw) (hit : m'.items = m.items) :
    MInv m' := by
  refine ⟨?_, ?_⟩
  · rw [hit]; exact hm.rinv
  · rw [hit, haw]; exact hm.bound

theorem alignUp_pos (size a : Nat) : 1 ≤ alignUp (max size 1) a :=
  Nat.le_trans (Nat.le_max_right ..) (alignUp_ge ..)

/-- `_align_up v a` is the least multiple of `2^a` that is `≥ v` -/
theorem alignUp_spec (v a : Nat) :
    v ≤ alignUp v a ∧ alignUp v a % 2 ^ a = 0 ∧ ∀ x, v ≤ x → x % 2 ^ a = 0 → alignUp v a ≤ x := by
  exact ⟨alignUp_ge v a, alignUp_mod v a, fun x h1 h2 => alignUp_least v a x h1 h2⟩

/-- what a successful `add_resource` hands out (size, bounds, explicit/implicit placement,
    cursor) and that it is disjoint from everything handed out before -/
theorem addResource_spec (m : MMap) (hm : MInv m) (id : Nat) (name : Name) (size : Nat)
    (addr al : Option Nat) (m' : MMap) (s e : Nat)
    (h : addResource m id name size addr al = some (m', s, e)) :
    let eff := match al with | some a => max a m.al | none => m.al
    e - s = alignUp (max size 1) eff ∧ s < e ∧ e ≤ 2 ^ m.aw ∧
    (match addr with
     | some a => s = a
     | none => s = alignUp m.next eff) ∧
    m'.next = e ∧
    (∀ t ∈ m.items, t.hi ≤ s ∨ e ≤ t.lo) ∧
    m'.items.Perm (Tree.res id name s e :: m.items) ∧
    MInv m' := by
  obtain ⟨_, hc, rfl⟩ := c02_addResource_some h
  obtain ⟨he, hb, ha, hno⟩ := computeRange_some hc
  have hpos := alignUp_pos size (effAl m al)
  have hlt : s < e := by omega
  have hsz : e - s = alignUp (max size 1) (effAl m al) := by omega
  have hsep := hm.sep s e hlt hno
  have hperm := insertItem_perm m.items (.res id name s e)
  cases al <;> cases addr <;> exact ⟨hsz, hlt, hb, ha, rfl, hsep, hperm,
    hm.insert (.res id name s e) hlt hb hno _ rfl rfl⟩

theorem addWindow_spec (m : MMap) (hm : MInv m) (h : Nat) (child : MMap) (name : Option Name)
    (addr : Option Nat) (sparse : Option Bool) (m' : MMap) (s e r : Nat)
    (hw : addWindow m h child name addr sparse = some (m', s, e, r)) :
    let eff := max m.al (child.aw / r)
    r = (if sparse = some true then 1 else m.dw / child.dw) ∧
    e - s = alignUp (max (2 ^ child.aw / r) 1) eff ∧ s < e ∧ e ≤ 2 ^ m.aw ∧
    (match addr with
     | some a => s = a
     | none => s = alignUp m.next eff) ∧
    m'.next = e ∧
    (∀ t ∈ m.items, t.hi ≤ s ∨ e ≤ t.lo) ∧
    (∃ t, t.lo = s ∧ t.hi = e ∧ t.isRes = false ∧ t.ident = h ∧ m'.items.Perm (t :: m.items)) ∧
    MInv m' := by
  obtain ⟨_, hr, hc, haw, hnext, hit⟩ := c02_addWindow_some hw
  obtain ⟨he, hb, ha, hno⟩ := computeRange_some hc
  have hpos := alignUp_pos (2 ^ child.aw / r) (max m.al (child.aw / r))
  have hlt : s < e := by omega
  have hI : MInv m' :=
    hm.insert (Tree.win h name s e r child.dw child.items (winOrder child)) hlt hb hno _ haw hit
  have hsep := hm.sep s e hlt hno
  have hperm := insertItem_perm m.items (Tree.win h name s e r child.dw child.items (winOrder child))
  rw [← hit] at hperm
  have hr' : r = (if sparse = some true then 1 else m.dw / child.dw) := by
    rw [hr]; cases sparse with
    | none => rfl
    | some b => cases b <;> rfl
  cases addr <;> exact ⟨hr', by omega, hlt, hb, ha, hnext, hsep, ⟨_, rfl, rfl, rfl, rfl, hperm⟩, hI⟩

theorem WInv.set {w : World} (hw : WInv w) {m' : MMap} (hm' : MInv m') (h : Nat) :
    WInv (w.set h m') := by
  intro x hx
  rcases List.mem_or_eq_of_mem_set hx with hx | rfl
  · exact hw x hx
  · exact hm'

theorem step_inv (w : World) (hw : WInv w) (op : Op) : WInv (step w op).1 := by
  cases op with
  | new aw dw al =>
    simp only [step]
    intro m hm
    rcases List.mem_append.mp hm with hm | hm
    · exact hw m hm
    · simp only [List.mem_singleton] at hm
      subst hm
      exact ⟨⟨by simp [ranges], by simp [ranges]⟩, by simp⟩
  | res h id name size addr al =>
    simp only [step]
    cases hm : w[h]? with
    | none => exact hw
    | some m =>
      simp only
      cases ha : addResource m id name size addr al with
      | none => exact hw
      | some p =>
        obtain ⟨m', s, e⟩ := p
        have := addResource_spec m (hw m (List.mem_of_getElem? hm)) id name size addr al m' s e ha
        exact hw.set this.2.2.2.2.2.2.2 h
  | win h ch name addr sparse =>
    simp only [step]
    cases hm : w[h]? with
    | none => exact hw
    | some m =>
      cases hc : w[ch]? with
      | none => exact hw
      | some c =>
        simp only
        cases ha : addWindow m ch c name addr sparse with
        | none => exact hw
        | some p =>
          obtain ⟨m', s, e, r⟩ := p
          have := addWindow_spec m (hw m (List.mem_of_getElem? hm)) ch c name addr sparse m' s e r ha
          have hcI : MInv { c with frozen := true } :=
            (hw c (List.mem_of_getElem? hc)).congr rfl rfl
          exact (hw.set hcI ch).set this.2.2.2.2.2.2.2.2 h
  | align h a =>
    simp only [step]
    cases hm : w[h]? with
    | none => exact hw
    | some m =>
      simp only
      apply WInv.set hw
      exact (hw m (List.mem_of_getElem? hm)).congr rfl rfl
  | freeze h =>
    simp only [step]
    cases hm : w[h]? with
    | none => exact hw
    | some m =>
      simp only
      apply WInv.set hw
      exact (hw m (List.mem_of_getElem? hm)).congr rfl rfl

theorem run_inv (ops : List Op) : ∀ w : World, WInv w → WInv (run w ops) := by
  induction ops with
  | nil => intro w hw; exact hw
  | cons op ops ih =>
    intro w hw
    exact ih _ (step_inv w hw op)

/-- a frozen map stays frozen (and at the same handle) across one operation -/
theorem step_frozen (w : World) (op : Op) (h : Nat) (m : MMap) (hm : w[h]? = some m)
    (hf : m.frozen = true) : ∃ m', (step w op).1[h]? = some m' ∧ m'.frozen = true := by
  have hlt : h < w.length := (List.getElem?_eq_some_iff.mp hm).1
  -- setting any handle to a frozen-preserving value
  have hset : ∀ (k : Nat) (x : MMap), (k = h → x.frozen = true) →
      ∃ m', (w.set k x)[h]? = some m' ∧ m'.frozen = true := by
    intro k x hx
    by_cases hk : k = h
    · subst hk
      exact ⟨x, by rw [List.getElem?_set_self hlt], hx rfl⟩
    · exact ⟨m, by rw [List.getElem?_set_ne hk]; exact hm, hf⟩
  cases op with
  | new aw dw al =>
    simp only [step]
    exact ⟨m, by rw [List.getElem?_append_left hlt]; exact hm, hf⟩
  | res k id name size addr al =>
    simp only [step]
    cases hk : w[k]? with
    | none => exact ⟨m, hm, hf⟩
    | some mk =>
      simp only
      cases ha : addResource mk id name size addr al with
      | none => exact ⟨m, hm, hf⟩
      | some p =>
        obtain ⟨m', s, e⟩ := p
        apply hset
        intro hkh
        subst hkh
        rw [hm] at hk
        cases hk
        have := (c02_addResource_some ha).1
        rw [hf] at this
        cases this
  | win k ch name addr sparse =>
    simp only [step]
    cases hk : w[k]? with
    | none => exact ⟨m, hm, hf⟩
    | some mk =>
      cases hc : w[ch]? with
      | none => exact ⟨m, hm, hf⟩
      | some c =>
        simp only
        cases ha : addWindow mk ch c name addr sparse with
        | none => exact ⟨m, hm, hf⟩
        | some p =>
          obtain ⟨m', s, e, r⟩ := p
          simp only
          have hkh : k ≠ h := by
            intro hkh
            subst hkh
            rw [hm] at hk
            cases hk
            have := (c02_addWindow_some ha).1
            rw [hf] at this
            cases this
          rw [List.getElem?_set_ne hkh]
          exact hset ch _ (fun _ => rfl)
  | align k a =>
    simp only [step]
    cases hk : w[k]? with
    | none => exact ⟨m, hm, hf⟩
    | some mk =>
      apply hset
      intro hkh
      subst hkh
      rw [hm] at hk
      cases hk
      exact hf
  | freeze k =>
    simp only [step]
    cases hk : w[k]? with
    | none => exact ⟨m, hm, hf⟩
    | some mk => exact hset k _ (fun _ => rfl)

/-- every reachable world satisfies the invariant: ranges handed out are pairwise disjoint,
    inside `[0, 2^aw)`, and stored in ascending order (what `resources()`/`windows()` iterate) -/
theorem inv_reachable (ops : List Op) : WInv (run [] ops) := by
  exact run_inv ops [] (by intro m hm; cases hm)

/-- ascending address order of the stored items (hence of `resources()` and `windows()`) -/
theorem items_ascending (m : MMap) (hm : MInv m) : m.items.Pairwise (fun a b => a.hi ≤ b.lo) := by
  have := hm.rinv.sorted
  unfold ranges at this
  rw [List.pairwise_map] at this
  exact this

/-- a call that raises leaves the world unchanged (every query and the next implicit placement) -/
theorem refusal_atomic (w : World) (op : Op) (h : (step w op).2 = .refused) : (step w op).1 = w := by
  cases op with
  | new aw dw al => simp [step] at h
  | res k id name size addr al =>
    simp only [step] at h ⊢
    cases hk : w[k]? with
    | none => rfl
    | some mk =>
      rw [hk] at h
      simp only at h ⊢
      cases ha : addResource mk id name size addr al with
      | none => rfl
      | some p => rw [ha] at h; cases h
  | win k ch name addr sparse =>
    simp only [step] at h ⊢
    cases hk : w[k]? with
    | none => rfl
    | some mk =>
      cases hc : w[ch]? with
      | none => rfl
      | some c =>
        rw [hk, hc] at h
        simp only at h ⊢
        cases ha : addWindow mk ch c name addr sparse with
        | none => rfl
        | some p => rw [ha] at h; cases h
  | align k a =>
    simp only [step] at h ⊢
    cases hk : w[k]? with
    | none => rfl
    | some mk => rw [hk] at h; cases h
  | freeze k =>
    simp only [step] at h ⊢
    cases hk : w[k]? with
    | none => rfl
    | some mk => rw [hk] at h; cases h

theorem frozen_refuses_resource (m : MMap) (hf : m.frozen = true) (id : Nat) (name : Name) (size : Nat)
    (addr al : Option Nat) : addResource m id name size addr al = none := by
  unfold addResource
  rw [if_pos hf]

theorem frozen_refuses_window (m : MMap) (hf : m.frozen = true) (h : Nat) (c : MMap) (name : Option Name)
    (addr : Option Nat) (sparse : Option Bool) : addWindow m h c name addr sparse = none := by
  unfold addWindow
  rw [if_pos hf]

/-- a map used as a window is frozen from then on -/
theorem window_freezes_child (w w' : World) (h ch : Nat) (name : Option Name) (addr : Option Nat)
    (sparse : Option Bool) (vals : List Nat) (hne : h ≠ ch)
    (hs : step w (.win h ch name addr sparse) = (w', .ok vals)) :
    ∃ c, w'[ch]? = some c ∧ c.frozen = true := by
  simp only [step] at hs
  cases hk : w[h]? with
  | none => rw [hk] at hs; cases hs
  | some mk =>
    cases hc : w[ch]? with
    | none => rw [hk, hc] at hs; cases hs
    | some c =>
      rw [hk, hc] at hs
      simp only at hs
      cases ha : addWindow mk ch c name addr sparse with
      | none => rw [ha] at hs; cases hs
      | some p =>
        obtain ⟨m', s, e, r⟩ := p
        rw [ha] at hs
        simp only [Prod.mk.injEq] at hs
        obtain ⟨rfl, _⟩ := hs
        have hlt : ch < w.length := (List.getElem?_eq_some_iff.mp hc).1
        exact ⟨{ c with frozen := true }, by rw [List.getElem?_set_ne hne, List.getElem?_set_self hlt], rfl⟩

/-- freezing is permanent: no operation un-freezes a map -/
theorem frozen_forever (w : World) (ops : List Op) (h : Nat) (m : MMap) (hm : w[h]? = some m)
    (hf : m.frozen = true) : ∃ m', (run w ops)[h]? = some m' ∧ m'.frozen = true := by
  induction ops generalizing w m with
  | nil => exact ⟨m, hm, hf⟩
  | cons op ops ih =>
    obtain ⟨m1, h1, hf1⟩ := step_frozen w op h m hm hf
    exact ih _ m1 h1 hf1

/-- `align_to` moves the cursor to the least multiple of `2^max(a, alignment)` at or after it and
    changes nothing else -/
theorem alignTo_spec (m : MMap) (a : Nat) :
    (alignTo m a).2 = alignUp m.next (max a m.al) ∧ (alignTo m a).1.next = (alignTo m a).2 ∧
    (alignTo m a).1.items = m.items ∧ (alignTo m a).1.names = m.names ∧
    (alignTo m a).1.frozen = m.frozen := by
  exact ⟨rfl, rfl, rfl, rfl, rfl⟩

/-- non-vacuity: a concrete non-trivial history reaches a state with three disjoint items -/
example : ((run [] [.new 4 8 0, .res 0 0 [.str "a"] 3 none none, .res 0 1 [.str "b"] 2 (some 8) (some 1),
    .new 2 8 0, .win 0 1 none none none]).head?.map (fun m => m.items.length)) = some 3 := by
  decide

end MemMap
