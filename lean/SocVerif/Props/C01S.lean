import SocVerif.Props.C01D
/-!
# C01 (closed system) — the whole Wishbone root, closed: no wiring hypotheses left

`Props/C01D.lean` states what a root transfer does under the hypotheses `BridgeAt` / `SramAt`
(subordinate `k` of the decoder IS a bridge / an SRAM: the wiring `connect()` makes) and `OthersQuiet`
(every other subordinate keeps its response lines low while it does not see `cyc`). Here the root is a
closed transition system: `wishbone.Decoder` in front of a list of subordinates, each a
`WishboneCSRBridge` (model `Bridge`) or a `WishboneSRAM` (model `Sram`), every subordinate fed with
the request the decoder model hands it and the decoder fed with the subordinates' responses.
`BridgeAt` / `SramAt` then hold by construction, and `OthersQuiet` is no longer assumed: it is an
INVARIANT of the closed system for every initiator that follows the Wishbone handshake (`Compliant`:
a request that has been presented is held until the cycle in which the acknowledge is seen).
The C01D theorems are re-stated with no hypothesis about the wiring and with the holding of the
request derived from `Compliant`.

Helper lemmas (prefixed `c01s_`) may be added ABOVE the theorems; definitions and theorem statements
are fixed.
-/
namespace E2ES
open Dec Bridge Mux CsrT E2ED

inductive SubKind where
  | bridge (W ratio : Nat)
  | sram (sc : Sram.Cfg) (m0 : Nat → Nat)

structure Sys where
  c : WbCfg
  kinds : List SubKind          -- `kinds[k]` is what subordinate `k` of the decoder is

/-- the request stream subordinate `k` sees (bridge side); `csrR k t` is the CSR read data the CSR
    side presents to bridge `k` in cycle `t` -/
def binp (sys : Sys) (W : Nat) (x : Nat → WbReq) (csrR : Nat → Nat → Nat) (k : Nat) : Nat → BIn :=
  fun t => toBIn W (wbSubReq sys.c (x t) k) (csrR k t)

/-- the request stream subordinate `k` sees (SRAM side) -/
def sinp (sys : Sys) (x : Nat → WbReq) (k : Nat) : Nat → Sram.In :=
  fun t => toSIn (wbSubReq sys.c (x t) k)

def quiet : WbResp := ⟨false, false, false, false, 0⟩

/-- the response of subordinate `k` in cycle `t`: a function of its own state only (both components
    register their acknowledge), so the closed system has no combinational loop -/
def resp (sys : Sys) (x : Nat → WbReq) (csrR : Nat → Nat → Nat) : Nat → Nat → WbResp := fun t k =>
  match sys.kinds[k]? with
  | some (.bridge W ratio) => bridgeResp W ratio (bst ratio (binp sys W x csrR k) t)
  | some (.sram sc m0) => sramResp (Sram.st sc m0 (sinp sys x k) t)
  | none => quiet

/-- what the initiator at the root sees in cycle `t` -/
def rootResp (sys : Sys) (x : Nat → WbReq) (csrR : Nat → Nat → Nat) (t : Nat) : WbResp :=
  wbResp sys.c (x t) (resp sys x csrR t)

/-- the Wishbone handshake on the initiator's side: a presented request (cyc and stb) is held
    unchanged into the next cycle unless it is acknowledged in this one -/
def Compliant (sys : Sys) (x : Nat → WbReq) (csrR : Nat → Nat → Nat) : Prop :=
  ∀ t, (x t).cyc = true → (x t).stb = true → (rootResp sys x csrR t).ack = false → x (t + 1) = x t

/-- one subordinate description per decoder window -/
def WellFormed (sys : Sys) : Prop := sys.kinds.length = sys.c.subs.length

/-! ## helper lemmas -/

theorem c01s_resp_bridge (sys : Sys) (x : Nat → WbReq) (csrR : Nat → Nat → Nat) (k W ratio : Nat)
    (hk : sys.kinds[k]? = some (.bridge W ratio)) (t : Nat) :
    resp sys x csrR t k = bridgeResp W ratio (bst ratio (binp sys W x csrR k) t) := by
  simp only [resp, hk]

theorem c01s_resp_sram (sys : Sys) (x : Nat → WbReq) (csrR : Nat → Nat → Nat) (k : Nat)
    (sc : Sram.Cfg) (m0 : Nat → Nat) (hk : sys.kinds[k]? = some (.sram sc m0)) (t : Nat) :
    resp sys x csrR t k = sramResp (Sram.st sc m0 (sinp sys x k) t) := by
  simp only [resp, hk]

theorem c01s_resp_none (sys : Sys) (x : Nat → WbReq) (csrR : Nat → Nat → Nat) (k : Nat)
    (hk : sys.kinds[k]? = none) (t : Nat) : resp sys x csrR t k = quiet := by
  simp only [resp, hk]

theorem c01s_bridge_at (sys : Sys) (x : Nat → WbReq) (csrR : Nat → Nat → Nat) (k W ratio : Nat)
    (hk : sys.kinds[k]? = some (.bridge W ratio)) :
    BridgeAt sys.c k W ratio x (resp sys x csrR) (binp sys W x csrR k) :=
  ⟨fun _ => rfl, fun t => c01s_resp_bridge sys x csrR k W ratio hk t⟩

theorem c01s_sram_at (sys : Sys) (x : Nat → WbReq) (csrR : Nat → Nat → Nat) (k : Nat) (sc : Sram.Cfg)
    (m0 : Nat → Nat) (hk : sys.kinds[k]? = some (.sram sc m0)) :
    SramAt sys.c k sc m0 x (resp sys x csrR) (sinp sys x k) :=
  ⟨fun _ => rfl, fun t => c01s_resp_sram sys x csrR k sc m0 hk t⟩

/-- a bridge's registered acknowledge rises only out of `cyc & stb` with the acknowledge low -/
theorem c01s_bnext_ack (ratio : Nat) (s : BState) (i : BIn) (h : (bnext ratio s i).ack = true) :
    i.cyc = true ∧ i.stb = true ∧ s.ack = false := by
  unfold bnext at h
  cases ha : s.ack with
  | true => simp [ha] at h
  | false =>
    by_cases hcs : (i.cyc && i.stb) = true
    · simp only [Bool.and_eq_true] at hcs
      exact ⟨hcs.1, hcs.2, rfl⟩
    · simp [hcs, ha] at h

/-- an SRAM's registered acknowledge rises only out of `cyc & stb` with the acknowledge low -/
theorem c01s_snext_ack (c : Sram.Cfg) (s : Sram.State) (x : Sram.In)
    (h : (Sram.next c s x).ack = true) : x.cyc = true ∧ x.stb = true ∧ s.ack = false := by
  have h' : (if s.ack then false else (x.cyc && x.stb)) = true := h
  cases ha : s.ack with
  | true => simp [ha] at h'
  | false =>
    simp [ha] at h'
    exact ⟨h'.1, h'.2, rfl⟩

theorem c01s_ack_zero (sys : Sys) (x : Nat → WbReq) (csrR : Nat → Nat → Nat) (k : Nat) :
    (resp sys x csrR 0 k).ack = false := by
  cases hk : sys.kinds[k]? with
  | none => rw [c01s_resp_none sys x csrR k hk]; rfl
  | some kd =>
    cases kd with
    | bridge W ratio => rw [c01s_resp_bridge sys x csrR k W ratio hk]; rfl
    | sram sc m0 => rw [c01s_resp_sram sys x csrR k sc m0 hk]; rfl

theorem c01s_ack_step (sys : Sys) (x : Nat → WbReq) (csrR : Nat → Nat → Nat) (t k : Nat)
    (h : (resp sys x csrR (t + 1) k).ack = true) :
    (wbSubReq sys.c (x t) k).cyc = true ∧ (wbSubReq sys.c (x t) k).stb = true ∧
    (resp sys x csrR t k).ack = false := by
  cases hk : sys.kinds[k]? with
  | none =>
    rw [c01s_resp_none sys x csrR k hk] at h
    exact absurd h (by decide)
  | some kd =>
    cases kd with
    | bridge W ratio =>
      rw [c01s_resp_bridge sys x csrR k W ratio hk] at h ⊢
      exact c01s_bnext_ack ratio (bst ratio (binp sys W x csrR k) t) (binp sys W x csrR k t) h
    | sram sc m0 =>
      rw [c01s_resp_sram sys x csrR k sc m0 hk] at h ⊢
      exact c01s_snext_ack sc (Sram.st sc m0 (sinp sys x k) t) (sinp sys x k t) h

theorem c01s_cyc_true (c : WbCfg) (x : WbReq) (k : Nat) (h : (wbSubReq c x k).cyc = true) :
    wbSelected c x.adr = some k ∧ x.cyc = true ∧ (wbSubReq c x k).stb = x.stb := by
  unfold wbSubReq at h ⊢
  cases hs : c.subs[k]? with
  | none => rw [hs] at h; exact Bool.noConfusion h
  | some s =>
    rw [hs] at h
    simp only [Bool.and_eq_true, beq_iff_eq] at h
    exact ⟨h.1, h.2, rfl⟩

theorem c01s_err_false (sys : Sys) (x : Nat → WbReq) (csrR : Nat → Nat → Nat) (t k : Nat) :
    (resp sys x csrR t k).err = false ∧ (resp sys x csrR t k).rty = false ∧
    (resp sys x csrR t k).stall = false := by
  cases hk : sys.kinds[k]? with
  | none => rw [c01s_resp_none sys x csrR k hk]; exact ⟨rfl, rfl, rfl⟩
  | some kd =>
    cases kd with
    | bridge W ratio => rw [c01s_resp_bridge sys x csrR k W ratio hk]; exact ⟨rfl, rfl, rfl⟩
    | sram sc m0 => rw [c01s_resp_sram sys x csrR k sc m0 hk]; exact ⟨rfl, rfl, rfl⟩

/-- the invariant: an acknowledging subordinate sees `cyc` -/
theorem c01s_inv (sys : Sys) (x : Nat → WbReq) (csrR : Nat → Nat → Nat)
    (hc : Compliant sys x csrR) (t : Nat) :
    ∀ k, (resp sys x csrR t k).ack = true → (wbSubReq sys.c (x t) k).cyc = true := by
  induction t with
  | zero =>
    intro k h
    rw [c01s_ack_zero sys x csrR k] at h
    exact absurd h (by decide)
  | succ t ih =>
    intro k h
    obtain ⟨hcyc, hstb, hna⟩ := c01s_ack_step sys x csrR t k h
    obtain ⟨_, hxc, hstbeq⟩ := c01s_cyc_true sys.c (x t) k hcyc
    have hroot : (rootResp sys x csrR t).ack = false := by
      show ((List.range sys.c.subs.length).any fun j => (resp sys x csrR t j).ack) = false
      apply c07_any_none
      intro j _
      cases hj : (resp sys x csrR t j).ack with
      | false => rfl
      | true =>
        have e := at_most_one_cyc sys.c (x t) j k (ih j hj) hcyc
        subst e
        rw [hna] at hj
        cases hj
    have hx := hc t hxc (by rw [← hstbeq]; exact hstb) hroot
    rw [hx]
    exact hcyc

theorem c01s_rows (sys : Sys) (x : Nat → WbReq) (csrR : Nat → Nat → Nat)
    (hc : Compliant sys x csrR) (t : Nat) :
    RespondOnlyWhenSelected sys.c (x t) (resp sys x csrR t) := by
  intro k _ hcyc
  have E := c01s_err_false sys x csrR t k
  refine ⟨?_, E.1, E.2.1, E.2.2⟩
  cases hj : (resp sys x csrR t k).ack with
  | false => rfl
  | true =>
    rw [c01s_inv sys x csrR hc t k hj] at hcyc
    cases hcyc

theorem c01s_quiet (sys : Sys) (x : Nat → WbReq) (csrR : Nat → Nat → Nat)
    (hc : Compliant sys x csrR) (t0 n : Nat) : OthersQuiet sys.c x (resp sys x csrR) t0 n :=
  fun u _ _ => c01s_rows sys x csrR hc u

theorem c01s_held (sys : Sys) (x : Nat → WbReq) (csrR : Nat → Nat → Nat)
    (hc : Compliant sys x csrR) (t0 n : Nat) (hcyc : (x t0).cyc = true) (hstb : (x t0).stb = true)
    (hnoack : ∀ i, i < n → (rootResp sys x csrR (t0 + i)).ack = false) : RootHeld x t0 n := by
  induction n with
  | zero =>
    intro u h1 h2
    have : u = t0 := by omega
    rw [this]
  | succ n ih =>
    have hn := ih (fun i hi => hnoack i (by omega))
    intro u h1 h2
    by_cases hu : u ≤ t0 + n
    · exact hn u h1 hu
    · have e : u = t0 + n + 1 := by omega
      have hxn := hn (t0 + n) (by omega) (by omega)
      have hx := hc (t0 + n) (by rw [hxn]; exact hcyc) (by rw [hxn]; exact hstb) (hnoack n (by omega))
      rw [e, hx, hxn]

/-- `Bridge.inflight` with the request only known to be presented over `[t0, t0 + i)` -/
theorem c01s_inflight (ratio : Nat) (inp : Nat → BIn) (t0 : Nat)
    (hidle : Idle (bst ratio inp t0)) (i : Nat) (hi : i ≤ ratio)
    (hheld : ∀ u, t0 ≤ u → u < t0 + i → (inp u).cyc = true ∧ (inp u).stb = true) :
    (bst ratio inp (t0 + i)).cycle = i ∧ (bst ratio inp (t0 + i)).ack = false := by
  induction i with
  | zero => exact ⟨hidle.1, hidle.2⟩
  | succ i ih =>
    obtain ⟨hc, ha⟩ := ih (by omega) (fun u h1 h2 => hheld u h1 (by omega))
    have hh := hheld (t0 + i) (by omega) (by omega)
    have hstep : bst ratio inp (t0 + (i + 1)) =
        bnext ratio (bst ratio inp (t0 + i)) (inp (t0 + i)) := rfl
    rw [hstep]
    simp only [bnext, hh.1, hh.2, ha, Bool.and_self, if_true, hc, show i < ratio by omega]
    exact ⟨rfl, rfl⟩

/-- a transfer presented to an idle bridge is not acknowledged at the root for `ratio + 1` cycles -/
theorem c01s_bridge_noack (sys : Sys) (x : Nat → WbReq) (csrR : Nat → Nat → Nat)
    (hc : Compliant sys x csrR) (k : Nat) (s : WbSub) (hs : sys.c.subs[k]? = some s)
    (W ratio : Nat) (hk : sys.kinds[k]? = some (.bridge W ratio)) (t0 : Nat)
    (hcyc : (x t0).cyc = true) (hstb : (x t0).stb = true)
    (hsel : wbSelected sys.c (x t0).adr = some k)
    (hidle : Idle (bst ratio (binp sys W x csrR k) t0)) (i : Nat) (hi : i ≤ ratio + 1) :
    ∀ j, j < i → (rootResp sys x csrR (t0 + j)).ack = false := by
  induction i with
  | zero => intro j hj; omega
  | succ i ih =>
    have hprev := ih (by omega)
    intro j hj
    by_cases hji : j < i
    · exact hprev j hji
    · have e : j = i := by omega
      subst e
      have hb := c01s_bridge_at sys x csrR k W ratio hk
      have hheld := c01s_held sys x csrR hc t0 j hcyc hstb hprev
      have hH := c01d_held sys.c k s hs W ratio x (resp sys x csrR) (binp sys W x csrR k) hb t0 j
        hheld hcyc hstb hsel
      have hfl := c01s_inflight ratio (binp sys W x csrR k) t0 hidle j (by omega)
        (fun u h1 h2 => ⟨(hH u h1 (by omega)).1, (hH u h1 (by omega)).2.1⟩)
      have hR := c01d_root_resp sys.c k s hs W ratio x (resp sys x csrR) (binp sys W x csrR k) hb
        t0 j (c01s_quiet sys x csrR hc t0 j) hheld hsel (t0 + j) (by omega) (by omega)
      show (wbResp sys.c (x (t0 + j)) (resp sys x csrR (t0 + j))).ack = false
      rw [hR.1]
      exact hfl.2

theorem c01s_bridge_held (sys : Sys) (x : Nat → WbReq) (csrR : Nat → Nat → Nat)
    (hc : Compliant sys x csrR) (k : Nat) (s : WbSub) (hs : sys.c.subs[k]? = some s)
    (W ratio : Nat) (hk : sys.kinds[k]? = some (.bridge W ratio)) (t0 : Nat)
    (hcyc : (x t0).cyc = true) (hstb : (x t0).stb = true)
    (hsel : wbSelected sys.c (x t0).adr = some k)
    (hidle : Idle (bst ratio (binp sys W x csrR k) t0)) : RootHeld x t0 (ratio + 1) :=
  c01s_held sys x csrR hc t0 (ratio + 1) hcyc hstb
    (c01s_bridge_noack sys x csrR hc k s hs W ratio hk t0 hcyc hstb hsel hidle (ratio + 1)
      (Nat.le_refl _))

theorem c01s_sram_held (sys : Sys) (x : Nat → WbReq) (csrR : Nat → Nat → Nat)
    (hc : Compliant sys x csrR) (k : Nat) (s : WbSub) (hs : sys.c.subs[k]? = some s)
    (sc : Sram.Cfg) (m0 : Nat → Nat) (hk : sys.kinds[k]? = some (.sram sc m0)) (t0 : Nat)
    (hcyc : (x t0).cyc = true) (hstb : (x t0).stb = true)
    (hsel : wbSelected sys.c (x t0).adr = some k)
    (hidle : (Sram.st sc m0 (sinp sys x k) t0).ack = false) : RootHeld x t0 1 := by
  apply c01s_held sys x csrR hc t0 1 hcyc hstb
  intro i hi
  have e : i = 0 := by omega
  subst e
  have h := responses_of_selected sys.c (x t0) (resp sys x csrR t0) k s hs hsel
    (c01s_rows sys x csrR hc t0)
  show (wbResp sys.c (x (t0 + 0)) (resp sys x csrR (t0 + 0))).ack = false
  rw [Nat.add_zero, h.1, c01s_resp_sram sys x csrR k sc m0 hk]
  exact hidle

/-! ## the wiring hypotheses of C01D hold by construction -/

theorem bridge_at (sys : Sys) (x : Nat → WbReq) (csrR : Nat → Nat → Nat) (k W ratio : Nat)
    (hk : sys.kinds[k]? = some (.bridge W ratio)) :
    BridgeAt sys.c k W ratio x (resp sys x csrR) (binp sys W x csrR k) := by
  exact c01s_bridge_at sys x csrR k W ratio hk

theorem sram_at (sys : Sys) (x : Nat → WbReq) (csrR : Nat → Nat → Nat) (k : Nat) (sc : Sram.Cfg)
    (m0 : Nat → Nat) (hk : sys.kinds[k]? = some (.sram sc m0)) :
    SramAt sys.c k sc m0 x (resp sys x csrR) (sinp sys x k) := by
  exact c01s_sram_at sys x csrR k sc m0 hk

/-! ## the invariant -/

/-- INVARIANT: for a compliant initiator, in every cycle every subordinate that does not see `cyc`
    keeps its response lines low — a subordinate only ever acknowledges the request it is still being
    shown. (Without compliance this is false: an SRAM acknowledges one cycle after the request even if
    the initiator has moved on, and the decoder ORs that acknowledge into whatever is addressed now.) -/
theorem respond_only_when_selected (sys : Sys) (hwf : WellFormed sys) (x : Nat → WbReq)
    (csrR : Nat → Nat → Nat) (hc : Compliant sys x csrR) (t : Nat) :
    RespondOnlyWhenSelected sys.c (x t) (resp sys x csrR t) := by
  exact c01s_rows sys x csrR hc t

/-- hence `OthersQuiet` over any interval -/
theorem others_quiet (sys : Sys) (hwf : WellFormed sys) (x : Nat → WbReq) (csrR : Nat → Nat → Nat)
    (hc : Compliant sys x csrR) (t0 n : Nat) : OthersQuiet sys.c x (resp sys x csrR) t0 n := by
  exact c01s_quiet sys x csrR hc t0 n

/-- a compliant initiator holds a presented request for as long as no acknowledge is seen -/
theorem held_while_unacknowledged (sys : Sys) (x : Nat → WbReq) (csrR : Nat → Nat → Nat)
    (hc : Compliant sys x csrR) (t0 n : Nat) (hcyc : (x t0).cyc = true) (hstb : (x t0).stb = true)
    (hnoack : ∀ i, i < n → (rootResp sys x csrR (t0 + i)).ack = false) : RootHeld x t0 n := by
  exact c01s_held sys x csrR hc t0 n hcyc hstb hnoack

/-- the acknowledge the root sees is never spurious: whenever the root sees an acknowledge, the
    address it presents in that cycle selects a subordinate, the root is driving `cyc`, and that very
    subordinate is the one acknowledging — an address that selects no window is never acknowledged -/
theorem ack_only_from_selected (sys : Sys) (hwf : WellFormed sys) (x : Nat → WbReq)
    (csrR : Nat → Nat → Nat) (hc : Compliant sys x csrR) (t : Nat)
    (hack : (rootResp sys x csrR t).ack = true) :
    (x t).cyc = true ∧ ∃ k, wbSelected sys.c (x t).adr = some k ∧ (resp sys x csrR t k).ack = true := by
  have hack' : ((List.range sys.c.subs.length).any fun j => (resp sys x csrR t j).ack) = true := hack
  obtain ⟨j, _, hj⟩ := List.any_eq_true.mp hack'
  have hcyc := c01s_inv sys x csrR hc t j hj
  obtain ⟨hsel, hxc, _⟩ := c01s_cyc_true sys.c (x t) j hcyc
  exact ⟨hxc, j, hsel, hj⟩

/-- UNASSIGNED ADDRESSES, closed system, every cycle: while the root address selects no window the
    root sees no acknowledge and zero read data, no bridge issues a CSR strobe, and every SRAM keeps
    every word (up to the truncation to the data width the SRAM model makes explicit) -/
theorem closed_unassigned_silent (sys : Sys) (hwf : WellFormed sys) (x : Nat → WbReq)
    (csrR : Nat → Nat → Nat) (hc : Compliant sys x csrR) (t : Nat)
    (hsel : wbSelected sys.c (x t).adr = none) :
    (rootResp sys x csrR t).ack = false ∧ (rootResp sys x csrR t).datr = 0 ∧
    (∀ k W ratio, sys.kinds[k]? = some (.bridge W ratio) →
      (bout ratio (bst ratio (binp sys W x csrR k) t) (binp sys W x csrR k t)).rstb = false ∧
      (bout ratio (bst ratio (binp sys W x csrR k) t) (binp sys W x csrR k t)).wstb = false) ∧
    (∀ k sc m0 a, sys.kinds[k]? = some (.sram sc m0) →
      (Sram.st sc m0 (sinp sys x k) (t + 1)).mem a = (Sram.st sc m0 (sinp sys x k) t).mem a ∨
      (Sram.st sc m0 (sinp sys x k) (t + 1)).mem a =
        (Sram.st sc m0 (sinp sys x k) t).mem a % 2 ^ (sc.lanes * sc.gran)) := by
  have hq := c01s_rows sys x csrR hc t
  have N := nobody_selected_silent sys.c (x t) (resp sys x csrR t) hsel hq
  refine ⟨N.1, N.2.2.2.2.1, ?_, ?_⟩
  · intro k W ratio hk
    have h := root_unassigned_bridge_silent sys.c k W ratio x (resp sys x csrR)
      (binp sys W x csrR k) (c01s_bridge_at sys x csrR k W ratio hk) t hq hsel
    exact ⟨h.2.2.1, h.2.2.2⟩
  · intro k sc m0 a hk
    exact root_unassigned_sram_untouched sys.c k sc m0 x (resp sys x csrR) (sinp sys x k)
      (c01s_sram_at sys x csrR k sc m0 hk) t hsel a

/-! ## the C01D theorems with no wiring hypothesis and no holding hypothesis -/

/-- ROOT READ OF AN SRAM WORD, closed system -/
theorem closed_root_sram_read (sys : Sys) (hwf : WellFormed sys) (x : Nat → WbReq)
    (csrR : Nat → Nat → Nat) (hc : Compliant sys x csrR) (k : Nat) (s : WbSub)
    (hs : sys.c.subs[k]? = some s) (sc : Sram.Cfg) (m0 : Nat → Nat)
    (hk : sys.kinds[k]? = some (.sram sc m0)) (t0 : Nat)
    (hcyc : (x t0).cyc = true) (hstb : (x t0).stb = true) (hwe : (x t0).we = false)
    (hsel : wbSelected sys.c (x t0).adr = some k)
    (hidle : (Sram.st sc m0 (sinp sys x k) t0).ack = false) :
    (rootResp sys x csrR t0).ack = false ∧ (rootResp sys x csrR (t0 + 1)).ack = true ∧
    (rootResp sys x csrR (t0 + 1)).datr =
      (Sram.st sc m0 (sinp sys x k) t0).mem ((x t0).adr % 2 ^ s.adrW) := by
  exact root_sram_read sys.c k s hs sc m0 x (resp sys x csrR) (sinp sys x k)
    (c01s_sram_at sys x csrR k sc m0 hk) t0 (c01s_quiet sys x csrR hc t0 1)
    (c01s_sram_held sys x csrR hc k s hs sc m0 hk t0 hcyc hstb hsel hidle)
    hcyc hstb hwe hsel hidle

/-- ROOT WRITE OF AN SRAM WORD, closed system -/
theorem closed_root_sram_write (sys : Sys) (hwf : WellFormed sys) (x : Nat → WbReq)
    (csrR : Nat → Nat → Nat) (hc : Compliant sys x csrR) (k : Nat) (s : WbSub)
    (hs : sys.c.subs[k]? = some s) (sc : Sram.Cfg) (hw : sc.writable = true) (m0 : Nat → Nat)
    (hk : sys.kinds[k]? = some (.sram sc m0)) (t0 : Nat)
    (hcyc : (x t0).cyc = true) (hstb : (x t0).stb = true) (hwe : (x t0).we = true)
    (hsel : wbSelected sys.c (x t0).adr = some k)
    (hidle : (Sram.st sc m0 (sinp sys x k) t0).ack = false) :
    (Sram.st sc m0 (sinp sys x k) (t0 + 1)).mem ((x t0).adr % 2 ^ s.adrW) =
      Sram.merge sc ((Sram.st sc m0 (sinp sys x k) t0).mem ((x t0).adr % 2 ^ s.adrW))
        ((x t0).datw % 2 ^ s.dw) (fun i => ((x t0).sel % 2 ^ s.selW).testBit i) ∧
    (∀ a, a ≠ (x t0).adr % 2 ^ s.adrW →
      (Sram.st sc m0 (sinp sys x k) (t0 + 1)).mem a = (Sram.st sc m0 (sinp sys x k) t0).mem a) ∧
    (rootResp sys x csrR (t0 + 1)).ack = true := by
  exact root_sram_write sys.c k s hs sc hw m0 x (resp sys x csrR) (sinp sys x k)
    (c01s_sram_at sys x csrR k sc m0 hk) t0 (c01s_quiet sys x csrR hc t0 1)
    (c01s_sram_held sys x csrR hc k s hs sc m0 hk t0 hcyc hstb hsel hidle)
    hcyc hstb hwe hsel hidle

/-- ROOT READ THROUGH A BRIDGE, closed system: a compliant initiator that presents a full-select read
    at `t0` (bridge idle) at an address routed to bridge `k`, whose word is register `R` of the CSR
    target's layout, sees no acknowledge for `ratio + 1` cycles, then the acknowledge, with the value `R`
    presented in the cycle the transfer started -/
theorem closed_root_read_through_bridge (sys : Sys) (hwf : WellFormed sys) (x : Nat → WbReq)
    (csrR : Nat → Nat → Nat) (hc : Compliant sys x csrR) (k : Nat) (s : WbSub)
    (hs : sys.c.subs[k]? = some s) (W ratio : Nat) (hk : sys.kinds[k]? = some (.bridge W ratio))
    (hr : 0 < ratio) (hselW : s.selW = ratio) (hdw : s.dw = ratio * W)
    (B : Beh) (layout : List Reg) (hspec : CsrSpec W layout B) (R : Reg) (rval : Nat → Reg → Nat)
    (hclosed : Closed ratio B (binp sys W x csrR k) rval) (t0 : Nat)
    (hcyc : (x t0).cyc = true) (hstb : (x t0).stb = true) (hwe : (x t0).we = false)
    (hfull : ∀ i, i < ratio → (x t0).sel.testBit i = true)
    (hsel : wbSelected sys.c (x t0).adr = some k)
    (hreg : WordReg ratio layout R ((x t0).adr % 2 ^ s.adrW)) (hrd : R.rd = true)
    (hidle : Idle (bst ratio (binp sys W x csrR k) t0)) :
    (∀ i, i ≤ ratio → (rootResp sys x csrR (t0 + i)).ack = false) ∧
    (rootResp sys x csrR (t0 + ratio + 1)).ack = true ∧
    (rootResp sys x csrR (t0 + ratio + 1)).datr = rval t0 R % 2 ^ (ratio * W) := by
  exact root_read_through_bridge sys.c k s hs W ratio hr hselW hdw B layout hspec R x
    (resp sys x csrR) (binp sys W x csrR k) rval (c01s_bridge_at sys x csrR k W ratio hk) hclosed t0
    (c01s_quiet sys x csrR hc t0 (ratio + 1))
    (c01s_bridge_held sys x csrR hc k s hs W ratio hk t0 hcyc hstb hsel hidle)
    hcyc hstb hwe hfull hsel hreg hrd hidle

/-- ROOT WRITE THROUGH A BRIDGE, closed system -/
theorem closed_root_write_through_bridge (sys : Sys) (hwf : WellFormed sys) (x : Nat → WbReq)
    (csrR : Nat → Nat → Nat) (hc : Compliant sys x csrR) (k : Nat) (s : WbSub)
    (hs : sys.c.subs[k]? = some s) (W ratio : Nat) (hk : sys.kinds[k]? = some (.bridge W ratio))
    (hr : 0 < ratio) (hselW : s.selW = ratio) (hdw : s.dw = ratio * W)
    (B : Beh) (layout : List Reg) (hspec : CsrSpec W layout B) (R : Reg) (rval : Nat → Reg → Nat)
    (t0 : Nat)
    (hcyc : (x t0).cyc = true) (hstb : (x t0).stb = true) (hwe : (x t0).we = true)
    (hfull : ∀ i, i < ratio → (x t0).sel.testBit i = true)
    (hsel : wbSelected sys.c (x t0).adr = some k)
    (hreg : WordReg ratio layout R ((x t0).adr % 2 ^ s.adrW)) (hwr : R.wr = true)
    (hidle : Idle (bst ratio (binp sys W x csrR k) t0)) :
    B.wstbE (csrStream ratio (binp sys W x csrR k) rval) (t0 + ratio) R = true ∧
    B.wdataE (csrStream ratio (binp sys W x csrR k) rval) (t0 + ratio) R =
      (x t0).datw % 2 ^ (ratio * W) % 2 ^ R.width ∧
    (∀ q ∈ layout, q ≠ R → 1 ≤ q.len →
      B.wstbE (csrStream ratio (binp sys W x csrR k) rval) (t0 + ratio) q = false) ∧
    (∀ i, i ≤ ratio → (rootResp sys x csrR (t0 + i)).ack = false) ∧
    (rootResp sys x csrR (t0 + ratio + 1)).ack = true := by
  have A := root_write_through_bridge sys.c k s hs W ratio hr hselW hdw B layout hspec R x
    (resp sys x csrR) (binp sys W x csrR k) rval (c01s_bridge_at sys x csrR k W ratio hk) t0
    (c01s_quiet sys x csrR hc t0 (ratio + 1))
    (c01s_bridge_held sys x csrR hc k s hs W ratio hk t0 hcyc hstb hsel hidle)
    hcyc hstb hwe hfull hsel hreg hwr hidle
  refine ⟨A.1, A.2.1, A.2.2.1, ?_, A.2.2.2⟩
  intro i hi
  exact c01s_bridge_noack sys x csrR hc k s hs W ratio hk t0 hcyc hstb hsel hidle (ratio + 1)
    (Nat.le_refl _) i (by omega)

/-- non-vacuity: a decoder over an SRAM (window 0) and a bridge (window 1); a compliant initiator
    exists (the one that never requests anything), and the system's pieces compute -/
example :
    let sys : Sys := ⟨cfgOf ⟨2, 6, [0, 32], [.sram 7 4, .bridge (.mux 5 [11] [⟨4, 2, 16, true, true⟩])]⟩,
                      [.sram ⟨32, 8, true⟩ (fun _ => 0), .bridge 8 4]⟩
    let x : Nat → WbReq := fun _ => ⟨false, false, false, false, 0, 0, 0, 0, 0⟩
    WellFormed sys ∧ Compliant sys x (fun _ _ => 0) := by
  refine ⟨by unfold WellFormed; decide, ?_⟩
  intro t h
  cases h

end E2ES
