import SocVerif.Props.C10
import SocVerif.Props.C06T
/-!
# C10 / C01 (dynamic, end to end) — a Wishbone transfer through the bridge and ANY tree of CSR
# decoders and multiplexers accesses a multi-granule register atomically and on time

The bridge model (`Bridge`) is closed in a loop with an arbitrary CSR target behaviour `B` that
meets `CsrT.CsrSpec` for its layout (by `CsrT.tree_meets_spec` every tree of decoders over
multiplexers does; by `CsrT.mux_meets_spec` a single multiplexer does): the CSR accesses the
bridge issues are the target's input stream, and the target's read data is the bridge's `csrR`
input. Available: `Bridge.transfer`, `one_access_per_granule`, `ack_once_on_time`, `read_lanes`
(Props/C10.lean), the fields of `CsrT.CsrSpec` (SocVerif/CsrTree.lean). Helper lemmas (prefixed
`c10e_`) may be added ABOVE the theorems; model definitions and theorem statements are fixed.
-/
namespace Bridge
open Mux CsrT

/-- the CSR input stream the bridge produces (register values `rval t` are whatever the
    registers present in cycle `t`) -/
def csrStream (ratio : Nat) (inp : Nat → BIn) (rval : Nat → Reg → Nat) : Nat → CIn := fun t =>
  let o := bout ratio (bst ratio inp t) (inp t)
  ⟨o.addr, o.rstb, o.wstb, o.wdata, rval t⟩

/-- the loop is closed: what the bridge samples as CSR read data is the target's read data -/
def Closed (ratio : Nat) (B : Beh) (inp : Nat → BIn) (rval : Nat → Reg → Nat) : Prop :=
  ∀ t, (inp t).csrR = B.rdata (csrStream ratio inp rval) t

/-- the register occupies exactly the `ratio` CSR addresses of one Wishbone word, and nothing else
    of the layout starts inside it -/
structure WordReg (ratio : Nat) (layout : List Reg) (R : Reg) (adr : Nat) : Prop where
  mem   : R ∈ layout
  start : R.start = adr * ratio
  len   : R.len = ratio
  alone : ∀ q ∈ layout, q = R ∨ q.stop ≤ R.start ∨ R.stop ≤ q.start

/-- the CSR stream during the `ratio` access cycles of a held transfer to the word of `R` -/
theorem c10e_stream (ratio : Nat) (hr : 0 < ratio) (layout : List Reg) (R : Reg)
    (inp : Nat → BIn) (rval : Nat → Reg → Nat) (t0 : Nat)
    (hreg : WordReg ratio layout R (inp t0).adr)
    (hidle : Idle (bst ratio inp t0)) (hheld : Held inp t0 (ratio + 1)) (i : Nat) (hi : i < ratio) :
    (csrStream ratio inp rval (t0 + i)).addr = R.start + i ∧
    (csrStream ratio inp rval (t0 + i)).rstb = ((inp t0).sel i && !(inp t0).we) ∧
    (csrStream ratio inp rval (t0 + i)).wstb = ((inp t0).sel i && (inp t0).we) ∧
    (csrStream ratio inp rval (t0 + i)).wdata = (inp t0).datw i := by
  have h := (transfer ratio hr inp t0 hidle hheld).1 i hi
  refine ⟨?_, h.2.1, h.2.2.1, h.2.2.2⟩
  show (bout ratio (bst ratio inp (t0 + i)) (inp (t0 + i))).addr = R.start + i
  rw [h.1, hreg.start]

/-- END TO END READ: a full-select Wishbone read held until acknowledged, through the bridge and
    any CSR target that meets the specification, is acknowledged exactly `ratio + 1` cycles after
    it starts and returns in lane `l` chunk `l` of the value the register presented in the cycle
    the transfer started — an atomic snapshot, however the register changes meanwhile -/
theorem wb_read_is_atomic (W ratio : Nat) (hr : 0 < ratio) (B : Beh) (layout : List Reg)
    (hspec : CsrSpec W layout B) (R : Reg) (inp : Nat → BIn) (rval : Nat → Reg → Nat)
    (hclosed : Closed ratio B inp rval) (t0 : Nat)
    (hreg : WordReg ratio layout R (inp t0).adr) (hrd : R.rd = true)
    (hidle : Idle (bst ratio inp t0)) (hheld : Held inp t0 (ratio + 1))
    (hwe : (inp t0).we = false) (hsel : ∀ i, i < ratio → (inp t0).sel i = true) :
    (∀ i, i ≤ ratio → (bst ratio inp (t0 + i)).ack = false) ∧
    (bst ratio inp (t0 + ratio + 1)).ack = true ∧
    ∀ l, l < ratio → (bst ratio inp (t0 + ratio + 1)).datr l = slice W (rval t0 R) l := by
  have T := transfer ratio hr inp t0 hidle hheld
  have hS := c10e_stream ratio hr layout R inp rval t0 hreg hidle hheld
  refine ⟨T.2.2.1, T.2.2.2.1, ?_⟩
  intro l hl
  rw [T.2.2.2.2.2 l hl, hclosed (t0 + l + 1)]
  have h0 := hS 0 hr
  have hl' := hS l hl
  have hstop : R.stop = R.start + ratio := by unfold Reg.stop; rw [hreg.len]
  have key := hspec.snapshot (csrStream ratio inp rval) R hreg.mem hrd (t0 + 0) (t0 + l) (by omega)
    ⟨by rw [h0.2.1, hsel 0 hr, hwe]; rfl, by rw [h0.1]; rfl⟩
    ⟨by rw [hl'.2.1, hsel l hl, hwe]; rfl, by rw [hl'.1]; omega, by rw [hl'.1, hstop]; omega⟩
    (by
      intro t h1 h2 _ q hq _
      have ht : t = t0 + (t - t0) := by omega
      have hj := (hS (t - t0) (by omega)).1
      rw [← ht] at hj
      rw [hj]
      rcases hreg.alone q hq with rfl | h | h
      · omega
      · unfold Reg.stop at h; omega
      · rw [hstop] at h; omega)
  rw [key, hl'.1]
  have : R.start + l - R.start = l := by omega
  rw [this]
  rfl

/-- END TO END WRITE: a full-select Wishbone write held until acknowledged delivers the
    concatenation of its granules to the register, with the register's write strobe, at
    `t0 + ratio` — one cycle before the acknowledge is seen — and strobes no other register of the
    layout in that cycle -/
theorem wb_write_is_atomic (W ratio : Nat) (hr : 0 < ratio) (B : Beh) (layout : List Reg)
    (hspec : CsrSpec W layout B) (R : Reg) (inp : Nat → BIn) (rval : Nat → Reg → Nat) (t0 : Nat)
    (hreg : WordReg ratio layout R (inp t0).adr) (hwr : R.wr = true)
    (hidle : Idle (bst ratio inp t0)) (hheld : Held inp t0 (ratio + 1))
    (hwe : (inp t0).we = true) (hsel : ∀ i, i < ratio → (inp t0).sel i = true) :
    B.wstbE (csrStream ratio inp rval) (t0 + ratio) R = true ∧
    B.wdataE (csrStream ratio inp rval) (t0 + ratio) R = Mux.concat W (inp t0).datw ratio % 2 ^ R.width ∧
    (∀ q ∈ layout, q ≠ R → 1 ≤ q.len → B.wstbE (csrStream ratio inp rval) (t0 + ratio) q = false) ∧
    (bst ratio inp (t0 + ratio + 1)).ack = true := by
  have T := transfer ratio hr inp t0 hidle hheld
  have hS := c10e_stream ratio hr layout R inp rval t0 hreg hidle hheld
  have hstop : R.stop = R.start + ratio := by unfold Reg.stop; rw [hreg.len]
  have hlen1 : t0 + (ratio - 1) + 1 = t0 + ratio := by omega
  have hlast := hS (ratio - 1) (by omega)
  have hwl : (csrStream ratio inp rval (t0 + (ratio - 1))).wstb = true := by
    rw [hlast.2.2.1, hsel (ratio - 1) (by omega), hwe]; rfl
  refine ⟨?_, ?_, ?_, T.2.2.2.1⟩
  · have h := hspec.wstb_exact (csrStream ratio inp rval) (t0 + (ratio - 1)) R hreg.mem
    rw [hlen1] at h
    rw [h, hwr, hwl, hlast.1, hstop]
    have : R.start + (ratio - 1) = R.start + ratio - 1 := by omega
    simp [this]
  · have key := hspec.write_concat (csrStream ratio inp rval) R hreg.mem hwr (fun k => t0 + k)
      (fun k => (inp t0).datw k)
      (fun k _ => by show t0 + k < t0 + (k + 1); omega)
      (fun k hk => by
        have h := hS k (by rw [← hreg.len]; exact hk)
        refine ⟨?_, h.1, h.2.2.2⟩
        show (csrStream ratio inp rval (t0 + k)).wstb = true
        rw [h.2.2.1, hsel k (by rw [← hreg.len]; exact hk), hwe]; rfl)
      (fun t h1 h2 hne => by
        have h1' : t0 + 0 ≤ t := h1
        have h2' : t ≤ t0 + (R.len - 1) := h2
        have hl := hreg.len
        exact absurd (show t = t0 + (t - t0) by omega) (hne (t - t0) (by omega)))
    have key' : B.wdataE (csrStream ratio inp rval) (t0 + (R.len - 1) + 1) R =
        Mux.concat W (fun k => (inp t0).datw k) R.len % 2 ^ R.width := key
    rw [hreg.len, hlen1] at key'
    exact key'
  · intro q hq hne hql
    have h := hspec.wstb_exact (csrStream ratio inp rval) (t0 + (ratio - 1)) q hq
    rw [hlen1] at h
    rw [h, hlast.1]
    have hneq : R.start + (ratio - 1) ≠ q.stop - 1 := by
      rcases hreg.alone q hq with h' | h' | h'
      · exact absurd h' hne
      · unfold Reg.stop at h' ⊢; omega
      · rw [hstop] at h'; unfold Reg.stop; omega
    simp [hneq]

/-- instantiated for every tree of CSR decoders over multiplexers -/
theorem wb_read_through_tree (W ratio : Nat) (hr : 0 < ratio) (t : BTree) (hwf : t.wf)
    (R : Reg) (inp : Nat → BIn) (rval : Nat → Reg → Nat)
    (hclosed : Closed ratio (t.beh W) inp rval) (t0 : Nat)
    (hreg : WordReg ratio t.layout R (inp t0).adr) (hrd : R.rd = true)
    (hidle : Idle (bst ratio inp t0)) (hheld : Held inp t0 (ratio + 1))
    (hwe : (inp t0).we = false) (hsel : ∀ i, i < ratio → (inp t0).sel i = true) :
    (bst ratio inp (t0 + ratio + 1)).ack = true ∧
    ∀ l, l < ratio → (bst ratio inp (t0 + ratio + 1)).datr l = slice W (rval t0 R) l := by
  have h := wb_read_is_atomic W ratio hr (t.beh W) t.layout (CsrT.tree_meets_spec W t hwf) R inp rval
    hclosed t0 hreg hrd hidle hheld hwe hsel
  exact ⟨h.2.1, h.2.2⟩

end Bridge
