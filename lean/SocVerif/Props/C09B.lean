import SocVerif.Props.C08
/-!
# C09 (quantitative form) — a waiting requester is served within `N - 1` releases of the bus

`no_starvation` (Props/C08.lean) is the liveness statement over infinite schedules and
`waiting_distance_decreases` its one-step variant. Here the bound is made explicit and finite:
counting the cycles in `[t0, t)` in which the bus was free (not held by its owner), an initiator
`j` that requests throughout `[t0, t]` owns the bus at some point of `[t0, t]` as soon as that count
reaches the cyclic distance from the owner at `t0` to `j` — in particular as soon as it reaches
`N - 1`, whatever the other initiators and the target do (nothing is assumed about them).
Helper lemmas (prefixed `c09b_`) may be added ABOVE the theorems; model definitions and theorem
statements are fixed. Useful: `c08_step_free`, `c08_step_busy`, `grant_lt`,
`waiting_distance_decreases` (Props/C08.lean), `Arb.dist` (SocVerif/Arbiter.lean).
-/
namespace ArbF
open Arb

/-- number of cycles `u` with `t0 ≤ u < t` in which the bus was free -/
def freeCount (c : Cfg) (inp : Nat → In) (t0 : Nat) : Nat → Nat
  | 0 => 0
  | t + 1 => freeCount c inp t0 t +
      (if t0 ≤ t ∧ busy c (grantAt c inp t) (inp t) = false then 1 else 0)

/-! ## helper lemmas -/

theorem c09b_freeCount_zero (c : Cfg) (inp : Nat → In) (t0 : Nat) :
    ∀ t, t ≤ t0 → freeCount c inp t0 t = 0 := by
  intro t
  induction t with
  | zero => intro _; rfl
  | succ t ih =>
    intro h
    show freeCount c inp t0 t +
      (if t0 ≤ t ∧ busy c (grantAt c inp t) (inp t) = false then 1 else 0) = 0
    have hn : ¬ (t0 ≤ t ∧ busy c (grantAt c inp t) (inp t) = false) := by
      intro hh; omega
    rw [if_neg hn, ih (by omega)]

theorem c09b_dist_pos (n g j : Nat) (hg : g < n) (_hj : j < n) (hne : g ≠ j) :
    1 ≤ cdist n g j := by
  show 1 ≤ Arb.dist n g j
  unfold Arb.dist
  split <;> omega

theorem c09b_dist_le (n g j : Nat) (_hg : g < n) (hj : j < n) :
    cdist n g j ≤ n - 1 := by
  show Arb.dist n g j ≤ n - 1
  unfold Arb.dist
  split <;> omega

/-- while `j` waits (requesting, not served), distance to `j` plus the number of releases so far
    never exceeds the initial distance -/
theorem c09b_inv (c : Cfg) (hn : 0 < c.n) (inp : Nat → In) (j : Nat) (hj : j < c.n) (t0 : Nat) :
    ∀ t, t0 ≤ t →
      (∀ u, t0 ≤ u → u ≤ t → ((inp u).req j).cyc = true) →
      (∀ u, t0 ≤ u → u ≤ t → grantAt c inp u ≠ j) →
      cdist c.n (grantAt c inp t) j + freeCount c inp t0 t ≤ cdist c.n (grantAt c inp t0) j := by
  intro t
  induction t with
  | zero =>
    intro ht _ _
    have h0 : t0 = 0 := by omega
    subst h0
    show cdist c.n (grantAt c inp 0) j + 0 ≤ cdist c.n (grantAt c inp 0) j
    omega
  | succ t ih =>
    intro ht hreq hw
    by_cases h : t0 ≤ t
    · have ih' := ih h (fun u h1 h2 => hreq u h1 (by omega)) (fun u h1 h2 => hw u h1 (by omega))
      show cdist c.n (grantAt c inp (t + 1)) j + (freeCount c inp t0 t +
        (if t0 ≤ t ∧ busy c (grantAt c inp t) (inp t) = false then 1 else 0)) ≤ _
      cases hb : busy c (grantAt c inp t) (inp t) with
      | true =>
        have hn' : ¬ (t0 ≤ t ∧ true = false) := by
          intro hh; exact Bool.noConfusion hh.2
        rw [c08_step_busy c inp t hb, if_neg hn']
        omega
      | false =>
        have hp : t0 ≤ t ∧ false = false := ⟨h, rfl⟩
        rw [if_pos hp]
        have hd := (waiting_distance_decreases c hn inp j hj t (hreq t h (by omega))
          (hw t h (by omega)) hb).1
        omega
    · have h0 : t0 = t + 1 := by omega
      rw [c09b_freeCount_zero c inp t0 (t + 1) (by omega)]
      subst h0
      omega

/-! ## theorems -/

/-- served within `dist(owner at t0, j)` releases -/
theorem bounded_wait (c : Cfg) (hn : 0 < c.n) (inp : Nat → In) (j : Nat) (hj : j < c.n) (t0 t : Nat)
    (ht : t0 ≤ t)
    (hreq : ∀ u, t0 ≤ u → u ≤ t → ((inp u).req j).cyc = true)
    (hcount : cdist c.n (grantAt c inp t0) j ≤ freeCount c inp t0 t) :
    ∃ u, t0 ≤ u ∧ u ≤ t ∧ grantAt c inp u = j := by
  apply Classical.byContradiction
  intro hno
  have hw : ∀ u, t0 ≤ u → u ≤ t → grantAt c inp u ≠ j := by
    intro u h1 h2 he
    exact hno ⟨u, h1, h2, he⟩
  have hinv := c09b_inv c hn inp j hj t0 t ht hreq hw
  have hpos := c09b_dist_pos c.n (grantAt c inp t) j (grant_lt c hn inp t) hj (hw t ht (Nat.le_refl t))
  omega

/-- … hence within `N - 1` releases, whoever owns the bus at `t0` -/
theorem served_within_n_minus_one (c : Cfg) (hn : 0 < c.n) (inp : Nat → In) (j : Nat) (hj : j < c.n) (t0 t : Nat)
    (ht : t0 ≤ t)
    (hreq : ∀ u, t0 ≤ u → u ≤ t → ((inp u).req j).cyc = true)
    (hcount : c.n - 1 ≤ freeCount c inp t0 t) :
    ∃ u, t0 ≤ u ∧ u ≤ t ∧ grantAt c inp u = j := by
  apply bounded_wait c hn inp j hj t0 t ht hreq
  have hle := c09b_dist_le c.n (grantAt c inp t0) j (grant_lt c hn inp t0) hj
  omega

/-- non-vacuity: three initiators on an arbiter with LOCK, all requesting with cyc alone (no stb, no lock) (so
    the bus is free in every cycle): starting from owner 0, initiator 0 itself is back in possession after the bus
    has been released twice … and the count of free cycles in `[0, 3)` is 3 ≥ N - 1 -/
example :
    let f : Feat := ⟨false, false, false, true, false, false⟩
    let c : Cfg := ⟨3, f, fun _ => f, fun _ => 1, fun _ => 1⟩
    let want : Req := ⟨true, false, false, false, 4, 0, fun _ => true, 0, 0⟩
    let inp : Nat → In := fun _ => ⟨fun _ => want, ⟨false, false, false, false, 0⟩⟩
    freeCount c inp 0 3 = 3 ∧ grantAt c inp 1 = 1 ∧ grantAt c inp 2 = 2 ∧ grantAt c inp 3 = 0 := by
  decide

end ArbF
