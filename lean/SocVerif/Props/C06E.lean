import SocVerif.Props.C06T
/-!
# C06 (closing clause, observational form) — two CSR targets that meet the same `CsrSpec` cannot be
# told apart by anything the property mentions

`tree_meets_spec` and `mux_meets_spec` say that a tree of decoders and one flat multiplexer meet the
same specification. Here the consequence is drawn explicitly, as an agreement between two machines
run on the SAME input stream: the element strobes agree for every input and every cycle (no
protocol hypothesis); read data agree at the end of every complete protocol read, write data at the
end of every complete protocol write; and whenever one of the two returns non-zero read data the
access was a read strobe inside a readable register (so outside such accesses both return zero).
`tree_like_flat_mux` instantiates this with a well-formed tree and the flat multiplexer over the
tree's flattened layout.
-/
namespace CsrT
open Mux Dec

/-- read strobes of two targets meeting the same specification agree, for all inputs -/
theorem spec_rstb_agree (W : Nat) (layout : List Reg) (B1 B2 : Beh)
    (h1 : CsrSpec W layout B1) (h2 : CsrSpec W layout B2)
    (inp : Nat → CIn) (t : Nat) (r : Reg) (hr : r ∈ layout) :
    B1.rstbE inp t r = B2.rstbE inp t r := by
  rw [h1.rstb_exact inp t r hr, h2.rstb_exact inp t r hr]

/-- write strobes of two targets meeting the same specification agree, for all inputs, at every
    cycle (including the first) -/
theorem spec_wstb_agree (W : Nat) (layout : List Reg) (B1 B2 : Beh)
    (h1 : CsrSpec W layout B1) (h2 : CsrSpec W layout B2)
    (inp : Nat → CIn) (t : Nat) (r : Reg) (hr : r ∈ layout) :
    B1.wstbE inp t r = B2.wstbE inp t r := by
  cases t with
  | zero => rw [h1.wstb0 inp r hr, h2.wstb0 inp r hr]
  | succ t => rw [h1.wstb_exact inp t r hr, h2.wstb_exact inp t r hr]

/-- read data agree at the end of every protocol read (first chunk at `t0`, no other readable
    register's first chunk read in between, any chunk of the register at `t1`) -/
theorem spec_rdata_agree (W : Nat) (layout : List Reg) (B1 B2 : Beh)
    (h1 : CsrSpec W layout B1) (h2 : CsrSpec W layout B2)
    (inp : Nat → CIn) (r : Reg) (hr : r ∈ layout) (hrd : r.rd = true) (t0 t1 : Nat) (hle : t0 ≤ t1)
    (hfirst : (inp t0).rstb = true ∧ (inp t0).addr = r.start)
    (hlast : (inp t1).rstb = true ∧ r.start ≤ (inp t1).addr ∧ (inp t1).addr < r.stop)
    (hquiet : ∀ t, t0 < t → t ≤ t1 → (inp t).rstb = true → ∀ q ∈ layout, q.rd = true → (inp t).addr ≠ q.start) :
    B1.rdata inp (t1 + 1) = B2.rdata inp (t1 + 1) := by
  rw [h1.snapshot inp r hr hrd t0 t1 hle hfirst hlast hquiet,
      h2.snapshot inp r hr hrd t0 t1 hle hfirst hlast hquiet]

/-- both return zero read data in the first cycle and after any cycle that was not a read strobe
    inside a readable register of the layout -/
theorem spec_rdata_both_zero (W : Nat) (layout : List Reg) (B1 B2 : Beh)
    (h1 : CsrSpec W layout B1) (h2 : CsrSpec W layout B2)
    (inp : Nat → CIn) (t : Nat)
    (hidle : ¬ ((inp t).rstb = true ∧ ∃ r ∈ layout, r.rd = true ∧ r.start ≤ (inp t).addr ∧ (inp t).addr < r.stop)) :
    B1.rdata inp 0 = 0 ∧ B2.rdata inp 0 = 0 ∧ B1.rdata inp (t + 1) = 0 ∧ B2.rdata inp (t + 1) = 0 := by
  refine ⟨h1.rdata_zero0 inp, h2.rdata_zero0 inp, ?_, ?_⟩
  · by_cases hz : B1.rdata inp (t + 1) = 0
    · exact hz
    · exact absurd (h1.rdata_zero_unless inp t hz) hidle
  · by_cases hz : B2.rdata inp (t + 1) = 0
    · exact hz
    · exact absurd (h2.rdata_zero_unless inp t hz) hidle

/-- the data delivered to a register's element port agree at the end of every protocol write -/
theorem spec_wdata_agree (W : Nat) (layout : List Reg) (B1 B2 : Beh)
    (h1 : CsrSpec W layout B1) (h2 : CsrSpec W layout B2)
    (inp : Nat → CIn) (r : Reg) (hr : r ∈ layout) (hwr : r.wr = true) (τ v : Nat → Nat)
    (hmono : ∀ k, k + 1 < r.len → τ k < τ (k + 1))
    (hchunks : ∀ k, k < r.len → (inp (τ k)).wstb = true ∧ (inp (τ k)).addr = r.start + k ∧ (inp (τ k)).wdata = v k)
    (hquiet : ∀ t, τ 0 ≤ t → t ≤ τ (r.len - 1) → (∀ k, k < r.len → t ≠ τ k) → (inp t).wstb = false) :
    B1.wdataE inp (τ (r.len - 1) + 1) r = B2.wdataE inp (τ (r.len - 1) + 1) r := by
  rw [h1.write_concat inp r hr hwr τ v hmono hchunks hquiet,
      h2.write_concat inp r hr hwr τ v hmono hchunks hquiet]

/-- the closing clause of C06 as an agreement of two machines on one input stream: a well-formed
    tree of decoders over multiplexers and ONE flat multiplexer (any shadow size `S`) over the
    tree's flattened layout agree on every element strobe for all inputs, on the read data of
    every protocol read and on the write data of every protocol write. `WF t.layout` is what
    `Multiplexer` itself requires of the registers it is given (non-empty, disjoint ranges). -/
theorem tree_like_flat_mux (W S : Nat) (t : BTree) (h : t.wf) (hflat : WF t.layout) (inp : Nat → CIn) :
    (∀ u r, r ∈ t.layout → (t.beh W).rstbE inp u r = (muxBeh W S t.layout).rstbE inp u r) ∧
    (∀ u r, r ∈ t.layout → (t.beh W).wstbE inp u r = (muxBeh W S t.layout).wstbE inp u r) ∧
    (∀ r, r ∈ t.layout → r.rd = true → ∀ t0 t1, t0 ≤ t1 →
      ((inp t0).rstb = true ∧ (inp t0).addr = r.start) →
      ((inp t1).rstb = true ∧ r.start ≤ (inp t1).addr ∧ (inp t1).addr < r.stop) →
      (∀ u, t0 < u → u ≤ t1 → (inp u).rstb = true → ∀ q ∈ t.layout, q.rd = true → (inp u).addr ≠ q.start) →
      (t.beh W).rdata inp (t1 + 1) = (muxBeh W S t.layout).rdata inp (t1 + 1)) ∧
    (∀ r, r ∈ t.layout → r.wr = true → ∀ (τ v : Nat → Nat),
      (∀ k, k + 1 < r.len → τ k < τ (k + 1)) →
      (∀ k, k < r.len → (inp (τ k)).wstb = true ∧ (inp (τ k)).addr = r.start + k ∧ (inp (τ k)).wdata = v k) →
      (∀ u, τ 0 ≤ u → u ≤ τ (r.len - 1) → (∀ k, k < r.len → u ≠ τ k) → (inp u).wstb = false) →
      (t.beh W).wdataE inp (τ (r.len - 1) + 1) r = (muxBeh W S t.layout).wdataE inp (τ (r.len - 1) + 1) r) := by
  have h1 := tree_meets_spec W t h
  have h2 := mux_meets_spec W S t.layout hflat
  exact ⟨fun u r hr => spec_rstb_agree W _ _ _ h1 h2 inp u r hr,
         fun u r hr => spec_wstb_agree W _ _ _ h1 h2 inp u r hr,
         fun r hr hrd t0 t1 hle hf hl hq => spec_rdata_agree W _ _ _ h1 h2 inp r hr hrd t0 t1 hle hf hl hq,
         fun r hr hwr τ v hm hc hq => spec_wdata_agree W _ _ _ h1 h2 inp r hr hwr τ v hm hc hq⟩

/-- non-vacuity: the flattened layout of the example tree of `Props/C06T.lean` is a legal
    multiplexer layout, so `tree_like_flat_mux` applies to it -/
example : WF ([⟨0, 2, 16, true, true⟩, ⟨2, 1, 8, true, false⟩, ⟨9, 3, 20, true, true⟩] : List Reg) := by
  refine ⟨by decide, ?_⟩
  intro a ha b hb hne
  simp only [List.mem_cons, List.not_mem_nil, or_false] at ha hb
  rcases ha with rfl | rfl | rfl <;> rcases hb with rfl | rfl | rfl <;>
    first | exact absurd rfl hne | (unfold Disjoint Reg.stop; simp)

end CsrT
