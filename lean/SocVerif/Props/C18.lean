import SocVerif.MemMap
/-!
# C18 — names in a memory map are unique and prefix-free; conflicts are refused

Property theorems about the namespace part of the `MemMap` model: `available` is the coded
`_Namespace.is_available` (index loop `Names.conflictLoop`), `addResource` / `addWindow` consult it
before anything is mutated, anonymous windows absorb the child's names.
Helper lemmas may be added ABOVE the theorems (or in `SocVerif/Props/C18Lemmas.lean`); model
definitions and the theorem statements are fixed.
-/
namespace MemMap
open RangeMap Names

/-- the namespace invariant: every name is non-empty (validated by `MemoryMap.Name`) and no name
    is equal to, a prefix of, or an extension of another -/
structure NInv (names : List Name) : Prop where
  nonempty : ∀ n ∈ names, n ≠ []
  prefixFree : names.Pairwise (fun a b => related a b = false)


/-! ## helper lemmas -/

theorem isPrefix_iff (a b : Name) : isPrefix a b = true ↔ ∃ c, b = a ++ c := by
  induction a generalizing b with
  | nil => simp [isPrefix]
  | cons x xs ih =>
    cases b with
    | nil => simp [isPrefix]
    | cons y ys =>
      simp only [isPrefix, Bool.and_eq_true, beq_iff_eq, ih, List.cons_append, List.cons.injEq]
      constructor
      · rintro ⟨rfl, c, rfl⟩; exact ⟨c, rfl, rfl⟩
      · rintro ⟨c, rfl, rfl⟩; exact ⟨rfl, c, rfl⟩

theorem related_comm (a b : Name) : related a b = related b a := by
  unfold related; exact Bool.or_comm _ _

theorem NInv_nil : NInv [] := ⟨by simp, List.Pairwise.nil⟩

theorem NInv_cons {n : Name} {names : List Name} (hne : n ≠ [])
    (hfree : ∀ x ∈ names, related n x = false) (hn : NInv names) : NInv (n :: names) := by
  refine ⟨?_, List.pairwise_cons.mpr ⟨hfree, hn.prefixFree⟩⟩
  intro x hx
  rcases List.mem_cons.mp hx with rfl | hx
  · exact hne
  · exact hn.nonempty x hx

theorem NInv_append {a b : List Name} (ha : NInv a) (hb : NInv b)
    (hfree : ∀ q ∈ a, ∀ n ∈ b, related q n = false) : NInv (a ++ b) := by
  refine ⟨?_, List.pairwise_append.mpr ⟨ha.prefixFree, hb.prefixFree, hfree⟩⟩
  intro x hx
  rcases List.mem_append.mp hx with hx | hx
  · exact ha.nonempty x hx
  · exact hb.nonempty x hx

/-- `related` is the symmetric prefix relation, equality included -/
theorem related_iff (a b : Name) : related a b = true ↔ (∃ c, b = a ++ c) ∨ (∃ c, a = b ++ c) := by
  unfold related
  rw [Bool.or_eq_true, isPrefix_iff, isPrefix_iff]

/-- `'0'` (string) and `0` (integer) are different name parts, so they never conflict -/
theorem str_ne_int (s : String) (n : Nat) : related [Part.str s] [Part.int n] = false := by
  simp [related, isPrefix]

/-- the coded loop decides exactly the prefix relation: a query is available iff it is related
    to no visible name (never an IndexError, for validated names) -/
theorem available_iff (names qs : List Name) (hn : ∀ n ∈ names, n ≠ []) (hq : ∀ q ∈ qs, q ≠ []) :
    available names qs = true ↔ ∀ q ∈ qs, ∀ n ∈ names, related q n = false := by
  unfold available
  simp only [List.all_eq_true]
  constructor
  · intro h q hqm n hnm
    have := h q hqm n hnm
    rw [conflictLoop_iff_prefix q n (hq q hqm) (hn n hnm)] at this
    cases hr : related q n
    · rfl
    · rw [hr] at this; simp at this
  · intro h q hqm n hnm
    rw [conflictLoop_iff_prefix q n (hq q hqm) (hn n hnm), h q hqm n hnm]
    simp


theorem addResource_some {m : MMap} {id : Nat} {name : Name} {size : Nat} {addr al : Option Nat}
    {m' : MMap} {s e : Nat} (h : addResource m id name size addr al = some (m', s, e)) :
    name ≠ [] ∧ available m.names [name] = true ∧ m'.names = name :: m.names := by
  unfold addResource at h
  by_cases h1 : m.frozen = true
  · rw [if_pos h1] at h; cases h
  by_cases h2 : m.resIds.contains id = true
  · rw [if_neg h1, if_pos h2] at h; cases h
  by_cases h3 : name.isEmpty = true
  · rw [if_neg h1, if_neg h2, if_pos h3] at h; cases h
  by_cases h4 : (!available m.names [name]) = true
  · rw [if_neg h1, if_neg h2, if_neg h3, if_pos h4] at h; cases h
  rw [if_neg h1, if_neg h2, if_neg h3, if_neg h4] at h
  simp only at h
  generalize computeRange m addr size _ = cr at h
  cases cr with
  | none => cases h
  | some se =>
    obtain ⟨s', e'⟩ := se
    simp only [Option.some.injEq, Prod.mk.injEq] at h
    obtain ⟨rfl, _, _⟩ := h
    refine ⟨?_, ?_, rfl⟩
    · intro hnil; subst hnil; simp at h3
    · simpa using h4

theorem addWindow_some {m : MMap} {h : Nat} {child : MMap} {name : Option Name} {addr : Option Nat}
    {sparse : Option Bool} {m' : MMap} {s e r : Nat}
    (hw : addWindow m h child name addr sparse = some (m', s, e, r)) :
    name ≠ some [] ∧
    available m.names (match name with | none => child.names | some n => [n]) = true ∧
    m'.names = (match name with | none => child.names | some n => [n]) ++ m.names := by
  unfold addWindow at hw
  by_cases h1 : m.frozen = true
  · rw [if_pos h1] at hw; cases hw
  by_cases h2 : m.winIds.contains h = true
  · rw [if_neg h1, if_pos h2] at hw; cases hw
  by_cases h3 : child.dw > m.dw
  · rw [if_neg h1, if_neg h2, if_pos h3] at hw; cases hw
  by_cases h4 : (child.dw != m.dw && sparse.isNone) = true
  · rw [if_neg h1, if_neg h2, if_neg h3, if_pos h4] at hw; cases hw
  by_cases h5 : (child.dw != m.dw && sparse == some false && m.dw % child.dw != 0) = true
  · rw [if_neg h1, if_neg h2, if_neg h3, if_neg h4, if_pos h5] at hw; cases hw
  by_cases h6 : (name == some []) = true
  · rw [if_neg h1, if_neg h2, if_neg h3, if_neg h4, if_neg h5, if_pos h6] at hw; cases hw
  rw [if_neg h1, if_neg h2, if_neg h3, if_neg h4, if_neg h5, if_neg h6] at hw
  simp only at hw
  generalize (if (sparse == some true) = true then 1 else m.dw / child.dw) = ratio at hw
  generalize computeRange m addr _ _ = cr at hw
  have hne : name ≠ some [] := by
    intro hnil; subst hnil; simp at h6
  cases name with
  | none =>
    simp only at hw ⊢
    by_cases h7 : (!available m.names child.names) = true
    · rw [if_pos h7] at hw; cases hw
    rw [if_neg h7] at hw
    split at hw
    · cases hw
    split at hw
    · cases hw
    cases cr with
    | none => cases hw
    | some se =>
      obtain ⟨s', e'⟩ := se
      simp only [Option.some.injEq, Prod.mk.injEq] at hw
      obtain ⟨rfl, _, _⟩ := hw
      exact ⟨hne, by simpa using h7, rfl⟩
  | some n =>
    simp only at hw ⊢
    by_cases h7 : (!available m.names [n]) = true
    · rw [if_pos h7] at hw; cases hw
    rw [if_neg h7] at hw
    split at hw
    · cases hw
    split at hw
    · cases hw
    cases cr with
    | none => cases hw
    | some se =>
      obtain ⟨s', e'⟩ := se
      simp only [Option.some.injEq, Prod.mk.injEq] at hw
      obtain ⟨rfl, _, _⟩ := hw
      exact ⟨hne, by simpa using h7, rfl⟩

/-- soundness of acceptance: a resource whose name is related to a visible name is refused -/
theorem addResource_refuses_conflict (m : MMap) (hn : NInv m.names) (id : Nat) (name : Name) (size : Nat)
    (addr al : Option Nat) (n : Name) (hmem : n ∈ m.names) (hrel : related name n = true) :
    addResource m id name size addr al = none := by
  cases hr : addResource m id name size addr al with
  | none => rfl
  | some r =>
    obtain ⟨m', s, e⟩ := r
    obtain ⟨hne, hav, _⟩ := addResource_some hr
    have := (available_iff m.names [name] hn.nonempty (by simpa using hne)).mp hav
      name (by simp) n hmem
    rw [hrel] at this; cases this

/-- completeness of acceptance ("a legal name is never refused"): if the map is not frozen, the
    object is new, the name is non-empty and unrelated to every visible name, then the only way
    `add_resource` can still refuse is the address computation (`computeRange`). -/
theorem addResource_accepts_legal (m : MMap) (hn : NInv m.names) (id : Nat) (name : Name) (size : Nat)
    (addr al : Option Nat) (hfr : m.frozen = false) (hid : m.resIds.contains id = false)
    (hne : name ≠ []) (hfree : ∀ n ∈ m.names, related name n = false)
    (s e : Nat)
    (hrange : computeRange m addr size (match al with | some a => max a m.al | none => m.al) = some (s, e)) :
    ∃ m', addResource m id name size addr al = some (m', s, e) ∧ m'.names = name :: m.names := by
  have hav : available m.names [name] = true :=
    (available_iff m.names [name] hn.nonempty (by simpa using hne)).mpr (by simpa using hfree)
  have h3 : name.isEmpty = false := by cases name <;> simp_all
  unfold addResource
  rw [if_neg (by rw [hfr]; exact Bool.false_ne_true), if_neg (by rw [hid]; exact Bool.false_ne_true),
    if_neg (by rw [h3]; exact Bool.false_ne_true), if_neg (by rw [hav]; exact Bool.false_ne_true)]
  cases al with
  | none =>
    simp only at hrange ⊢
    rw [hrange]
    exact ⟨_, rfl, rfl⟩
  | some a =>
    simp only at hrange ⊢
    rw [hrange]
    exact ⟨_, rfl, rfl⟩

/-- a successful `add_resource` keeps the namespace invariant -/
theorem addResource_ninv (m : MMap) (hn : NInv m.names) (id : Nat) (name : Name) (size : Nat)
    (addr al : Option Nat) (m' : MMap) (s e : Nat)
    (h : addResource m id name size addr al = some (m', s, e)) : NInv m'.names := by
  obtain ⟨hne, hav, hnames⟩ := addResource_some h
  have := (available_iff m.names [name] hn.nonempty (by simpa using hne)).mp hav
    name (by simp)
  rw [hnames]
  exact NInv_cons hne this hn

/-- a successful `add_window` keeps it too, both for a named window and for an anonymous one
    (which absorbs all of the child's names) -/
theorem addWindow_ninv (m : MMap) (hn : NInv m.names) (h : Nat) (child : MMap) (hc : NInv child.names)
    (name : Option Name) (addr : Option Nat) (sparse : Option Bool) (m' : MMap) (s e r : Nat)
    (hw : addWindow m h child name addr sparse = some (m', s, e, r)) : NInv m'.names := by
  obtain ⟨hne, hav, hnames⟩ := addWindow_some hw
  rw [hnames]
  cases name with
  | none =>
    simp only at hav ⊢
    exact NInv_append hc hn ((available_iff m.names child.names hn.nonempty hc.nonempty).mp hav)
  | some x =>
    simp only at hav ⊢
    have hx : x ≠ [] := fun hnil => hne (by rw [hnil])
    have := (available_iff m.names [x] hn.nonempty (by simpa using hx)).mp hav x (by simp)
    exact NInv_cons hx this hn

/-- a window whose name (or, if anonymous, any of whose absorbed names) is related to a visible
    name is refused -/
theorem addWindow_refuses_conflict (m : MMap) (hn : NInv m.names) (h : Nat) (child : MMap)
    (hc : NInv child.names) (name : Option Name) (addr : Option Nat) (sparse : Option Bool)
    (q n : Name) (hq : q ∈ (match name with | none => child.names | some x => [x]))
    (hmem : n ∈ m.names) (hrel : related q n = true) :
    addWindow m h child name addr sparse = none := by
  cases hr : addWindow m h child name addr sparse with
  | none => rfl
  | some res =>
    obtain ⟨m', s, e, r⟩ := res
    obtain ⟨hne, hav, _⟩ := addWindow_some hr
    cases name with
    | none =>
      simp only at hav hq
      have := (available_iff m.names child.names hn.nonempty hc.nonempty).mp hav q hq n hmem
      rw [hrel] at this; cases this
    | some x =>
      simp only at hav hq
      have hx : x ≠ [] := fun hnil => hne (by rw [hnil])
      have := (available_iff m.names [x] hn.nonempty (by simpa using hx)).mp hav q hq n hmem
      rw [hrel] at this; cases this

theorem ninv_set {w : World} (hw : ∀ m ∈ w, NInv m.names) (i : Nat) (x : MMap)
    (hx : NInv x.names) : ∀ m ∈ w.set i x, NInv m.names := by
  intro m hm
  rcases List.mem_or_eq_of_mem_set hm with h | h
  · exact hw m h
  · rw [h]; exact hx

theorem step_ninv (w : World) (op : Op) (hw : ∀ m ∈ w, NInv m.names) :
    ∀ m ∈ (step w op).1, NInv m.names := by
  cases op with
  | new aw dw al =>
    intro m hm
    simp only [step] at hm
    rcases List.mem_append.mp hm with h | h
    · exact hw m h
    · rw [List.mem_singleton.mp h]; exact NInv_nil
  | res h id name size addr al =>
    simp only [step]
    cases hg : w[h]? with
    | none => exact hw
    | some m0 =>
      simp only
      cases hr : addResource m0 id name size addr al with
      | none => exact hw
      | some r =>
        obtain ⟨m', s, e⟩ := r
        simp only
        exact ninv_set hw h m' (addResource_ninv m0 (hw m0 (List.mem_of_getElem? hg)) _ _ _ _ _ _ _ _ hr)
  | win h ch name addr sparse =>
    simp only [step]
    cases hg : w[h]? with
    | none => exact hw
    | some m0 =>
      cases hgc : w[ch]? with
      | none => exact hw
      | some c =>
        simp only
        cases hr : addWindow m0 ch c name addr sparse with
        | none => exact hw
        | some res =>
          obtain ⟨m', s, e, r⟩ := res
          simp only
          have hm0 := hw m0 (List.mem_of_getElem? hg)
          have hc0 := hw c (List.mem_of_getElem? hgc)
          exact ninv_set (ninv_set hw ch { c with frozen := true } hc0) h m'
            (addWindow_ninv m0 hm0 ch c hc0 name addr sparse m' s e r hr)
  | align h a =>
    simp only [step]
    cases hg : w[h]? with
    | none => exact hw
    | some m0 =>
      simp only [alignTo]
      exact ninv_set hw h _ (hw m0 (List.mem_of_getElem? hg))
  | freeze h =>
    simp only [step]
    cases hg : w[h]? with
    | none => exact hw
    | some m0 =>
      simp only
      exact ninv_set hw h _ (hw m0 (List.mem_of_getElem? hg))

theorem run_ninv (ops : List Op) : ∀ (w : World), (∀ m ∈ w, NInv m.names) →
    ∀ m ∈ run w ops, NInv m.names := by
  induction ops with
  | nil => intro w hw; exact hw
  | cons op ops ih =>
    intro w hw
    have : run w (op :: ops) = run (step w op).1 ops := rfl
    rw [this]
    exact ih _ (step_ninv w op hw)


/-- every map of every reachable world has a prefix-free namespace of non-empty names -/
theorem names_prefix_free (ops : List Op) : ∀ m ∈ run [] ops, NInv m.names :=
  run_ninv ops [] (by intro m hm; cases hm)

/-- non-vacuity: a history with an equal name, a prefix, an extension and an anonymous absorption:
    the conflicting calls are refused, the legal ones accepted -/
example :
    let w := run [] [.new 8 8 0, .res 0 0 [.str "a", .int 0] 1 none none,
                     .res 0 1 [.str "a"] 1 none none,            -- prefix: refused
                     .res 0 2 [.str "a", .int 0, .str "b"] 1 none none,   -- extension: refused
                     .res 0 3 [.str "a", .str "0"] 1 none none,  -- legal ('0' ≠ 0)
                     .new 4 8 0, .res 1 4 [.str "a", .int 0] 1 none none,
                     .win 0 1 none none none]                    -- absorbs a conflicting name: refused
    (w.head?.map (fun m => m.names.length)) = some 2 := by
  decide

end MemMap
