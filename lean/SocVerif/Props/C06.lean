import SocVerif.Decoders
/-!
# C06 — the CSR decoder routes each access to exactly one subordinate, transparently

Theorems about the CSR half of `SocVerif/Decoders.lean` for every number, size, order and placement
of subordinate windows and every combination of address, strobes and data. Windows are aligned to
their size (`start % 2^aw = 0`: implicit placement guarantees it — C02 — and `add_window`
requires it of explicit addresses). Helper lemmas (prefixed `c06_`) may be added ABOVE the
theorems; model definitions and theorem statements are fixed.
-/
namespace Dec

theorem c06_win (m start a : Nat) (hm : 0 < m) (hal : start % m = 0) :
    a / m = start / m ↔ start ≤ a ∧ a < start + m := by
  have h := Nat.div_add_mod start m
  rw [hal] at h
  rw [Nat.div_eq_iff hm, Nat.mul_comm (start / m) m]
  generalize start / m = q at *
  generalize m * q = t at *
  omega

theorem c06_mod (m start a : Nat) (_hm : 0 < m) (hal : start % m = 0)
    (h1 : start ≤ a) (h2 : a < start + m) : a % m = a - start := by
  have h := Nat.div_add_mod start m
  rw [hal] at h
  have e : a = (a - start) + m * (start / m) := by omega
  rw [e, Nat.add_mul_mod_self_left, ← e]
  exact Nat.mod_eq_of_lt (by omega)

theorem c06_fold (f : Nat → Nat) (k : Nat) (n : Nat) (acc : Nat)
    (h : ∀ j, j < n → j ≠ k → f j = 0) :
    (List.range n).foldl (fun acc k => acc ||| f k) acc = if k < n then acc ||| f k else acc := by
  induction n with
  | zero => simp
  | succ n ih =>
    rw [List.range_succ, List.foldl_append, ih (fun j hj hne => h j (by omega) hne)]
    simp only [List.foldl_cons, List.foldl_nil]
    by_cases h1 : k < n
    · have : n ≠ k := by omega
      rw [if_pos h1, if_pos (by omega), h n (by omega) this, Nat.or_zero]
    · rw [if_neg h1]
      by_cases h2 : k = n
      · subst h2; rw [if_pos (by omega)]
      · rw [if_neg (by omega), h n (by omega) (by omega), Nat.or_zero]

/-- for a window aligned to its size the `Case` pattern matches exactly the window's addresses -/
theorem pattern_iff_range (start subAw a : Nat) (hal : start % 2 ^ subAw = 0) :
    (windowPat start subAw).matches a = true ↔ start ≤ a ∧ a < start + 2 ^ subAw := by
  unfold windowPat Pat.matches
  simp only [beq_iff_eq]
  exact c06_win _ _ _ (Nat.two_pow_pos _) hal

/-- well-formed window list: aligned, ascending and pairwise disjoint (what the memory map
    guarantees, C02) -/
structure CsrWF (subs : List CsrSub) : Prop where
  aligned : ∀ s ∈ subs, s.start % 2 ^ s.aw = 0
  sorted  : subs.Pairwise (fun a b => a.start + 2 ^ a.aw ≤ b.start)

/-- the subordinate that gets the strobes is exactly the one whose window contains the address -/
theorem selected_iff_window (subs : List CsrSub) (hwf : CsrWF subs) (a k : Nat) :
    firstMatch (csrPats subs) a = some k ↔
      ∃ s, subs[k]? = some s ∧ s.start ≤ a ∧ a < s.start + 2 ^ s.aw := by
  unfold firstMatch
  rw [List.findIdx?_eq_some_iff_getElem]
  have hsorted := List.pairwise_iff_getElem.mp hwf.sorted
  constructor
  · rintro ⟨hlt, hm, _⟩
    have hlt' : k < subs.length := by simpa [csrPats] using hlt
    refine ⟨subs[k], by simp [hlt'], ?_⟩
    have : (csrPats subs)[k] = windowPat subs[k].start subs[k].aw := by simp [csrPats]
    rw [this] at hm
    exact (pattern_iff_range _ _ _ (hwf.aligned _ (List.getElem_mem hlt'))).mp hm
  · rintro ⟨s, hs, hin⟩
    obtain ⟨hlt', rfl⟩ := List.getElem?_eq_some_iff.mp hs
    have hlt : k < (csrPats subs).length := by simpa [csrPats] using hlt'
    refine ⟨hlt, ?_, ?_⟩
    · have : (csrPats subs)[k] = windowPat subs[k].start subs[k].aw := by simp [csrPats]
      rw [this]
      exact (pattern_iff_range _ _ _ (hwf.aligned _ (List.getElem_mem hlt'))).mpr hin
    · intro j hji hm
      have hjl : j < subs.length := by omega
      have : (csrPats subs)[j]'(by simpa [csrPats] using hjl) = windowPat subs[j].start subs[j].aw := by
        simp [csrPats]
      rw [this] at hm
      have h1 := (pattern_iff_range _ _ _ (hwf.aligned _ (List.getElem_mem hjl))).mp hm
      have h2 := hsorted j k hjl hlt' hji
      omega

/-- no subordinate is selected exactly when the address is unassigned -/
theorem unassigned_iff (subs : List CsrSub) (hwf : CsrWF subs) (a : Nat) :
    firstMatch (csrPats subs) a = none ↔ ∀ s ∈ subs, ¬ (s.start ≤ a ∧ a < s.start + 2 ^ s.aw) := by
  unfold firstMatch
  rw [List.findIdx?_eq_none_iff]
  constructor
  · intro h s hs hin
    have := h (windowPat s.start s.aw) (by simp only [csrPats, List.mem_map]; exact ⟨s, hs, rfl⟩)
    rw [(pattern_iff_range _ _ _ (hwf.aligned s hs)).mpr hin] at this
    exact Bool.noConfusion this
  · intro h p hp
    simp only [csrPats, List.mem_map] at hp
    obtain ⟨s, hs, rfl⟩ := hp
    cases hm : (windowPat s.start s.aw).matches a with
    | false => rfl
    | true => exact absurd ((pattern_iff_range _ _ _ (hwf.aligned s hs)).mp hm) (h s hs)

/-- a strobe is forwarded in the same cycle, with the offset inside the window as address and the
    write data unchanged, to the subordinate whose window contains the address … -/
theorem forward_exact (subs : List CsrSub) (hwf : CsrWF subs) (x : CsrIn) (k : Nat) (s : CsrSub)
    (hk : subs[k]? = some s) (hin : s.start ≤ x.addr ∧ x.addr < s.start + 2 ^ s.aw) :
    (csrSubOut subs x k).rstb = x.rstb ∧ (csrSubOut subs x k).wstb = x.wstb ∧
    (csrSubOut subs x k).addr = x.addr - s.start ∧ (csrSubOut subs x k).wdata = x.wdata := by
  have hsel : firstMatch (csrPats subs) x.addr = some k :=
    (selected_iff_window subs hwf x.addr k).mpr ⟨s, hk, hin⟩
  have hal := hwf.aligned s (List.mem_of_getElem? hk)
  unfold csrSubOut
  simp only [hk, hsel, beq_self_eq_true, Bool.true_and]
  exact ⟨by trivial, by trivial, c06_mod _ _ _ (Nat.two_pow_pos _) hal hin.1 hin.2, by trivial⟩

/-- … and to nobody else; in particular to no subordinate when the address is unassigned -/
theorem nobody_else (subs : List CsrSub) (hwf : CsrWF subs) (x : CsrIn) (k : Nat) (s : CsrSub)
    (hk : subs[k]? = some s) (hout : ¬ (s.start ≤ x.addr ∧ x.addr < s.start + 2 ^ s.aw)) :
    (csrSubOut subs x k).rstb = false ∧ (csrSubOut subs x k).wstb = false := by
  have hsel : (firstMatch (csrPats subs) x.addr == some k) = false := by
    cases h : firstMatch (csrPats subs) x.addr == some k with
    | false => rfl
    | true =>
      have h' := (selected_iff_window subs hwf x.addr k).mp (by simpa using h)
      obtain ⟨s', hs', hin⟩ := h'
      rw [hk] at hs'
      cases hs'
      exact absurd hin hout
  unfold csrSubOut
  simp only [hk, hsel, Bool.false_and]
  exact ⟨by trivial, by trivial⟩

/-- read data returned upstream is that of the one subordinate that drives a non-zero value, idle
    subordinates contributing zero -/
theorem r_data_is_selected (subs : List CsrSub) (x : CsrIn) (k : Nat) (hk : k < subs.length)
    (hidle : ∀ j, j < subs.length → j ≠ k → x.subR j = 0) :
    csrRdata subs x = x.subR k := by
  unfold csrRdata
  rw [c06_fold x.subR k subs.length 0 hidle, if_pos hk, Nat.zero_or]

theorem r_data_zero_when_all_idle (subs : List CsrSub) (x : CsrIn)
    (hidle : ∀ j, j < subs.length → x.subR j = 0) : csrRdata subs x = 0 := by
  unfold csrRdata
  rw [c06_fold x.subR subs.length subs.length 0 (fun j hj _ => hidle j hj), if_neg (by omega)]

/-- non-vacuity: three windows (sizes 4, 16, 2), the middle one not first in address order of sizes -/
example :
    let subs : List CsrSub := [⟨0, 2⟩, ⟨16, 4⟩, ⟨32, 1⟩]
    let x : CsrIn := ⟨21, true, false, 7, fun k => if k = 1 then 9 else 0⟩
    CsrWF subs ∧ (csrSubOut subs x 1).rstb = true ∧ (csrSubOut subs x 1).addr = 5 ∧
    (csrSubOut subs x 0).rstb = false ∧ (csrSubOut subs x 2).rstb = false ∧ csrRdata subs x = 9 ∧
    firstMatch (csrPats subs) 7 = none := by
  refine ⟨⟨?_, ?_⟩, ?_⟩
  · decide
  · decide
  · decide

end Dec
