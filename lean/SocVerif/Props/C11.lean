import SocVerif.RegPack
/-!
# C11 — register fields are packed LSB-first, contiguously, and strobed by access mode

Theorems about the `RegPack` model for every nesting of field dicts and lists, every field width
and access mode, every register access mode and every value on the ports.
Helper lemmas (prefixed `c11_`) may be added ABOVE the theorems; model definitions and theorem
statements are fixed.
-/
namespace RegPack

def widthSum (fs : List Flat) : Nat := (fs.map (·.w)).sum

theorem c11_widthSum_nil : widthSum [] = 0 := rfl
theorem c11_widthSum_cons (f : Flat) (fs : List Flat) : widthSum (f :: fs) = f.w + widthSum fs := by
  simp [widthSum]

theorem c11_foldl (fs : List Flat) (s : Nat) :
    fs.foldl (fun acc f => acc + f.w) s = s + widthSum fs := by
  induction fs generalizing s with
  | nil => simp [c11_widthSum_nil]
  | cons f fs ih => rw [List.foldl_cons, ih, c11_widthSum_cons]; omega

theorem c11_offsets (s : Nat) (fs : List Flat) (k : Nat) (hk : k < fs.length) :
    (offsets s fs)[k]? = some (s + widthSum (fs.take k)) := by
  induction fs generalizing s k with
  | nil => simp at hk
  | cons f fs ih =>
    cases k with
    | zero => simp [offsets, c11_widthSum_nil]
    | succ k =>
      have hk' : k < fs.length := by simpa using hk
      simp only [offsets, List.getElem?_cons_succ, List.take_succ_cons, c11_widthSum_cons]
      rw [ih (s + f.w) k hk', Nat.add_assoc]

theorem c11_go_shift (x : EIn) (k0 off : Nat) (fs : List Flat) :
    elemRdataGo x k0 off fs = 2 ^ off * elemRdataGo x k0 0 fs := by
  induction fs generalizing k0 off with
  | nil => simp [elemRdataGo]
  | cons f fs ih =>
    simp only [elemRdataGo]
    rw [ih (k0 + 1) (off + f.w), ih (k0 + 1) (0 + f.w), Nat.zero_add, Nat.pow_add, Nat.mul_add,
      Nat.mul_assoc, Nat.pow_zero, Nat.mul_one]
    congr 1
    split
    · rw [Nat.mul_comm]
    · simp

theorem c11_go_cons (x : EIn) (k0 : Nat) (f : Flat) (fs : List Flat) :
    elemRdataGo x k0 0 (f :: fs) =
      (if f.acc.readable then x.fr k0 % 2 ^ f.w else 0) + 2 ^ f.w * elemRdataGo x (k0 + 1) 0 fs := by
  simp only [elemRdataGo]
  rw [c11_go_shift x (k0 + 1) (0 + f.w), Nat.zero_add, Nat.pow_zero, Nat.mul_one]

theorem c11_head_lt (x : EIn) (k0 : Nat) (f : Flat) :
    (if f.acc.readable then x.fr k0 % 2 ^ f.w else 0) < 2 ^ f.w := by
  split
  · exact Nat.mod_lt _ (Nat.two_pow_pos _)
  · exact Nat.two_pow_pos _

theorem c11_go_lt (x : EIn) (k0 : Nat) (fs : List Flat) :
    elemRdataGo x k0 0 fs < 2 ^ widthSum fs := by
  induction fs generalizing k0 with
  | nil => simp [elemRdataGo, c11_widthSum_nil]
  | cons f fs ih =>
    rw [c11_go_cons, c11_widthSum_cons, Nat.pow_add]
    have h1 := c11_head_lt x k0 f
    have h2 := ih (k0 + 1)
    generalize (if f.acc.readable then x.fr k0 % 2 ^ f.w else 0) = a at *
    generalize elemRdataGo x (k0 + 1) 0 fs = r at *
    generalize 2 ^ widthSum fs = B at *
    generalize 2 ^ f.w = A at *
    have h3 : r + 1 ≤ B := h2
    have h4 : A * (r + 1) ≤ A * B := Nat.mul_le_mul_left A h3
    rw [Nat.mul_add, Nat.mul_one] at h4
    omega

theorem c11_go_extract (x : EIn) (k0 : Nat) (fs : List Flat) (k : Nat) (f : Flat)
    (hk : fs[k]? = some f) :
    elemRdataGo x k0 0 fs / 2 ^ widthSum (fs.take k) % 2 ^ f.w =
      (if f.acc.readable then x.fr (k0 + k) % 2 ^ f.w else 0) := by
  induction fs generalizing k0 k with
  | nil => simp at hk
  | cons g fs ih =>
    rw [c11_go_cons]
    have h1 := c11_head_lt x k0 g
    cases k with
    | zero =>
      simp only [List.getElem?_cons_zero, Option.some.injEq] at hk
      subst hk
      simp only [List.take_zero, c11_widthSum_nil, Nat.pow_zero, Nat.div_one, Nat.add_zero]
      rw [Nat.add_mul_mod_self_left]
      exact Nat.mod_eq_of_lt h1
    | succ k =>
      simp only [List.getElem?_cons_succ] at hk
      simp only [List.take_succ_cons, c11_widthSum_cons]
      rw [Nat.pow_add, ← Nat.div_div_eq_div_mul, Nat.add_mul_div_left _ _ (Nat.two_pow_pos _),
        Nat.div_eq_of_lt h1, Nat.zero_add, ih (k0 + 1) k hk]
      have : k0 + 1 + k = k0 + (k + 1) := by omega
      rw [this]

/-- a register's width is the sum of its field widths, over the flattened field list -/
theorem width_is_sum (t : FTree) (ea : EAcc) (w : Nat) (fs : List Flat)
    (h : mkRegister t ea = some (w, fs)) : fs = t.flatten ∧ w = widthSum fs := by
  unfold mkRegister at h
  simp only at h
  split at h
  · cases h
  · simp only [Option.some.injEq, Prod.mk.injEq] at h
    obtain ⟨h1, h2⟩ := h
    subst h2
    refine ⟨rfl, ?_⟩
    rw [← h1, c11_foldl, Nat.zero_add]

/-- a field whose access mode the register's access mode cannot serve is rejected at construction,
    and nothing else is -/
theorem access_guard (t : FTree) (ea : EAcc) :
    mkRegister t ea = none ↔
      ∃ f ∈ t.flatten, (f.acc.readable = true ∧ ea.readable = false) ∨ (f.acc.writable = true ∧ ea.writable = false) := by
  unfold mkRegister
  simp only
  split
  · rename_i h
    rw [List.any_eq_true] at h
    obtain ⟨f, hf, hp⟩ := h
    refine ⟨fun _ => ⟨f, hf, ?_⟩, fun _ => rfl⟩
    simpa using hp
  · rename_i h
    refine ⟨fun h' => ?_, ?_⟩
    · cases h'
    rintro ⟨f, hf, hp⟩
    exfalso
    apply h
    rw [List.any_eq_true]
    refine ⟨f, hf, ?_⟩
    simpa using hp

/-- fields occupy consecutive bit ranges, least significant first, in declaration order: field `k`
    starts where the fields before it end -/
theorem fields_contiguous (fs : List Flat) (k : Nat) (hk : k < fs.length) :
    (offsets 0 fs)[k]? = some (widthSum (fs.take k)) := by
  rw [c11_offsets 0 fs k hk, Nat.zero_add]

/-- declaration order of a dict: the flattened fields of the first entry (prefixed by its key),
    then those of the remaining entries -/
theorem flatten_dict_order (k : String) (ks : List String) (t : FTree) (ts : List FTree) :
    (FTree.dict (k :: ks) (t :: ts)).flatten =
      (t.flatten.map fun f => { f with path := Key.name k :: f.path }) ++ (FTree.dict ks ts).flatten := by
  simp only [FTree.flatten, FTree.flattenDict]

/-- the same for a list: entry `n` is prefixed by its index -/
theorem flatten_list_order (t : FTree) (ts : List FTree) :
    (FTree.list (t :: ts)).flatten =
      (t.flatten.map fun f => { f with path := Key.idx 0 :: f.path }) ++ FTree.flattenList 1 ts := by
  simp only [FTree.flatten, FTree.flattenList]

/-- a register read returns each readable field's value at its bit range and zero elsewhere -/
theorem read_value (fs : List Flat) (x : EIn) (k : Nat) (f : Flat) (hk : fs[k]? = some f) :
    elemRdata fs x / 2 ^ widthSum (fs.take k) % 2 ^ f.w =
      (if f.acc.readable then x.fr k % 2 ^ f.w else 0) := by
  have := c11_go_extract x 0 fs k f hk
  rw [Nat.zero_add] at this
  exact this

theorem read_value_bounded (fs : List Flat) (x : EIn) : elemRdata fs x < 2 ^ widthSum fs := by
  exact c11_go_lt x 0 fs

/-- a register write hands each writable field exactly its own bit range -/
theorem write_slice (f : Flat) (off : Nat) (x : EIn) (hw : f.acc.writable = true) (b : Nat) (hb : b < f.w) :
    (fieldWdata f off x).testBit b = x.wdata.testBit (off + b) := by
  unfold fieldWdata
  rw [if_pos hw, Nat.testBit_mod_two_pow, Nat.testBit_div_two_pow, Nat.add_comm]
  simp [hb]

/-- read and write strobes reach precisely the fields whose access mode includes that direction -/
theorem strobes_by_access (f : Flat) (x : EIn) :
    fieldRstb f x = (f.acc.readable && x.rstb) ∧ fieldWstb f x = (f.acc.writable && x.wstb) ∧
    (f.acc.writable = false → ∀ off, fieldWdata f off x = 0) := by
  refine ⟨rfl, rfl, fun h off => ?_⟩
  unfold fieldWdata
  simp [h]

/-- non-vacuity: a dict with a nested list, a non-readable field in the middle -/
example :
    let t := FTree.dict ["a", "b", "c"] [.leaf 3 .rw, .list [.leaf 2 .w, .leaf 0 .nc], .leaf 4 .r]
    let x : EIn := ⟨true, true, 0b110100101, fun k => [5, 3, 0, 9].getD k 0⟩
    mkRegister t .rw = some (9, t.flatten) ∧
    t.flatten.map (·.path) = [[.name "a"], [.name "b", .idx 0], [.name "b", .idx 1], [.name "c"]] ∧
    offsets 0 t.flatten = [0, 3, 5, 5] ∧
    elemRdata t.flatten x = 5 + 9 * 32 ∧
    fieldWdata ⟨[], 2, .w⟩ 3 x = 0b00 ∧ fieldWdata ⟨[], 4, .rw⟩ 5 x = 0b1101 ∧
    mkRegister t .r = none := by
  decide

end RegPack
