import SocVerif.Gpio
import SocVerif.Builder
import SocVerif.Props.C04
import SocVerif.Props.C05
import SocVerif.Props.C12
import SocVerif.Props.C17
import SocVerif.Props.C02Lemmas
/-!
# C16 — GPIO pins follow their mode table, inputs are delayed exactly, pins are independent

Theorems about the composite model `Gpio` (CSR multiplexer model over the four registers laid out
by the builder rule + field packing + field actions + synchroniser + mode switch), for every pin
count, bus width, synchroniser depth, **every shadow size `S`** and every interleaving of bus
accesses and pin activity. Available: `Mux.write_concat`, `Mux.w_stb_exact` (Props/C05),
`Mux.read_is_snapshot` (Props/C04), `Act.testBit_ofBits` (Props/C12), `Bld.size_pow2`,
`Bld.place_spec`, `Bld.c17_clog2_*` (Props/C17), `MemMap.alignUp_*` (Props/C02Lemmas).
Helper lemmas (prefixed `c16_`) may be added ABOVE the theorems; model definitions and theorem
statements are fixed.
-/
namespace Gpio
open Mux

theorem c16_sync (c : Cfg) (S : Nat) (inp : Nat → In) (t : Nat) : ∀ j k,
    (st c S inp t).sync j k = (if j + 1 ≤ t then (inp (t - (j + 1))).pin k else false) := by
  induction t with
  | zero => intro j k; rfl
  | succ t ih =>
    intro j k
    show (if j = 0 then (inp t).pin k else (st c S inp t).sync (j - 1) k) = _
    by_cases hj : j = 0
    · subst hj; simp
    · obtain ⟨j', rfl⟩ : ∃ j', j = j' + 1 := ⟨j - 1, by omega⟩
      rw [if_neg hj, Nat.add_sub_cancel, ih j' k]
      by_cases h : j' + 1 ≤ t
      · have h' : j' + 1 + 1 ≤ t + 1 := by omega
        rw [if_pos h, if_pos h']
        congr 2; omega
      · have h' : ¬ (j' + 1 + 1 ≤ t + 1) := by omega
        rw [if_neg h, if_neg h']

theorem c16_span_pos (dw bits : Nat) : 1 ≤ span dw bits := Nat.two_pow_pos _

theorem c16_placeAt_ge (cur dw bits : Nat) : cur ≤ placeAt cur dw bits := MemMap.alignUp_ge _ _

theorem c16_placeAt_mod (cur dw bits : Nat) : placeAt cur dw bits % span dw bits = 0 :=
  MemMap.alignUp_mod _ _

theorem c16_chain (c : Cfg) :
    (modeReg c).stop ≤ (inputReg c).start ∧ (inputReg c).stop ≤ (outputReg c).start ∧
    (outputReg c).stop ≤ (setclrReg c).start ∧
    1 ≤ (modeReg c).len ∧ 1 ≤ (inputReg c).len ∧ 1 ≤ (outputReg c).len ∧ 1 ≤ (setclrReg c).len :=
  ⟨c16_placeAt_ge _ _ _, c16_placeAt_ge _ _ _, c16_placeAt_ge _ _ _,
   c16_span_pos _ _, c16_span_pos _ _, c16_span_pos _ _, c16_span_pos _ _⟩

theorem c16_wf (c : Cfg) : WF (regs c) := by
  obtain ⟨h1, h2, h3, l1, l2, l3, l4⟩ := c16_chain c
  constructor
  · intro r hr
    simp only [regs, List.mem_cons, List.not_mem_nil, or_false] at hr
    rcases hr with rfl | rfl | rfl | rfl <;> assumption
  · intro a ha b hb hne
    simp only [regs, List.mem_cons, List.not_mem_nil, or_false] at ha hb
    unfold Disjoint
    unfold Reg.stop at *
    rcases ha with rfl | rfl | rfl | rfl <;> rcases hb with rfl | rfl | rfl | rfl <;>
      first | exact absurd rfl hne | omega

/-- each pin's output and output-enable are the documented function of its mode and output bit:
    input-only: disabled; push-pull: driven; open-drain: drives low only while the output bit is 0;
    alternate: disabled, with the alternate-mode flag raised — and only then -/
theorem pin_table (s : State) (k : Nat) :
    (modeOf s k = 0 → pinOut s k = ⟨s.out k, false, false⟩) ∧
    (modeOf s k = 1 → pinOut s k = ⟨s.out k, true, false⟩) ∧
    (modeOf s k = 2 → pinOut s k = ⟨false, !s.out k, false⟩) ∧
    (modeOf s k = 3 → pinOut s k = ⟨s.out k, false, true⟩) ∧
    modeOf s k < 4 ∧ ((pinOut s k).alt = true ↔ modeOf s k = 3) := by
  unfold pinOut modeOf
  cases s.mode (2 * k) <;> cases s.mode (2 * k + 1) <;> simp

/-- the Input register reports each pin's level delayed by exactly `input_stages` clock cycles
    (reset value 0 before that) -/
theorem input_delay (c : Cfg) (S : Nat) (inp : Nat → In) (t k : Nat) :
    inputBits c (st c S inp t) (inp t) k =
      (if c.stages ≤ t then (inp (t - c.stages)).pin k else false) := by
  unfold inputBits
  by_cases h0 : c.stages = 0
  · simp [h0]
  · rw [if_neg h0, c16_sync]
    have e : c.stages - 1 + 1 = c.stages := by omega
    rw [e]

/-- one step of an output bit: a set/clear code from the SetClr register sets (01), clears (10)
    or leaves (00, 11) it; otherwise a write to the Output register stores its bit; otherwise it
    keeps its value -/
theorem output_step (c : Cfg) (S : Nat) (s : State) (x : In) (k : Nat) (hk : k < c.n) :
    (next c S s x).out k =
      (if setReq c S s k = true ∧ clrReq c S s k = false then true
       else if setReq c S s k = false ∧ clrReq c S s k = true then false
       else if s.ws.estb (outputReg c) then (elemWdata c.dw S s.ws (outputReg c)).testBit k
       else s.out k) := by
  show (decide (k < c.n) && outNext c S s k) = _
  simp only [hk, decide_true, Bool.true_and, outNext]
  cases setReq c S s k <;> cases clrReq c S s k <;> simp

/-- pins are independent: everything of pin `k` — its mode bits, its output bit, its pads — after
    one step depends only on pin `k`'s own bits of the state and of the register write data -/
theorem pins_independent (c : Cfg) (S : Nat) (s s' : State) (x x' : In) (k : Nat) (hk : k < c.n)
    (hws : s.ws = s'.ws)
    (hm : s.mode (2 * k) = s'.mode (2 * k) ∧ s.mode (2 * k + 1) = s'.mode (2 * k + 1))
    (ho : s.out k = s'.out k) :
    (next c S s x).mode (2 * k) = (next c S s' x').mode (2 * k) ∧
    (next c S s x).mode (2 * k + 1) = (next c S s' x').mode (2 * k + 1) ∧
    (next c S s x).out k = (next c S s' x').out k ∧
    pinOut s k = pinOut s' k := by
  refine ⟨?_, ?_, ?_, ?_⟩
  · simp only [next, hws]
    cases s'.ws.estb (modeReg c) <;> simp [hm.1]
  · simp only [next, hws]
    cases s'.ws.estb (modeReg c) <;> simp [hm.2]
  · simp only [next, outNext, setReq, clrReq, hws, ho]
    rfl
  · simp only [pinOut, modeOf, hm.1, hm.2, ho]

/-- a write strobe to one register never disturbs the storage behind another: without a strobe
    on Mode (resp. on Output and SetClr) the mode bits (resp. output bits) keep their values -/
theorem untouched_registers_keep (c : Cfg) (S : Nat) (s : State) (x : In) :
    (s.ws.estb (modeReg c) = false → (next c S s x).mode = s.mode) ∧
    (s.ws.estb (outputReg c) = false → s.ws.estb (setclrReg c) = false →
      ∀ k, k < c.n → (next c S s x).out k = s.out k) := by
  constructor
  · intro h
    simp only [next, h, Bool.false_eq_true, if_false]
  · intro h1 h2 k hk
    simp [next, outNext, setReq, clrReq, h1, h2, hk]

/-- the register layout is the builder's: four registers in insertion order, naturally aligned,
    pairwise disjoint -/
theorem layout_wf (c : Cfg) (hdw : 0 < c.dw) : WF (regs c) ∧
    (modeReg c).start = 0 ∧ (modeReg c).stop ≤ (inputReg c).start ∧ (inputReg c).stop ≤ (outputReg c).start ∧
    (outputReg c).stop ≤ (setclrReg c).start ∧
    (inputReg c).start % (inputReg c).len = 0 ∧ (outputReg c).start % (outputReg c).len = 0 ∧
    (setclrReg c).start % (setclrReg c).len = 0 := by
  obtain ⟨h1, h2, h3, _⟩ := c16_chain c
  exact ⟨c16_wf c, rfl, h1, h2, h3, c16_placeAt_mod _ _ _, c16_placeAt_mod _ _ _,
    c16_placeAt_mod _ _ _⟩

/-- the composite's multiplexer state is the multiplexer model run on the composite's streams -/
def rinS (c : Cfg) (S : Nat) (inp : Nat → In) (t : Nat) : RIn := rin c (st c S inp t) (inp t)
def winS (inp : Nat → In) (t : Nat) : WIn := win (inp t)

theorem mux_inside (c : Cfg) (S : Nat) (inp : Nat → In) (t : Nat) :
    (st c S inp t).rs = rst c.dw S (regs c) (rinS c S inp) t ∧
    (st c S inp t).ws = wst S (regs c) (winS inp) t := by
  induction t with
  | zero => exact ⟨rfl, rfl⟩
  | succ t ih =>
    constructor
    · show rnext c.dw S (regs c) (st c S inp t).rs (rin c (st c S inp t) (inp t)) =
        rnext c.dw S (regs c) (rst c.dw S (regs c) (rinS c S inp) t) (rinS c S inp t)
      rw [ih.1]; rfl
    · show wnext S (regs c) (st c S inp t).ws (win (inp t)) =
        wnext S (regs c) (wst S (regs c) (winS inp) t) (winS inp t)
      rw [ih.2]; rfl

/-- a write transaction to a register: chunks in ascending order at times `τ` with values `v`, no
    other write strobe in between -/
structure WriteTxn (inp : Nat → In) (r : Reg) (τ : Nat → Nat) (v : Nat → Nat) : Prop where
  mono  : ∀ k, k + 1 < r.len → τ k < τ (k + 1)
  write : ∀ k, k < r.len → (inp (τ k)).wstb = true ∧ (inp (τ k)).addr = r.start + k ∧ (inp (τ k)).wdata = v k
  quiet : ∀ t, τ 0 ≤ t → t ≤ τ (r.len - 1) → (∀ k, k < r.len → t ≠ τ k) → (inp t).wstb = false

/-- writing the set/clear register sets, clears or leaves each output bit according to its two-bit
    code (bit 2k = set, bit 2k+1 = clear of the written value), two cycles after the last chunk -/
theorem setclr_codes (c : Cfg) (hdw : 0 < c.dw) (S : Nat) (inp : Nat → In) (τ v : Nat → Nat)
    (h : WriteTxn inp (setclrReg c) τ v) (k : Nat) (hk : k < c.n) :
    let t1 := τ ((setclrReg c).len - 1) + 1
    let w := Mux.concat c.dw v (setclrReg c).len % 2 ^ (2 * c.n)
    (st c S inp (t1 + 1)).out k =
      (if w.testBit (2 * k) = true ∧ w.testBit (2 * k + 1) = false then true
       else if w.testBit (2 * k) = false ∧ w.testBit (2 * k + 1) = true then false
       else (st c S inp t1).out k) := by
  intro t1 w
  have hwf := c16_wf c
  have hmem : setclrReg c ∈ regs c := by simp [regs]
  have hmemO : outputReg c ∈ regs c := by simp [regs]
  have hw := Mux.write_concat c.dw S (regs c) hwf (winS inp) (setclrReg c) hmem rfl τ v
    h.mono h.write h.quiet
  rw [← (mux_inside c S inp _).2] at hw
  have hO : (st c S inp t1).ws.estb (outputReg c) = false := by
    rw [(mux_inside c S inp t1).2]
    show (wst S (regs c) (winS inp) (τ ((setclrReg c).len - 1) + 1)).estb (outputReg c) = false
    rw [Mux.w_stb_exact S (regs c) hwf (winS inp) _ (outputReg c) hmemO]
    obtain ⟨_, _, h3, _, _, l3, l4⟩ := c16_chain c
    have ha := (h.write ((setclrReg c).len - 1) (by omega)).2.1
    have hne : (winS inp (τ ((setclrReg c).len - 1))).addr ≠ (outputReg c).stop - 1 := by
      show (inp (τ ((setclrReg c).len - 1))).addr ≠ _
      rw [ha]; unfold Reg.stop at *; omega
    simp [hne]
  have hs : setReq c S (st c S inp t1) k = w.testBit (2 * k) := by
    show ((st c S inp t1).ws.estb (setclrReg c) &&
      (elemWdata c.dw S (st c S inp t1).ws (setclrReg c)).testBit (2 * k)) = _
    rw [hw.1, hw.2]; rfl
  have hc : clrReq c S (st c S inp t1) k = w.testBit (2 * k + 1) := by
    show ((st c S inp t1).ws.estb (setclrReg c) &&
      (elemWdata c.dw S (st c S inp t1).ws (setclrReg c)).testBit (2 * k + 1)) = _
    rw [hw.1, hw.2]; rfl
  show (next c S (st c S inp t1) (inp t1)).out k = _
  rw [output_step c S _ _ k hk, hs, hc, hO]
  simp

/-- a completed write transaction to the Mode register stores the written mode bits (multi-chunk
    mode registers are written atomically) -/
theorem mode_written (c : Cfg) (hdw : 0 < c.dw) (S : Nat) (inp : Nat → In) (τ v : Nat → Nat)
    (h : WriteTxn inp (modeReg c) τ v) (b : Nat) :
    (st c S inp (τ ((modeReg c).len - 1) + 2)).mode b =
      (decide (b < 2 * c.n) && (Mux.concat c.dw v (modeReg c).len % 2 ^ (2 * c.n)).testBit b) := by
  have hwf := c16_wf c
  have hmem : modeReg c ∈ regs c := by simp [regs]
  have hw := Mux.write_concat c.dw S (regs c) hwf (winS inp) (modeReg c) hmem rfl τ v
    h.mono h.write h.quiet
  rw [← (mux_inside c S inp _).2] at hw
  show (next c S (st c S inp (τ ((modeReg c).len - 1) + 1)) (inp _)).mode b = _
  simp only [next, hw.1, hw.2, if_true]
  rfl

/-- non-vacuity: 5 pins on an 8-bit bus: Mode and SetClr take two addresses each -/
example :
    let c : Cfg := ⟨5, 8, 2⟩
    (modeReg c).stop = 2 ∧ (inputReg c).start = 2 ∧ (outputReg c).start = 3 ∧ (setclrReg c).start = 4 ∧
    (setclrReg c).stop = 6 := by
  decide

end Gpio
