import SocVerif.Props.C02
/-!
# C06 / C07 (bookkeeping) — a decoder drives exactly the interfaces whose `add()` was accepted

`csr.Decoder.add` / `wishbone.Decoder.add` (after repair D12): validate, `add_window()` on the
decoder's memory map, and only then record the interface in `_subs` (a dict keyed by the
subordinate's memory map). `elaborate()` looks every window of the map up in `_subs`.

`DState` is the decoder's bookkeeping: its memory map (handle `dm` in the world of maps) and
`_subs` as an association list from memory-map handle to interface id. `addFixed` is the repaired
order, `addOrig` the original one (record first, then `add_window`).

Available: `MemMap.step`, `MemMap.addWindow` and their lemmas in Props/C02.lean / C02Lemmas.lean
(`c02_addWindow_some` …). Helper lemmas (prefixed `c06d_`) may be added ABOVE the theorems; model
definitions and theorem statements are fixed.
-/
namespace DecBook
open MemMap

/-- `_subs`: dict assignment `d[h] = i` on an association list -/
def setSub (subs : List (Nat × Nat)) (h i : Nat) : List (Nat × Nat) := (h, i) :: subs.filter (fun p => p.1 != h)

def getSub (subs : List (Nat × Nat)) (h : Nat) : Option Nat := (subs.find? (fun p => p.1 == h)).map (·.2)

structure DState where
  w    : World              -- all memory maps
  dm   : Nat                -- handle of the decoder's own map
  subs : List (Nat × Nat)   -- `_subs`

/-- repaired `add(sub_bus, name=, addr=, sparse=)`: interface `i` carries memory map `h` -/
def addFixed (d : DState) (h i : Nat) (name : Option Names.Name) (addr : Option Nat) (sparse : Option Bool) : DState × Bool :=
  match step d.w (.win d.dm h name addr sparse) with
  | (w', .ok _) => ({ d with w := w', subs := setSub d.subs h i }, true)
  | _ => (d, false)

/-- original order: record the interface first, then `add_window()`, whose exception leaves the
    record behind -/
def addOrig (d : DState) (h i : Nat) (name : Option Names.Name) (addr : Option Nat) (sparse : Option Bool) : DState × Bool :=
  let d1 := { d with subs := setSub d.subs h i }
  match step d.w (.win d.dm h name addr sparse) with
  | (w', .ok _) => ({ d1 with w := w' }, true)
  | _ => (d1, false)

structure Call where
  h : Nat
  i : Nat
  name : Option Names.Name
  addr : Option Nat
  sparse : Option Bool

def runFixed (d : DState) (cs : List Call) : DState := cs.foldl (fun d c => (addFixed d c.h c.i c.name c.addr c.sparse).1) d

/-- which interface `elaborate()` drives for window `h`, given the accepted calls so far: the
    interface of the (only) accepted call for `h` -/
def acceptedFor (d : DState) : List Call → Nat → Option Nat
  | [], _ => none
  | c :: cs, h =>
    let r := addFixed d c.h c.i c.name c.addr c.sparse
    match acceptedFor r.1 cs h with
    | some i => some i
    | none => if r.2 && c.h == h then some c.i else none

/-- a refused `add()` leaves the decoder exactly as it was -/
theorem addFixed_refused_unchanged (d : DState) (h i : Nat) (name : Option Names.Name) (addr : Option Nat)
    (sparse : Option Bool) (hr : (addFixed d h i name addr sparse).2 = false) :
    (addFixed d h i name addr sparse).1 = d := by
  unfold addFixed at hr ⊢
  rcases hs : step d.w (.win d.dm h name addr sparse) with ⟨w', o⟩
  rw [hs] at hr
  cases o <;> simp_all

/-- an accepted `add()` records exactly `setSub` -/
theorem c06d_addFixed_accepted (d : DState) (h i : Nat) (name : Option Names.Name) (addr : Option Nat)
    (sparse : Option Bool) (hr : (addFixed d h i name addr sparse).2 = true) :
    (addFixed d h i name addr sparse).1.subs = setSub d.subs h i := by
  unfold addFixed at hr ⊢
  rcases hs : step d.w (.win d.dm h name addr sparse) with ⟨w', o⟩
  rw [hs] at hr
  cases o <;> simp_all

theorem getSub_setSub (subs : List (Nat × Nat)) (h i k : Nat) :
    getSub (setSub subs h i) k = if k = h then some i else getSub subs k := by
  by_cases hk : k = h
  · subst hk
    simp [getSub, setSub]
  · have hhk : (h == k) = false := by simp; omega
    simp only [getSub, setSub, List.find?_cons, hhk, List.find?_filter, hk, if_false]
    have : (fun a : Nat × Nat => decide ((a.1 != h) = true ∧ (a.1 == k) = true)) = (fun a => a.1 == k) := by
      funext a
      by_cases ha : a.1 = k
      · have : a.1 ≠ h := by omega
        simp [ha, hk]
      · simp [ha]
    rw [this]

theorem c06d_subs_gen (cs : List Call) : ∀ (d : DState) (h : Nat),
    getSub (runFixed d cs).subs h =
      match acceptedFor d cs h with
      | some i => some i
      | none => getSub d.subs h := by
  induction cs with
  | nil => intro d h; rfl
  | cons c cs ih =>
    intro d h
    have hrun : runFixed d (c :: cs) = runFixed (addFixed d c.h c.i c.name c.addr c.sparse).1 cs := by
      simp only [runFixed, List.foldl_cons]
    rw [hrun, ih]
    simp only [acceptedFor]
    cases hacc : acceptedFor (addFixed d c.h c.i c.name c.addr c.sparse).1 cs h with
    | some j => rfl
    | none =>
      simp only
      cases h2 : (addFixed d c.h c.i c.name c.addr c.sparse).2 with
      | false =>
        rw [addFixed_refused_unchanged _ _ _ _ _ _ h2]
        simp
      | true =>
        rw [c06d_addFixed_accepted _ _ _ _ _ _ h2, getSub_setSub]
        by_cases hh : h = c.h
        · subst hh; simp
        · have : (c.h == h) = false := by simp; omega
          simp [hh, this]

/-- after any sequence of `add()` calls on a decoder that starts without subordinates, `_subs`
    maps every memory map to the interface of the LAST ACCEPTED call for it, and to nothing if no
    call for it was accepted — refused calls never show -/
theorem subs_are_accepted (d : DState) (hd : d.subs = []) (cs : List Call) (h : Nat) :
    getSub (runFixed d cs).subs h = acceptedFor d cs h := by
  rw [c06d_subs_gen cs d h, hd]
  cases acceptedFor d cs h <;> rfl

/-- the original order is wrong: one accepted `add(a)` (interface 7 carrying map 1), then a refused
    `add(b)` (interface 8 carrying the same map — "already a window") leaves the decoder driving 8 -/
theorem addOrig_refused_clobbers :
    let w0 : World := [{ aw := 4, dw := 8, al := 0 }, { aw := 2, dw := 8, al := 0 }]
    let d0 : DState := ⟨w0, 0, []⟩
    let d1 := (addOrig d0 1 7 none none none).1
    let r2 := addOrig d1 1 8 none none none
    (addOrig d0 1 7 none none none).2 = true ∧ r2.2 = false ∧ getSub r2.1.subs 1 = some 8 := by
  decide +kernel

/-- the same history with the repaired order keeps driving interface 7 (non-vacuity of the above) -/
example :
    let w0 : World := [{ aw := 4, dw := 8, al := 0 }, { aw := 2, dw := 8, al := 0 }]
    let d0 : DState := ⟨w0, 0, []⟩
    getSub (runFixed d0 [⟨1, 7, none, none, none⟩, ⟨1, 8, none, none, none⟩]).subs 1 = some 7 := by
  decide +kernel

end DecBook
