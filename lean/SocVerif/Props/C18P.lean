import SocVerif.Props.C18
/-!
# C18 (consequence) — the paths reported for the resources of any map are pairwise distinct

`names_prefix_free` (Props/C18.lean) says that the namespace of every reachable map is prefix-free.
Here the consequence the property states: in every map that any sequence of API operations can
build, `all_resources()` reports pairwise distinct paths — at every nesting depth, through named
and anonymous windows, and also when one (frozen) map is the window of several parents.

The link between a map's namespace (`MMap.names`) and its item tree: the *local names* of the item
list (resource names, names of named windows, and — recursively — the local names of anonymous
windows, which the parent absorbs) are a permutation of the namespace.

Available: `NInv`, `NInv_cons`, `NInv_append`, `related_iff`, `related_comm`, `available_iff`,
`addResource_some`, `addWindow_some`, `step_ninv`, `run_ninv` (Props/C18.lean); `insertItem` is
`take ++ t :: drop` (MemMap.lean); core `List.Perm` lemmas (`List.perm_middle`,
`List.Perm.pairwise_iff`, `List.Perm.nodup_iff`, …). Helper lemmas (prefixed `c18p_`) may be added
ABOVE the theorems; model definitions and theorem statements are fixed.
-/
namespace MemMap
open RangeMap Names

mutual
/-- the names an item contributes to the namespace of the map that holds it -/
def Tree.localNames : Tree → List Name
  | .res _ n _ _ => [n]
  | .win _ (some n) _ _ _ _ _ _ => [n]
  | .win _ none _ _ _ _ kids _ => Tree.localNamesList kids
def Tree.localNamesList : List Tree → List Name
  | [] => []
  | t :: ts => t.localNames ++ Tree.localNamesList ts
end

mutual
/-- the namespace of every nested map is non-empty-named and prefix-free -/
def Tree.namesOk : Tree → Prop
  | .res .. => True
  | .win _ _ _ _ _ _ kids _ => NInv (Tree.localNamesList kids) ∧ Tree.namesOkList kids
def Tree.namesOkList : List Tree → Prop
  | [] => True
  | t :: ts => t.namesOk ∧ Tree.namesOkList ts
end


/-! ## helper lemmas (part 1: the tree) -/

theorem c18p_related_self (a : Name) : related a a = true :=
  (related_iff a a).mpr (Or.inl ⟨[], (List.append_nil a).symm⟩)

theorem c18p_ne_of_unrelated {a b : Name} (h : related a b = false) : a ≠ b := by
  intro hab; subst hab; rw [c18p_related_self] at h; cases h

theorem c18p_NInv_append_inv {a b : List Name} (h : NInv (a ++ b)) :
    NInv a ∧ NInv b ∧ ∀ q ∈ a, ∀ n ∈ b, related q n = false := by
  obtain ⟨hne, hp⟩ := h
  obtain ⟨pa, pb, pc⟩ := List.pairwise_append.mp hp
  exact ⟨⟨fun n hn => hne n (List.mem_append_left _ hn), pa⟩,
    ⟨fun n hn => hne n (List.mem_append_right _ hn), pb⟩, pc⟩

theorem c18p_translate_path_some (n : Name) (s step : Nat) (l : List Info) :
    (l.map (translate (some n) s step)).map (·.path) = (l.map (·.path)).map (fun p => n :: p) := by
  induction l with
  | nil => rfl
  | cons x xs ih => simp only [List.map_cons, ih]; rfl

theorem c18p_translate_path_none (s step : Nat) (l : List Info) :
    (l.map (translate none s step)).map (·.path) = l.map (·.path) := by
  induction l with
  | nil => rfl
  | cons x xs ih => simp only [List.map_cons, ih]; rfl

/- every reported path starts with a local name of the item (list), and the paths are distinct -/
mutual
theorem c18p_paths_tree : ∀ (t : Tree) (dw : Nat), NInv t.localNames → t.namesOk →
    (∀ i ∈ t.all dw, ∃ n ∈ t.localNames, ∃ p, i.path = n :: p) ∧ ((t.all dw).map (·.path)).Nodup
  | .res id name s e, dw, _, _ => by
    simp only [Tree.all, Tree.localNames]
    refine ⟨?_, by simp⟩
    intro i hi
    rw [List.mem_singleton] at hi; subst hi
    exact ⟨name, List.mem_singleton.mpr rfl, [], rfl⟩
  | .win _ (some n) s _ step cdw kids _, dw, _, h2 => by
    simp only [Tree.namesOk] at h2
    have ih := c18p_paths_list kids cdw h2.1 h2.2
    simp only [Tree.all, Tree.localNames]
    refine ⟨?_, ?_⟩
    · intro i hi
      obtain ⟨j, _, rfl⟩ := List.mem_map.mp hi
      exact ⟨n, List.mem_singleton.mpr rfl, j.path, rfl⟩
    · rw [c18p_translate_path_some]
      exact List.Pairwise.map _ (fun a b hab hc => hab (List.cons.inj hc).2) ih.2
  | .win _ none s _ step cdw kids _, dw, _, h2 => by
    simp only [Tree.namesOk] at h2
    have ih := c18p_paths_list kids cdw h2.1 h2.2
    simp only [Tree.all, Tree.localNames]
    refine ⟨?_, ?_⟩
    · intro i hi
      obtain ⟨j, hj, rfl⟩ := List.mem_map.mp hi
      exact ih.1 j hj
    · rw [c18p_translate_path_none]
      exact ih.2
theorem c18p_paths_list : ∀ (ts : List Tree) (dw : Nat), NInv (Tree.localNamesList ts) →
    Tree.namesOkList ts →
    (∀ i ∈ Tree.allList dw ts, ∃ n ∈ Tree.localNamesList ts, ∃ p, i.path = n :: p) ∧
      ((Tree.allList dw ts).map (·.path)).Nodup
  | [], dw, _, _ => by
    simp only [Tree.allList]
    exact ⟨fun i hi => (by cases hi), List.Pairwise.nil⟩
  | t :: ts, dw, h1, h2 => by
    simp only [Tree.localNamesList] at h1
    simp only [Tree.namesOkList] at h2
    obtain ⟨ha, hb, hc⟩ := c18p_NInv_append_inv h1
    have iht := c18p_paths_tree t dw ha h2.1
    have ihs := c18p_paths_list ts dw hb h2.2
    simp only [Tree.allList, Tree.localNamesList]
    refine ⟨?_, ?_⟩
    · intro i hi
      rcases List.mem_append.mp hi with hi | hi
      · obtain ⟨n, hn, p, hp⟩ := iht.1 i hi
        exact ⟨n, List.mem_append_left _ hn, p, hp⟩
      · obtain ⟨n, hn, p, hp⟩ := ihs.1 i hi
        exact ⟨n, List.mem_append_right _ hn, p, hp⟩
    · rw [List.map_append, List.nodup_append]
      refine ⟨iht.2, ihs.2, ?_⟩
      intro x hx y hy hxy
      obtain ⟨i, hi, rfl⟩ := List.mem_map.mp hx
      obtain ⟨j, hj, rfl⟩ := List.mem_map.mp hy
      obtain ⟨n, hn, p, hp⟩ := iht.1 i hi
      obtain ⟨n', hn', p', hp'⟩ := ihs.1 j hj
      have hxy : i.path = j.path := hxy
      rw [hp, hp'] at hxy
      exact c18p_ne_of_unrelated (hc n hn n' hn') (List.cons.inj hxy).1
end

/-- a tree whose namespaces are prefix-free at every level reports pairwise distinct paths -/
theorem paths_distinct_of_namesOk (dw : Nat) (items : List Tree)
    (h1 : NInv (Tree.localNamesList items)) (h2 : Tree.namesOkList items) :
    ((Tree.allList dw items).map (·.path)).Nodup :=
  (c18p_paths_list items dw h1 h2).2


/-! ## helper lemmas (part 2: the reachable worlds) -/

theorem c18p_localNamesList_append (a b : List Tree) :
    Tree.localNamesList (a ++ b) = Tree.localNamesList a ++ Tree.localNamesList b := by
  induction a with
  | nil => simp only [Tree.localNamesList, List.nil_append]
  | cons t ts ih => simp only [List.cons_append, Tree.localNamesList, ih, List.append_assoc]

theorem c18p_namesOkList_append (a b : List Tree) :
    Tree.namesOkList (a ++ b) ↔ Tree.namesOkList a ∧ Tree.namesOkList b := by
  induction a with
  | nil => simp only [Tree.namesOkList, List.nil_append, true_and]
  | cons t ts ih => simp only [List.cons_append, Tree.namesOkList, ih, and_assoc]

theorem c18p_insertItem_localNames (items : List Tree) (t : Tree) :
    (Tree.localNamesList (insertItem items t)).Perm (t.localNames ++ Tree.localNamesList items) := by
  unfold insertItem
  simp only
  generalize bisectRight _ _ = si
  rw [c18p_localNamesList_append]
  simp only [Tree.localNamesList]
  refine (List.perm_append_comm_assoc _ _ _).trans ?_
  rw [← c18p_localNamesList_append, List.take_append_drop]

theorem c18p_insertItem_namesOk (items : List Tree) (t : Tree)
    (ht : t.namesOk) (hi : Tree.namesOkList items) : Tree.namesOkList (insertItem items t) := by
  unfold insertItem
  simp only
  generalize bisectRight _ _ = si
  rw [← List.take_append_drop si items, c18p_namesOkList_append] at hi
  rw [c18p_namesOkList_append]
  simp only [Tree.namesOkList]
  exact ⟨hi.1, ht, hi.2⟩

theorem c18p_NInv_perm {a b : List Name} (p : a.Perm b) (h : NInv b) : NInv a := by
  refine ⟨fun n hn => h.nonempty n (p.mem_iff.mp hn), ?_⟩
  refine (List.Perm.pairwise_iff (R := fun a b => related a b = false) ?_ p).mpr h.prefixFree
  intro x y hxy
  rw [related_comm]; exact hxy

theorem c18p_addResource_items {m : MMap} {id : Nat} {name : Name} {size : Nat} {addr al : Option Nat}
    {m' : MMap} {s e : Nat} (h : addResource m id name size addr al = some (m', s, e)) :
    m'.items = insertItem m.items (.res id name s e) := by
  unfold addResource at h
  by_cases h1 : m.frozen = true
  · rw [if_pos h1] at h; cases h
  by_cases h2 : m.resIds.contains id = true
  · rw [if_neg h1, if_pos h2] at h; cases h
  by_cases h3 : name.isEmpty = true
  · rw [if_neg h1, if_neg h2, if_pos h3] at h; cases h
  by_cases h4 : (!available m.names [name]) = true
  · rw [if_neg h1, if_neg h2, if_neg h3, if_pos h4] at h; cases h
  rw [if_neg h1, if_neg h2, if_neg h3, if_neg h4] at h
  simp only at h
  generalize computeRange m addr size _ = cr at h
  cases cr with
  | none => cases h
  | some se =>
    obtain ⟨s', e'⟩ := se
    simp only [Option.some.injEq, Prod.mk.injEq] at h
    obtain ⟨rfl, rfl, rfl⟩ := h
    rfl

theorem c18p_addWindow_items {m : MMap} {h : Nat} {child : MMap} {name : Option Name} {addr : Option Nat}
    {sparse : Option Bool} {m' : MMap} {s e r : Nat}
    (hw : addWindow m h child name addr sparse = some (m', s, e, r)) :
    m'.items = insertItem m.items (.win h name s e r child.dw child.items (winOrder child)) := by
  unfold addWindow at hw
  by_cases h1 : m.frozen = true
  · rw [if_pos h1] at hw; cases hw
  by_cases h2 : m.winIds.contains h = true
  · rw [if_neg h1, if_pos h2] at hw; cases hw
  by_cases h3 : child.dw > m.dw
  · rw [if_neg h1, if_neg h2, if_pos h3] at hw; cases hw
  by_cases h4 : (child.dw != m.dw && sparse.isNone) = true
  · rw [if_neg h1, if_neg h2, if_neg h3, if_pos h4] at hw; cases hw
  by_cases h5 : (child.dw != m.dw && sparse == some false && m.dw % child.dw != 0) = true
  · rw [if_neg h1, if_neg h2, if_neg h3, if_neg h4, if_pos h5] at hw; cases hw
  by_cases h6 : (name == some []) = true
  · rw [if_neg h1, if_neg h2, if_neg h3, if_neg h4, if_neg h5, if_pos h6] at hw; cases hw
  rw [if_neg h1, if_neg h2, if_neg h3, if_neg h4, if_neg h5, if_neg h6] at hw
  simp only at hw
  generalize (if (sparse == some true) = true then 1 else m.dw / child.dw) = ratio at hw
  generalize computeRange m addr _ _ = cr at hw
  cases name with
  | none =>
    simp only at hw ⊢
    by_cases h7 : (!available m.names child.names) = true
    · rw [if_pos h7] at hw; cases hw
    rw [if_neg h7] at hw
    split at hw
    · cases hw
    split at hw
    · cases hw
    cases cr with
    | none => cases hw
    | some se =>
      obtain ⟨s', e'⟩ := se
      simp only [Option.some.injEq, Prod.mk.injEq] at hw
      obtain ⟨rfl, rfl, rfl, rfl⟩ := hw
      rfl
  | some n =>
    simp only at hw ⊢
    by_cases h7 : (!available m.names [n]) = true
    · rw [if_pos h7] at hw; cases hw
    rw [if_neg h7] at hw
    split at hw
    · cases hw
    split at hw
    · cases hw
    cases cr with
    | none => cases hw
    | some se =>
      obtain ⟨s', e'⟩ := se
      simp only [Option.some.injEq, Prod.mk.injEq] at hw
      obtain ⟨rfl, rfl, rfl, rfl⟩ := hw
      rfl

/-- per-map invariant: the item tree carries exactly the namespace, every nested namespace is
    prefix-free, and so is the map's own namespace -/
def c18p_MInv (m : MMap) : Prop :=
  (Tree.localNamesList m.items).Perm m.names ∧ Tree.namesOkList m.items ∧ NInv m.names

theorem c18p_addResource_minv {m : MMap} (hm : c18p_MInv m) {id : Nat} {name : Name} {size : Nat}
    {addr al : Option Nat} {m' : MMap} {s e : Nat}
    (h : addResource m id name size addr al = some (m', s, e)) : c18p_MInv m' := by
  obtain ⟨hp, hok, hn⟩ := hm
  obtain ⟨_, _, hnames⟩ := addResource_some h
  have hitems := c18p_addResource_items h
  refine ⟨?_, ?_, addResource_ninv m hn _ _ _ _ _ _ _ _ h⟩
  · rw [hitems, hnames]
    refine (c18p_insertItem_localNames _ _).trans ?_
    simp only [Tree.localNames, List.singleton_append]
    exact List.Perm.cons _ hp
  · rw [hitems]
    exact c18p_insertItem_namesOk _ _ (by simp only [Tree.namesOk]) hok

theorem c18p_addWindow_minv {m child : MMap} (hm : c18p_MInv m) (hc : c18p_MInv child) {h : Nat}
    {name : Option Name} {addr : Option Nat} {sparse : Option Bool} {m' : MMap} {s e r : Nat}
    (hw : addWindow m h child name addr sparse = some (m', s, e, r)) : c18p_MInv m' := by
  obtain ⟨hp, hok, hn⟩ := hm
  obtain ⟨hcp, hcok, hcn⟩ := hc
  obtain ⟨_, _, hnames⟩ := addWindow_some hw
  have hitems := c18p_addWindow_items hw
  refine ⟨?_, ?_, addWindow_ninv m hn h child hcn name addr sparse m' s e r hw⟩
  · rw [hitems, hnames]
    refine (c18p_insertItem_localNames _ _).trans ?_
    cases name with
    | none =>
      simp only [Tree.localNames]
      exact List.Perm.append hcp hp
    | some n =>
      simp only [Tree.localNames]
      exact List.Perm.append (List.Perm.refl _) hp
  · rw [hitems]
    refine c18p_insertItem_namesOk _ _ ?_ hok
    simp only [Tree.namesOk]
    exact ⟨c18p_NInv_perm hcp hcn, hcok⟩

theorem c18p_minv_set {w : World} (hw : ∀ m ∈ w, c18p_MInv m) (i : Nat) (x : MMap)
    (hx : c18p_MInv x) : ∀ m ∈ w.set i x, c18p_MInv m := by
  intro m hm
  rcases List.mem_or_eq_of_mem_set hm with h | h
  · exact hw m h
  · rw [h]; exact hx

theorem c18p_step_minv (w : World) (op : Op) (hw : ∀ m ∈ w, c18p_MInv m) :
    ∀ m ∈ (step w op).1, c18p_MInv m := by
  cases op with
  | new aw dw al =>
    intro m hm
    simp only [step] at hm
    rcases List.mem_append.mp hm with h | h
    · exact hw m h
    · rw [List.mem_singleton.mp h]
      exact ⟨by simp only [Tree.localNamesList]; exact List.Perm.refl _,
        by simp only [Tree.namesOkList], NInv_nil⟩
  | res h id name size addr al =>
    simp only [step]
    cases hg : w[h]? with
    | none => exact hw
    | some m0 =>
      simp only
      cases hr : addResource m0 id name size addr al with
      | none => exact hw
      | some r =>
        obtain ⟨m', s, e⟩ := r
        simp only
        exact c18p_minv_set hw h m' (c18p_addResource_minv (hw m0 (List.mem_of_getElem? hg)) hr)
  | win h ch name addr sparse =>
    simp only [step]
    cases hg : w[h]? with
    | none => exact hw
    | some m0 =>
      cases hgc : w[ch]? with
      | none => exact hw
      | some c =>
        simp only
        cases hr : addWindow m0 ch c name addr sparse with
        | none => exact hw
        | some res =>
          obtain ⟨m', s, e, r⟩ := res
          simp only
          have hm0 := hw m0 (List.mem_of_getElem? hg)
          have hc0 := hw c (List.mem_of_getElem? hgc)
          exact c18p_minv_set (c18p_minv_set hw ch { c with frozen := true } hc0) h m'
            (c18p_addWindow_minv hm0 hc0 hr)
  | align h a =>
    simp only [step]
    cases hg : w[h]? with
    | none => exact hw
    | some m0 =>
      simp only [alignTo]
      exact c18p_minv_set hw h _ (hw m0 (List.mem_of_getElem? hg))
  | freeze h =>
    simp only [step]
    cases hg : w[h]? with
    | none => exact hw
    | some m0 =>
      simp only
      exact c18p_minv_set hw h _ (hw m0 (List.mem_of_getElem? hg))

theorem c18p_run_minv (ops : List Op) : ∀ (w : World), (∀ m ∈ w, c18p_MInv m) →
    ∀ m ∈ run w ops, c18p_MInv m := by
  induction ops with
  | nil => intro w hw; exact hw
  | cons op ops ih =>
    intro w hw
    have : run w (op :: ops) = run (step w op).1 ops := rfl
    rw [this]
    exact ih _ (c18p_step_minv w op hw)

/-- every map of every reachable world: its item tree carries exactly its namespace, and every
    nested namespace is prefix-free -/
theorem reachable_namesOk (ops : List Op) : ∀ m ∈ run [] ops,
    (Tree.localNamesList m.items).Perm m.names ∧ Tree.namesOkList m.items := by
  intro m hm
  have h := c18p_run_minv ops [] (by intro m hm; cases hm) m hm
  exact ⟨h.1, h.2.1⟩

/-- C18's consequence, for every map any sequence of API operations can build -/
theorem paths_distinct (ops : List Op) : ∀ m ∈ run [] ops,
    ((Tree.allList m.dw m.items).map (·.path)).Nodup := by
  intro m hm
  obtain ⟨hp, hok⟩ := reachable_namesOk ops m hm
  exact paths_distinct_of_namesOk m.dw m.items
    (c18p_NInv_perm hp (names_prefix_free ops m hm)) hok

/-- non-vacuity: a history with a named and an anonymous window over children that both have a
    resource called `a`-something reports four distinct paths -/
example : ((run [] [.new 6 8 0, .new 2 8 0, .res 1 0 [.str "x"] 1 none none, .res 1 1 [.str "y"] 1 none none,
    .new 2 8 0, .res 2 2 [.str "x"] 1 none none,
    .win 0 1 none none none, .win 0 2 (some [.str "w"]) none none, .res 0 3 [.str "z"] 1 none none]).head?.map
      (fun m => (Tree.allList m.dw m.items).map (·.path))) =
    some [[[.str "x"]], [[.str "y"]], [[.str "w"], [.str "x"]], [[.str "z"]]] := by
  decide +kernel

end MemMap
