import SocVerif.MemMap
/-!
# C03 — resource lookup through windows is coherent in every direction

Property theorems about the three traversals of the `MemMap` model (`Tree.allList` =
`all_resources()`, `decodeFuel`/`Tree.decodeList` = `decode_address()`, `findFuel` =
`find_resource()`), for every tree of maps (any depth) and every address.
Helper lemmas may be added ABOVE the theorems (or in `SocVerif/Props/C03Lemmas.lean`); the
definitions of `SocVerif/MemMap.lean`, `Tree.ok` below and the theorem statements are fixed.
Earlier scratch proofs of the analogous statements on a simplified tree are in
`SocVerif/MapTree.lean` (all_within, all_sorted, decode_complete) — port them.
-/
namespace MemMap
open RangeMap Names

/- well-formedness of a map tree: what C02's invariant gives for every map (non-empty ranges,
    siblings ascending and disjoint, a window's translated contents fit in its range) together
    with the three `_translate` asserts (the property's domain: dense windows only over maps
    whose resources are multiples of the ratio). -/
mutual
def Tree.ok : Tree → Prop
  | .res _ _ s e => s < e
  | .win _ _ s e step cdw kids _ => 0 < step ∧ s < e ∧ Tree.okList kids ∧
      ∀ i ∈ Tree.allList cdw kids, i.s % step = 0 ∧ (i.e - i.s) % step = 0 ∧ i.e / step + s ≤ e
def Tree.okList : List Tree → Prop
  | [] => True
  | t :: ts => t.ok ∧ Tree.okList ts ∧ ∀ u ∈ ts, t.hi ≤ u.lo
end


/-! ### helper lemmas -/

theorem div_add_div_sub {s e r : Nat} (hr : 0 < r) (hs : s % r = 0) (he : (e - s) % r = 0)
    (hse : s ≤ e) : s / r + (e - s) / r = e / r := by
  have e1 : s = r * (s / r) := by have := Nat.div_add_mod s r; omega
  have e2 : e - s = r * ((e - s) / r) := by have := Nat.div_add_mod (e - s) r; omega
  have e3 : e = r * (s / r + (e - s) / r) := by rw [Nat.mul_add]; omega
  generalize s / r + (e - s) / r = q at *
  rw [e3, Nat.mul_div_cancel_left _ hr]

theorem mod_of_sub_mod {s e r : Nat} (hs : s % r = 0) (he : (e - s) % r = 0)
    (hse : s ≤ e) : e % r = 0 := by
  have h : e = s + (e - s) := by omega
  rw [h, Nat.add_mod, hs, he]; simp

theorem div_lt_div_of_dvd {a b k : Nat} (_hk : 0 < k) (ha : a % k = 0) (hb : b % k = 0) (h : a < b) :
    a / k < b / k := by
  have ea : a = k * (a / k) := by have := Nat.div_add_mod a k; omega
  have eb : b = k * (b / k) := by have := Nat.div_add_mod b k; omega
  rw [ea, eb] at h
  exact Nat.lt_of_mul_lt_mul_left h

theorem translate_s (n : Option Name) (b r : Nat) (i : Info) : (translate n b r i).s = i.s / r + b := rfl
theorem translate_id (n : Option Name) (b r : Nat) (i : Info) : (translate n b r i).id = i.id := rfl
theorem translate_e (n : Option Name) (b r : Nat) (i : Info) (hr : 0 < r)
    (hs : i.s % r = 0) (he : (i.e - i.s) % r = 0) (hse : i.s ≤ i.e) :
    (translate n b r i).e = i.e / r + b := by
  have hq := div_add_div_sub hr hs he hse
  simp only [translate]
  omega

/-- address arithmetic of one window (the statement of the property): a resource at local range
    `[s, e)` behind a window at base `b` with ratio `r` appears at `[b + s/r, b + e/r)` with its
    width multiplied by `r` and the window's name prefixed (anonymous windows add nothing). -/
theorem translate_arith (wname : Option Name) (b r : Nat) (i : Info) (hr : 0 < r)
    (hs : i.s % r = 0) (he : (i.e - i.s) % r = 0) (hse : i.s ≤ i.e) :
    (translate wname b r i).s = b + i.s / r ∧ (translate wname b r i).e = b + i.e / r ∧
    (translate wname b r i).width = i.width * r ∧ (translate wname b r i).id = i.id ∧
    (translate wname b r i).path = (match wname with | none => i.path | some n => n :: i.path) := by
  have hq := div_add_div_sub hr hs he hse
  refine ⟨?_, ?_, rfl, rfl, rfl⟩
  · simp only [translate]; omega
  · simp only [translate]; omega

mutual
theorem all_within_aux : ∀ (dw : Nat) (t : Tree), t.ok → ∀ i ∈ t.all dw, t.lo ≤ i.s ∧ i.s < i.e ∧ i.e ≤ t.hi
  | dw, .res id name s e, h, i, hi => by
    simp only [Tree.all, List.mem_singleton] at hi; subst hi
    simp only [Tree.ok] at h
    exact ⟨Nat.le_refl _, h, Nat.le_refl _⟩
  | dw, .win _ name s e step cdw kids _, h, i, hi => by
    simp only [Tree.all, List.mem_map] at hi
    obtain ⟨j, hj, rfl⟩ := hi
    simp only [Tree.ok] at h
    obtain ⟨hstep, _, hkids, htr⟩ := h
    obtain ⟨m1, m2, hle⟩ := htr j hj
    have hne := allList_nonempty cdw kids hkids j hj
    have m3 := mod_of_sub_mod m1 m2 (Nat.le_of_lt hne)
    have := div_lt_div_of_dvd hstep m1 m3 hne
    rw [translate_e _ _ _ _ hstep m1 m2 (Nat.le_of_lt hne), translate_s]
    simp only [Tree.lo, Tree.hi]
    generalize j.s / step = qs at *
    generalize j.e / step = qe at *
    omega
theorem allList_nonempty : ∀ (dw : Nat) (ts : List Tree), Tree.okList ts → ∀ i ∈ Tree.allList dw ts, i.s < i.e
  | _, [], _, i, hi => by simp [Tree.allList] at hi
  | dw, t :: ts, h, i, hi => by
    simp only [Tree.okList] at h
    simp only [Tree.allList, List.mem_append] at hi
    rcases hi with hi | hi
    · exact (all_within_aux dw t h.1 i hi).2.1
    · exact allList_nonempty dw ts h.2.1 i hi
end

theorem allList_within_later : ∀ (dw : Nat) (ts : List Tree), Tree.okList ts → ∀ i ∈ Tree.allList dw ts,
    ∃ u ∈ ts, u.lo ≤ i.s ∧ i.e ≤ u.hi
  | _, [], _, i, hi => by simp [Tree.allList] at hi
  | dw, t :: ts, h, i, hi => by
    simp only [Tree.okList] at h
    simp only [Tree.allList, List.mem_append] at hi
    rcases hi with hi | hi
    · have := all_within_aux dw t h.1 i hi
      exact ⟨t, List.mem_cons_self .., this.1, this.2.2⟩
    · obtain ⟨u, hu, r⟩ := allList_within_later dw ts h.2.1 i hi
      exact ⟨u, List.mem_cons_of_mem _ hu, r⟩

mutual
theorem all_sorted_aux : ∀ (dw : Nat) (t : Tree), t.ok → (t.all dw).Pairwise (fun a b => a.e ≤ b.s)
  | _, .res id name s e, _ => by simp [Tree.all]
  | dw, .win _ name s e step cdw kids _, h => by
    simp only [Tree.ok] at h
    obtain ⟨hstep, _, hkids, htr⟩ := h
    have hne := allList_nonempty cdw kids hkids
    have hsorted := allList_sorted cdw kids hkids
    simp only [Tree.all]
    rw [List.pairwise_map]
    refine List.Pairwise.imp_of_mem ?_ hsorted
    intro a b ha _ hab
    obtain ⟨m1, m2, _⟩ := htr a ha
    rw [translate_e _ _ _ _ hstep m1 m2 (Nat.le_of_lt (hne a ha)), translate_s]
    have := Nat.div_le_div_right (c := step) hab
    generalize a.e / step = qa at *
    generalize b.s / step = qb at *
    omega
theorem allList_sorted : ∀ (dw : Nat) (ts : List Tree), Tree.okList ts →
    (Tree.allList dw ts).Pairwise (fun a b => a.e ≤ b.s)
  | _, [], _ => by simp [Tree.allList]
  | dw, t :: ts, h => by
    simp only [Tree.okList] at h
    simp only [Tree.allList]
    rw [List.pairwise_append]
    refine ⟨all_sorted_aux dw t h.1, allList_sorted dw ts h.2.1, ?_⟩
    intro a ha b hb
    have h1 := all_within_aux dw t h.1 a ha
    obtain ⟨u, hu, h2, _⟩ := allList_within_later dw ts h.2.1 b hb
    have := h.2.2 u hu
    omega
end

theorem decode_none_of_outside (t : Tree) (a : Nat) (h : a < t.lo ∨ t.hi ≤ a) : t.decode a = none := by
  cases t with
  | res id name s e => simp only [Tree.decode, Tree.lo, Tree.hi] at *; rw [if_neg]; omega
  | win id name s e step cdw kids ord => simp only [Tree.decode, Tree.lo, Tree.hi] at *; rw [if_neg]; omega

mutual
theorem decode_complete : ∀ (dw : Nat) (t : Tree), t.ok → ∀ i ∈ t.all dw, ∀ a, i.s ≤ a → a < i.e →
    t.decode a = some i.id
  | _, .res id name s e, _, i, hi, a, h1, h2 => by
    simp only [Tree.all, List.mem_singleton] at hi; subst hi
    simp only [Tree.decode]; rw [if_pos ⟨h1, h2⟩]
  | dw, .win wid name s e step cdw kids ord, h, i, hi, a, h1, h2 => by
    have hw := all_within_aux dw (.win wid name s e step cdw kids ord) h i hi
    simp only [Tree.lo, Tree.hi] at hw
    simp only [Tree.all, List.mem_map] at hi
    obtain ⟨j, hj, rfl⟩ := hi
    simp only [Tree.ok] at h
    obtain ⟨hstep, _, hkids, htr⟩ := h
    obtain ⟨m1, m2', _⟩ := htr j hj
    have hne := allList_nonempty cdw kids hkids j hj
    have m2 := mod_of_sub_mod m1 m2' (Nat.le_of_lt hne)
    rw [translate_e _ _ _ _ hstep m1 m2' (Nat.le_of_lt hne)] at h2 hw
    rw [translate_s] at h1 hw
    rw [translate_id]
    simp only [Tree.decode]
    have ejs : j.s = j.s / step * step := by have := Nat.div_add_mod j.s step; rw [Nat.mul_comm]; omega
    have eje : j.e = j.e / step * step := by have := Nat.div_add_mod j.e step; rw [Nat.mul_comm]; omega
    have q1 : j.s / step ≤ a - s := by
      generalize j.s / step = qs at *; generalize j.e / step = qe at *; omega
    have q2 : a - s < j.e / step := by
      generalize j.s / step = qs at *; generalize j.e / step = qe at *; omega
    have q3 : s ≤ a ∧ a < e := by
      generalize j.s / step = qs at *; generalize j.e / step = qe at *; omega
    rw [if_pos q3]
    apply decodeList_complete cdw kids hkids j hj
    · rw [ejs]; exact Nat.mul_le_mul_right _ q1
    · rw [eje]; exact Nat.mul_lt_mul_of_pos_right q2 hstep
theorem decodeList_complete : ∀ (dw : Nat) (ts : List Tree), Tree.okList ts → ∀ i ∈ Tree.allList dw ts,
    ∀ a, i.s ≤ a → a < i.e → Tree.decodeList ts a = some i.id
  | _, [], _, i, hi, _, _, _ => by simp [Tree.allList] at hi
  | dw, t :: ts, h, i, hi, a, h1, h2 => by
    simp only [Tree.okList] at h
    simp only [Tree.allList, List.mem_append] at hi
    simp only [Tree.decodeList]
    rcases hi with hi | hi
    · rw [decode_complete dw t h.1 i hi a h1 h2]
    · obtain ⟨u, hu, hlo, _⟩ := allList_within_later dw ts h.2.1 i hi
      have := h.2.2 u hu
      rw [decode_none_of_outside t a (Or.inr (by omega))]
      exact decodeList_complete dw ts h.2.1 i hi a h1 h2
end

mutual
theorem decode_sound : ∀ (dw : Nat) (t : Tree) (a r : Nat), t.ok → t.decode a = some r →
    ∃ i ∈ t.all dw, i.id = r ∧ i.s ≤ a ∧ a < i.e
  | dw, .res id name s e, a, r, _, h => by
    simp only [Tree.decode] at h
    split at h
    · rename_i hc
      cases h
      exact ⟨⟨id, [name], s, e, dw⟩, by simp [Tree.all], rfl, hc.1, hc.2⟩
    · cases h
  | dw, .win wid name s e step cdw kids ord, a, r, hok, h => by
    simp only [Tree.decode] at h
    split at h
    · rename_i hc
      simp only [Tree.ok] at hok
      obtain ⟨hstep, _, hkids, htr⟩ := hok
      obtain ⟨i, hi, hid, h1, h2⟩ := decodeList_sound cdw kids ((a - s) * step) r hkids h
      obtain ⟨m1, m2', _⟩ := htr i hi
      have hne := allList_nonempty cdw kids hkids i hi
      have hm := mod_of_sub_mod m1 m2' (Nat.le_of_lt hne)
      refine ⟨translate name s step i, ?_, hid, ?_, ?_⟩
      · simp only [Tree.all, List.mem_map]; exact ⟨i, hi, rfl⟩
      · rw [translate_s]
        have : i.s / step ≤ a - s := by
          have := Nat.div_le_div_right (c := step) h1
          rwa [Nat.mul_div_cancel _ hstep] at this
        omega
      · rw [translate_e _ _ _ _ hstep m1 m2' (Nat.le_of_lt hne)]
        have : a - s < i.e / step := by
          have he : i.e = i.e / step * step := by
            have := Nat.div_add_mod i.e step; rw [hm] at this; rw [Nat.mul_comm]; omega
          rw [he] at h2
          exact Nat.lt_of_mul_lt_mul_right h2
        omega
    · cases h
theorem decodeList_sound : ∀ (dw : Nat) (ts : List Tree) (a r : Nat), Tree.okList ts →
    Tree.decodeList ts a = some r → ∃ i ∈ Tree.allList dw ts, i.id = r ∧ i.s ≤ a ∧ a < i.e
  | _, [], _, _, _, h => by simp [Tree.decodeList] at h
  | dw, t :: ts, a, r, hok, h => by
    simp only [Tree.okList] at hok
    simp only [Tree.decodeList] at h
    split at h
    · rename_i r' hr'
      cases h
      obtain ⟨i, hi, rest⟩ := decode_sound dw t a r hok.1 hr'
      exact ⟨i, by simp [Tree.allList, hi], rest⟩
    · obtain ⟨i, hi, rest⟩ := decodeList_sound dw ts a r hok.2.1 h
      exact ⟨i, by simp [Tree.allList, hi], rest⟩
end

/-- every reported range is non-empty and lies inside its item's own range -/
theorem all_within (dw : Nat) (t : Tree) (h : t.ok) : ∀ i ∈ t.all dw, t.lo ≤ i.s ∧ i.s < i.e ∧ i.e ≤ t.hi :=
  all_within_aux dw t h

/-- results come in ascending address order and are pairwise disjoint -/
theorem all_sorted (dw : Nat) (ts : List Tree) (h : Tree.okList ts) :
    (Tree.allList dw ts).Pairwise (fun a b => a.e ≤ b.s) :=
  allList_sorted dw ts h

/-- decode soundness and completeness in one statement: an address decodes to `r` iff it lies
    inside a reported range of `r`; in particular every other address decodes to nothing. -/
theorem decode_iff_reported (dw : Nat) (ts : List Tree) (h : Tree.okList ts) (a r : Nat) :
    Tree.decodeList ts a = some r ↔ ∃ i ∈ Tree.allList dw ts, i.id = r ∧ i.s ≤ a ∧ a < i.e := by
  constructor
  · exact decodeList_sound dw ts a r h
  · rintro ⟨i, hi, rfl, h1, h2⟩
    exact decodeList_complete dw ts h i hi a h1 h2

theorem decode_none_iff (dw : Nat) (ts : List Tree) (h : Tree.okList ts) (a : Nat) :
    Tree.decodeList ts a = none ↔ ∀ i ∈ Tree.allList dw ts, ¬ (i.s ≤ a ∧ a < i.e) := by
  constructor
  · intro hn i hi ⟨h1, h2⟩
    rw [decodeList_complete dw ts h i hi a h1 h2] at hn
    cases hn
  · intro hall
    cases hd : Tree.decodeList ts a with
    | none => rfl
    | some r =>
      obtain ⟨i, hi, _, h1, h2⟩ := decodeList_sound dw ts a r h hd
      exact absurd ⟨h1, h2⟩ (hall i hi)

theorem Tree.ok_lo_lt_hi {t : Tree} (h : t.ok) : t.lo < t.hi := by
  cases t with
  | res id name s e => simpa only [Tree.ok, Tree.lo, Tree.hi] using h
  | win id name s e step cdw kids ord => simp only [Tree.ok] at h; exact h.2.1

theorem Tree.okList_mem : ∀ (ts : List Tree), Tree.okList ts → ∀ u ∈ ts, u.ok
  | [], _, u, hu => by cases hu
  | t :: ts, h, u, hu => by
    simp only [Tree.okList] at h
    rcases List.mem_cons.mp hu with rfl | hu
    · exact h.1
    · exact Tree.okList_mem ts h.2.1 u hu

theorem bisectRight_his_zero (l : List Tree) (a : Nat) (h : ∀ u ∈ l, a < u.hi) :
    bisectRight (l.map (·.hi)) a = 0 := by
  unfold bisectRight
  rw [List.length_eq_zero_iff, List.filter_eq_nil_iff]
  intro x hx
  simp only [List.mem_map] at hx
  obtain ⟨u, hu, rfl⟩ := hx
  have := h u hu
  simp; omega

theorem getItem_cons (t : Tree) (ts : List Tree) (h : Tree.okList (t :: ts)) (a : Nat) :
    getItem (t :: ts) a =
      if t.hi ≤ a then getItem ts a else if t.lo ≤ a then some t else none := by
  simp only [Tree.okList] at h
  by_cases hb : t.hi ≤ a
  · have e : bisectRight ((t :: ts).map (·.hi)) a = bisectRight (ts.map (·.hi)) a + 1 := by
      simp [bisectRight, hb]
    simp only [getItem, e, List.getElem?_cons_succ, if_pos hb]
  · have e : bisectRight ((t :: ts).map (·.hi)) a = 0 := by
      apply bisectRight_his_zero
      intro u hu
      rcases List.mem_cons.mp hu with rfl | hu
      · omega
      · have h1 := h.2.2 u hu
        have h2 := Tree.ok_lo_lt_hi (Tree.okList_mem ts h.2.1 u hu)
        omega
    simp only [getItem, e, List.getElem?_cons_zero, if_neg hb]
    by_cases hl : t.lo ≤ a
    · rw [if_pos ⟨hl, by omega⟩, if_pos hl]
    · rw [if_neg (fun hh => hl hh.1), if_neg hl]

theorem decodeList_none_of_lt : ∀ (ts : List Tree) (a : Nat), (∀ u ∈ ts, a < u.lo) →
    Tree.decodeList ts a = none
  | [], _, _ => by simp [Tree.decodeList]
  | t :: ts, a, h => by
    simp only [Tree.decodeList]
    rw [decode_none_of_outside t a (Or.inl (h t (List.mem_cons_self ..)))]
    exact decodeList_none_of_lt ts a (fun u hu => h u (List.mem_cons_of_mem _ hu))

theorem decodeFuel_succ_list (f : Nat)
    (IH : ∀ ts, Tree.okList ts → Tree.depthList ts ≤ f → ∀ a, decodeFuel f ts a = Tree.decodeList ts a) :
    ∀ ts, Tree.okList ts → Tree.depthList ts ≤ f + 1 → ∀ a,
      decodeFuel (f + 1) ts a = Tree.decodeList ts a
  | [], _, _, a => by simp [decodeFuel, getItem, Tree.decodeList]
  | t :: ts, h, hd, a => by
    have ih := decodeFuel_succ_list f IH ts
    have hc := getItem_cons t ts h a
    simp only [Tree.okList] at h
    simp only [Tree.depthList] at hd
    by_cases hb : t.hi ≤ a
    · rw [if_pos hb] at hc
      have e1 : decodeFuel (f + 1) (t :: ts) a = decodeFuel (f + 1) ts a := by
        simp only [decodeFuel, hc]
      rw [e1, ih h.2.1 (by omega) a]
      simp only [Tree.decodeList]
      rw [decode_none_of_outside t a (Or.inr hb)]
    · have hlater : Tree.decodeList ts a = none :=
        decodeList_none_of_lt ts a (fun u hu => by have := h.2.2 u hu; omega)
      rw [if_neg hb] at hc
      by_cases hl : t.lo ≤ a
      · rw [if_pos hl] at hc
        cases t with
        | res id name s e =>
          simp only [Tree.lo, Tree.hi] at hl hb
          simp only [decodeFuel, hc, Tree.decodeList, Tree.decode]
          rw [if_pos ⟨hl, by omega⟩]
        | win id name s e step cdw kids ord =>
          simp only [Tree.lo, Tree.hi] at hl hb
          simp only [Tree.depth] at hd
          simp only [Tree.ok] at h
          simp only [decodeFuel, hc, Tree.decodeList, Tree.decode]
          rw [if_pos ⟨hl, by omega⟩, IH kids h.1.2.2.1 (by omega), hlater]
          cases Tree.decodeList kids ((a - s) * step) <;> rfl
      · rw [if_neg hl] at hc
        simp only [decodeFuel, hc, Tree.decodeList]
        rw [decode_none_of_outside t a (Or.inl (by omega)), hlater]

theorem Tree.depthList_pos : ∀ ts : List Tree, 1 ≤ Tree.depthList ts
  | [] => by simp [Tree.depthList]
  | t :: ts => by
    have := Tree.depthList_pos ts
    simp only [Tree.depthList]; omega

/-- the implementation's bisect-based `decode_address` (`_RangeMap.get` at every level) is the
    structural first-match decode -/
theorem decodeFuel_eq (ts : List Tree) (h : Tree.okList ts) (f : Nat) (hf : Tree.depthList ts ≤ f) (a : Nat) :
    decodeFuel f ts a = Tree.decodeList ts a := by
  induction f generalizing ts a with
  | zero => have := Tree.depthList_pos ts; omega
  | succ f ih =>
    exact decodeFuel_succ_list f (fun ts h hd a => ih ts h hd a) ts h hf a

/- ids of the resources in a tree, in traversal order -/
mutual
def Tree.leafIds : Tree → List Nat
  | .res id _ _ _ => [id]
  | .win _ _ _ _ _ _ kids _ => Tree.leafIdsList kids
def Tree.leafIdsList : List Tree → List Nat
  | [] => []
  | t :: ts => t.leafIds ++ Tree.leafIdsList ts
end

mutual
theorem all_ids_aux : ∀ (dw : Nat) (t : Tree), (t.all dw).map (·.id) = t.leafIds
  | dw, .res id name s e => by simp [Tree.all, Tree.leafIds]
  | dw, .win _ name s e step cdw kids _ => by
    simp only [Tree.all, Tree.leafIds, List.map_map]
    rw [← allList_ids cdw kids]
    apply List.map_congr_left
    intros; rfl
theorem allList_ids : ∀ (dw : Nat) (ts : List Tree), (Tree.allList dw ts).map (·.id) = Tree.leafIdsList ts
  | _, [] => by simp [Tree.allList, Tree.leafIdsList]
  | dw, t :: ts => by
    simp only [Tree.allList, Tree.leafIdsList, List.map_append, all_ids_aux dw t, allList_ids dw ts]
end

/-- every added resource is reported exactly once (as often as it occurs in the tree) -/
theorem all_ids (dw : Nat) (ts : List Tree) : (Tree.allList dw ts).map (·.id) = Tree.leafIdsList ts :=
  allList_ids dw ts

/- `order` lists exactly the positions of the windows among `items` (what `winOrder` computes) -/
mutual
def Tree.orderOk : Tree → Prop
  | .res .. => True
  | .win _ _ _ _ _ _ kids order => Tree.orderOkList kids ∧
      (∀ k, (∃ t, kids[k]? = some t ∧ t.isRes = false) ↔ k ∈ order)
def Tree.orderOkList : List Tree → Prop
  | [] => True
  | t :: ts => t.orderOk ∧ Tree.orderOkList ts
end

theorem find_unique : ∀ (l : List Info) (rid : Nat), (l.map (·.id)).Nodup → ∀ i ∈ l, i.id = rid →
    l.find? (fun j => j.id == rid) = some i
  | [], _, _, i, hi, _ => by cases hi
  | x :: xs, rid, hn, i, hi, hid => by
    simp only [List.map_cons, List.nodup_cons] at hn
    by_cases hx : x.id = rid
    · have : x = i := by
        rcases List.mem_cons.mp hi with rfl | hi
        · rfl
        · exact absurd (List.mem_map.mpr ⟨i, hi, by rw [hid, hx]⟩) hn.1
      subst this
      simp [hx]
    · have hi' : i ∈ xs := by
        rcases List.mem_cons.mp hi with rfl | hi
        · exact absurd hid hx
        · exact hi
      have hx' : (x.id == rid) = false := by simpa using hx
      simp only [List.find?_cons, hx']
      exact find_unique xs rid hn.2 i hi' hid

theorem mem_allList_of_mem (dw : Nat) : ∀ (ts : List Tree) (t : Tree), t ∈ ts → ∀ i ∈ t.all dw,
    i ∈ Tree.allList dw ts
  | [], _, ht, _, _ => by cases ht
  | u :: us, t, ht, i, hi => by
    simp only [Tree.allList, List.mem_append]
    rcases List.mem_cons.mp ht with rfl | ht
    · exact Or.inl hi
    · exact Or.inr (mem_allList_of_mem dw us t ht i hi)

theorem go_sound (f : Nat) (items : List Tree) (rid dw : Nat)
    (IH : ∀ dw ts order i, findFuel f dw ts order rid = some i → i ∈ Tree.allList dw ts ∧ i.id = rid) :
    ∀ order i, findFuel.go f items rid order = some i → i ∈ Tree.allList dw items ∧ i.id = rid
  | [], i, h => by rw [findFuel.go.eq_1] at h; cases h
  | k :: ks, i, h => by
    rw [findFuel.go.eq_2] at h
    split at h
    · rename_i wid name s e step cdw kids ord hk
      split at h
      · rename_i j hj
        cases h
        obtain ⟨hj1, hj2⟩ := IH cdw kids ord j hj
        refine ⟨?_, by rw [translate_id]; exact hj2⟩
        apply mem_allList_of_mem dw items _ (List.mem_of_getElem? hk)
        simp only [Tree.all, List.mem_map]
        exact ⟨j, hj1, rfl⟩
      · exact go_sound f items rid dw IH ks i h
    · exact go_sound f items rid dw IH ks i h

theorem findFuel_sound (rid : Nat) : ∀ (f dw : Nat) (ts : List Tree) (order : List Nat) (i : Info),
    findFuel f dw ts order rid = some i → i ∈ Tree.allList dw ts ∧ i.id = rid
  | 0, _, _, _, _, h => by rw [findFuel.eq_1] at h; cases h
  | f + 1, dw, ts, order, i, h => by
    rw [findFuel.eq_2] at h
    split at h
    · rename_i id name s e hfind
      cases h
      have hp := List.find?_some hfind
      have hm := List.mem_of_find?_eq_some hfind
      simp only [Tree.isRes, Tree.ident, Bool.true_and, beq_iff_eq] at hp
      refine ⟨?_, hp⟩
      apply mem_allList_of_mem dw ts _ hm
      simp [Tree.all]
    · exact go_sound f ts rid dw (findFuel_sound rid f) order i h

theorem go_complete (f : Nat) (items : List Tree) (rid k : Nat) (wid : Nat) (name : Option Name)
    (s e step cdw : Nat) (kids : List Tree) (ord : List Nat)
    (hik : items[k]? = some (.win wid name s e step cdw kids ord))
    (hsome : (findFuel f cdw kids ord rid).isSome) :
    ∀ order, k ∈ order → (findFuel.go f items rid order).isSome
  | [], hk => by cases hk
  | k' :: ks, hk => by
    rw [findFuel.go.eq_2]
    by_cases hkk : k' = k
    · subst hkk
      rw [hik]
      obtain ⟨j, hj⟩ := Option.isSome_iff_exists.mp hsome
      simp only [hj]
      rfl
    · have hk' : k ∈ ks := by
        rcases List.mem_cons.mp hk with rfl | hk
        · exact absurd rfl hkk
        · exact hk
      have ih := go_complete f items rid k wid name s e step cdw kids ord hik hsome ks hk'
      split
      · split
        · rfl
        · exact ih
      · exact ih

theorem mem_leafIdsList : ∀ (ts : List Tree) (rid : Nat), rid ∈ Tree.leafIdsList ts →
    ∃ t ∈ ts, rid ∈ t.leafIds
  | [], _, h => by simp [Tree.leafIdsList] at h
  | t :: ts, rid, h => by
    simp only [Tree.leafIdsList, List.mem_append] at h
    rcases h with h | h
    · exact ⟨t, List.mem_cons_self .., h⟩
    · obtain ⟨u, hu, hr⟩ := mem_leafIdsList ts rid h
      exact ⟨u, List.mem_cons_of_mem _ hu, hr⟩

theorem orderOkList_mem : ∀ (ts : List Tree), Tree.orderOkList ts → ∀ t ∈ ts, t.orderOk
  | [], _, t, ht => by cases ht
  | u :: us, h, t, ht => by
    simp only [Tree.orderOkList] at h
    rcases List.mem_cons.mp ht with rfl | ht
    · exact h.1
    · exact orderOkList_mem us h.2 t ht

theorem depth_le_of_mem : ∀ (ts : List Tree) (t : Tree), t ∈ ts → t.depth ≤ Tree.depthList ts
  | [], _, ht => by cases ht
  | u :: us, t, ht => by
    simp only [Tree.depthList]
    rcases List.mem_cons.mp ht with rfl | ht
    · omega
    · have := depth_le_of_mem us t ht; omega

theorem findFuel_complete (rid : Nat) : ∀ (f dw : Nat) (ts : List Tree) (order : List Nat),
    Tree.orderOkList ts → (∀ k, (∃ t, ts[k]? = some t ∧ t.isRes = false) ↔ k ∈ order) →
    Tree.depthList ts ≤ f → rid ∈ Tree.leafIdsList ts → (findFuel f dw ts order rid).isSome
  | 0, _, ts, _, _, _, hf, _ => by have := Tree.depthList_pos ts; omega
  | f + 1, dw, ts, order, hord, htop, hf, hr => by
    rw [findFuel.eq_2]
    obtain ⟨t, ht, hrt⟩ := mem_leafIdsList ts rid hr
    split
    · rfl
    · rename_i hnot
      cases t with
      | res id name s e =>
        simp only [Tree.leafIds, List.mem_singleton] at hrt
        have hs : (ts.find? (fun t => t.isRes && t.ident == rid)).isSome := by
          rw [List.find?_isSome]
          exact ⟨_, ht, by simp [Tree.isRes, Tree.ident, hrt]⟩
        obtain ⟨t', ht'⟩ := Option.isSome_iff_exists.mp hs
        have hp := List.find?_some ht'
        cases t' with
        | res id' name' s' e' => exact absurd ht' (hnot id' name' s' e')
        | win => simp [Tree.isRes] at hp
      | win wid name s e step cdw kids ord =>
        obtain ⟨k, hk⟩ := List.getElem?_of_mem ht
        have hko : k ∈ order := (htop k).mp ⟨_, hk, rfl⟩
        have hto := orderOkList_mem ts hord _ ht
        simp only [Tree.orderOk] at hto
        have hd := depth_le_of_mem ts _ ht
        simp only [Tree.depth] at hd
        simp only [Tree.leafIds] at hrt
        have ih := findFuel_complete rid f cdw kids ord hto.1 hto.2 (by omega) hrt
        exact go_complete f ts rid k wid name s e step cdw kids ord hk ih order hko

/-- `find_resource` agrees with `all_resources`: it returns an entry reported for that resource
    (the unique one when resource ids are distinct), and fails exactly for a resource that is
    not reported at all (never added). -/
theorem find_eq_all (dw : Nat) (ts : List Tree) (order : List Nat)
    (hord : Tree.orderOkList ts) (htop : ∀ k, (∃ t, ts[k]? = some t ∧ t.isRes = false) ↔ k ∈ order)
    (hnodup : (Tree.leafIdsList ts).Nodup)
    (f : Nat) (hf : Tree.depthList ts ≤ f) (rid : Nat) :
    findFuel f dw ts order rid = (Tree.allList dw ts).find? (fun i => i.id == rid) := by
  cases hfd : findFuel f dw ts order rid with
  | some i =>
    obtain ⟨hi, hid⟩ := findFuel_sound rid f dw ts order i hfd
    symm
    exact find_unique _ rid (by rw [allList_ids]; exact hnodup) i hi hid
  | none =>
    symm
    rw [List.find?_eq_none]
    intro i hi hid
    have hmem : rid ∈ Tree.leafIdsList ts := by
      rw [← allList_ids dw]
      exact List.mem_map.mpr ⟨i, hi, by simpa using hid⟩
    have := findFuel_complete rid f dw ts order hord htop hf hmem
    rw [hfd] at this
    cases this

/-- non-vacuity: a concrete two-level tree with a dense window meets `okList`, and decoding
    through it behaves as stated -/
example :
    let kid := [Tree.res 7 [.str "r"] 4 8]
    let ts := [Tree.res 1 [.str "a"] 0 2, Tree.win 0 (some [.str "w"]) 4 8 2 8 kid []]
    Tree.okList ts ∧ Tree.decodeList ts 6 = some 7 ∧ Tree.decodeList ts 5 = none ∧
    (Tree.allList 16 ts).map (fun i => (i.id, i.s, i.e, i.width)) = [(1, 0, 2, 16), (7, 6, 8, 16)] := by
  refine ⟨?_, ?_, ?_, ?_⟩
  · simp [Tree.okList, Tree.ok, Tree.allList, Tree.all, Tree.lo, Tree.hi]
  · simp [Tree.decodeList, Tree.decode]
  · simp [Tree.decodeList, Tree.decode]
  · simp [Tree.allList, Tree.all, translate]

end MemMap
