import SocVerif.Shadow
import SocVerif.Driver.Common
/-! driver for the CSR multiplexer model.
    `case W ovR ovW n` / n × `reg start len width rd wr` → `shadow Sr Sw` | `shadow refused`
    `cyc addr rstb wstb wdata rv…` → `busr | rstb… | wstb:wdata…`      `end` → `end` -/
namespace MuxD
open Mux Drv

structure St where
  W : Nat := 0
  Sr : Nat := 1
  Sw : Nat := 1
  ok : Bool := false
  nregs : Nat := 0
  regs : Array Reg := #[]
  rs : RState := rinit
  ws : WState := winit
  ovR : Option Nat := none
  ovW : Option Nat := none

/-- `_Shadow.add` for every register of the shadow, then `prepare()` -/
def shadowSize (regs : List Reg) (ov : Option Nat) : Option Nat :=
  let S0 := regs.foldl (fun m r => max m r.rsz) 1
  let o := match ov with | some k => k | none => regs.length
  if h : 0 < S0 then prepare regs o S0 h else none

def finishCfg (s : St) : IO St := do
  let regs := s.regs.toList
  match shadowSize (regs.filter (·.rd)) s.ovR, shadowSize (regs.filter (·.wr)) s.ovW with
  | some sr, some sw =>
    IO.println s!"shadow {sr} {sw}"
    return { s with Sr := sr, Sw := sw, ok := true }
  | _, _ =>
    IO.println "shadow refused"
    return { s with ok := false }

def handle (s : St) (ws : List String) : IO St := do
  match ws with
  | ["case", w, ovr, ovw, n] =>
    let s' : St := { W := w.toNat!, ovR := optNat ovr, ovW := optNat ovw, nregs := n.toNat! }
    if s'.nregs == 0 then finishCfg s' else return s'
  | ["reg", st, l, w, rd, wr] =>
    let s' := { s with regs := s.regs.push ⟨st.toNat!, l.toNat!, w.toNat!, rd != "0", wr != "0"⟩ }
    if s'.regs.size == s'.nregs then finishCfg s' else return s'
  | "cyc" :: rest =>
    match nats rest with
    | addr :: rstb :: wstb :: wdata :: rvals =>
      if !s.ok then IO.println "no-hw"; return s else
      let regs := s.regs.toList
      let rv : Reg → Nat := fun r =>
        match regs.idxOf? r with
        | some i => rvals.getD i 0
        | none => 0
      let ri : RIn := ⟨addr, rstb != 0, rv⟩
      let wi : WIn := ⟨addr, wstb != 0, wdata⟩
      let busr := busR s.Sr (regs.filter (·.rd)) s.rs
      let rstbs := regs.map fun r =>
        if r.rd then (if elemRstb s.Sr (regs.filter (·.rd)) ri r then "1" else "0") else "x"
      let wouts := regs.map fun r =>
        if r.wr then (if s.ws.estb r then s!"1:{elemWdata s.W s.Sw s.ws r}" else "0") else "x"
      IO.println s!"{busr} | {" ".intercalate rstbs} | {" ".intercalate wouts}"
      let rs' := rnext s.W s.Sr (regs.filter (·.rd)) s.rs ri
      let ws' := wnext s.Sw (regs.filter (·.wr)) s.ws wi
      let m := max s.Sr s.Sw + 1
      let estbArr := regs.map fun r => ws'.estb r
      let a1 := Array.ofFn (n := m) (fun i => rs'.data i.val)
      let a2 := Array.ofFn (n := m) (fun i => rs'.ren i.val)
      let a3 := Array.ofFn (n := m) (fun i => ws'.data i.val)
      let rs'' : RState := ⟨ofArrN a1, ofArrB a2⟩
      let ws'' : WState := ⟨ofArrN a3, fun r =>
        match regs.idxOf? r with | some i => estbArr.getD i false | none => false⟩
      return { s with rs := rs'', ws := ws'' }
    | _ => IO.println "bad-op"; return s
  | ["end"] => IO.println "end"; return {}
  | _ => IO.println "bad-op"; return s

def main : IO Unit := do
  let _ ← foldLines (← IO.getStdin) ({} : St) handle
  return ()
end MuxD
