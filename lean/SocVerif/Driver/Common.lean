/-! Line-protocol helpers shared by the per-model drivers (import-free). -/
namespace Drv

def words (line : String) : List String :=
  (line.trimAscii.toString.splitOn " ").filter (· ≠ "")

def nats (ws : List String) : List Nat := ws.filterMap String.toNat?

/-- optional number: `-` = absent -/
def optNat (s : String) : Option Nat := if s == "-" then none else s.toNat?

def b2n (b : Bool) : Nat := if b then 1 else 0

def ofArrN (arr : Array Nat) : Nat → Nat := fun o => arr.getD o 0
def ofArrB (arr : Array Bool) : Nat → Bool := fun o => arr.getD o false

/-- read lines until EOF, calling `f` on each non-empty line with a state -/
partial def foldLines {σ} (h : IO.FS.Stream) (s : σ) (f : σ → List String → IO σ) : IO σ := do
  let line ← h.getLine
  if line.isEmpty then return s
  let ws := words line
  if ws.isEmpty then foldLines h s f else
  let s' ← f s ws
  foldLines h s' f

def joinNats (l : List Nat) : String := " ".intercalate (l.map toString)

end Drv
