import SocVerif.Bridge
import SocVerif.Driver.Common
/-! driver for the Wishbone→CSR bridge: `case ratio gran` / `cyc cyc stb we adr sel datw csrR`
    → `<addr rstb wstb wdata> | <ack datr>` -/
namespace BridgeD
open Bridge Drv

structure St where
  ratio : Nat := 1
  gran : Nat := 8
  cycle : Nat := 0
  ack : Bool := false
  datr : Array Nat := #[]
  abiding : Bool := false      -- observation mask: dat_r is compared with the ack of a read of an abiding initiator
  prevRead : Bool := false

def handle (s : St) (ws : List String) : IO St := do
  match ws with
  | ["case", ratio, gran, ab] =>
    return { ratio := ratio.toNat!, gran := gran.toNat!, datr := Array.replicate ratio.toNat! 0, abiding := ab != "0" }
  | ["cyc", cyc, stb, we, adr, sel, datw, csrR] =>
    let seln := sel.toNat!; let dw := datw.toNat!
    let x : BIn := ⟨cyc != "0", stb != "0", we != "0", adr.toNat!, fun i => seln.testBit i,
                    fun i => dw / 2 ^ (i * s.gran) % 2 ^ s.gran, csrR.toNat!⟩
    let cur : BState := ⟨s.cycle, s.ack, ofArrN s.datr⟩
    let o := bout s.ratio cur x
    let word := (List.range s.ratio).foldl (fun acc i => acc + cur.datr i * 2 ^ (i * s.gran)) 0
    let shown := if s.abiding && cur.ack && s.prevRead then toString word else "-"
    IO.println s!"{o.addr} {b2n o.rstb} {b2n o.wstb} {o.wdata} | {b2n cur.ack} {shown}"
    let nx := bnext s.ratio cur x
    return { s with cycle := nx.cycle, ack := nx.ack, datr := Array.ofFn (n := s.ratio) (fun i => nx.datr i.val),
                    prevRead := x.cyc && x.stb && !x.we }
  | ["end"] => IO.println "end"; return {}
  | _ => IO.println "bad-op"; return s

def main : IO Unit := do let _ ← foldLines (← IO.getStdin) ({} : St) handle; return ()
end BridgeD
