import SocVerif.RegPack
import SocVerif.Driver.Common
/-! driver for register field packing.
    `case <elem-access> <tree tokens…>` with tree ::= `F w acc` | `D n (name tree)*n` | `L n tree*n`
      → `reg <width> | <path>:<off>:<w>:<acc> …`  or `refused`
    `cyc rstb wstb wdata fr0 fr1 …` → `<elem r_data|x> | <rstb|x>… | <wstb:wdata|x>…` -/
namespace RegD
open RegPack Drv

def accOf : String → Acc | "r" => .r | "w" => .w | "rw" => .rw | _ => .nc
def eaccOf : String → EAcc | "r" => .r | "w" => .w | _ => .rw
def showAcc : Acc → String | .r => "r" | .w => "w" | .rw => "rw" | .nc => "nc"

mutual
partial def parseTree : List String → Option (FTree × List String)
  | "F" :: w :: a :: rest => some (.leaf w.toNat! (accOf a), rest)
  | "D" :: n :: rest =>
    match parseDict n.toNat! rest with
    | some (ks, ts, rest') => some (.dict ks ts, rest')
    | none => none
  | "L" :: n :: rest =>
    match parseList n.toNat! rest with
    | some (ts, rest') => some (.list ts, rest')
    | none => none
  | _ => none
partial def parseDict : Nat → List String → Option (List String × List FTree × List String)
  | 0, rest => some ([], [], rest)
  | n + 1, k :: rest =>
    match parseTree rest with
    | some (t, rest') =>
      match parseDict n rest' with
      | some (ks, ts, r) => some (k :: ks, t :: ts, r)
      | none => none
    | none => none
  | _, _ => none
partial def parseList : Nat → List String → Option (List FTree × List String)
  | 0, rest => some ([], rest)
  | n + 1, rest =>
    match parseTree rest with
    | some (t, rest') =>
      match parseList n rest' with
      | some (ts, r) => some (t :: ts, r)
      | none => none
    | none => none
end

def showKey : Key → String | .name s => s | .idx n => s!"#{n}"
def showPath (p : List Key) : String := if p.isEmpty then "." else ".".intercalate (p.map showKey)

structure St where
  ea : EAcc := .rw
  fs : List Flat := []
  ok : Bool := false

def handle (s : St) (ws : List String) : IO St := do
  match ws with
  | "case" :: ea :: toks =>
    match parseTree toks with
    | some (t, _) =>
      match mkRegister t (eaccOf ea) with
      | some (w, fs) =>
        let offs := offsets 0 fs
        let descr := (fs.zip offs).map fun (f, o) => s!"{showPath f.path}:{o}:{f.w}:{showAcc f.acc}"
        IO.println s!"reg {w} | {" ".intercalate descr}"
        return { ea := eaccOf ea, fs := fs, ok := true }
      | none => IO.println "refused"; return { ok := false }
    | none => IO.println "bad-op"; return { ok := false }
  | "cyc" :: rest =>
    if !s.ok then IO.println "no-hw"; return s else
    match nats rest with
    | rstb :: wstb :: wdata :: frs =>
      let x : EIn := ⟨rstb != 0, wstb != 0, wdata, fun k => frs.getD k 0⟩
      let er := if s.ea.readable then toString (elemRdata s.fs x) else "x"
      let rs := s.fs.map fun f => if f.acc.readable then toString (b2n (fieldRstb f x)) else "x"
      let wsl := (s.fs.zip (offsets 0 s.fs)).map fun (f, o) =>
        if f.acc.writable then s!"{b2n (fieldWstb f x)}:{fieldWdata f o x}" else "x"
      IO.println s!"{er} | {" ".intercalate rs} | {" ".intercalate wsl}"
      return s
    | _ => IO.println "bad-op"; return s
  | ["end"] => IO.println "end"; return {}
  | _ => IO.println "bad-op"; return s

def main : IO Unit := do let _ ← foldLines (← IO.getStdin) ({} : St) handle; return ()
end RegD
