import SocVerif.Gpio
import SocVerif.Shadow
import SocVerif.Driver.Common
/-! driver for gpio.Peripheral: `case n dw stages` → `layout <mode> <input> <output> <setclr>` (start-stop);
    `cyc addr rstb wstb wdata pinmask` → `<bus r_data> | <o mask> <oe mask> <alt mask>` -/
namespace GpioD
open Gpio Mux Drv

structure St where
  c : Cfg := ⟨1, 8, 0⟩
  Sr : Nat := 1
  s : State := init

def maskOf (n : Nat) (f : Nat → Bool) : Nat :=
  (List.range n).foldl (fun acc i => acc + (if f i then 2 ^ i else 0)) 0

def retab (c : Cfg) (S : Nat) (s : State) : State :=
  let m := S + 1
  let a1 := Array.ofFn (n := m) (fun i => s.rs.data i.val)
  let a2 := Array.ofFn (n := m) (fun i => s.rs.ren i.val)
  let a3 := Array.ofFn (n := m) (fun i => s.ws.data i.val)
  let rl := regs c
  let es := rl.map fun r => s.ws.estb r
  let md := Array.ofFn (n := 2 * c.n) (fun i => s.mode i.val)
  let ou := Array.ofFn (n := c.n) (fun i => s.out i.val)
  let sy := Array.ofFn (n := c.stages) (fun j => Array.ofFn (n := c.n) (fun k => s.sync j.val k.val))
  { rs := ⟨ofArrN a1, ofArrB a2⟩
    ws := ⟨ofArrN a3, fun r => match rl.findIdx? (fun q => q.start == r.start) with | some i => es.getD i false | none => false⟩
    mode := ofArrB md, out := ofArrB ou
    sync := fun j k => (sy.getD j #[]).getD k false }

def handle (s : St) (ws : List String) : IO St := do
  match ws with
  | ["case", n, dw, stages] =>
    let c : Cfg := ⟨n.toNat!, dw.toNat!, stages.toNat!⟩
    let sh (r : Reg) := s!"{r.start}-{r.stop}"
    IO.println s!"layout {sh (modeReg c)} {sh (inputReg c)} {sh (outputReg c)} {sh (setclrReg c)}"
    let S := (regs c).foldl (fun m r => max m r.rsz) 1
    return { c := c, Sr := S, s := init }
  | ["cyc", addr, rstb, wstb, wdata, pins] =>
    let pm := pins.toNat!
    let x : In := ⟨addr.toNat!, rstb != "0", wstb != "0", wdata.toNat!, fun k => pm.testBit k⟩
    let o := maskOf s.c.n (fun k => (pinOut s.s k).o)
    let oe := maskOf s.c.n (fun k => (pinOut s.s k).oe)
    let alt := maskOf s.c.n (fun k => (pinOut s.s k).alt)
    IO.println s!"{busRdata s.c s.Sr s.s} | {o} {oe} {alt}"
    return { s with s := retab s.c s.Sr (next s.c s.Sr s.s x) }
  | ["end"] => IO.println "end"; return {}
  | _ => IO.println "bad-op"; return s

def main : IO Unit := do let _ ← foldLines (← IO.getStdin) ({} : St) handle; return ()
end GpioD
