import SocVerif.MemMap
import SocVerif.Driver.MemMapD
/-! driver for the lookup functions over an explicitly given map tree (C03): the local structure
    of every map (as reported by the real `resources()` / `windows()`) is sent bottom-up, then
    `all`, `decodeall`, `find` are answered by the model's three traversals. -/
namespace TreeD
open MemMap Names Drv MemMapD

structure M where
  dw : Nat := 0
  items : List Tree := []
  wins : List Nat := []     -- child handles in insertion order

abbrev St := Array M

def getM (s : St) (h : Nat) : M := s.getD h ⟨0, [], []⟩
def setM (s : St) (h : Nat) (m : M) : St :=
  let s := if s.size ≤ h then s ++ Array.replicate (h + 1 - s.size) ⟨0, [], []⟩ else s
  s.set! h m

def orderOf (m : M) : List Nat :=
  m.wins.filterMap fun h => m.items.findIdx? (fun t => !t.isRes && t.ident == h)

def handle (s : St) (ws : List String) : IO St := do
  match ws with
  | ["case"] => return #[]
  | ["end"] => IO.println "end"; return s
  | ["map", h, dw] => return setM s h.toNat! { dw := dw.toNat! }
  | ["r", h, id, name, st, e] =>
    match parseName name with
    | some (some nm) =>
      let m := getM s h.toNat!
      return setM s h.toNat! { m with items := m.items ++ [.res id.toNat! nm st.toNat! e.toNat!] }
    | _ => IO.println "bad-op"; return s
  | ["w", h, ch, name, st, e, ratio] =>
    match parseName name with
    | some nm =>
      let m := getM s h.toNat!
      let c := getM s ch.toNat!
      let t := Tree.win ch.toNat! nm st.toNat! e.toNat! ratio.toNat! c.dw c.items (orderOf c)
      return setM s h.toNat! { m with items := m.items ++ [t] }
    | none => IO.println "bad-op"; return s
  | "order" :: h :: chs =>
    let m := getM s h.toNat!
    return setM s h.toNat! { m with wins := nats chs }
  | ["all", h] =>
    let m := getM s h.toNat!
    if Tree.allOkList m.items then
      IO.println ("all " ++ " ".intercalate ((Tree.allList m.dw m.items).map showInfo))
    else IO.println "assert"
    return s
  | ["decodeall", h, aw] =>
    let m := getM s h.toNat!
    let f := Tree.depthList m.items + 1
    let l := (List.range (2 ^ aw.toNat!)).map fun a =>
      match decodeFuel f m.items a with | some r => toString r | none => "-"
    IO.println ("decodeall " ++ " ".intercalate l); return s
  | ["decode", h, a] =>
    let m := getM s h.toNat!
    IO.println ("decode " ++ (match decodeFuel (Tree.depthList m.items + 1) m.items a.toNat! with
      | some r => toString r | none => "-"))
    return s
  | ["find", h, rid] =>
    let m := getM s h.toNat!
    IO.println (match findFuel (Tree.depthList m.items + 1) m.dw m.items (orderOf m) rid.toNat! with
      | some i => showInfo i | none => "keyerror")
    return s
  | _ => IO.println "bad-op"; return s

def main : IO Unit := do
  let _ ← foldLines (← IO.getStdin) (#[] : St) handle
  return ()
end TreeD
