import SocVerif.Builder
import SocVerif.Driver.MemMapD
/-! driver for csr.Builder: `case aw dw gran` / `add id name width offset` / `cluster name` / `index n` /
    `exit` / `freeze` / `asmap` → `resources id@name:s-e …` | `refused`  (`!` = invalid argument) -/
namespace BuilderD
open Bld MemMap Names Drv MemMapD

def showBOut : Bld.Out → String | .ok => "ok" | .refused => "refused"

def handle (b : Builder) (ws : List String) : IO Builder := do
  match ws with
  | ["case", aw, dw, gran] => return { aw := aw.toNat!, dw := dw.toNat!, gran := gran.toNat! }
  | ["add", id, name, width, offset] =>
    let nm := if name == "!" then none else some name
    match arg offset with
    | .invalid => IO.println "refused"; return b
    | a =>
      let (b', o) := step b (.add id.toNat! nm width.toNat! a.opt)
      IO.println (showBOut o); return b'
  | ["cluster", name] =>
    let (b', o) := step b (.cluster (if name == "!" then none else some name)); IO.println (showBOut o); return b'
  | ["index", n] =>
    let (b', o) := step b (.index n.toNat?); IO.println (showBOut o); return b'
  | ["exit"] => let (b', o) := step b .exit; IO.println (showBOut o); return b'
  | ["freeze"] => let (b', o) := step b .freeze; IO.println (showBOut o); return b'
  | ["asmap"] =>
    let b' := (step b .freeze).1
    match asMemoryMap b' with
    | some m =>
      let l := m.items.filterMap fun t => match t with
        | .res id name s e => some s!"{id}@{showName name}:{s}-{e}" | _ => none
      IO.println ("resources " ++ " ".intercalate l)
    | none => IO.println "refused"
    return b'
  | ["end"] => IO.println "end"; return b
  | _ => IO.println "bad-op"; return b

def main : IO Unit := do
  let _ ← foldLines (← IO.getStdin) ({ aw := 1, dw := 8, gran := 8 } : Builder) handle; return ()
end BuilderD
