import SocVerif.Event
import SocVerif.Driver.Common
/-! drivers for the event monitor (`monitor`) and the event map (`evmap`).
    monitor: `case <mode>…` (l/r/f) / `cyc <i> <enable> <clear>` (bit masks) → `<trg> <pending> <line>`
    evmap:   `case` / `add id` / `index id` / `freeze` / `size` / `sources` -/
namespace EvD
open Ev Drv

def bitsOf (n : Nat) : Nat → Bool := fun b => n.testBit b
def maskOf (n : Nat) (f : Nat → Bool) : Nat :=
  (List.range n).foldl (fun acc i => acc + (if f i then 2 ^ i else 0)) 0

structure St where
  modes : List Mode := []
  prev : Array Bool := #[]
  pend : Array Bool := #[]

def handleMon (s : St) (ws : List String) : IO St := do
  match ws with
  | "case" :: ms =>
    let modes := ms.map fun m => match m with | "r" => Mode.rise | "f" => Mode.fall | _ => Mode.level
    return { modes := modes, prev := Array.replicate modes.length false, pend := Array.replicate modes.length false }
  | ["cyc", i, en, cl] =>
    let n := s.modes.length
    let cur : MState := ⟨ofArrB s.prev, ofArrB s.pend⟩
    let x : MIn := ⟨bitsOf i.toNat!, bitsOf en.toNat!, bitsOf cl.toNat!⟩
    IO.println s!"{maskOf n (trgOut s.modes cur x)} {maskOf n cur.pending} {b2n (line s.modes cur x)}"
    let nx := mnext s.modes cur x
    return { s with prev := Array.ofFn (n := n) (fun k => nx.prev k.val), pend := Array.ofFn (n := n) (fun k => nx.pending k.val) }
  | ["end"] => IO.println "end"; return {}
  | _ => IO.println "bad-op"; return s

def showOut : EOut → String
  | .ok => "ok" | .refused => "refused" | .idx n => s!"{n}" | .keyError => "keyerror"

def handleMap (m : EMap) (ws : List String) : IO EMap := do
  match ws with
  | ["case"] => return {}
  | ["add", id] => let (m', o) := m.step (.add id.toNat!); IO.println (showOut o); return m'
  | ["index", id] => let (m', o) := m.step (.index id.toNat!); IO.println (showOut o); return m'
  | ["freeze"] => let (m', o) := m.step .freeze; IO.println (showOut o); return m'
  | ["size"] => let (m', o) := m.step .size; IO.println (showOut o); return m'
  | ["sources"] =>
    IO.println ("sources " ++ " ".intercalate ((List.range m.srcs.length).zip m.srcs |>.map fun (k, id) => s!"{id}:{k}"))
    return m
  | ["end"] => IO.println "end"; return m
  | _ => IO.println "bad-op"; return m

def mainMon : IO Unit := do let _ ← foldLines (← IO.getStdin) ({} : St) handleMon; return ()
def mainMap : IO Unit := do let _ ← foldLines (← IO.getStdin) ({} : EMap) handleMap; return ()
end EvD
