import SocVerif.Sram
import SocVerif.Driver.Common
/-! driver for the SRAM model: `case depth dw gran writable init…` / `cyc cyc stb we adr sel datw` → `ack dat_r`;
    `mem` → `mem w0 w1 …` -/
namespace SramD
open Sram Drv

structure St where
  c : Cfg := ⟨8, 8, true⟩
  depth : Nat := 0
  mem : Array Nat := #[]
  ack : Bool := false
  rdat : Nat := 0
  lastRead : Bool := false     -- the previous cycle presented a read transfer (observation mask)

def handle (s : St) (ws : List String) : IO St := do
  match ws with
  | "case" :: depth :: dw :: gran :: wr :: initv =>
    let d := depth.toNat!
    let iv := nats initv
    return { c := ⟨dw.toNat!, gran.toNat!, wr != "0"⟩, depth := d, mem := Array.ofFn (n := d) (fun i => iv.getD i.val 0) }
  | ["cyc", cyc, stb, we, adr, sel, datw] =>
    let cur : State := ⟨ofArrN s.mem, s.ack, s.rdat⟩
    let seln := sel.toNat!
    let x : In := ⟨cyc != "0", stb != "0", we != "0", adr.toNat!, fun i => seln.testBit i, datw.toNat!⟩
    -- dat_r is observed only together with the acknowledge of a read transfer
    IO.println s!"{b2n cur.ack} {if cur.ack && s.lastRead then toString cur.rdat else "-"}"
    let nx := next s.c cur x
    return { s with mem := Array.ofFn (n := s.depth) (fun i => nx.mem i.val), ack := nx.ack, rdat := nx.rdat,
                    lastRead := req cur x && !x.we }
  | ["mem"] => IO.println ("mem " ++ joinNats s.mem.toList); return s
  | ["end"] => IO.println "end"; return {}
  | _ => IO.println "bad-op"; return s

def main : IO Unit := do let _ ← foldLines (← IO.getStdin) ({} : St) handle; return ()
end SramD
