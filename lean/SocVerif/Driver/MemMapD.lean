import SocVerif.MemMap
import SocVerif.Driver.Common
/-! driver for the MemoryMap world model: one op per line, one answer per line -/
namespace MemMapD
open MemMap Names Drv

def parsePart (p : String) : Option Part :=
  if p.startsWith "i:" then (p.drop 2).toString.toNat?.map Part.int
  else if p.startsWith "s:" then some (.str (p.drop 2).toString)
  else none

/-- `-` = no name; `!` (or anything malformed) = a name the real code rejects -/
def parseName (s : String) : Option (Option Name) :=
  if s == "-" then some none else
  let parts := (s.splitOn ",").map parsePart
  if parts.all Option.isSome && !parts.isEmpty then some (some (parts.filterMap id)) else none

def showPart : Part → String | .str s => s!"s:{s}" | .int n => s!"i:{n}"
def showName (n : Name) : String := ",".intercalate (n.map showPart)
def showOptName : Option Name → String | none => "-" | some n => showName n
def showInfo (i : Info) : String :=
  s!"{i.id}@{"/".intercalate (i.path.map showName)}:{i.s}-{i.e}w{i.width}"

def showOut : Out → String
  | .ok vs => if vs.isEmpty then "ok" else "ok " ++ joinNats vs
  | .refused => "refused"
  | .badHandle => "bad-op"

/-- an argument token: `-` absent, number, anything else invalid -/
inductive Arg | absent | val (n : Nat) | invalid
def arg (s : String) : Arg :=
  if s == "-" then .absent else match s.toNat? with | some n => .val n | none => .invalid
def Arg.opt : Arg → Option Nat | .val n => some n | _ => none
def Arg.bad : Arg → Bool | .invalid => true | _ => false

def handle (w : World) (ws : List String) : IO World := do
  match ws with
  | ["case"] => return []
  | ["end"] => IO.println "end"; return w
  | ["new", aw, dw, al] =>
    let (w', o) := step w (.new aw.toNat! dw.toNat! al.toNat!)
    IO.println (showOut o); return w'
  | ["res", hd, id, name, size, addr, al] =>
    match parseName name, arg size, arg addr, arg al with
    | some (some nm), .val sz, a, l =>
      if a.bad || l.bad then IO.println "refused"; return w else
      let (w', o) := step w (.res hd.toNat! id.toNat! nm sz a.opt l.opt)
      IO.println (showOut o); return w'
    | _, _, _, _ => IO.println "refused"; return w
  | ["win", hd, ch, name, addr, sparse] =>
    match parseName name, arg addr with
    | some nm, a =>
      if a.bad then IO.println "refused"; return w else
      let sp := match sparse with | "1" => some true | "0" => some false | _ => none
      let (w', o) := step w (.win hd.toNat! ch.toNat! nm a.opt sp)
      IO.println (showOut o); return w'
    | none, _ => IO.println "refused"; return w
  | ["align", hd, a] =>
    match arg a with
    | .val n => let (w', o) := step w (.align hd.toNat! n); IO.println (showOut o); return w'
    | _ => IO.println "refused"; return w
  | ["freeze", hd] =>
    let (w', o) := step w (.freeze hd.toNat!); IO.println (showOut o); return w'
  | ["handoff", hd, how] =>
    -- PeripheralInfo(memory_map=m) freezes; csr.Bridge(m) validates (no windows) and then freezes
    match w[hd.toNat!]? with
    | some m =>
      if how == "bridge" && m.items.any (fun t => !t.isRes) then IO.println "refused"; return w
      else let (w', o) := step w (.freeze hd.toNat!); IO.println (showOut o); return w'
    | none => IO.println "bad-op"; return w
  | ["all", hd] =>
    match w[hd.toNat!]? with
    | some m =>
      if Tree.allOkList m.items then
        IO.println ("all " ++ " ".intercalate ((Tree.allList m.dw m.items).map showInfo))
      else IO.println "assert"
      return w
    | none => IO.println "bad-op"; return w
  | ["resources", hd] =>
    match w[hd.toNat!]? with
    | some m =>
      let l := m.items.filterMap fun t => match t with
        | .res id name s e => some s!"{id}@{showName name}:{s}-{e}" | _ => none
      IO.println ("resources " ++ " ".intercalate l); return w
    | none => IO.println "bad-op"; return w
  | ["windows", hd] =>
    match w[hd.toNat!]? with
    | some m =>
      let l := m.items.filterMap fun t => match t with
        | .win id name s e step _ _ _ => some s!"{id}@{showOptName name}:{s}-{e}/{step}" | _ => none
      IO.println ("windows " ++ " ".intercalate l); return w
    | none => IO.println "bad-op"; return w
  | ["decode", hd, a] =>
    match w[hd.toNat!]? with
    | some m =>
      IO.println (match decodeFuel (Tree.depthList m.items + 1) m.items a.toNat! with
        | some r => toString r | none => "-")
      return w
    | none => IO.println "bad-op"; return w
  | ["decodeall", hd] =>   -- every address of the map, one line
    match w[hd.toNat!]? with
    | some m =>
      let f := Tree.depthList m.items + 1
      let l := (List.range (2 ^ m.aw)).map fun a =>
        match decodeFuel f m.items a with | some r => toString r | none => "-"
      IO.println ("decodeall " ++ " ".intercalate l); return w
    | none => IO.println "bad-op"; return w
  | ["find", hd, rid] =>
    match w[hd.toNat!]? with
    | some m =>
      IO.println (match findFuel (Tree.depthList m.items + 1) m.dw m.items (winOrder m) rid.toNat! with
        | some i => showInfo i | none => "keyerror")
      return w
    | none => IO.println "bad-op"; return w
  | _ => IO.println "bad-op"; return w

def main : IO Unit := do
  let _ ← foldLines (← IO.getStdin) ([] : World) handle
  return ()
end MemMapD
