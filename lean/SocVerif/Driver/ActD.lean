import SocVerif.Actions
import SocVerif.Driver.Common
/-! driver for field actions: `case <kind> <width> <init>` / `cyc rstb wstb wdata aux` → `portR data stbO` -/
namespace ActD
open Act Drv

structure St where
  k : Kind := .res
  w : Nat := 0
  s : Array Bool := #[]

def kindOf : String → Kind
  | "R" => .r | "W" => .w | "RW" => .rw | "RW1C" => .rw1c | "RW1S" => .rw1s | _ => .res

def bitsOf (n : Nat) : Nat → Bool := fun b => n.testBit b

def handle (s : St) (ws : List String) : IO St := do
  match ws with
  | ["case", k, w, init] =>
    let w := w.toNat!
    let f := st (kindOf k) w (bitsOf init.toNat!) (fun _ => ⟨false, false, fun _ => false, fun _ => false⟩) 0
    return { k := kindOf k, w := w, s := Array.ofFn (n := w) (fun i => f i.val) }
  | ["cyc", rstb, wstb, wdata, aux] =>
    let cur := ofArrB s.s
    let i : In := ⟨rstb != "0", wstb != "0", bitsOf wdata.toNat!, bitsOf aux.toNat!⟩
    let o := out s.k s.w cur i
    IO.println s!"{ofBits s.w o.portR} {ofBits s.w o.data} {b2n o.stbO}"
    let nx := next s.k s.w cur i
    return { s with s := Array.ofFn (n := s.w) (fun i => nx i.val) }
  | ["end"] => IO.println "end"; return {}
  | _ => IO.println "bad-op"; return s

def main : IO Unit := do
  let _ ← foldLines (← IO.getStdin) ({} : St) handle
  return ()
end ActD
