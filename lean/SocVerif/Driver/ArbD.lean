import SocVerif.ArbFull
import SocVerif.Driver.Common
/-! driver for the arbiter.
    `case n <bus feat: err rty stall lock cti bte> <busselw>` then n × `intr err rty stall lock cti bte ratio selw`
    `cyc <owner> <ack err rty stall datr> <n × (cyc stb we lock adr datw sel cti bte)>`
      → `<busy> <next owner> | cyc stb we lock adr datw sel cti bte | n × (ack err rty stall datr)` (absent signals `x`) -/
namespace ArbD
open ArbF Drv

structure St where
  n : Nat := 0
  bus : Feat := ⟨false, false, false, false, false, false⟩
  busSelw : Nat := 1
  intr : Array (Feat × Nat × Nat) := #[]
  grant : Nat := 0

def featOf (l : List Nat) : Feat :=
  ⟨l.getD 0 0 != 0, l.getD 1 0 != 0, l.getD 2 0 != 0, l.getD 3 0 != 0, l.getD 4 0 != 0, l.getD 5 0 != 0⟩

def maskOf (n : Nat) (f : Nat → Bool) : Nat :=
  (List.range n).foldl (fun acc i => acc + (if f i then 2 ^ i else 0)) 0

def opt (present : Bool) (v : String) : String := if present then v else "x"

def handle (s : St) (ws : List String) : IO St := do
  match ws with
  | "case" :: rest =>
    match nats rest with
    | n :: fs => return { n := n, bus := featOf (fs.take 6), busSelw := fs.getD 6 1 }
    | _ => IO.println "bad-op"; return s
  | "intr" :: rest =>
    let l := nats rest
    return { s with intr := s.intr.push (featOf (l.take 6), l.getD 6 1, l.getD 7 1) }
  | "cyc" :: rest =>
    -- step-wise: the first number is the owner observed on the real hardware in this cycle
    let g := (nats rest).headD 0
    let l := (nats rest).drop 1
    let resp : Resp := ⟨l.getD 0 0 != 0, l.getD 1 0 != 0, l.getD 2 0 != 0, l.getD 3 0 != 0, l.getD 4 0⟩
    let reqOf : Nat → Req := fun p =>
      let o := 5 + 9 * p
      let sel := l.getD (o + 6) 0
      ⟨l.getD o 0 != 0, l.getD (o + 1) 0 != 0, l.getD (o + 2) 0 != 0, l.getD (o + 3) 0 != 0,
       l.getD (o + 4) 0, l.getD (o + 5) 0, fun j => sel.testBit j, l.getD (o + 7) 0, l.getD (o + 8) 0⟩
    let c : Cfg := ⟨s.n, s.bus, fun i => (s.intr.getD i (featOf [], 1, 1)).1,
                    fun i => (s.intr.getD i (featOf [], 1, 1)).2.1, fun i => (s.intr.getD i (featOf [], 1, 1)).2.2⟩
    let x : In := ⟨reqOf, resp⟩
    let b := busOut c g x
    let busStr := s!"{b2n b.cyc} {b2n b.stb} {b2n b.we} {opt s.bus.lock (toString (b2n b.lock))} {b.adr} {b.datw} {maskOf s.busSelw b.sel} {opt s.bus.cti (toString b.cti)} {opt s.bus.bte (toString b.bte)}"
    let outs := (List.range s.n).map fun i =>
      let f := c.intr i
      let r := intrOut c g x i
      s!"{b2n r.ack} {opt f.err (toString (b2n r.err))} {opt f.rty (toString (b2n r.rty))} {opt f.stall (toString (b2n r.stall))} {r.datr}"
    IO.println s!"{b2n (busy c g x)} {nextGrant c g x} | {busStr} | {" , ".intercalate outs}"
    return s
  | ["end"] => IO.println "end"; return {}
  | _ => IO.println "bad-op"; return s

def main : IO Unit := do let _ ← foldLines (← IO.getStdin) ({} : St) handle; return ()
end ArbD
