import SocVerif.CsrMon
import SocVerif.Driver.Common
/-! driver for csr.EventMonitor: `case n dw al <mode>…` → `layout <addr_width> <enable start-stop> <pending start-stop>`;
    `cyc addr rstb wstb wdata imask` → `<bus r_data> <src.i>` -/
namespace CsrMonD
open CsrMon Mux Ev Drv

structure St where
  c : Cfg := ⟨0, 8, 0, []⟩
  S : Nat := 1
  s : State := init

def retab (c : Cfg) (S : Nat) (s : State) : State :=
  let m := S + 1
  let a1 := Array.ofFn (n := m) (fun i => s.rs.data i.val)
  let a2 := Array.ofFn (n := m) (fun i => s.rs.ren i.val)
  let a3 := Array.ofFn (n := m) (fun i => s.ws.data i.val)
  let e1 := s.ws.estb (enableReg c)
  let e2 := s.ws.estb (pendingReg c)
  let p1 := Array.ofFn (n := c.n) (fun i => s.mon.prev i.val)
  let p2 := Array.ofFn (n := c.n) (fun i => s.mon.pending i.val)
  let en := Array.ofFn (n := c.n) (fun i => s.enable i.val)
  { rs := ⟨ofArrN a1, ofArrB a2⟩
    ws := ⟨ofArrN a3, fun r => if r.start = 0 then e1 else e2⟩
    mon := ⟨ofArrB p1, ofArrB p2⟩
    enable := ofArrB en }

def handle (s : St) (ws : List String) : IO St := do
  match ws with
  | "case" :: n :: dw :: al :: ms =>
    let modes := ms.map fun m => match m with | "r" => Mode.rise | "f" => Mode.fall | _ => Mode.level
    let c : Cfg := ⟨n.toNat!, dw.toNat!, al.toNat!, modes⟩
    let e := enableReg c; let p := pendingReg c
    IO.println s!"layout {addrWidth c} {e.start}-{e.stop} {p.start}-{p.stop}"
    return { c := c, S := (enableReg c).rsz, s := init }
  | ["cyc", addr, rstb, wstb, wdata, imask] =>
    let im := imask.toNat!
    let x : In := ⟨addr.toNat!, rstb != "0", wstb != "0", wdata.toNat!, fun k => im.testBit k⟩
    IO.println s!"{busRdata s.c s.S s.s} {b2n (irq s.c s.S s.s x)}"
    return { s with s := retab s.c s.S (next s.c s.S s.s x) }
  | ["end"] => IO.println "end"; return {}
  | _ => IO.println "bad-op"; return s

def main : IO Unit := do let _ ← foldLines (← IO.getStdin) ({} : St) handle; return ()
end CsrMonD
