import SocVerif.Props.C01S
import SocVerif.Driver.Common
/-! driver for the CLOSED Wishbone root of `Props/C01S.lean` (`E2ES.Sys`): the decoder model in front of
    bridges and SRAMs, every subordinate fed with `Dec.wbSubReq`, the root fed with `Dec.wbResp` of the
    subordinates' registered responses — stepped with the very `Bridge.bnext` / `Sram.next` that `bst` /
    `Sram.st` iterate.
    `case aw gb n`
    `sub bridge start mapAw adrW dw selW W ratio`            (one per decoder window, in window order)
    `sub sram   start mapAw adrW dw selW gran writable depth init…`
    `cyc cyc stb we adr sel datw csrR_0 … csrR_{n-1}`  (csrR_k: the CSR read data bridge k is shown; 0 for an SRAM)
       → `ack datr | k: addr rstb wstb wdata , …` (one group per bridge)
    `mem k` → `mem w0 w1 …` -/
namespace RootD
open Dec Bridge Drv E2ED E2ES

inductive SubSt where
  | bridge (W ratio : Nat) (s : BState)
  | sram (sc : Sram.Cfg) (depth : Nat) (s : Sram.State)

structure St where
  aw : Nat := 0
  gb : Nat := 0
  subs : Array WbSub := #[]
  sts : Array SubSt := #[]
  prevRead : Bool := false      -- observation mask: read data is compared with the acknowledge of a read …
  prevAdr : Nat := 0            -- … whose address is still presented

def noFeat : Feat := ⟨false, false, false, false, false, false⟩

def getSt (a : Array SubSt) (k : Nat) : Option SubSt := a[k]?

def respOf : SubSt → WbResp
  | .bridge W ratio s => bridgeResp W ratio s
  | .sram _ _ s => sramResp s

def handle (s : St) (ws : List String) : IO St := do
  match ws with
  | ["case", aw, gb, _n] => return { aw := aw.toNat!, gb := gb.toNat! }
  | "sub" :: "bridge" :: rest =>
    let l := nats rest
    return { s with subs := s.subs.push ⟨l.getD 0 0, l.getD 1 0, l.getD 2 0, l.getD 3 0, l.getD 4 0, noFeat⟩
                    sts := s.sts.push (.bridge (l.getD 5 0) (l.getD 6 0) binit) }
  | "sub" :: "sram" :: rest =>
    let l := nats rest
    let depth := l.getD 7 0
    let iv := (l.drop 8).toArray
    return { s with subs := s.subs.push ⟨l.getD 0 0, l.getD 1 0, l.getD 2 0, l.getD 3 0, l.getD 4 0, noFeat⟩
                    sts := s.sts.push (.sram ⟨l.getD 3 0, l.getD 5 0, l.getD 6 0 != 0⟩ depth (Sram.init (ofArrN iv))) }
  | "cyc" :: rest =>
    let l := nats rest
    let c : WbCfg := ⟨s.aw, s.gb, noFeat, s.subs.toList⟩
    let x : WbReq := ⟨l.getD 0 0 != 0, l.getD 1 0 != 0, l.getD 2 0 != 0, false, l.getD 3 0, l.getD 5 0, l.getD 4 0, 0, 0⟩
    let r : Nat → WbResp := fun k => match getSt s.sts k with | some st => respOf st | none => quiet
    let up := wbResp c x r
    let outs := (List.range s.sts.size).filterMap fun k =>
      match getSt s.sts k with
      | some (.bridge W ratio bs) =>
        let o := bout ratio bs (toBIn W (wbSubReq c x k) (l.getD (6 + k) 0))
        some s!"{k}: {o.addr} {b2n o.rstb} {b2n o.wstb} {o.wdata}"
      | _ => none
    IO.println s!"{b2n up.ack} {if up.ack && s.prevRead && s.prevAdr == x.adr then toString up.datr else "-"} | {" , ".intercalate outs}"
    let sts := (List.range s.sts.size).map fun k =>
      match getSt s.sts k with
      | some (.bridge W ratio bs) => SubSt.bridge W ratio (bnext ratio bs (toBIn W (wbSubReq c x k) (l.getD (6 + k) 0)))
      | some (.sram sc depth ss) =>
        let nx := Sram.next sc ss (toSIn (wbSubReq c x k))
        let arr := Array.ofFn (n := depth) (fun i => nx.mem i.val)       -- keep the contents finite
        SubSt.sram sc depth { nx with mem := ofArrN arr }
      | none => SubSt.bridge 0 0 binit
    return { s with sts := sts.toArray, prevRead := x.cyc && x.stb && !x.we, prevAdr := x.adr }
  | ["mem", k] =>
    match getSt s.sts k.toNat! with
    | some (.sram _ depth ss) => IO.println ("mem " ++ joinNats ((List.range depth).map ss.mem)); return s
    | _ => IO.println "bad-op"; return s
  | ["end"] => IO.println "end"; return {}
  | _ => IO.println "bad-op"; return s

def main : IO Unit := do let _ ← foldLines (← IO.getStdin) ({} : St) handle; return ()
end RootD
