import SocVerif.Decoders
import SocVerif.Driver.Common
/-! drivers for the decoders.
    csrdec: `case n` + n × `sub start aw`; `cyc addr rstb wstb wdata r0 r1 …`
             → `<bus r_data> | n × (addr rstb wstb wdata)`
    wbdec:  `case aw gb <6 feature bits> n` + n × `sub start mapAw adrW dw selW <6 feature bits>`;
            `cyc <cyc stb we lock adr datw sel cti bte> n × (ack err rty stall datr)`
             → `<ack err rty stall datr> | n × (cyc stb we lock adr datw sel cti bte)` (absent = x) -/
namespace DecD
open Dec Drv

structure CSt where
  n : Nat := 0
  subs : Array CsrSub := #[]

def handleCsr (s : CSt) (ws : List String) : IO CSt := do
  match ws with
  | ["case", n] => return { n := n.toNat! }
  | ["sub", st, aw] => return { s with subs := s.subs.push ⟨st.toNat!, aw.toNat!⟩ }
  | "cyc" :: rest =>
    match nats rest with
    | addr :: rstb :: wstb :: wdata :: rs =>
      let subs := s.subs.toList
      let x : CsrIn := ⟨addr, rstb != 0, wstb != 0, wdata, fun k => rs.getD k 0⟩
      let outs := (List.range subs.length).map fun k =>
        let o := csrSubOut subs x k
        s!"{o.addr} {b2n o.rstb} {b2n o.wstb} {o.wdata}"
      IO.println s!"{csrRdata subs x} | {" , ".intercalate outs}"
      return s
    | _ => IO.println "bad-op"; return s
  | ["end"] => IO.println "end"; return {}
  | _ => IO.println "bad-op"; return s

def featOf (l : List Nat) : Feat :=
  ⟨l.getD 0 0 != 0, l.getD 1 0 != 0, l.getD 2 0 != 0, l.getD 3 0 != 0, l.getD 4 0 != 0, l.getD 5 0 != 0⟩

structure WSt where
  aw : Nat := 0
  gb : Nat := 0
  feat : Feat := featOf []
  subs : Array WbSub := #[]

def opt (p : Bool) (v : String) : String := if p then v else "x"

def handleWb (s : WSt) (ws : List String) : IO WSt := do
  match ws with
  | "case" :: rest =>
    let l := nats rest
    return { aw := l.getD 0 0, gb := l.getD 1 0, feat := featOf (l.drop 2) }
  | "sub" :: rest =>
    let l := nats rest
    return { s with subs := s.subs.push ⟨l.getD 0 0, l.getD 1 0, l.getD 2 0, l.getD 3 0, l.getD 4 0, featOf (l.drop 5)⟩ }
  | "cyc" :: rest =>
    let l := nats rest
    let c : WbCfg := ⟨s.aw, s.gb, s.feat, s.subs.toList⟩
    let x : WbReq := ⟨l.getD 0 0 != 0, l.getD 1 0 != 0, l.getD 2 0 != 0, l.getD 3 0 != 0, l.getD 4 0, l.getD 5 0, l.getD 6 0, l.getD 7 0, l.getD 8 0⟩
    let r : Nat → WbResp := fun k =>
      let o := 9 + 5 * k
      ⟨l.getD o 0 != 0, l.getD (o + 1) 0 != 0, l.getD (o + 2) 0 != 0, l.getD (o + 3) 0 != 0, l.getD (o + 4) 0⟩
    let up := wbResp c x r
    let ups := s!"{b2n up.ack} {opt s.feat.err (toString (b2n up.err))} {opt s.feat.rty (toString (b2n up.rty))} {opt s.feat.stall (toString (b2n up.stall))} {up.datr}"
    let outs := (List.range c.subs.length).map fun k =>
      let o := wbSubReq c x k
      let f := ((c.subs[k]?).map (·.feat)).getD (featOf [])
      s!"{b2n o.cyc} {b2n o.stb} {b2n o.we} {opt f.lock (toString (b2n o.lock))} {o.adr} {o.datw} {o.sel} {opt f.cti (toString o.cti)} {opt f.bte (toString o.bte)}"
    IO.println s!"{ups} | {" , ".intercalate outs}"
    return s
  | ["end"] => IO.println "end"; return {}
  | _ => IO.println "bad-op"; return s

def mainCsr : IO Unit := do let _ ← foldLines (← IO.getStdin) ({} : CSt) handleCsr; return ()
def mainWb : IO Unit := do let _ ← foldLines (← IO.getStdin) ({} : WSt) handleWb; return ()
end DecD
