import SocVerif.E2E
import SocVerif.Driver.Common
/-! driver for the end-to-end routing model.
    `case gb aw` ; `leaf sram <start> <id> <mapAw>` ; `leaf bridge <start> <csr tree>` with
    csr tree ::= `M aw n (id start len)*n` | `D aw n (start <csr tree>)*n` ;
    `routeall` → `route <id:off | -> …` for every root granule address (hardware path) ;
    `locateall` → the same from the memory-map model. -/
namespace E2ED
open E2E MemMap Drv

mutual
partial def parseCsr : List String → Option (CsrHw × List String)
  | "M" :: aw :: n :: rest =>
    let rec go : Nat → List String → List Nat → List Mux.Reg → Option (List Nat × List Mux.Reg × List String)
      | 0, r, ids, regs => some (ids.reverse, regs.reverse, r)
      | k + 1, id :: st :: len :: r, ids, regs => go k r (id.toNat! :: ids) (⟨st.toNat!, len.toNat!, 0, true, true⟩ :: regs)
      | _, _, _, _ => none
    match go n.toNat! rest [] [] with
    | some (ids, regs, r) => some (.mux aw.toNat! ids regs, r)
    | none => none
  | "D" :: aw :: n :: rest =>
    match parseSubs n.toNat! rest with
    | some (ss, ts, r) => some (.dec aw.toNat! ss ts, r)
    | none => none
  | _ => none
partial def parseSubs : Nat → List String → Option (List Nat × List CsrHw × List String)
  | 0, r => some ([], [], r)
  | k + 1, st :: r =>
    match parseCsr r with
    | some (t, r') =>
      match parseSubs k r' with
      | some (ss, ts, r'') => some (st.toNat! :: ss, t :: ts, r'')
      | none => none
    | none => none
  | _, _ => none
end

structure St where
  gb : Nat := 0
  aw : Nat := 0
  starts : Array Nat := #[]
  leaves : Array WbLeaf := #[]

def showR : Option (Nat × Nat) → String
  | some (id, off) => s!"{id}:{off}"
  | none => "-"

def handle (s : St) (ws : List String) : IO St := do
  match ws with
  | ["case", gb, aw] => return { gb := gb.toNat!, aw := aw.toNat! }
  | ["leaf", "sram", st, id, maw] =>
    return { s with starts := s.starts.push st.toNat!, leaves := s.leaves.push (.sram id.toNat! maw.toNat!) }
  | "leaf" :: "bridge" :: st :: toks =>
    match parseCsr toks with
    | some (t, _) => return { s with starts := s.starts.push st.toNat!, leaves := s.leaves.push (.bridge t) }
    | none => IO.println "bad-op"; return s
  | ["routeall"] =>
    let top : WbTop := ⟨s.gb, s.aw, s.starts.toList, s.leaves.toList⟩
    IO.println ("route " ++ " ".intercalate ((List.range (2 ^ (s.aw + s.gb))).map fun a => showR (hwRoute top a)))
    return s
  | ["locateall"] =>
    let top : WbTop := ⟨s.gb, s.aw, s.starts.toList, s.leaves.toList⟩
    IO.println ("locate " ++ " ".intercalate ((List.range (2 ^ (s.aw + s.gb))).map fun a => showR (locate (rootMap top) a)))
    return s
  | ["end"] => IO.println "end"; return {}
  | _ => IO.println "bad-op"; return s

def main : IO Unit := do let _ ← foldLines (← IO.getStdin) ({} : St) handle; return ()
end E2ED
