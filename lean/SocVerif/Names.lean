/-! _Namespace conflict loop (memory.py) -/
namespace Names
/-! scratch: C18 — `_Namespace.is_available` inner loop vs the prefix relation -/

inductive Part where
  | str (s : String)
  | int (n : Nat)
deriving DecidableEq, Repr

abbrev Name := List Part     -- non-empty by `MemoryMap.Name` validation

/-- The inner `for part_idx, part in enumerate(name)` loop, as coded:
    ```
    for part_idx, part in enumerate(name):
        if part != reserved_name[part_idx]: break            # available
        if part_idx == min(len(name), len(reserved_name)) - 1:
            conflicts = True; break
    ```
    `none` models an IndexError on `reserved_name[part_idx]`. Result `some true` = conflict. -/
def conflictLoop (name reserved : Name) : Option Bool :=
  let m := min name.length reserved.length
  let rec go (idx : Nat) : List Part → Option Bool
    | [] => some false                       -- loop ran off the end of `name` without conflict
    | part :: rest =>
      match reserved[idx]? with
      | none => none                         -- IndexError
      | some rp =>
        if part ≠ rp then some false
        else if idx = m - 1 then some true
        else go (idx + 1) rest
  go 0 name

def isPrefix : Name → Name → Bool
  | [], _ => true
  | _ :: _, [] => false
  | a :: as, b :: bs => a == b && isPrefix as bs

def related (a b : Name) : Bool := isPrefix a b || isPrefix b a

/-- generalised loop invariant: running from index `idx` on the remaining parts -/
theorem go_spec (name reserved : Name) (m : Nat) (hm : m = min name.length reserved.length)
    (idx : Nat) (restN restR : Name)
    (hN : name.drop idx = restN) (hR : reserved.drop idx = restR)
    (hidx : idx < m ∨ restN = []) :
    conflictLoop.go reserved m idx restN =
      some (decide (restN ≠ []) && related restN restR) := by
  induction restN generalizing idx restR with
  | nil => simp [conflictLoop.go]
  | cons p ps ih =>
    have hidx' : idx < m := by
      rcases hidx with h | h
      · exact h
      · cases h
    have hlenN : idx < name.length := by omega
    have hlenR : idx < reserved.length := by omega
    -- restR is non-empty and its head is reserved[idx]
    cases restR with
    | nil =>
      have : (reserved.drop idx).length = 0 := by rw [hR]; rfl
      rw [List.length_drop] at this; omega
    | cons q qs =>
      have hget : reserved[idx]? = some q := by
        have := congrArg List.head? hR
        rw [List.head?_drop] at this
        simpa using this
      simp only [conflictLoop.go, hget]
      by_cases hpq : p = q
      · subst hpq
        simp only [ne_eq, not_true_eq_false, if_false]
        by_cases hlast : idx = m - 1
        · -- one of the two names ends here ⇒ prefix-related
          simp only [hlast, if_true]
          have hps : name.drop (idx + 1) = ps := by
            have := congrArg List.tail hN; simpa [List.tail_drop] using this
          have hqs : reserved.drop (idx + 1) = qs := by
            have := congrArg List.tail hR; simpa [List.tail_drop] using this
          have : ps = [] ∨ qs = [] := by
            have h1 : ps.length = name.length - (idx + 1) := by rw [← hps, List.length_drop]
            have h2 : qs.length = reserved.length - (idx + 1) := by rw [← hqs, List.length_drop]
            have : name.length = idx + 1 ∨ reserved.length = idx + 1 := by omega
            rcases this with h | h
            · left; exact List.eq_nil_of_length_eq_zero (by omega)
            · right; exact List.eq_nil_of_length_eq_zero (by omega)
          rcases this with h | h
          · subst h; simp [related, isPrefix]
          · subst h; cases ps <;> simp [related, isPrefix]
        · simp only [hlast, if_false]
          have hps : name.drop (idx + 1) = ps := by
            have := congrArg List.tail hN; simpa [List.tail_drop] using this
          have hqs : reserved.drop (idx + 1) = qs := by
            have := congrArg List.tail hR; simpa [List.tail_drop] using this
          rw [ih (idx + 1) qs hps hqs (Or.inl (by omega))]
          -- both continue: ps, qs non-empty since idx+1 < m
          have hpsne : ps ≠ [] := by
            intro h; have : ps.length = name.length - (idx + 1) := by rw [← hps, List.length_drop]
            rw [h] at this; simp at this; omega
          simp [related, isPrefix, hpsne]
      · simp only [ne_eq, hpq, not_false_eq_true, if_true]
        simp [related, isPrefix, hpq, Ne.symm hpq]

/-- C18 `conflictLoop_iff_prefix`: for validated (non-empty) names the loop never raises and
    reports a conflict exactly when one name is a prefix of the other. -/
theorem conflictLoop_iff_prefix (name reserved : Name) (h1 : name ≠ []) (h2 : reserved ≠ []) :
    conflictLoop name reserved = some (related name reserved) := by
  unfold conflictLoop
  have hm : 0 < min name.length reserved.length := by
    cases name <;> cases reserved <;> simp_all
  rw [go_spec name reserved _ rfl 0 name reserved rfl rfl (Or.inl hm)]
  simp [h1]

end Names
