/-!
Address decoders: `MemoryMap.window_patterns` (memory.py), `csr.Decoder.elaborate` (csr/bus.py) and
`wishbone.Decoder.elaborate` (wishbone/bus.py), implementation-shaped.

A pattern string `const_pat + "-" * n` is modelled by what it denotes: it matches a value `a` iff
`a / 2^dashes = const` (Python's `f"{x:0{n}b}"` formatting and Amaranth's `-` matching are thereby
modelled by their meaning — trusted base). `Switch` is first-match in the order of
`window_patterns()` (ascending window address).
-/
namespace Dec

structure Pat where
  const  : Nat
  dashes : Nat
deriving DecidableEq, Repr

def Pat.matches (p : Pat) (a : Nat) : Bool := a / 2 ^ p.dashes == p.const

/-- `window_patterns()`: `const_bits = addr_width - window.addr_width`, constant `start >> window.addr_width` -/
def windowPat (start subAw : Nat) : Pat := ⟨start / 2 ^ subAw, subAw⟩

/-- the Wishbone decoder strips `gb` characters from the right of the pattern: dashes first, then
    low constant digits -/
def stripLow (p : Pat) (gb : Nat) : Pat :=
  if gb ≤ p.dashes then ⟨p.const, p.dashes - gb⟩ else ⟨p.const / 2 ^ (gb - p.dashes), 0⟩

/-- index of the first pattern that matches (the `Case` taken), if any -/
def firstMatch (pats : List Pat) (a : Nat) : Option Nat := pats.findIdx? (·.matches a)

/-! ## CSR decoder -/

structure CsrSub where
  start : Nat      -- window start in the decoder's map
  aw    : Nat      -- subordinate address width (= its memory map's)

structure CsrIn where
  addr  : Nat
  rstb  : Bool
  wstb  : Bool
  wdata : Nat
  subR  : Nat → Nat     -- r_data driven by subordinate k

structure CsrSubOut where
  addr  : Nat
  rstb  : Bool
  wstb  : Bool
  wdata : Nat

def csrPats (subs : List CsrSub) : List Pat := subs.map fun s => windowPat s.start s.aw

/-- what subordinate `k` sees: `addr[:sub_aw]` and `w_data` unconditionally, strobes inside its `Case` -/
def csrSubOut (subs : List CsrSub) (x : CsrIn) (k : Nat) : CsrSubOut :=
  match subs[k]? with
  | none => ⟨0, false, false, 0⟩
  | some s =>
    let sel := firstMatch (csrPats subs) x.addr == some k
    ⟨x.addr % 2 ^ s.aw, sel && x.rstb, sel && x.wstb, x.wdata⟩

/-- upstream read data: OR of all subordinates' read data -/
def csrRdata (subs : List CsrSub) (x : CsrIn) : Nat :=
  (List.range subs.length).foldl (fun acc k => acc ||| x.subR k) 0

/-! ## Wishbone decoder -/

structure Feat where
  err : Bool
  rty : Bool
  stall : Bool
  lock : Bool
  cti : Bool
  bte : Bool
deriving DecidableEq, Repr

structure WbSub where
  start : Nat      -- window start in the decoder's map (granule addresses)
  mapAw : Nat      -- address width of the subordinate's memory map
  adrW  : Nat      -- width of the subordinate's `adr`
  dw    : Nat      -- subordinate data width
  selW  : Nat      -- number of select bits
  feat  : Feat

structure WbCfg where
  aw   : Nat       -- width of the decoder's `adr`
  gb   : Nat       -- log2(data_width / granularity)
  feat : Feat
  subs : List WbSub

structure WbReq where
  cyc : Bool
  stb : Bool
  we  : Bool
  lock : Bool
  adr : Nat
  datw : Nat
  sel : Nat
  cti : Nat
  bte : Nat

structure WbResp where
  ack : Bool
  err : Bool
  rty : Bool
  stall : Bool
  datr : Nat

/-- the `Case` pattern of window `s`: granularity bits stripped, then cut to the bus address width
    (the cut only matters for a bus without address bits) -/
def wbPat (c : WbCfg) (s : WbSub) : Pat :=
  let p := stripLow (windowPat s.start s.mapAw) c.gb
  if c.aw = 0 then ⟨0, 0⟩ else p

def wbPats (c : WbCfg) : List Pat := c.subs.map (wbPat c)

def wbSelected (c : WbCfg) (adr : Nat) : Option Nat := firstMatch (wbPats c) adr

/-- request seen by subordinate `k`: everything but `cyc` is fanned out unconditionally (truncated
    to the subordinate's widths; ratio 1), optional inputs take the decoder's value or the defaults
    0 / CLASSIC / LINEAR -/
def wbSubReq (c : WbCfg) (x : WbReq) (k : Nat) : WbReq :=
  match c.subs[k]? with
  | none => ⟨false, false, false, false, 0, 0, 0, 0, 0⟩
  | some s =>
    { cyc := (wbSelected c x.adr == some k) && x.cyc
      stb := x.stb, we := x.we
      lock := s.feat.lock && c.feat.lock && x.lock
      adr := x.adr % 2 ^ s.adrW
      datw := x.datw % 2 ^ s.dw
      sel := x.sel % 2 ^ s.selW
      cti := if s.feat.cti && c.feat.cti then x.cti else 0
      bte := if s.feat.bte && c.feat.bte then x.bte else 0 }

/-- upstream responses: `dat_r` from the selected subordinate only; `ack/err/rty/stall` are the OR
    over *all* subordinates (the fan-in expressions are built outside the `Case`) -/
def wbResp (c : WbCfg) (x : WbReq) (r : Nat → WbResp) : WbResp :=
  let n := c.subs.length
  let anyOf (f : Nat → Bool) : Bool := (List.range n).any f
  { ack := anyOf fun k => (r k).ack
    err := c.feat.err && anyOf fun k => ((c.subs[k]?).map (·.feat.err)).getD false && (r k).err
    rty := c.feat.rty && anyOf fun k => ((c.subs[k]?).map (·.feat.rty)).getD false && (r k).rty
    stall := c.feat.stall && anyOf fun k => ((c.subs[k]?).map (·.feat.stall)).getD false && (r k).stall
    datr := match wbSelected c x.adr with
      | some k => (r k).datr
      | none => 0 }

end Dec
