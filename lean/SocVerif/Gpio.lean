import SocVerif.Mux
import SocVerif.Actions
import SocVerif.MemMap
/-!
`gpio.Peripheral` (gpio.py): the four registers Mode / Input / Output / SetClr laid out by
`csr.Builder` (natural alignment, insertion order) behind the CSR multiplexer model (`Mux`), the
register field packing (Mode: 2 bits per pin; Input, Output: 1 bit per pin; SetClr: set = bit 2k,
clr = bit 2k+1), the field actions (Mode: RW storage; Output: `If(set != clr) … Elif(w_stb) …`),
the input synchroniser chain and the per-pin mode `Switch` of `Peripheral.elaborate`.
-/
namespace Gpio
open Mux

structure Cfg where
  n : Nat            -- pin_count
  dw : Nat           -- CSR data width
  stages : Nat       -- input_stages

/-- addresses occupied by a register of `bits` bits: `ceil(bits/dw)` rounded up to a power of two -/
def span (dw bits : Nat) : Nat := 2 ^ clog2 ((bits + dw - 1) / dw)
/-- natural placement: the first multiple of `sz = 2^k` at or after the cursor -/
def placeAt (cursor : Nat) (dw bits : Nat) : Nat := MemMap.alignUp cursor (clog2 ((bits + dw - 1) / dw))

def modeReg (c : Cfg) : Reg := ⟨0, span c.dw (2 * c.n), 2 * c.n, true, true⟩
def inputReg (c : Cfg) : Reg :=
  ⟨placeAt (modeReg c).stop c.dw c.n, span c.dw c.n, c.n, true, false⟩
def outputReg (c : Cfg) : Reg :=
  ⟨placeAt (inputReg c).stop c.dw c.n, span c.dw c.n, c.n, true, true⟩
def setclrReg (c : Cfg) : Reg :=
  ⟨placeAt (outputReg c).stop c.dw (2 * c.n), span c.dw (2 * c.n), 2 * c.n, false, true⟩
def regs (c : Cfg) : List Reg := [modeReg c, inputReg c, outputReg c, setclrReg c]

structure In where
  addr  : Nat
  rstb  : Bool
  wstb  : Bool
  wdata : Nat
  pin   : Nat → Bool       -- pins[k].i

structure State where
  rs : RState
  ws : WState
  mode : Nat → Bool        -- Mode storage, 2 bits per pin
  out  : Nat → Bool        -- Output storage
  sync : Nat → Nat → Bool  -- synchroniser: stage j, pin k

def init : State := ⟨rinit, winit, fun _ => false, fun _ => false, fun _ _ => false⟩

/-- what the Input register reads: the last synchroniser stage, or the pin itself without stages -/
def inputBits (c : Cfg) (s : State) (x : In) : Nat → Bool :=
  if c.stages = 0 then x.pin else s.sync (c.stages - 1)

def rin (c : Cfg) (s : State) (x : In) : RIn :=
  ⟨x.addr, x.rstb, fun r =>
    if r.start = (modeReg c).start then Act.ofBits (2 * c.n) s.mode
    else if r.start = (inputReg c).start then Act.ofBits c.n (inputBits c s x)
    else Act.ofBits c.n s.out⟩

def win (x : In) : WIn := ⟨x.addr, x.wstb, x.wdata⟩

/-- decoded set / clr requests of pin `k` in this cycle (SetClr is write-only: W fields pass the
    element's strobe and their own bit through combinationally) -/
def setReq (c : Cfg) (S : Nat) (s : State) (k : Nat) : Bool :=
  s.ws.estb (setclrReg c) && (elemWdata c.dw S s.ws (setclrReg c)).testBit (2 * k)
def clrReq (c : Cfg) (S : Nat) (s : State) (k : Nat) : Bool :=
  s.ws.estb (setclrReg c) && (elemWdata c.dw S s.ws (setclrReg c)).testBit (2 * k + 1)

/-- `Output._FieldAction`: `If(set != clr): storage = set  Elif(port.w_stb): storage = port.w_data` -/
def outNext (c : Cfg) (S : Nat) (s : State) (k : Nat) : Bool :=
  if setReq c S s k != clrReq c S s k then setReq c S s k
  else if s.ws.estb (outputReg c) then (elemWdata c.dw S s.ws (outputReg c)).testBit k
  else s.out k

def next (c : Cfg) (S : Nat) (s : State) (x : In) : State :=
  { rs := rnext c.dw S (regs c) s.rs (rin c s x)
    ws := wnext S (regs c) s.ws (win x)
    mode := if s.ws.estb (modeReg c)
            then fun b => decide (b < 2 * c.n) && (elemWdata c.dw S s.ws (modeReg c)).testBit b
            else s.mode
    out := fun k => decide (k < c.n) && outNext c S s k
    sync := fun j k => if j = 0 then x.pin k else s.sync (j - 1) k }

/-- mode code of pin `k` (PinMode: 0 input-only, 1 push-pull, 2 open-drain, 3 alternate) -/
def modeOf (s : State) (k : Nat) : Nat := (if s.mode (2 * k) then 1 else 0) + (if s.mode (2 * k + 1) then 2 else 0)

structure PinOut where
  o : Bool
  oe : Bool
  alt : Bool
deriving DecidableEq, Repr

/-- the per-pin `Switch(mode)` -/
def pinOut (s : State) (k : Nat) : PinOut :=
  match modeOf s k with
  | 0 => ⟨s.out k, false, false⟩
  | 1 => ⟨s.out k, true, false⟩
  | 2 => ⟨false, !s.out k, false⟩
  | _ => ⟨s.out k, false, true⟩

def busRdata (c : Cfg) (S : Nat) (s : State) : Nat := busR S (regs c) s.rs

def st (c : Cfg) (S : Nat) (inp : Nat → In) : Nat → State
  | 0 => init
  | t + 1 => next c S (st c S inp t) (inp t)

end Gpio
