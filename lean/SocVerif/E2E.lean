import SocVerif.Decoders
import SocVerif.MemMap
import SocVerif.Mux
/-!
End-to-end routing (C01): a hardware tree — `wishbone.Decoder` over SRAMs and `WishboneCSRBridge`s
over nested `csr.Decoder`s over multiplexers — with the address path the *hardware* implements
(`hwRoute`: Wishbone pattern with granularity bits stripped, `adr` low bits, `Cat(cycle, adr)` in
the bridge, CSR pattern, `addr[:sub_aw]`, register range in the multiplexer), and the memory-map
tree that the constructors build for it (`Decoder.add → add_window`, the bridge's window of the CSR
map, the SRAM's `mem` resource, the multiplexer's resources), looked up with the map's own
functions.
-/
namespace E2E
open Dec MemMap

/-- CSR side of the hardware -/
inductive CsrHw where
  | mux (aw : Nat) (ids : List Nat) (regs : List Mux.Reg)      -- register k has resource id `ids[k]`
  | dec (aw : Nat) (starts : List Nat) (subs : List CsrHw)     -- window k starts at `starts[k]`

def CsrHw.aw : CsrHw → Nat
  | .mux aw _ _ => aw
  | .dec aw _ _ => aw

/-- the register (by position) whose address range contains `a`, with the chunk offset -/
def muxRoute : List Nat → List Mux.Reg → Nat → Option (Nat × Nat)
  | id :: ids, r :: rs, a => if r.start ≤ a ∧ a < r.stop then some (id, a - r.start) else muxRoute ids rs a
  | _, _, _ => none

mutual
/-- where a CSR access at address `a` ends up: (resource id, chunk offset) -/
def CsrHw.route : CsrHw → Nat → Option (Nat × Nat)
  | .mux _ ids regs, a => muxRoute ids regs a
  | .dec _ starts subs, a => CsrHw.routeList starts subs a
/-- `Switch(addr)`: first `Case(pattern)` that matches; the subordinate sees `addr[:sub_aw]` -/
def CsrHw.routeList : List Nat → List CsrHw → Nat → Option (Nat × Nat)
  | s :: ss, t :: ts, a =>
    if (windowPat s t.aw).matches a then t.route (a % 2 ^ t.aw) else CsrHw.routeList ss ts a
  | _, _, _ => none
end

/-- memory-map items of a register list -/
def muxItems : List Nat → List Mux.Reg → List Tree
  | id :: ids, r :: rs => Tree.res id [] r.start r.stop :: muxItems ids rs
  | _, _ => []

mutual
/-- the memory map the constructors build for a CSR subtree (window names and data widths do not
    matter for address lookup: anonymous, width 0) -/
def CsrHw.items : CsrHw → List Tree
  | .mux _ ids regs => muxItems ids regs
  | .dec _ starts subs => CsrHw.itemsList starts subs
def CsrHw.itemsList : List Nat → List CsrHw → List Tree
  | s :: ss, t :: ts => Tree.win 0 none s (s + 2 ^ t.aw) 1 0 t.items [] :: CsrHw.itemsList ss ts
  | _, _ => []
end

/-- Wishbone side -/
inductive WbLeaf where
  | sram (id : Nat) (mapAw : Nat)          -- 2^mapAw granules of memory, resource `id`
  | bridge (t : CsrHw)                     -- WishboneCSRBridge in front of a CSR subtree

def WbLeaf.mapAw : WbLeaf → Nat
  | .sram _ n => n
  | .bridge t => t.aw

structure WbTop where
  gb : Nat                 -- log2(data_width / granularity) = log2(ratio of the bridges)
  aw : Nat                 -- width of the root `adr`
  starts : List Nat        -- window starts (granule addresses), ascending
  leaves : List WbLeaf

/-- what a selected leaf does with word address `adr'` (offset in its window) and granule `lane`:
    the SRAM addresses granule `lane` of word `adr'`; the bridge issues the CSR access of granule
    `lane` at `Cat(cycle, adr) = adr' * 2^gb + lane` -/
def leafRoute (gb : Nat) (l : WbLeaf) (adr' lane : Nat) : Option (Nat × Nat) :=
  match l with
  | .sram id _ => some (id, adr' * 2 ^ gb + lane)
  | .bridge t => t.route (adr' * 2 ^ gb + lane)

def wbRouteList (gb : Nat) : List Nat → List WbLeaf → Nat → Nat → Option (Nat × Nat)
  | s :: ss, l :: ls, adr, lane =>
    if (stripLow (windowPat s l.mapAw) gb).matches adr then leafRoute gb l (adr % 2 ^ (l.mapAw - gb)) lane
    else wbRouteList gb ss ls adr lane
  | _, _, _, _ => none

/-- where a single-granule access at root granule address `a` ends up -/
def hwRoute (top : WbTop) (a : Nat) : Option (Nat × Nat) :=
  wbRouteList top.gb top.starts top.leaves (a / 2 ^ top.gb) (a % 2 ^ top.gb)

def leafItems : WbLeaf → List Tree
  | .sram id n => [Tree.res id [] 0 (2 ^ n)]
  | .bridge t => [Tree.win 0 none 0 (2 ^ t.aw) 1 0 t.items []]

def wbItems : List Nat → List WbLeaf → List Tree
  | s :: ss, l :: ls => Tree.win 0 none s (s + 2 ^ l.mapAw) 1 0 (leafItems l) [] :: wbItems ss ls
  | _, _ => []

/-- the root memory map -/
def rootMap (top : WbTop) : List Tree := wbItems top.starts top.leaves

/-- the map's answer for address `a`: the resource whose reported range (`all_resources()`)
    contains it, and the offset inside that range -/
def locate (items : List Tree) (a : Nat) : Option (Nat × Nat) :=
  ((Tree.allList 0 items).find? (fun i => decide (i.s ≤ a) && decide (a < i.e))).map fun i => (i.id, a - i.s)

end E2E
