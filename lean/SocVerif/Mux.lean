/-! CSR multiplexer: shadow hash, read path, write path (model follows csr/bus.py Multiplexer.elaborate) -/
namespace Mux
def clog2 (n : Nat) : Nat := if n ≤ 1 then 0 else Nat.log2 (n - 1) + 1

structure Reg where
  start : Nat
  len   : Nat
  width : Nat
  rd    : Bool
  wr    : Bool
deriving Repr, DecidableEq

def Reg.stop (r : Reg) : Nat := r.start + r.len
def Reg.rsz (r : Reg) : Nat := 2 ^ clog2 r.len

theorem len_le_rsz (r : Reg) : r.len ≤ r.rsz := by
  unfold Reg.rsz clog2
  split
  · rename_i h; have : (2:Nat)^0 = 1 := rfl; omega
  · rename_i h
    have := @Nat.lt_log2_self (r.len - 1)
    rw [Nat.pow_succ]; omega

theorem rsz_pos (r : Reg) : 0 < r.rsz := Nat.two_pow_pos _

def decodeOff (S : Nat) (r : Reg) (a : Nat) : Nat := (r.start % S) / r.rsz * r.rsz + a % r.rsz
def encodeOff (r : Reg) (o : Nat) : Nat := r.start + ((o + (r.rsz - r.start % r.rsz)) % r.rsz)

theorem encode_decode (S : Nat) (r : Reg) (a : Nat) (h1 : r.start ≤ a) (h2 : a < r.start + r.rsz) :
    encodeOff r (decodeOff S r a) = a := by
  unfold encodeOff decodeOff
  have hR := rsz_pos r
  generalize r.rsz = R at *
  generalize r.start = start at *
  have hs : start % R < R := Nat.mod_lt _ hR
  have : (start % S / R * R + a % R + (R - start % R)) % R = (a % R + (R - start % R)) % R := by
    rw [Nat.add_assoc, Nat.add_comm, Nat.add_mul_mod_self_right]
  rw [this]
  obtain ⟨d, rfl⟩ : ∃ d, a = start + d := ⟨a - start, by omega⟩
  have hd : d < R := by omega
  have key : ((start + d) % R + (R - start % R)) % R = d := by
    have e1 : (start + d) % R = (start % R + d) % R := by rw [Nat.add_mod, Nat.mod_eq_of_lt hd]
    rw [e1]
    by_cases hlt : start % R + d < R
    · rw [Nat.mod_eq_of_lt hlt]
      have : start % R + d + (R - start % R) = d + R := by omega
      rw [this, Nat.add_mod_right, Nat.mod_eq_of_lt hd]
    · have h3 : (start % R + d) % R = start % R + d - R := by
        rw [Nat.mod_eq_sub_mod (by omega), Nat.mod_eq_of_lt (by omega)]
      rw [h3]
      have : start % R + d - R + (R - start % R) = d := by omega
      rw [this, Nat.mod_eq_of_lt hd]
  rw [key]

def usesChunk (S : Nat) (r : Reg) (o : Nat) : Bool :=
  (List.range r.len).any fun k => decodeOff S r (r.start + k) == o

def chunkRegs (S : Nat) (regs : List Reg) (o : Nat) : List Reg := regs.filter (usesChunk S · o)

def chunkOffsets (S : Nat) (regs : List Reg) : List Nat :=
  regs.flatMap fun r => (List.range r.len).map fun k => decodeOff S r (r.start + k)

structure RIn where
  addr : Nat
  rstb : Bool
  rval : Reg → Nat

def elemRstb (S : Nat) (regs : List Reg) (i : RIn) (r : Reg) : Bool :=
  (chunkOffsets S regs).any fun o =>
    match ((chunkRegs S regs o).filter (·.rd)).find? (fun q => encodeOff q o == i.addr) with
    | some q => q == r && encodeOff q o == q.start && i.rstb
    | none => false

def specRstb (i : RIn) (r : Reg) : Bool := r.rd && i.rstb && i.addr == r.start

def Disjoint (a b : Reg) : Prop := a.stop ≤ b.start ∨ b.stop ≤ a.start

structure WF (regs : List Reg) : Prop where
  pos : ∀ r ∈ regs, 1 ≤ r.len
  disj : ∀ a ∈ regs, ∀ b ∈ regs, a ≠ b → Disjoint a b

/-- if register q uses chunk o, then encodeOff q o is an address of q -/
theorem encode_in_range {S : Nat} {q : Reg} {o : Nat} (h : usesChunk S q o = true) :
    q.start ≤ encodeOff q o ∧ encodeOff q o < q.stop := by
  unfold usesChunk at h
  simp only [List.any_eq_true, List.mem_range, beq_iff_eq] at h
  obtain ⟨k, hk, rfl⟩ := h
  have := len_le_rsz q
  rw [encode_decode S q (q.start + k) (by omega) (by omega)]
  unfold Reg.stop; omega

theorem rstb_exact (S : Nat) (regs : List Reg) (hwf : WF regs) (i : RIn) (r : Reg) (hr : r ∈ regs) :
    elemRstb S regs i r = specRstb i r := by
  apply Bool.eq_iff_iff.mpr
  unfold elemRstb specRstb
  simp only [List.any_eq_true, Bool.and_eq_true, beq_iff_eq]
  constructor
  · rintro ⟨o, _, h⟩
    split at h
    · rename_i q hq
      have hq1 := List.find?_some hq
      have hq2 := List.mem_of_find?_eq_some hq
      simp only [beq_iff_eq] at hq1
      simp only [List.mem_filter, chunkRegs] at hq2
      simp only [Bool.and_eq_true, beq_iff_eq] at h
      obtain ⟨⟨rfl, h2⟩, h3⟩ := h
      exact ⟨⟨hq2.2, h3⟩, by rw [← hq1, h2]⟩
    · simp at h
  · rintro ⟨⟨hrd, hstb⟩, haddr⟩
    have hlen := hwf.pos r hr
    refine ⟨decodeOff S r r.start, ?_, ?_⟩
    · simp only [chunkOffsets, List.mem_flatMap, List.mem_map, List.mem_range]
      exact ⟨r, hr, 0, by omega, by simp⟩
    · have huse : usesChunk S r (decodeOff S r r.start) = true := by
        simp only [usesChunk, List.any_eq_true, List.mem_range, beq_iff_eq]
        exact ⟨0, by omega, by simp⟩
      have henc : encodeOff r (decodeOff S r r.start) = r.start :=
        encode_decode S r r.start (Nat.le_refl _) (by have := rsz_pos r; omega)
      have hmem : r ∈ (chunkRegs S regs (decodeOff S r r.start)).filter (·.rd) := by
        simp [chunkRegs, List.mem_filter, hr, huse, hrd]
      -- find? returns some q with encodeOff q o = addr; show q = r
      cases hf : ((chunkRegs S regs (decodeOff S r r.start)).filter (·.rd)).find?
          (fun q => encodeOff q (decodeOff S r r.start) == i.addr) with
      | none =>
        have := List.find?_eq_none.mp hf r hmem
        simp [henc, haddr] at this
      | some q =>
        have hq1 := List.find?_some hf
        have hq2 := List.mem_of_find?_eq_some hf
        simp only [beq_iff_eq] at hq1
        simp only [List.mem_filter, chunkRegs] at hq2
        have hqr : q = r := by
          by_cases hne : q = r
          · exact hne
          · have hrng := encode_in_range hq2.1.2
            rcases hwf.disj q hq2.1.1 r hr hne with h | h <;> unfold Reg.stop at * <;> omega
        subst hqr
        simp [henc, hstb]


/-! ## state machine -/

def slice (W v k : Nat) : Nat := v / 2 ^ (k * W) % 2 ^ W

def orFold (l : List Nat) : Nat := l.foldl (· ||| ·) 0

structure RState where
  data : Nat → Nat
  ren  : Nat → Bool

def rdRegs (S : Nat) (regs : List Reg) (o : Nat) : List Reg := (chunkRegs S regs o).filter (·.rd)

def rnext (W S : Nat) (regs : List Reg) (s : RState) (i : RIn) : RState :=
  { ren := fun o => ((rdRegs S regs o).any fun q => encodeOff q o == i.addr) && i.rstb
    data := fun o =>
      let rs := rdRegs S regs o
      if rs.any (fun q => elemRstb S regs i q) then
        orFold (rs.map fun q => if elemRstb S regs i q then slice W (i.rval q) (encodeOff q o - q.start) else 0)
      else s.data o }

def busR (S : Nat) (regs : List Reg) (s : RState) : Nat :=
  orFold ((chunkOffsets S regs).map fun o => if s.ren o then s.data o else 0)

def rinit : RState := { data := fun _ => 0, ren := fun _ => false }

def rst (W S : Nat) (regs : List Reg) (inp : Nat → RIn) : Nat → RState
  | 0 => rinit
  | t+1 => rnext W S regs (rst W S regs inp t) (inp t)

/-! ## OR fan-in -/

theorem foldl_or_init (l : List Nat) (a : Nat) : l.foldl (· ||| ·) a = a ||| l.foldl (· ||| ·) 0 := by
  induction l generalizing a with
  | nil => simp
  | cons x xs ih => simp only [List.foldl_cons, Nat.zero_or]; rw [ih (a ||| x), ih x, Nat.or_assoc]

theorem orFold_cons (x : Nat) (xs : List Nat) : orFold (x :: xs) = x ||| orFold xs := by
  unfold orFold; simp only [List.foldl_cons, Nat.zero_or]; exact foldl_or_init xs x

/-- every entry is 0 or x, and some entry is x ⇒ the OR is x -/
theorem orFold_single (l : List Nat) (x : Nat) (h0 : ∀ y ∈ l, y = 0 ∨ y = x) (h1 : x ∈ l) :
    orFold l = x := by
  induction l with
  | nil => cases h1
  | cons y ys ih =>
    rw [orFold_cons]
    have hy := h0 y (List.mem_cons_self ..)
    by_cases hx : x ∈ ys
    · rw [ih (fun z hz => h0 z (List.mem_cons_of_mem _ hz)) hx]
      rcases hy with rfl | rfl <;> simp
    · have : y = x := by
        rcases List.mem_cons.mp h1 with h | h
        · exact h.symm
        · exact absurd h hx
      subst this
      have : orFold ys = 0 := by
        clear ih h1 hy
        induction ys with
        | nil => rfl
        | cons z zs ih2 =>
          rw [orFold_cons]
          have hz := h0 z (List.mem_cons_of_mem _ (List.mem_cons_self ..))
          have hz' : z = 0 := by
            rcases hz with h | h
            · exact h
            · exact absurd (h ▸ List.mem_cons_self ..) hx
          rw [hz', ih2 (fun w hw => h0 w (by
            rcases List.mem_cons.mp hw with h | h
            · exact h ▸ List.mem_cons_self ..
            · exact List.mem_cons_of_mem _ (List.mem_cons_of_mem _ h)))
            (fun h => hx (List.mem_cons_of_mem _ h))]
          simp
      rw [this]; simp

theorem orFold_zero (l : List Nat) (h0 : ∀ y ∈ l, y = 0) : orFold l = 0 := by
  induction l with
  | nil => rfl
  | cons y ys ih =>
    rw [orFold_cons, h0 y (List.mem_cons_self ..), ih (fun z hz => h0 z (List.mem_cons_of_mem _ hz))]
    simp

/-! ## helper facts -/

theorem mem_rdRegs {S : Nat} {regs : List Reg} {o : Nat} {q : Reg} :
    q ∈ rdRegs S regs o ↔ q ∈ regs ∧ usesChunk S q o = true ∧ q.rd = true := by
  simp only [rdRegs, chunkRegs, List.mem_filter]
  constructor
  · rintro ⟨⟨a, b⟩, c⟩; exact ⟨a, b, c⟩
  · rintro ⟨a, b, c⟩; exact ⟨⟨a, b⟩, c⟩

theorem usesChunk_decode {S : Nat} {r : Reg} {a : Nat} (h1 : r.start ≤ a) (h2 : a < r.stop) :
    usesChunk S r (decodeOff S r a) = true := by
  simp only [usesChunk, List.any_eq_true, List.mem_range, beq_iff_eq]
  unfold Reg.stop at h2
  exact ⟨a - r.start, by omega, by congr 1; omega⟩

/-- a register that uses chunk `o` and whose address in that chunk is `a`: then o = decode a -/
theorem chunk_of_addr_unique {S : Nat} {q : Reg} {o : Nat} (h : usesChunk S q o = true) :
    decodeOff S q (encodeOff q o) = o := by
  simp only [usesChunk, List.any_eq_true, List.mem_range, beq_iff_eq] at h
  obtain ⟨k, hk, rfl⟩ := h
  have := len_le_rsz q
  rw [encode_decode S q (q.start + k) (by omega) (by omega)]

theorem reg_of_addr_unique {regs : List Reg} (hwf : WF regs) {q r : Reg} (hq : q ∈ regs) (hr : r ∈ regs)
    {a : Nat} (hqa : q.start ≤ a ∧ a < q.stop) (hra : r.start ≤ a ∧ a < r.stop) : q = r := by
  by_cases hne : q = r
  · exact hne
  · rcases hwf.disj q hq r hr hne with h | h <;> omega

/-! ## the three step lemmas -/

/-- capture: when the first chunk of readable `r` is read, every chunk of `r` gets its slice -/
theorem capture (W S : Nat) (regs : List Reg) (hwf : WF regs) (s : RState) (i : RIn) (r : Reg)
    (hr : r ∈ regs) (hrd : r.rd = true) (hstb : i.rstb = true) (haddr : i.addr = r.start)
    (k : Nat) (hk : k < r.len) :
    (rnext W S regs s i).data (decodeOff S r (r.start + k)) = slice W (i.rval r) k := by
  have hlenR := len_le_rsz r
  have huse : usesChunk S r (decodeOff S r (r.start + k)) = true :=
    usesChunk_decode (by omega) (by unfold Reg.stop; omega)
  have hmem : r ∈ rdRegs S regs (decodeOff S r (r.start + k)) := mem_rdRegs.mpr ⟨hr, huse, hrd⟩
  have hstbR : elemRstb S regs i r = true := by
    rw [rstb_exact S regs hwf i r hr]; simp [specRstb, hrd, hstb, haddr]
  have honly : ∀ q ∈ rdRegs S regs (decodeOff S r (r.start + k)), elemRstb S regs i q = true → q = r := by
    intro q hq hqs
    have hq' := mem_rdRegs.mp hq
    rw [rstb_exact S regs hwf i q hq'.1] at hqs
    simp only [specRstb, Bool.and_eq_true, beq_iff_eq] at hqs
    have hqlen := hwf.pos q hq'.1
    have hrlen := hwf.pos r hr
    exact reg_of_addr_unique hwf hq'.1 hr (a := i.addr)
      (by unfold Reg.stop; omega) (by unfold Reg.stop; omega)
  have henc : encodeOff r (decodeOff S r (r.start + k)) - r.start = k := by
    rw [encode_decode S r (r.start + k) (by omega) (by omega)]; omega
  simp only [rnext]
  rw [if_pos (List.any_eq_true.mpr ⟨r, hmem, hstbR⟩)]
  apply orFold_single
  · intro y hy
    simp only [List.mem_map] at hy
    obtain ⟨q, hq, rfl⟩ := hy
    by_cases hqs : elemRstb S regs i q = true
    · have := honly q hq hqs; subst this
      right; simp [hqs, henc]
    · left; simp [hqs]
  · simp only [List.mem_map]
    exact ⟨r, hmem, by simp [hstbR, henc]⟩

/-- no first-chunk read of any readable register ⇒ shadow data unchanged -/
theorem data_kept (W S : Nat) (regs : List Reg) (hwf : WF regs) (s : RState) (i : RIn)
    (hno : i.rstb = true → ∀ q ∈ regs, q.rd = true → i.addr ≠ q.start) :
    (rnext W S regs s i).data = s.data := by
  funext o
  simp only [rnext]
  rw [if_neg]
  intro h
  obtain ⟨q, hq, hqs⟩ := List.any_eq_true.mp h
  have hq' := mem_rdRegs.mp hq
  rw [rstb_exact S regs hwf i q hq'.1] at hqs
  simp only [specRstb, Bool.and_eq_true, beq_iff_eq] at hqs
  exact hno hqs.1.2 q hq'.1 hq'.2.2 hqs.2

/-- r_en after reading address `a` of readable `r`: exactly the chunk of `a` -/
theorem ren_iff (W S : Nat) (regs : List Reg) (hwf : WF regs) (s : RState) (i : RIn) (r : Reg)
    (hr : r ∈ regs) (hrd : r.rd = true) (hstb : i.rstb = true)
    (ha : r.start ≤ i.addr ∧ i.addr < r.stop) (o : Nat) :
    (rnext W S regs s i).ren o = true ↔ o = decodeOff S r i.addr := by
  simp only [rnext, Bool.and_eq_true, List.any_eq_true, beq_iff_eq, hstb, and_true]
  constructor
  · rintro ⟨q, hq, hqa⟩
    have hq' := mem_rdRegs.mp hq
    have hrng := encode_in_range hq'.2.1
    rw [hqa] at hrng
    have : q = r := reg_of_addr_unique hwf hq'.1 hr hrng ha
    subst this
    rw [← hqa]; exact (chunk_of_addr_unique hq'.2.1).symm
  · rintro rfl
    have hlenR := len_le_rsz r
    refine ⟨r, mem_rdRegs.mpr ⟨hr, usesChunk_decode ha.1 ha.2, hrd⟩, ?_⟩
    exact encode_decode S r i.addr ha.1 (by unfold Reg.stop at ha; omega)

/-! ## atomic snapshot -/

theorem snapshot_inv (W S : Nat) (regs : List Reg) (hwf : WF regs) (inp : Nat → RIn) (r : Reg)
    (hr : r ∈ regs) (hrd : r.rd = true) (t0 : Nat)
    (h0 : (inp t0).rstb = true ∧ (inp t0).addr = r.start) (d : Nat)
    (hquiet : ∀ t, t0 < t → t < t0 + 1 + d → (inp t).rstb = true →
        ∀ q ∈ regs, q.rd = true → (inp t).addr ≠ q.start)
    (k : Nat) (hk : k < r.len) :
    (rst W S regs inp (t0 + 1 + d)).data (decodeOff S r (r.start + k)) = slice W ((inp t0).rval r) k := by
  induction d with
  | zero =>
    show (rnext W S regs _ (inp t0)).data _ = _
    exact capture W S regs hwf _ (inp t0) r hr hrd h0.1 h0.2 k hk
  | succ d ih =>
    show (rnext W S regs (rst W S regs inp (t0 + 1 + d)) (inp (t0 + 1 + d))).data _ = _
    rw [data_kept W S regs hwf _ _ (hquiet (t0 + 1 + d) (by omega) (by omega))]
    exact ih (fun t h1 h2 => hquiet t h1 (by omega))

/-- C04 read_snapshot: reading any chunk of `r` at `t1 ≥ t0` returns the slice of the value `r`
    presented at `t0`, when no first-chunk read strobe occurs in `(t0, t1]`. -/
theorem read_snapshot (W S : Nat) (regs : List Reg) (hwf : WF regs) (inp : Nat → RIn) (r : Reg)
    (hr : r ∈ regs) (hrd : r.rd = true) (t0 t1 : Nat) (hle : t0 ≤ t1)
    (h0 : (inp t0).rstb = true ∧ (inp t0).addr = r.start)
    (h1 : (inp t1).rstb = true ∧ r.start ≤ (inp t1).addr ∧ (inp t1).addr < r.stop)
    (hquiet : ∀ t, t0 < t → t ≤ t1 → (inp t).rstb = true →
        ∀ q ∈ regs, q.rd = true → (inp t).addr ≠ q.start) :
    busR S regs (rst W S regs inp (t1 + 1)) =
      slice W ((inp t0).rval r) ((inp t1).addr - r.start) := by
  obtain ⟨d, rfl⟩ : ∃ d, t1 = t0 + d := ⟨t1 - t0, by omega⟩
  have hk : (inp (t0 + d)).addr - r.start < r.len := by unfold Reg.stop at h1; omega
  have hdata := snapshot_inv W S regs hwf inp r hr hrd t0 h0 d
    (fun t ha hb => hquiet t ha (by omega)) _ hk
  have haddr : r.start + ((inp (t0 + d)).addr - r.start) = (inp (t0 + d)).addr := by omega
  rw [haddr] at hdata
  have hren := ren_iff W S regs hwf (rst W S regs inp (t0 + d)) (inp (t0 + d)) r hr hrd h1.1 ⟨h1.2.1, h1.2.2⟩
  have hst : rst W S regs inp (t0 + d + 1) = rnext W S regs (rst W S regs inp (t0 + d)) (inp (t0 + d)) := rfl
  have hst' : t0 + 1 + d = t0 + d + 1 := by omega
  rw [hst'] at hdata
  unfold busR
  apply orFold_single
  · intro y hy
    simp only [List.mem_map] at hy
    obtain ⟨o, _, rfl⟩ := hy
    by_cases ho : (rst W S regs inp (t0 + d + 1)).ren o = true
    · have := (hst ▸ hren o).mp (hst ▸ ho)
      subst this
      right; simp [ho, hdata]
    · left; simp [ho]
  · simp only [List.mem_map]
    refine ⟨decodeOff S r (inp (t0 + d)).addr, ?_, ?_⟩
    · simp only [chunkOffsets, List.mem_flatMap, List.mem_map, List.mem_range]
      exact ⟨r, hr, (inp (t0 + d)).addr - r.start, hk, by rw [haddr]⟩
    · have : (rst W S regs inp (t0 + d + 1)).ren (decodeOff S r (inp (t0 + d)).addr) = true :=
        hst ▸ (hren _).mpr rfl
      simp [this, hdata]


/-! # write path (C05) -/

theorem decode_inj_within (S : Nat) (r : Reg) (a b : Nat)
    (ha1 : r.start ≤ a) (ha2 : a < r.start + r.rsz) (hb1 : r.start ≤ b) (hb2 : b < r.start + r.rsz)
    (h : decodeOff S r a = decodeOff S r b) : a = b := by
  have := congrArg (encodeOff r) h
  rwa [encode_decode S r a ha1 ha2, encode_decode S r b hb1 hb2] at this


structure WIn where
  addr  : Nat
  wstb  : Bool
  wdata : Nat

structure WState where
  data : Nat → Nat        -- write-shadow chunk data, by offset
  estb : Reg → Bool       -- registered element w_stb

def wrRegs (S : Nat) (regs : List Reg) (o : Nat) : List Reg := (chunkRegs S regs o).filter (·.wr)

theorem mem_wrRegs {S : Nat} {regs : List Reg} {o : Nat} {q : Reg} :
    q ∈ wrRegs S regs o ↔ q ∈ regs ∧ usesChunk S q o = true ∧ q.wr = true := by
  simp only [wrRegs, chunkRegs, List.mem_filter]
  constructor
  · rintro ⟨⟨a, b⟩, c⟩; exact ⟨a, b, c⟩
  · rintro ⟨a, b, c⟩; exact ⟨⟨a, b⟩, c⟩

/-- chunk write enable: `Switch(addr)` → first `Case(encodeOff q o)` among the chunk's writable
    registers sets `w_en = bus.w_stb` -/
def chunkWen (S : Nat) (regs : List Reg) (i : WIn) (o : Nat) : Bool :=
  ((wrRegs S regs o).any fun q => encodeOff q o == i.addr) && i.wstb

/-- next element strobe: default 0; inside the chunk holding the register's last address,
    `Case(stop-1)`: `w_stb <= bus.w_stb` -/
def elemWstbNext (S : Nat) (regs : List Reg) (i : WIn) (r : Reg) : Bool :=
  (chunkOffsets S regs).any fun o =>
    match (wrRegs S regs o).find? (fun q => encodeOff q o == i.addr) with
    | some q => q == r && encodeOff q o == q.stop - 1 && i.wstb
    | none => false

def wnext (S : Nat) (regs : List Reg) (s : WState) (i : WIn) : WState :=
  { data := fun o => if chunkWen S regs i o then i.wdata else s.data o
    estb := fun r => elemWstbNext S regs i r }

def winit : WState := { data := fun _ => 0, estb := fun _ => false }

def wst (S : Nat) (regs : List Reg) (inp : Nat → WIn) : Nat → WState
  | 0 => winit
  | t+1 => wnext S regs (wst S regs inp t) (inp t)

/-- element w_data: slice k of the register is wired to the chunk of address start+k -/
def elemWdata (W S : Nat) (s : WState) (r : Reg) : Nat :=
  ((List.range r.len).foldl (fun acc k => acc + (s.data (decodeOff S r (r.start + k)) % 2 ^ W) * 2 ^ (k * W)) 0)
    % 2 ^ r.width

/-- C05 w_stb_exact (all inputs): strobe next cycle iff this cycle writes the last address -/
theorem wstb_exact (S : Nat) (regs : List Reg) (hwf : WF regs) (i : WIn) (r : Reg) (hr : r ∈ regs) :
    elemWstbNext S regs i r = (r.wr && i.wstb && i.addr == r.stop - 1) := by
  apply Bool.eq_iff_iff.mpr
  unfold elemWstbNext
  simp only [List.any_eq_true, Bool.and_eq_true, beq_iff_eq]
  have hlen := hwf.pos r hr
  constructor
  · rintro ⟨o, _, h⟩
    split at h
    · rename_i q hq
      have hq1 := List.find?_some hq
      have hq2 := mem_wrRegs.mp (List.mem_of_find?_eq_some hq)
      simp only [beq_iff_eq] at hq1
      simp only [Bool.and_eq_true, beq_iff_eq] at h
      obtain ⟨⟨rfl, h2⟩, h3⟩ := h
      exact ⟨⟨hq2.2.2, h3⟩, by rw [← hq1, h2]⟩
    · simp at h
  · rintro ⟨⟨hwr, hstb⟩, haddr⟩
    have hin : r.start ≤ r.stop - 1 ∧ r.stop - 1 < r.stop := by unfold Reg.stop; omega
    refine ⟨decodeOff S r (r.stop - 1), ?_, ?_⟩
    · simp only [chunkOffsets, List.mem_flatMap, List.mem_map, List.mem_range]
      exact ⟨r, hr, r.len - 1, by omega, by congr 1; unfold Reg.stop; omega⟩
    · have hlenR := len_le_rsz r
      have huse := usesChunk_decode (S := S) hin.1 hin.2
      have henc : encodeOff r (decodeOff S r (r.stop - 1)) = r.stop - 1 :=
        encode_decode S r (r.stop - 1) hin.1 (by unfold Reg.stop; omega)
      have hmem : r ∈ wrRegs S regs (decodeOff S r (r.stop - 1)) := mem_wrRegs.mpr ⟨hr, huse, hwr⟩
      cases hf : (wrRegs S regs (decodeOff S r (r.stop - 1))).find?
          (fun q => encodeOff q (decodeOff S r (r.stop - 1)) == i.addr) with
      | none =>
        have := List.find?_eq_none.mp hf r hmem
        simp [henc, haddr] at this
      | some q =>
        have hq1 := List.find?_some hf
        have hq2 := mem_wrRegs.mp (List.mem_of_find?_eq_some hf)
        simp only [beq_iff_eq] at hq1
        have hrng := encode_in_range hq2.2.1
        rw [hq1, haddr] at hrng
        have hqr : q = r := reg_of_addr_unique hwf hq2.1 hr hrng hin
        subst hqr
        simp [henc, hstb]

/-- which chunk a write to address `a` of writable `r` enables: exactly `decodeOff S r a` -/
theorem chunkWen_iff (S : Nat) (regs : List Reg) (hwf : WF regs) (i : WIn) (r : Reg)
    (hr : r ∈ regs) (hwr : r.wr = true) (hstb : i.wstb = true)
    (ha : r.start ≤ i.addr ∧ i.addr < r.stop) (o : Nat) :
    chunkWen S regs i o = true ↔ o = decodeOff S r i.addr := by
  simp only [chunkWen, Bool.and_eq_true, List.any_eq_true, beq_iff_eq, hstb, and_true]
  constructor
  · rintro ⟨q, hq, hqa⟩
    have hq' := mem_wrRegs.mp hq
    have hrng := encode_in_range hq'.2.1
    rw [hqa] at hrng
    have : q = r := reg_of_addr_unique hwf hq'.1 hr hrng ha
    subst this
    rw [← hqa]; exact (chunk_of_addr_unique hq'.2.1).symm
  · rintro rfl
    have hlenR := len_le_rsz r
    refine ⟨r, mem_wrRegs.mpr ⟨hr, usesChunk_decode ha.1 ha.2, hwr⟩, ?_⟩
    exact encode_decode S r i.addr ha.1 (by unfold Reg.stop at ha; omega)

theorem chunkWen_false_of_no_stb (S : Nat) (regs : List Reg) (i : WIn) (o : Nat) (h : i.wstb = false) :
    chunkWen S regs i o = false := by simp [chunkWen, h]

/-- C05 write_concat, core invariant: after an in-order transaction prefix of `m` chunks of `r`
    (writes at strictly increasing times `τ 0 < … < τ (m-1)` to `start+k` with value `v k`, and no
    other write strobe in between), every written chunk still holds its value. -/
theorem write_prefix (S : Nat) (regs : List Reg) (hwf : WF regs) (inp : Nat → WIn) (r : Reg)
    (hr : r ∈ regs) (hwr : r.wr = true) (τ : Nat → Nat) (v : Nat → Nat) (m : Nat) (hm : m ≤ r.len)
    (hmono : ∀ k, k + 1 < m → τ k < τ (k + 1))
    (hwrite : ∀ k, k < m → (inp (τ k)).wstb = true ∧ (inp (τ k)).addr = r.start + k ∧ (inp (τ k)).wdata = v k)
    (hquiet : ∀ t, τ 0 ≤ t → t ≤ τ (m - 1) → (∀ k, k < m → t ≠ τ k) → (inp t).wstb = false)
    (k : Nat) (hk : k < m) :
    ∀ t, τ k < t → t ≤ τ (m - 1) + 1 →
      (wst S regs inp t).data (decodeOff S r (r.start + k)) = v k := by
  have hτmono : ∀ a b, a < b → b < m → τ a < τ b := by
    intro a b hab hb
    induction b with
    | zero => omega
    | succ b ih =>
      by_cases h : a = b
      · subst h; exact hmono a hb
      · exact Nat.lt_trans (ih (by omega) (by omega)) (hmono b hb)
  intro t ht1 ht2
  obtain ⟨d, rfl⟩ : ∃ d, t = τ k + 1 + d := ⟨t - (τ k + 1), by omega⟩
  clear ht1
  induction d with
  | zero =>
    show (wnext S regs _ (inp (τ k))).data _ = _
    have hw := hwrite k hk
    have ha : r.start ≤ (inp (τ k)).addr ∧ (inp (τ k)).addr < r.stop := by
      rw [hw.2.1]; unfold Reg.stop; omega
    have := (chunkWen_iff S regs hwf (inp (τ k)) r hr hwr hw.1 ha (decodeOff S r (r.start + k))).mpr
      (by rw [hw.2.1])
    simp only [wnext, this, if_true]; exact hw.2.2
  | succ d ih =>
    have ih := ih (by omega)
    show (wnext S regs (wst S regs inp (τ k + 1 + d)) (inp (τ k + 1 + d))).data _ = _
    simp only [wnext]
    have hlast : τ k ≤ τ (m - 1) := by
      by_cases h : k = m - 1
      · subst h; exact Nat.le_refl _
      · exact Nat.le_of_lt (hτmono k (m - 1) (by omega) (by omega))
    -- the write (if any) at time τ k + 1 + d goes to another chunk
    by_cases hsome : ∃ k', k' < m ∧ τ k + 1 + d = τ k'
    · obtain ⟨k', hk', hτ⟩ := hsome
      have hkk : k' ≠ k := by intro h; subst h; omega
      have hw := hwrite k' hk'
      have ha : r.start ≤ (inp (τ k')).addr ∧ (inp (τ k')).addr < r.stop := by
        rw [hw.2.1]; unfold Reg.stop; omega
      rw [hτ]
      have hne : chunkWen S regs (inp (τ k')) (decodeOff S r (r.start + k)) = false := by
        cases hc : chunkWen S regs (inp (τ k')) (decodeOff S r (r.start + k)) with
        | false => rfl
        | true =>
          have := (chunkWen_iff S regs hwf (inp (τ k')) r hr hwr hw.1 ha _).mp hc
          rw [hw.2.1] at this
          have hlenR := len_le_rsz r
          have := decode_inj_within S r (r.start + k) (r.start + k')
            (by omega) (by omega) (by omega) (by omega) this
          exact absurd (by omega) hkk
      rw [hτ] at ih
      simp only [hne]; exact ih
    · have hq := hquiet (τ k + 1 + d) (by
          have : τ 0 ≤ τ k := by
            by_cases h : k = 0
            · subst h; exact Nat.le_refl _
            · exact Nat.le_of_lt (hτmono 0 k (by omega) hk)
          omega) (by omega)
        (fun k' hk' h => hsome ⟨k', hk', h⟩)
      rw [chunkWen_false_of_no_stb S regs _ _ hq]; exact ih
end Mux
