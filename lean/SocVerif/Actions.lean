/-!
Field actions of `amaranth_soc/csr/action.py` (R, W, RW, RW1C, RW1S, reserved), implementation-shaped:
the per-bit loops of RW1C / RW1S are per-index functions whose two `If` blocks are applied in source
order (a later assignment wins). Storage is a bit function `Nat → Bool`, as the code itself
manipulates bits; `ofBits`/`Nat.testBit` convert at the driver boundary.
-/
namespace Act

/-- value of the low `w` bits given as a bit function -/
def ofBits (w : Nat) (f : Nat → Bool) : Nat :=
  (List.range w).foldl (fun acc i => acc + (if f i then 2 ^ i else 0)) 0

inductive Kind where
  | r | w | rw | rw1c | rw1s | res
deriving DecidableEq, Repr

/-- inputs of one cycle (all kinds; unused members are ignored by a kind) -/
structure In where
  rstb  : Bool            -- port.r_stb
  wstb  : Bool            -- port.w_stb
  wdata : Nat → Bool      -- port.w_data, bitwise
  aux   : Nat → Bool      -- R: `r_data` input; RW1C: `set`; RW1S: `clear`

/-- combinational outputs visible in the same cycle -/
structure Out where
  portR : Nat → Bool      -- port.r_data
  data  : Nat → Bool      -- `data` (RW, RW1C, RW1S) / `w_data` (W); all-zero otherwise
  stbO  : Bool            -- `r_stb` (R) / `w_stb` (W); false otherwise

/-- RW1C bit, as coded: `If(w_stb & w_data[i]): 0` then `If(set[i]): 1` (the later one wins) -/
def rw1cBit (s wstb wd set : Bool) : Bool :=
  let s1 := if wstb && wd then false else s
  if set then true else s1

/-- RW1S bit, as coded: `If(clear[i]): 0` then `If(w_stb & w_data[i]): 1` -/
def rw1sBit (s wstb wd clear : Bool) : Bool :=
  let s1 := if clear then false else s
  if wstb && wd then true else s1

/-- next storage (bits `≥ w` do not exist: they stay false) -/
def next (k : Kind) (w : Nat) (s : Nat → Bool) (i : In) : Nat → Bool :=
  match k with
  | .rw   => fun b => if i.wstb then (decide (b < w) && i.wdata b) else s b
  | .rw1c => fun b => decide (b < w) && rw1cBit (s b) i.wstb (i.wdata b) (i.aux b)
  | .rw1s => fun b => decide (b < w) && rw1sBit (s b) i.wstb (i.wdata b) (i.aux b)
  | _     => s

def out (k : Kind) (w : Nat) (s : Nat → Bool) (i : In) : Out :=
  let z : Nat → Bool := fun _ => false
  match k with
  | .r    => ⟨fun b => decide (b < w) && i.aux b, z, i.rstb⟩
  | .w    => ⟨z, fun b => decide (b < w) && i.wdata b, i.wstb⟩
  | .rw | .rw1c | .rw1s => ⟨s, s, false⟩
  | .res  => ⟨z, z, false⟩

/-- storage over time from the initial value (bits of `init` below `w`) -/
def st (k : Kind) (w : Nat) (init : Nat → Bool) (inp : Nat → In) : Nat → (Nat → Bool)
  | 0 => fun b => decide (b < w) && init b
  | t + 1 => next k w (st k w init inp t) (inp t)

end Act
