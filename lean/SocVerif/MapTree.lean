namespace MapTree
/-! scratch: C03 on the nested tree — sortedness, soundness and completeness of decode vs all_resources -/
inductive Tree where
  | res (id : Nat) (s e : Nat)
  | win (s e step : Nat) (kids : List Tree)

structure Info where
  id : Nat
  s  : Nat
  e  : Nat
deriving Repr, DecidableEq

def translate (base step : Nat) (i : Info) : Info := ⟨i.id, i.s / step + base, i.e / step + base⟩

def Tree.lo : Tree → Nat | .res _ s _ => s | .win s _ _ _ => s
def Tree.hi : Tree → Nat | .res _ _ e => e | .win _ e _ _ => e

mutual
def Tree.all : Tree → List Info
  | .res id s e => [⟨id, s, e⟩]
  | .win s _ step kids => (Tree.allList kids).map (translate s step)
def Tree.allList : List Tree → List Info
  | [] => []
  | t :: ts => t.all ++ Tree.allList ts
end

mutual
def Tree.decode : Tree → Nat → Option Nat
  | .res id s e, a => if s ≤ a ∧ a < e then some id else none
  | .win s e step kids, a => if s ≤ a ∧ a < e then Tree.decodeList kids ((a - s) * step) else none
def Tree.decodeList : List Tree → Nat → Option Nat
  | [], _ => none
  | t :: ts, a => match t.decode a with
    | some r => some r
    | none => Tree.decodeList ts a
end

-- well-formedness: what C02's invariant and `_translate`'s asserts give
mutual
def Tree.ok : Tree → Prop
  | .res _ s e => s < e
  | .win s e step kids => 0 < step ∧ s < e ∧ Tree.okList kids ∧
      ∀ i ∈ Tree.allList kids, i.s % step = 0 ∧ i.e % step = 0 ∧ i.e / step + s ≤ e
def Tree.okList : List Tree → Prop
  | [] => True
  | t :: ts => t.ok ∧ Tree.okList ts ∧ ∀ u ∈ ts, t.hi ≤ u.lo
end

theorem div_lt_div_of_dvd {a b k : Nat} (hk : 0 < k) (ha : a % k = 0) (hb : b % k = 0) (h : a < b) :
    a / k < b / k := by
  have ea : a = k * (a / k) := by have := Nat.div_add_mod a k; omega
  have eb : b = k * (b / k) := by have := Nat.div_add_mod b k; omega
  rw [ea, eb] at h
  exact Nat.lt_of_mul_lt_mul_left h

-- every reported range is non-empty and lies inside its tree's own range
mutual
theorem all_within : ∀ (t : Tree), t.ok → ∀ i ∈ t.all, t.lo ≤ i.s ∧ i.s < i.e ∧ i.e ≤ t.hi
  | .res id s e, h, i, hi => by
    simp only [Tree.all, List.mem_singleton] at hi; subst hi
    simp only [Tree.ok] at h
    exact ⟨Nat.le_refl _, h, Nat.le_refl _⟩
  | .win s e step kids, h, i, hi => by
    simp only [Tree.all, List.mem_map] at hi
    obtain ⟨j, hj, rfl⟩ := hi
    simp only [Tree.ok] at h
    obtain ⟨hstep, _, hkids, htr⟩ := h
    obtain ⟨m1, m2, hle⟩ := htr j hj
    have hne := allList_nonempty kids hkids j hj
    have := div_lt_div_of_dvd hstep m1 m2 hne
    simp only [translate, Tree.lo, Tree.hi]
    generalize j.s / step = qs at *
    generalize j.e / step = qe at *
    omega
theorem allList_nonempty : ∀ (ts : List Tree), Tree.okList ts → ∀ i ∈ Tree.allList ts, i.s < i.e
  | [], _, i, hi => by simp [Tree.allList] at hi
  | t :: ts, h, i, hi => by
    simp only [Tree.okList] at h
    simp only [Tree.allList, List.mem_append] at hi
    rcases hi with hi | hi
    · exact (all_within t h.1 i hi).2.1
    · exact allList_nonempty ts h.2.1 i hi
end

theorem allList_within_later : ∀ (ts : List Tree), Tree.okList ts → ∀ i ∈ Tree.allList ts,
    ∃ u ∈ ts, u.lo ≤ i.s ∧ i.e ≤ u.hi
  | [], _, i, hi => by simp [Tree.allList] at hi
  | t :: ts, h, i, hi => by
    simp only [Tree.okList] at h
    simp only [Tree.allList, List.mem_append] at hi
    rcases hi with hi | hi
    · have := all_within t h.1 i hi
      exact ⟨t, List.mem_cons_self .., this.1, this.2.2⟩
    · obtain ⟨u, hu, r⟩ := allList_within_later ts h.2.1 i hi
      exact ⟨u, List.mem_cons_of_mem _ hu, r⟩

-- C03 all_sorted_disjoint: ascending and pairwise disjoint
mutual
theorem all_sorted : ∀ (t : Tree), t.ok → t.all.Pairwise (fun a b => a.e ≤ b.s)
  | .res id s e, _ => by simp [Tree.all]
  | .win s e step kids, h => by
    simp only [Tree.ok] at h
    obtain ⟨hstep, _, hkids, _⟩ := h
    simp only [Tree.all]
    rw [List.pairwise_map]
    refine (allList_sorted kids hkids).imp ?_
    intro a b hab
    simp only [translate]
    have := Nat.div_le_div_right (c := step) hab
    generalize a.e / step = qa at *
    generalize b.s / step = qb at *
    omega
theorem allList_sorted : ∀ (ts : List Tree), Tree.okList ts → (Tree.allList ts).Pairwise (fun a b => a.e ≤ b.s)
  | [], _ => by simp [Tree.allList]
  | t :: ts, h => by
    simp only [Tree.okList] at h
    simp only [Tree.allList]
    rw [List.pairwise_append]
    refine ⟨all_sorted t h.1, allList_sorted ts h.2.1, ?_⟩
    intro a ha b hb
    have h1 := all_within t h.1 a ha
    obtain ⟨u, hu, h2, _⟩ := allList_within_later ts h.2.1 b hb
    have := h.2.2 u hu
    omega
end

/-- decode misses when the address is outside the tree's own range -/
theorem decode_none_of_outside (t : Tree) (a : Nat) (h : a < t.lo ∨ t.hi ≤ a) : t.decode a = none := by
  cases t with
  | res id s e => simp only [Tree.decode, Tree.lo, Tree.hi] at *; rw [if_neg]; omega
  | win s e step kids => simp only [Tree.decode, Tree.lo, Tree.hi] at *; rw [if_neg]; omega

-- C03 decode completeness: every address inside a reported range decodes to that resource
mutual
theorem decode_complete : ∀ (t : Tree), t.ok → ∀ i ∈ t.all, ∀ a, i.s ≤ a → a < i.e → t.decode a = some i.id
  | .res id s e, _, i, hi, a, h1, h2 => by
    simp only [Tree.all, List.mem_singleton] at hi; subst hi
    simp only [Tree.decode]; rw [if_pos ⟨h1, h2⟩]
  | .win s e step kids, h, i, hi, a, h1, h2 => by
    have hw := all_within (.win s e step kids) h i hi
    simp only [Tree.lo, Tree.hi] at hw
    simp only [Tree.all, List.mem_map] at hi
    obtain ⟨j, hj, rfl⟩ := hi
    simp only [Tree.ok] at h
    obtain ⟨hstep, _, hkids, htr⟩ := h
    obtain ⟨m1, m2, _⟩ := htr j hj
    simp only [translate] at h1 h2 hw ⊢
    simp only [Tree.decode]
    have ejs : j.s = j.s / step * step := by have := Nat.div_add_mod j.s step; rw [Nat.mul_comm]; omega
    have eje : j.e = j.e / step * step := by have := Nat.div_add_mod j.e step; rw [Nat.mul_comm]; omega
    have q1 : j.s / step ≤ a - s := by
      generalize j.s / step = qs at *; generalize j.e / step = qe at *; omega
    have q2 : a - s < j.e / step := by
      generalize j.s / step = qs at *; generalize j.e / step = qe at *; omega
    have q3 : s ≤ a ∧ a < e := by
      generalize j.s / step = qs at *; generalize j.e / step = qe at *; omega
    rw [if_pos q3]
    apply decodeList_complete kids hkids j hj
    · rw [ejs]; exact Nat.mul_le_mul_right _ q1
    · rw [eje]; exact Nat.mul_lt_mul_of_pos_right q2 hstep
theorem decodeList_complete : ∀ (ts : List Tree), Tree.okList ts → ∀ i ∈ Tree.allList ts, ∀ a, i.s ≤ a → a < i.e →
    Tree.decodeList ts a = some i.id
  | [], _, i, hi, _, _, _ => by simp [Tree.allList] at hi
  | t :: ts, h, i, hi, a, h1, h2 => by
    simp only [Tree.okList] at h
    simp only [Tree.allList, List.mem_append] at hi
    simp only [Tree.decodeList]
    rcases hi with hi | hi
    · rw [decode_complete t h.1 i hi a h1 h2]
    · obtain ⟨u, hu, hlo, _⟩ := allList_within_later ts h.2.1 i hi
      have := h.2.2 u hu
      rw [decode_none_of_outside t a (Or.inr (by omega))]
      exact decodeList_complete ts h.2.1 i hi a h1 h2
end

end MapTree
