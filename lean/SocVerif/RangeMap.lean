/-! _RangeMap: bisect-based overlap detection, insert, get (memory.py) -/
namespace RangeMap
/-! scratch: _RangeMap.overlaps (bisect on sorted parallel lists) is exact -/

structure Rng where
  start : Nat
  stop  : Nat
deriving Repr, DecidableEq

/-- `bisect.bisect_right(a, x)` on a sorted list: number of elements ≤ x -/
def bisectRight (l : List Nat) (x : Nat) : Nat := (l.filter (· ≤ x)).length
/-- `bisect.bisect_left(a, x)` on a sorted list: number of elements < x -/
def bisectLeft (l : List Nat) (x : Nat) : Nat := (l.filter (· < x)).length

/-- `_RangeMap.overlaps`: keys[start_idx:stop_idx] -/
def overlaps (keys : List Rng) (q : Rng) : List Rng :=
  let si := bisectRight (keys.map (·.stop)) q.start
  let ei := bisectLeft (keys.map (·.start)) q.stop
  (keys.drop si).take (ei - si)

def intersects (q k : Rng) : Bool := k.start < q.stop && q.start < k.stop

structure RInv (keys : List Rng) : Prop where
  ne   : ∀ k ∈ keys, k.start < k.stop
  sorted : keys.Pairwise (fun a b => a.stop ≤ b.start)

theorem RInv.tail {k : Rng} {ks : List Rng} (h : RInv (k :: ks)) : RInv ks :=
  ⟨fun x hx => h.ne x (List.mem_cons_of_mem _ hx), (List.pairwise_cons.mp h.sorted).2⟩

/-- if the head already ends after `x`, nobody ends at or before `x` -/
theorem bisectRight_stops_zero {keys : List Rng} (h : RInv keys) (x : Nat)
    (hx : ∀ k ∈ keys.head?, x < k.stop) : bisectRight (keys.map (·.stop)) x = 0 := by
  cases keys with
  | nil => rfl
  | cons k ks =>
    have hk : x < k.stop := hx k (by simp)
    have hall : ∀ y ∈ (k :: ks), x < y.stop := by
      intro y hy
      rcases List.mem_cons.mp hy with rfl | hy
      · exact hk
      · have h1 := (List.pairwise_cons.mp h.sorted).1 y hy
        have h2 := h.ne y (List.mem_cons_of_mem _ hy)
        omega
    unfold bisectRight
    rw [List.length_eq_zero_iff, List.filter_eq_nil_iff]
    intro s hs
    simp only [List.mem_map] at hs
    obtain ⟨y, hy, rfl⟩ := hs
    have := hall y hy
    simp; omega

/-- on a list sorted by start, the first `bisectLeft` keys are exactly those starting before `x` -/
theorem take_bisectLeft {keys : List Rng} (h : RInv keys) (x : Nat) :
    keys.take (bisectLeft (keys.map (·.start)) x) = keys.filter (fun k => k.start < x) := by
  induction keys with
  | nil => rfl
  | cons k ks ih =>
    have ih := ih h.tail
    by_cases hk : k.start < x
    · simp only [bisectLeft, List.map_cons, List.filter_cons, hk, decide_true, if_true,
        List.length_cons, List.take_succ_cons]
      simp only [bisectLeft] at ih
      rw [ih]
    · have hall : ∀ y ∈ ks, ¬ y.start < x := by
        intro y hy
        have h1 := (List.pairwise_cons.mp h.sorted).1 y hy
        have h2 := h.ne k (List.mem_cons_self ..)
        omega
      have h0 : bisectLeft ((k :: ks).map (·.start)) x = 0 := by
        unfold bisectLeft
        rw [List.length_eq_zero_iff, List.filter_eq_nil_iff]
        intro s hs
        simp only [List.mem_map] at hs
        obtain ⟨y, hy, rfl⟩ := hs
        rcases List.mem_cons.mp hy with rfl | hy
        · simpa using hk
        · simpa using hall y hy
      rw [h0, List.take_zero]
      symm
      rw [List.filter_eq_nil_iff]
      intro y hy
      rcases List.mem_cons.mp hy with rfl | hy
      · simpa using hk
      · simpa using hall y hy

theorem overlaps_exact (keys : List Rng) (h : RInv keys) (q : Rng) (hq : q.start < q.stop) :
    overlaps keys q = keys.filter (intersects q) := by
  induction keys with
  | nil => rfl
  | cons k ks ih =>
    have ih := ih h.tail
    have hkne := h.ne k (List.mem_cons_self ..)
    by_cases hk : k.stop ≤ q.start
    · -- k lies entirely before q: counted by both bisects, dropped, not intersecting
      have hs : k.start < q.stop := by omega
      have e1 : bisectRight ((k :: ks).map (·.stop)) q.start
                  = bisectRight (ks.map (·.stop)) q.start + 1 := by
        simp [bisectRight, List.filter_cons, hk]
      have e2 : bisectLeft ((k :: ks).map (·.start)) q.stop
                  = bisectLeft (ks.map (·.start)) q.stop + 1 := by
        simp [bisectLeft, List.filter_cons, hs]
      have e3 : intersects q k = false := by simp [intersects]; omega
      unfold overlaps
      simp only [e1, e2, List.drop_succ_cons, List.filter_cons, e3]
      have : bisectLeft (ks.map (·.start)) q.stop + 1 - (bisectRight (ks.map (·.stop)) q.start + 1)
           = bisectLeft (ks.map (·.start)) q.stop - bisectRight (ks.map (·.stop)) q.start := by omega
      rw [this]
      exact ih
    · -- k ends after q.start: nothing is dropped; overlap = keys starting before q.stop
      have hk' : q.start < k.stop := by omega
      have e1 : bisectRight ((k :: ks).map (·.stop)) q.start = 0 :=
        bisectRight_stops_zero h q.start (by simpa using hk')
      unfold overlaps
      simp only [e1, List.drop_zero, Nat.sub_zero]
      rw [take_bisectLeft h]
      apply List.filter_congr
      intro y hy
      have : q.start < y.stop := by
        rcases List.mem_cons.mp hy with rfl | hy
        · exact hk'
        · have h1 := (List.pairwise_cons.mp h.sorted).1 y hy
          have h2 := h.ne y (List.mem_cons_of_mem _ hy)
          omega
      simp [intersects, this]


/-! ## insert keeps the invariant; get is exact -/

/-- `_RangeMap.insert`: position `bisect_right(starts, key.start)`, `list.insert(idx, key)` -/
def insertAt (keys : List Rng) (k : Rng) : List Rng :=
  let si := bisectRight (keys.map (·.start)) k.start
  keys.take si ++ k :: keys.drop si

/-- no stored range intersects `k` ⇒ each one is wholly before or wholly after -/
theorem sep_of_no_overlap {keys : List Rng} (h : RInv keys) (k : Rng) (hk : k.start < k.stop)
    (hno : overlaps keys k = []) : ∀ x ∈ keys, x.stop ≤ k.start ∨ k.stop ≤ x.start := by
  rw [overlaps_exact keys h k hk, List.filter_eq_nil_iff] at hno
  intro x hx
  have := hno x hx
  simp only [intersects, Bool.and_eq_true, decide_eq_true_eq, not_and] at this
  omega

theorem insert_inv {keys : List Rng} (h : RInv keys) (k : Rng) (hk : k.start < k.stop)
    (hno : overlaps keys k = []) : RInv (insertAt keys k) := by
  have hsep := sep_of_no_overlap h k hk hno
  clear hno
  induction keys with
  | nil => exact ⟨by simp [insertAt, bisectRight]; exact hk, by simp [insertAt, bisectRight]⟩
  | cons x xs ih =>
    have hx := hsep x (List.mem_cons_self ..)
    have hxne := h.ne x (List.mem_cons_self ..)
    have hxs := (List.pairwise_cons.mp h.sorted).1
    by_cases hb : x.start ≤ k.start
    · -- x is before k: k goes somewhere into the tail
      have hxb : x.stop ≤ k.start := by omega
      have e : insertAt (x :: xs) k = x :: insertAt xs k := by
        simp [insertAt, bisectRight, List.filter_cons, hb]
      rw [e]
      have ih := ih h.tail (fun y hy => hsep y (List.mem_cons_of_mem _ hy))
      refine ⟨?_, ?_⟩
      · intro y hy
        rcases List.mem_cons.mp hy with rfl | hy
        · exact hxne
        · exact ih.ne y hy
      · rw [List.pairwise_cons]
        refine ⟨?_, ih.sorted⟩
        intro y hy
        simp only [insertAt, List.mem_append, List.mem_cons] at hy
        rcases hy with hy | rfl | hy
        · exact hxs y (List.mem_of_mem_take hy)
        · exact hxb
        · exact hxs y (List.mem_of_mem_drop hy)
    · -- x is after k, and so is everything else: k goes to the front
      have hxa : k.stop ≤ x.start := by omega
      have hall : ∀ y ∈ x :: xs, k.stop ≤ y.start := by
        intro y hy
        rcases List.mem_cons.mp hy with rfl | hy
        · exact hxa
        · have := hxs y hy; omega
      have e0 : bisectRight ((x :: xs).map (·.start)) k.start = 0 := by
        unfold bisectRight
        rw [List.length_eq_zero_iff, List.filter_eq_nil_iff]
        intro s hs
        simp only [List.mem_map] at hs
        obtain ⟨y, hy, rfl⟩ := hs
        have := hall y hy
        simp; omega
      have e : insertAt (x :: xs) k = k :: x :: xs := by
        unfold insertAt; rw [e0]; rfl
      rw [e]
      refine ⟨?_, ?_⟩
      · intro y hy
        rcases List.mem_cons.mp hy with rfl | hy
        · exact hk
        · exact h.ne y hy
      · rw [List.pairwise_cons]; exact ⟨hall, h.sorted⟩

/-- `_RangeMap.get(point)` -/
def getAt (keys : List Rng) (p : Nat) : Option Rng :=
  match keys[bisectRight (keys.map (·.stop)) p]? with
  | some r => if r.start ≤ p ∧ p < r.stop then some r else none
  | none => none

theorem get_exact {keys : List Rng} (h : RInv keys) (p : Nat) :
    getAt keys p = keys.find? (fun r => decide (r.start ≤ p) && decide (p < r.stop)) := by
  induction keys with
  | nil => rfl
  | cons x xs ih =>
    have ih := ih h.tail
    have hxne := h.ne x (List.mem_cons_self ..)
    by_cases hb : x.stop ≤ p
    · have e : bisectRight ((x :: xs).map (·.stop)) p = bisectRight (xs.map (·.stop)) p + 1 := by
        simp [bisectRight, hb]
      have hnot : (decide (x.start ≤ p) && decide (p < x.stop)) = false := by simp; omega
      simp only [getAt, e, List.getElem?_cons_succ, List.find?_cons, hnot]
      exact ih
    · have e : bisectRight ((x :: xs).map (·.stop)) p = 0 :=
        bisectRight_stops_zero h p (by simp; omega)
      simp only [getAt, e, List.getElem?_cons_zero, List.find?_cons]
      by_cases hs : x.start ≤ p
      · have hp : p < x.stop := by omega
        have : (decide (x.start ≤ p) && decide (p < x.stop)) = true := by simp [hs, hp]
        simp [this, hs, hp]
      · have : (decide (x.start ≤ p) && decide (p < x.stop)) = false := by simp [hs]
        simp only [this]
        have hnone : xs.find? (fun r => decide (r.start ≤ p) && decide (p < r.stop)) = none := by
          rw [List.find?_eq_none]
          intro y hy
          have := (List.pairwise_cons.mp h.sorted).1 y hy
          simp; omega
        simp [hnone, hs]

end RangeMap
