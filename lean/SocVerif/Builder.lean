import SocVerif.MemMap
import SocVerif.Mux
/-!
`csr.Builder` (csr/reg.py): registers are recorded in insertion order with the scope path current
at the time of `add()`; `as_memory_map()` freezes the builder and replays them as `add_resource`
calls on a fresh map (`addr = offset * granularity // data_width`, `size = ceil(width/data_width)`,
`alignment = ceil_log2(size)`).
-/
namespace Bld
open MemMap Names

structure BReg where
  id     : Nat
  name   : Name
  offset : Option Nat
  width  : Nat
deriving Repr

structure Builder where
  aw : Nat
  dw : Nat
  gran : Nat
  regs : List BReg := []        -- insertion order
  scope : List Part := []       -- `_scope_stack`, outermost first
  frozen : Bool := false

inductive Op where
  | add (id : Nat) (name : Option String) (width : Nat) (offset : Option Nat)   -- `none` name = invalid name
  | cluster (name : Option String)      -- `none` = invalid (empty / not a string)
  | index (n : Option Nat)              -- `none` = invalid (negative / not an int)
  | exit
  | freeze

inductive Out where | ok | refused
deriving DecidableEq, Repr

/-- `Builder.add` (checks in the code's order), `Cluster`, `Index`, leaving a scope, `freeze` -/
def step (b : Builder) : Op → Builder × Out
  | .add id name width offset =>
    if b.frozen then (b, .refused)
    else match name with
      | none => (b, .refused)
      | some nm =>
        if nm.isEmpty then (b, .refused)
        else if (match offset with | some o => o % (b.dw / b.gran) != 0 | none => false) then (b, .refused)
        else if b.regs.any (·.id == id) then (b, .refused)
        else ({ b with regs := b.regs ++ [⟨id, b.scope ++ [.str nm], offset, width⟩] }, .ok)
  | .cluster name =>
    match name with
    | some nm => if nm.isEmpty then (b, .refused) else ({ b with scope := b.scope ++ [.str nm] }, .ok)
    | none => (b, .refused)
  | .index n =>
    match n with
    | some k => ({ b with scope := b.scope ++ [.int k] }, .ok)
    | none => (b, .refused)
  | .exit => ({ b with scope := b.scope.dropLast }, .ok)
  | .freeze => ({ b with frozen := true }, .ok)

def run (b : Builder) (ops : List Op) : Builder := ops.foldl (fun b op => (step b op).1) b

/-- number of bus words of a register -/
def regSize (dw width : Nat) : Nat := (width + dw - 1) / dw

/-- `as_memory_map()`: the fold of `add_resource` calls; `none` when one of them raises -/
def asMemoryMap (b : Builder) : Option MMap :=
  b.regs.foldl (fun acc r =>
    match acc with
    | none => none
    | some m =>
      let size := regSize b.dw r.width
      let addr := r.offset.map fun o => o * b.gran / b.dw
      match addResource m r.id r.name size addr (some (Mux.clog2 size)) with
      | some (m', _, _) => some m'
      | none => none) (some { aw := b.aw, dw := b.dw, al := 0 })

end Bld
