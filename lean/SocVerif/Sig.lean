/-!
Signatures and port orientation (`wiring.Signature` subclasses of amaranth_soc): member tables as
functions of the defining parameters, `flip`, and the member-wise rule of `wiring.connect`
(each member must have exactly one output side and equal shape).
Member names are coded as numbers (see `SocVerif/Generated/Facts.lean` for the coding table that
`facts.py` extracts from the source on every run).
-/
namespace Sig

inductive Flow where | inn | out
deriving DecidableEq, Repr

def Flow.flip : Flow → Flow | .inn => .out | .out => .inn

structure Mem where
  name  : Nat
  flow  : Flow
  width : Nat
deriving DecidableEq, Repr

def flipAll (ms : List Mem) : List Mem := ms.map fun m => { m with flow := m.flow.flip }

/-- `wiring.connect` between two interfaces: same members, same widths, opposite flows -/
def compatible (a b : List Mem) : Bool :=
  a.length == b.length &&
  (a.zip b).all fun (x, y) => x.name == y.name && x.width == y.width && x.flow != y.flow

/- member name codes -/
def nAddr := 0
def nRData := 1
def nRStb := 2
def nWData := 3
def nWStb := 4
def nAdr := 5
def nDatW := 6
def nDatR := 7
def nSel := 8
def nCyc := 9
def nStb := 10
def nWe := 11
def nAck := 12
def nErr := 13
def nRty := 14
def nStall := 15
def nLock := 16
def nCti := 17
def nBte := 18
def nI := 19
def nTrg := 20
def nO := 21
def nOe := 22

/-- `csr.Signature(addr_width, data_width)` -/
def csrMembers (aw dw : Nat) : List Mem :=
  [⟨nAddr, .out, aw⟩, ⟨nRData, .inn, dw⟩, ⟨nRStb, .out, 1⟩, ⟨nWData, .out, dw⟩, ⟨nWStb, .out, 1⟩]

/-- `csr.Element.Signature(width, access)`; access: 0 = r, 1 = w, 2 = rw -/
def elemMembers (w acc : Nat) : List Mem :=
  (if acc = 0 ∨ acc = 2 then [⟨nRData, .inn, w⟩, ⟨nRStb, .out, 1⟩] else []) ++
  (if acc = 1 ∨ acc = 2 then [⟨nWData, .out, w⟩, ⟨nWStb, .out, 1⟩] else [])

/-- `csr.FieldPort.Signature(shape, access)`: always the four members, whatever the access mode -/
def fieldMembers (w : Nat) : List Mem :=
  [⟨nRData, .inn, w⟩, ⟨nRStb, .out, 1⟩, ⟨nWData, .out, w⟩, ⟨nWStb, .out, 1⟩]

/-- `wishbone.Signature(addr_width, data_width, granularity, features)`; features as a bit mask in
    the order err, rty, stall, lock, cti, bte -/
def wbMembers (aw dw gran feat : Nat) : List Mem :=
  [⟨nAdr, .out, aw⟩, ⟨nDatW, .out, dw⟩, ⟨nDatR, .inn, dw⟩, ⟨nSel, .out, dw / gran⟩,
   ⟨nCyc, .out, 1⟩, ⟨nStb, .out, 1⟩, ⟨nWe, .out, 1⟩, ⟨nAck, .inn, 1⟩] ++
  (if feat.testBit 0 then [⟨nErr, .inn, 1⟩] else []) ++
  (if feat.testBit 1 then [⟨nRty, .inn, 1⟩] else []) ++
  (if feat.testBit 2 then [⟨nStall, .inn, 1⟩] else []) ++
  (if feat.testBit 3 then [⟨nLock, .out, 1⟩] else []) ++
  (if feat.testBit 4 then [⟨nCti, .out, 3⟩] else []) ++
  (if feat.testBit 5 then [⟨nBte, .out, 2⟩] else [])

/-- `event.Source.Signature(trigger)` -/
def srcMembers : List Mem := [⟨nI, .out, 1⟩, ⟨nTrg, .inn, 1⟩]

/-- `gpio.PinSignature()` -/
def pinMembers : List Mem := [⟨nI, .inn, 1⟩, ⟨nO, .out, 1⟩, ⟨nOe, .out, 1⟩]

/-- a port's role: a target port presents the flipped standard signature to the outside, an
    initiator-side port (the arbiter's shared bus, GPIO pins, the monitor's `src`) the standard one -/
inductive Role where | target | initiator
deriving DecidableEq, Repr

def portMembers (r : Role) (std : List Mem) : List Mem :=
  match r with | .target => flipAll std | .initiator => std

end Sig
