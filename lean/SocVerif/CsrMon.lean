import SocVerif.Mux
import SocVerif.Event
import SocVerif.Actions
import SocVerif.MemMap
/-!
`csr.EventMonitor` (csr/event.py): composition of the CSR multiplexer model (`Mux`) over the two mask
registers, the event monitor model (`Ev`) and the glue of `EventMonitor.elaborate`:
`enable` is latched from the enable register's `w_data` on its `w_stb`; `clear` is the pending
register's `w_data` gated combinationally by its `w_stb`; both registers read back the monitor state.
-/
namespace CsrMon
open Mux Ev

structure Cfg where
  n  : Nat              -- number of events (`event_map.size`)
  dw : Nat              -- CSR data width
  al : Nat              -- CSR alignment
  modes : List Mode     -- trigger mode of source k (length n)

/-- `reg_size = (event_map.size + data_width - 1) // data_width` -/
def regSize (c : Cfg) : Nat := (c.n + c.dw - 1) / c.dw
/-- addresses occupied by each mask register: `add_resource(size=reg_size)` in a map of alignment `al` -/
def regLen (c : Cfg) : Nat := MemMap.alignUp (max (regSize c) 1) c.al
/-- `addr_width = 1 + max(ceil_log2(reg_size), alignment)` -/
def addrWidth (c : Cfg) : Nat := 1 + max (clog2 (regSize c)) c.al

def enableReg (c : Cfg) : Reg := ⟨0, regLen c, c.n, true, true⟩
def pendingReg (c : Cfg) : Reg := ⟨regLen c, regLen c, c.n, true, true⟩
def regs (c : Cfg) : List Reg := [enableReg c, pendingReg c]

structure In where
  addr  : Nat
  rstb  : Bool
  wstb  : Bool
  wdata : Nat
  i     : Nat → Bool        -- input line of source k

structure State where
  rs : RState
  ws : WState
  mon : MState
  enable : Nat → Bool       -- `monitor.enable`, a register written by the glue

def init : State := ⟨rinit, winit, minit, fun _ => false⟩

/-- element read data: the registers read back the monitor state -/
def rin (c : Cfg) (s : State) (x : In) : RIn :=
  ⟨x.addr, x.rstb, fun r =>
    if r.start = 0 then Act.ofBits c.n s.enable else Act.ofBits c.n s.mon.pending⟩

def win (x : In) : WIn := ⟨x.addr, x.wstb, x.wdata⟩

/-- `monitor.clear`: `pending.element.w_data` while `pending.element.w_stb`, else 0 -/
def clearBits (c : Cfg) (S : Nat) (s : State) : Nat → Bool := fun k =>
  s.ws.estb (pendingReg c) && (elemWdata c.dw S s.ws (pendingReg c)).testBit k

def monIn (c : Cfg) (S : Nat) (s : State) (x : In) : MIn := ⟨x.i, s.enable, clearBits c S s⟩

def next (c : Cfg) (S : Nat) (s : State) (x : In) : State :=
  { rs := rnext c.dw S (regs c) s.rs (rin c s x)
    ws := wnext S (regs c) s.ws (win x)
    mon := mnext c.modes s.mon (monIn c S s x)
    enable := if s.ws.estb (enableReg c)
              then fun k => decide (k < c.n) && (elemWdata c.dw S s.ws (enableReg c)).testBit k
              else s.enable }

/-- bus read data and the outgoing interrupt line in this cycle -/
def busRdata (c : Cfg) (S : Nat) (s : State) : Nat := busR S (regs c) s.rs
def irq (c : Cfg) (S : Nat) (s : State) (x : In) : Bool := line c.modes s.mon (monIn c S s x)

def st (c : Cfg) (S : Nat) (inp : Nat → In) : Nat → State
  | 0 => init
  | t + 1 => next c S (st c S inp t) (inp t)

end CsrMon
