/-! Wishbone arbiter grant logic (wishbone/bus.py Arbiter.elaborate) -/
namespace Arb
/-! scratch: C09 round-robin next-owner function and starvation freedom -/

def lastWins (req : Nat → Bool) (order : List Nat) (g : Nat) : Nat :=
  order.foldl (fun acc p => if req p then p else acc) g

def caseOrder (n i : Nat) : List Nat :=
  (List.range i).reverse ++ ((List.range' (i+1) (n - (i+1))).reverse)

/-- implementation-shaped next grant when the bus is not busy -/
def nextImpl (n : Nat) (req : Nat → Bool) (g : Nat) : Nat := lastWins req (caseOrder n g) g

theorem lastWins_eq (req : Nat → Bool) (order : List Nat) (g : Nat) :
    lastWins req order g = match order.reverse.find? (fun p => req p) with
      | some p => p | none => g := by
  unfold lastWins
  induction order generalizing g with
  | nil => simp
  | cons a as ih =>
    simp only [List.foldl_cons, List.reverse_cons]
    rw [ih, List.find?_append]
    cases h : List.find? (fun p => req p) as.reverse with
    | some p => simp
    | none => by_cases ha : req a <;> simp [ha]

theorem caseOrder_reverse (n i : Nat) :
    (caseOrder n i).reverse = List.range' (i+1) (n - (i+1)) ++ List.range i := by
  simp [caseOrder]

/-- cyclic distance from g to j (both < n) without `%` -/
def dist (n g j : Nat) : Nat := if g ≤ j then j - g else j + n - g

/-- priority list after owner g: g+1, …, n−1, 0, …, g−1 -/
def prio (n g : Nat) : List Nat := List.range' (g+1) (n - (g+1)) ++ List.range g

theorem nextImpl_eq (n : Nat) (req : Nat → Bool) (g : Nat) :
    nextImpl n req g = match (prio n g).find? (fun p => req p) with | some p => p | none => g := by
  unfold nextImpl; rw [lastWins_eq, caseOrder_reverse]; rfl

/-- every element of prio is a valid index different from g, and dist is injective-ordered along it -/
theorem mem_prio {n g p : Nat} (hg : g < n) : p ∈ prio n g ↔ p < n ∧ p ≠ g := by
  simp only [prio, List.mem_append, List.mem_range', List.mem_range]
  constructor
  · rintro (⟨i, hi, rfl⟩ | h) <;> omega
  · intro ⟨h1, h2⟩
    by_cases h : p < g
    · right; exact h
    · left; exact ⟨p - (g+1), by omega, by omega⟩

/-- in a list strictly increasing in `f`, `find?` returns a satisfying element of least `f` -/
theorem find_min {α} (l : List α) (f : α → Nat) (p : α → Bool)
    (hs : l.Pairwise (fun a b => f a < f b)) (x : α) (hx : x ∈ l) (hpx : p x = true) :
    ∃ y, l.find? p = some y ∧ y ∈ l ∧ p y = true ∧ f y ≤ f x := by
  induction l with
  | nil => cases hx
  | cons a as ih =>
    have ⟨ha, has⟩ := List.pairwise_cons.mp hs
    by_cases hpa : p a = true
    · refine ⟨a, by simp [List.find?_cons, hpa], List.mem_cons_self .., hpa, ?_⟩
      rcases List.mem_cons.mp hx with rfl | hx
      · exact Nat.le_refl _
      · exact Nat.le_of_lt (ha x hx)
    · have hxa : x ∈ as := by
        rcases List.mem_cons.mp hx with rfl | hx
        · exact absurd hpx hpa
        · exact hx
      obtain ⟨y, hy1, hy2, hy3, hy4⟩ := ih has hxa
      exact ⟨y, by simp [List.find?_cons, hpa, hy1], List.mem_cons_of_mem _ hy2, hy3, hy4⟩

theorem prio_sorted (n g : Nat) (hg : g < n) :
    (prio n g).Pairwise (fun a b => dist n g a < dist n g b) := by
  unfold prio
  rw [List.pairwise_append]
  refine ⟨?_, ?_, ?_⟩
  · refine List.Pairwise.imp_of_mem ?_ (List.pairwise_lt_range' (s := g+1) (n := n - (g+1)))
    intro a b ha hb hab
    simp only [List.mem_range'] at ha hb
    unfold dist; split <;> split <;> omega
  · refine List.Pairwise.imp_of_mem ?_ (List.pairwise_lt_range (n := g))
    intro a b ha hb hab
    simp only [List.mem_range] at ha hb
    unfold dist; split <;> split <;> omega
  · intro a ha b hb
    simp only [List.mem_range'] at ha
    simp only [List.mem_range] at hb
    unfold dist; split <;> split <;> omega

/-- C09 next_is_closest: the new owner requests, is not the old owner, and no requester is closer -/
theorem next_is_closest (n g : Nat) (req : Nat → Bool) (hg : g < n) (j : Nat) (hj : j < n) (hjg : j ≠ g)
    (hreq : req j = true) :
    let g' := nextImpl n req g
    g' < n ∧ g' ≠ g ∧ req g' = true ∧ dist n g g' ≤ dist n g j := by
  obtain ⟨y, hy1, hy2, hy3, hy4⟩ :=
    find_min (prio n g) (dist n g) (fun p => req p) (prio_sorted n g hg) j ((mem_prio hg).mpr ⟨hj, hjg⟩) hreq
  have hy := (mem_prio hg).mp hy2
  simp only [nextImpl_eq, hy1]
  exact ⟨hy.1, hy.2, hy3, hy4⟩

theorem next_stays (n g : Nat) (req : Nat → Bool) (hg : g < n)
    (hnone : ∀ p, p < n → p ≠ g → req p = false) : nextImpl n req g = g := by
  rw [nextImpl_eq]
  have : (prio n g).find? (fun p => req p) = none := by
    rw [List.find?_eq_none]
    intro p hp
    have := (mem_prio hg).mp hp
    simp [hnone p this.1 this.2]
  rw [this]

/-! ## starvation freedom over infinite schedules -/

structure Sched where
  req  : Nat → Nat → Bool      -- time → initiator → cyc
  busy : Nat → Bool            -- time → bus busy (a function of the owner's cyc/stb/lock)

def grant (n : Nat) (σ : Sched) : Nat → Nat
  | 0 => 0
  | t+1 => if σ.busy t then grant n σ t else nextImpl n (σ.req t) (grant n σ t)

theorem grant_lt (n : Nat) (hn : 0 < n) (σ : Sched) (t : Nat) : grant n σ t < n := by
  induction t with
  | zero => exact hn
  | succ t ih =>
    simp only [grant]
    split
    · exact ih
    · by_cases h : ∃ j, j < n ∧ j ≠ grant n σ t ∧ σ.req t j = true
      · obtain ⟨j, h1, h2, h3⟩ := h
        exact (next_is_closest n _ _ ih j h1 h2 h3).1
      · rw [next_stays n _ _ ih]
        · exact ih
        · intro p hp hpg
          cases hr : σ.req t p with
          | false => rfl
          | true => exact absurd ⟨p, hp, hpg, hr⟩ h

/-- dist to j of the new owner, when j requests and is not the owner: strictly smaller -/
theorem dist_decreases (n g j : Nat) (req : Nat → Bool) (hg : g < n) (hj : j < n) (hjg : j ≠ g)
    (hreq : req j = true) : dist n (nextImpl n req g) j < dist n g j := by
  obtain ⟨h1, h2, _, h4⟩ := next_is_closest n g req hg j hj hjg hreq
  revert h1 h2 h4
  generalize nextImpl n req g = g'
  intro h1 h2 h4
  unfold dist at h4 ⊢
  by_cases a : g ≤ g' <;> by_cases b : g ≤ j <;> by_cases c : g' ≤ j <;>
    simp only [a, b, c, if_true, if_false] at h4 ⊢ <;> omega

theorem dist_zero_iff (n g j : Nat) (hg : g < n) (hj : j < n) : dist n g j = 0 ↔ g = j := by
  unfold dist; split <;> omega

/-- while `j` waits from `t0`, either it has been served by `t0+k` or it is no farther than at `t0` -/
theorem wait (n : Nat) (hn : 0 < n) (σ : Sched) (j : Nat) (hj : j < n) (t0 d : Nat)
    (hreq : ∀ t, t0 ≤ t → σ.req t j = true) (hd : dist n (grant n σ t0) j ≤ d) (k : Nat) :
    (∃ t, t0 ≤ t ∧ t ≤ t0 + k ∧ grant n σ t = j) ∨
    (grant n σ (t0 + k) ≠ j ∧ dist n (grant n σ (t0 + k)) j ≤ d) := by
  induction k with
  | zero =>
    by_cases h : grant n σ t0 = j
    · left; exact ⟨t0, Nat.le_refl _, Nat.le_refl _, h⟩
    · right; exact ⟨h, hd⟩
  | succ k ih =>
    rcases ih with ⟨t, h1, h2, h3⟩ | ⟨hne, hle⟩
    · left; exact ⟨t, h1, by omega, h3⟩
    · have hstep : grant n σ (t0 + (k + 1)) =
          if σ.busy (t0 + k) then grant n σ (t0 + k) else nextImpl n (σ.req (t0 + k)) (grant n σ (t0 + k)) := rfl
      by_cases hb : σ.busy (t0 + k) = true
      · right; rw [hstep, if_pos hb]; exact ⟨hne, hle⟩
      · have hlt := grant_lt n hn σ (t0 + k)
        have hdec := dist_decreases n (grant n σ (t0 + k)) j (σ.req (t0 + k)) hlt hj (Ne.symm hne)
          (hreq _ (by omega))
        by_cases hg' : grant n σ (t0 + (k + 1)) = j
        · left; exact ⟨t0 + (k + 1), by omega, Nat.le_refl _, hg'⟩
        · right; refine ⟨hg', ?_⟩
          rw [hstep, if_neg hb]; omega

/-- C09 served: a continuously requesting initiator is eventually granted, provided the bus is
    released infinitely often. No bound on n, on the schedule, or on how long owners hold the bus. -/
theorem served (n : Nat) (hn : 0 < n) (σ : Sched) (j : Nat) (hj : j < n) (t0 : Nat)
    (hreq : ∀ t, t0 ≤ t → σ.req t j = true)
    (hrel : ∀ t, ∃ t', t ≤ t' ∧ σ.busy t' = false) :
    ∃ t, t0 ≤ t ∧ grant n σ t = j := by
  generalize hd : dist n (grant n σ t0) j = d
  induction d using Nat.strongRecOn generalizing t0 with
  | _ d ih =>
    obtain ⟨t', ht', hfree⟩ := hrel t0
    obtain ⟨k, rfl⟩ : ∃ k, t' = t0 + k := ⟨t' - t0, by omega⟩
    rcases wait n hn σ j hj t0 d hreq (by omega) k with ⟨t, h1, _, h3⟩ | ⟨hne, hle⟩
    · exact ⟨t, h1, h3⟩
    · have hlt := grant_lt n hn σ (t0 + k)
      have hdec := dist_decreases n (grant n σ (t0 + k)) j (σ.req (t0 + k)) hlt hj (Ne.symm hne)
        (hreq _ (by omega))
      have hstep : grant n σ (t0 + k + 1) = nextImpl n (σ.req (t0 + k)) (grant n σ (t0 + k)) := by
        show (if σ.busy (t0 + k) then _ else _) = _
        simp [hfree]
      obtain ⟨t, h1, h2⟩ := ih (dist n (grant n σ (t0 + k + 1)) j) (by rw [hstep]; omega)
        (t0 + k + 1) (fun t ht => hreq t (by omega)) rfl
      exact ⟨t, by omega, h2⟩

end Arb
