/-!
`amaranth_soc/wishbone/sram.py` `WishboneSRAM.elaborate`, implementation-shaped, over the
`amaranth.lib.memory` port semantics (trusted base): a synchronous read port whose enable falls
back to its initial value 1 when not driven and which is not transparent (it returns the word as
it was before the clock edge), and a write port with one enable bit per granule.
-/
namespace Sram

structure Cfg where
  dw : Nat           -- data width
  gran : Nat         -- granularity
  writable : Bool

def Cfg.lanes (c : Cfg) : Nat := c.dw / c.gran

structure In where
  cyc : Bool
  stb : Bool
  we  : Bool
  adr : Nat
  sel : Nat → Bool     -- select bit per granule
  datw : Nat

structure State where
  mem  : Nat → Nat     -- word-addressed contents
  ack  : Bool
  rdat : Nat           -- read-port data register

/-- granule `i` of a word -/
def lane (c : Cfg) (v i : Nat) : Nat := v / 2 ^ (i * c.gran) % 2 ^ c.gran

/-- word obtained by replacing the selected granules of `old` by those of `new` -/
def merge (c : Cfg) (old new : Nat) (en : Nat → Bool) : Nat :=
  (List.range c.lanes).foldl
    (fun acc i => acc + (if en i then lane c new i else lane c old i) * 2 ^ (i * c.gran)) 0

/-- the `Elif(cyc & stb)` branch is taken -/
def req (s : State) (x : In) : Bool := !s.ack && x.cyc && x.stb

/-- `write_port.en = Mux(we, sel, 0)` inside the request branch only -/
def wen (c : Cfg) (s : State) (x : In) (i : Nat) : Bool := c.writable && req s x && x.we && x.sel i

/-- `read_port.en`: driven to `~we` inside the request branch of a writable SRAM, else its init 1 -/
def ren (c : Cfg) (s : State) (x : In) : Bool := if c.writable && req s x then !x.we else true

def next (c : Cfg) (s : State) (x : In) : State :=
  { mem := fun a => if a = x.adr then merge c (s.mem a) x.datw (wen c s x) else s.mem a
    ack := if s.ack then false else (x.cyc && x.stb)
    rdat := if ren c s x then s.mem x.adr else s.rdat }

def init (m0 : Nat → Nat) : State := ⟨m0, false, 0⟩

def st (c : Cfg) (m0 : Nat → Nat) (inp : Nat → In) : Nat → State
  | 0 => init m0
  | t + 1 => next c (st c m0 inp t) (inp t)

end Sram
