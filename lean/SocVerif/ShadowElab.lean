import SocVerif.Shadow
/-!
The only state of the package that survives `elaborate()`: the two `_Shadow` objects a
`csr.Multiplexer` creates in its constructor and mutates when elaborated (`_ranges` set →
frozenset, `_size`, `overlaps`). Modelled as a state machine over repeated elaborations, with the
repaired `_Shadow.add` (no-op once prepared) next to the original one (`AttributeError` on the
frozenset).
-/
namespace Mux

structure ShState where
  ranges : List Reg        -- `_ranges`, duplicate-free, in insertion order
  frozen : Bool            -- `isinstance(self._ranges, frozenset)`: `prepare()` has succeeded
  size   : Nat             -- `_size`
  ov     : Option Nat      -- `overlaps` (`none` until `prepare()` replaces it by `len(_ranges)`)

inductive ElabErr where
  | attributeError         -- original code: `frozenset` has no `add`
  | lateRegister           -- repaired code: a register unknown to the prepared shadow (added to the map after the first elaboration): refused with ValueError
  | valueError             -- the overlap limit cannot be satisfied
deriving DecidableEq, Repr

def ShState.new (ov : Option Nat) : ShState := ⟨[], false, 1, ov⟩

/-- `_Shadow.add` as repaired: once prepared, only check that the register is known -/
def ShState.add (s : ShState) (r : Reg) : Except ElabErr ShState :=
  if s.frozen then (if s.ranges.contains r then .ok s else .error .lateRegister)
  else .ok { s with ranges := if s.ranges.contains r then s.ranges else s.ranges ++ [r]
                    size := max s.size r.rsz }

/-- the original `_Shadow.add`: `self._ranges.add(reg_range)` on whatever `_ranges` is -/
def ShState.addOrig (s : ShState) (r : Reg) : Except ElabErr ShState :=
  if s.frozen then .error .attributeError
  else .ok { s with ranges := if s.ranges.contains r then s.ranges else s.ranges ++ [r]
                    size := max s.size r.rsz }

/-- `_Shadow.prepare()` (repaired): returns at once when already prepared -/
def ShState.prepare (s : ShState) : Except ElabErr ShState :=
  if s.frozen then .ok s
  else
    let o := s.ov.getD s.ranges.length
    if h : 0 < s.size then
      match Mux.prepare s.ranges o s.size h with
      | some S => .ok { s with frozen := true, size := S, ov := some o }
      | none => .error .valueError
    else .error .valueError

def addAll (add : ShState → Reg → Except ElabErr ShState) : ShState → List Reg → Except ElabErr ShState
  | s, [] => .ok s
  | s, r :: rs => match add s r with
    | .ok s' => addAll add s' rs
    | .error e => .error e

/-- the shadow part of one `Multiplexer.elaborate()`: add every register of the map, then prepare -/
def elabShadow (s : ShState) (regs : List Reg) : Except ElabErr ShState :=
  match addAll ShState.add s regs with
  | .ok s' => s'.prepare
  | .error e => .error e

def elabShadowOrig (s : ShState) (regs : List Reg) : Except ElabErr ShState :=
  match addAll ShState.addOrig s regs with
  | .ok s' => s'.prepare
  | .error e => .error e

/-- the hardware generated from a prepared shadow is a function of the register set and the size -/
def hardwareOf (s : ShState) : List Reg × Nat := (s.ranges, s.size)

end Mux
