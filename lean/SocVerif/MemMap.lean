import SocVerif.RangeMap
import SocVerif.Names
/-!
Executable model of `amaranth_soc.memory.MemoryMap` (memory.py), implementation-shaped:

* `_RangeMap` is the sorted item list with the bisect indices of `RangeMap` (`overlaps`, `insertAt`,
  `getAt` are the code's `bisect_right/left` slices);
* `_Namespace.is_available` is the coded index loop `Names.conflictLoop`;
* `_compute_addr_range`, `add_resource`, `add_window`, `align_to`, `freeze` perform the code's
  checks in the code's order and return `none` where the code raises (state unchanged);
* a window stores a snapshot of the (frozen) child map as a nested `Tree`;
* `_translate`, `all_resources`, `find_resource`, `decode_address` are three independent
  traversals as in the code.

A `World` is the list of all maps created so far (handles = indices), because adding a window
freezes the *child* map.
-/
namespace MemMap
open RangeMap Names

inductive Tree where
  | res (id : Nat) (name : Name) (s e : Nat)
  | win (id : Nat) (name : Option Name) (s e step : Nat) (dw : Nat) (kids : List Tree) (order : List Nat)
  -- `order`: positions (in `kids`) of the child's windows in insertion order followed by nothing
  -- else; used only by `find_resource`, which iterates `_windows` in insertion order.

def Tree.lo : Tree → Nat | .res _ _ s _ => s | .win _ _ s _ _ _ _ _ => s
def Tree.hi : Tree → Nat | .res _ _ _ e => e | .win _ _ _ e _ _ _ _ => e
def Tree.rng (t : Tree) : Rng := ⟨t.lo, t.hi⟩
def Tree.isRes : Tree → Bool | .res .. => true | .win .. => false
def Tree.ident : Tree → Nat | .res id .. => id | .win id .. => id

structure Info where
  id    : Nat
  path  : List Name
  s     : Nat
  e     : Nat
  width : Nat
deriving Repr, DecidableEq

/-- `MemoryMap._translate` (the three `assert`s are `translateOk`) -/
def translate (wname : Option Name) (base step : Nat) (i : Info) : Info :=
  { id := i.id
    path := match wname with | none => i.path | some n => n :: i.path
    s := i.s / step + base
    e := i.s / step + base + (i.e - i.s) / step
    width := i.width * step }

def translateOk (step cdw : Nat) (i : Info) : Bool :=
  (i.e - i.s) % step == 0 && i.s % step == 0 && (step == 1 || i.width == cdw)

mutual
/-- `all_resources()` of a map whose `_ranges` items are the given list and whose data width is `dw` -/
def Tree.all (dw : Nat) : Tree → List Info
  | .res id name s e => [⟨id, [name], s, e, dw⟩]
  | .win _ name s _ step cdw kids _ => (Tree.allList cdw kids).map (translate name s step)
def Tree.allList (dw : Nat) : List Tree → List Info
  | [] => []
  | t :: ts => t.all dw ++ Tree.allList dw ts
end

mutual
/-- do all `_translate` asserts hold during `all_resources()`? -/
def Tree.allOk : Tree → Bool
  | .res .. => true
  | .win _ _ _ _ step cdw kids _ =>
      Tree.allOkList kids && (Tree.allList cdw kids).all (translateOk step cdw)
def Tree.allOkList : List Tree → Bool
  | [] => true
  | t :: ts => t.allOk && Tree.allOkList ts
end

/-- `_RangeMap.get` on the item list: index `bisect_right(stops, point)`, then the range test -/
def getItem (items : List Tree) (p : Nat) : Option Tree :=
  match items[bisectRight (items.map (·.hi)) p]? with
  | some t => if t.lo ≤ p ∧ p < t.hi then some t else none
  | none => none

/-- `decode_address`: fuel = nesting depth bound (the driver passes the tree depth; the
    structural version used in proofs is `Tree.decodeList`). -/
def decodeFuel : Nat → List Tree → Nat → Option Nat
  | 0, _, _ => none
  | f+1, items, a =>
    match getItem items a with
    | none => none
    | some (.res id _ _ _) => some id
    | some (.win _ _ s _ step _ kids _) => decodeFuel f kids ((a - s) * step)

mutual
/-- structural form of `decode_address` (first item whose range contains the address) -/
def Tree.decode : Tree → Nat → Option Nat
  | .res id _ s e, a => if s ≤ a ∧ a < e then some id else none
  | .win _ _ s e step _ kids _, a =>
      if s ≤ a ∧ a < e then Tree.decodeList kids ((a - s) * step) else none
def Tree.decodeList : List Tree → Nat → Option Nat
  | [], _ => none
  | t :: ts, a => match t.decode a with
    | some r => some r
    | none => Tree.decodeList ts a
end

mutual
def Tree.depth : Tree → Nat
  | .res .. => 1
  | .win _ _ _ _ _ _ kids _ => Tree.depthList kids + 1
def Tree.depthList : List Tree → Nat
  | [] => 1
  | t :: ts => max t.depth (Tree.depthList ts)
end

/-- `find_resource`: own resources first, then each window in insertion order. The result also
    carries whether a `_translate` assert would fail. Fuel as for `decodeFuel`. -/
def findFuel : Nat → Nat → List Tree → List Nat → Nat → Option Info
  | 0, _, _, _, _ => none
  | f+1, dw, items, order, rid =>
    match items.find? (fun t => t.isRes && t.ident == rid) with
    | some (.res id name s e) => some ⟨id, [name], s, e, dw⟩
    | _ =>
      let rec go : List Nat → Option Info
        | [] => none
        | k :: ks =>
          match items[k]? with
          | some (.win _ name s _ step cdw kids ord) =>
            match findFuel f cdw kids ord rid with
            | some i => some (translate name s step i)
            | none => go ks
          | _ => go ks
      go order

structure MMap where
  aw : Nat
  dw : Nat
  al : Nat
  items  : List Tree := []     -- `_ranges`, ascending
  next   : Nat := 0
  frozen : Bool := false
  names  : List Name := []     -- `_namespace` keys
  resIds : List Nat := []      -- keys of `_resources`
  winIds : List Nat := []      -- keys of `_windows`, insertion order (oldest first)

/-- `_align_up` in the code's form -/
def alignUp (v a : Nat) : Nat :=
  let m := 2 ^ a
  if v % m != 0 then v + (m - v % m) else v

def ranges (items : List Tree) : List Rng := items.map Tree.rng

/-- `_RangeMap.insert`: position `bisect_right(starts, key.start)` -/
def insertItem (items : List Tree) (t : Tree) : List Tree :=
  let si := bisectRight ((ranges items).map (·.start)) t.lo
  items.take si ++ t :: items.drop si

/-- `_compute_addr_range`: the explicit address is checked against the *map* alignment only. -/
def computeRange (m : MMap) (addr : Option Nat) (size : Nat) (alignment : Nat) : Option (Nat × Nat) :=
  let start? : Option Nat :=
    match addr with
    | some a => if a % 2 ^ m.al != 0 then none else some a
    | none => some (alignUp m.next alignment)
  match start? with
  | none => none
  | some a =>
    let sz := alignUp (max size 1) alignment
    if a > 2 ^ m.aw || a + sz > 2 ^ m.aw then none
    else if !(overlaps (ranges m.items) ⟨a, a + sz⟩).isEmpty then none
    else some (a, a + sz)

/-- `_Namespace.is_available(*qs)` (conflicts among the queried names themselves cannot occur:
    they come from one prefix-free namespace — theorem `names_prefix_free`). -/
def available (names : List Name) (qs : List Name) : Bool :=
  qs.all fun q => names.all fun n => conflictLoop q n != some true

def addResource (m : MMap) (id : Nat) (name : Name) (size : Nat) (addr : Option Nat)
    (alignment : Option Nat) : Option (MMap × Nat × Nat) :=
  if m.frozen then none
  else if m.resIds.contains id then none
  else if name.isEmpty then none                       -- `MemoryMap.Name(name)` raises TypeError
  else if !available m.names [name] then none
  else
    let al := match alignment with | some a => max a m.al | none => m.al
    match computeRange m addr size al with
    | none => none
    | some (s, e) =>
      some ({ m with items := insertItem m.items (.res id name s e), resIds := id :: m.resIds,
                     names := name :: m.names, next := e }, s, e)

/-- positions in `items` of the windows, in insertion order of `winIds` -/
def winOrder (m : MMap) : List Nat :=
  m.winIds.filterMap fun h => m.items.findIdx? (fun t => !t.isRes && t.ident == h)

def addWindow (m : MMap) (h : Nat) (child : MMap) (name : Option Name) (addr : Option Nat)
    (sparse : Option Bool) : Option (MMap × Nat × Nat × Nat) :=
  if m.frozen then none
  else if m.winIds.contains h then none
  else if child.dw > m.dw then none
  else if child.dw != m.dw && sparse.isNone then none
  else if child.dw != m.dw && sparse == some false && m.dw % child.dw != 0 then none
  else if name == some [] then none                    -- `MemoryMap.Name(name)` raises TypeError
  else
    let queries := match name with | none => child.names | some n => [n]
    if !available m.names queries then none
    else
      let ratio := if sparse == some true then 1 else m.dw / child.dw
      if ratio &&& (ratio - 1) != 0 then none
      else if ratio > 2 ^ child.al then none
      else
        let size := 2 ^ child.aw / ratio
        let al := max m.al (child.aw / ratio)
        match computeRange m addr size al with
        | none => none
        | some (s, e) =>
          let t := Tree.win h name s e ratio child.dw child.items (winOrder child)
          some ({ m with items := insertItem m.items t, winIds := m.winIds ++ [h],
                         names := queries ++ m.names, next := e }, s, e, ratio)

def alignTo (m : MMap) (a : Nat) : MMap × Nat :=
  let n := alignUp m.next (max a m.al)
  ({ m with next := n }, n)

/-! ## the world of maps and its operations -/

inductive Op where
  | new (aw dw al : Nat)
  | res (h id : Nat) (name : Name) (size : Nat) (addr al : Option Nat)
  | win (h ch : Nat) (name : Option Name) (addr : Option Nat) (sparse : Option Bool)
  | align (h a : Nat)
  | freeze (h : Nat)

inductive Out where
  | ok (vals : List Nat)
  | refused
  | badHandle
deriving Repr, DecidableEq

abbrev World := List MMap

def step (w : World) : Op → World × Out
  | .new aw dw al => (w ++ [{ aw := aw, dw := dw, al := al }], .ok [w.length])
  | .res h id name size addr al =>
    match w[h]? with
    | none => (w, .badHandle)
    | some m =>
      match addResource m id name size addr al with
      | some (m', s, e) => (w.set h m', .ok [s, e])
      | none => (w, .refused)
  | .win h ch name addr sparse =>
    match w[h]?, w[ch]? with
    | some m, some c =>
      match addWindow m ch c name addr sparse with
      | some (m', s, e, r) =>
        -- `window.freeze()` happens before the parent is mutated; if h = ch the map contains
        -- itself (not a tree; outside every property's domain) and the parent update wins.
        ((w.set ch { c with frozen := true }).set h m', .ok [s, e, r])
      | none => (w, .refused)
    | _, _ => (w, .badHandle)
  | .align h a =>
    match w[h]? with
    | none => (w, .badHandle)
    | some m => let (m', n) := alignTo m a; (w.set h m', .ok [n])
  | .freeze h =>
    match w[h]? with
    | none => (w, .badHandle)
    | some m => (w.set h { m with frozen := true }, .ok [])

def run (w : World) (ops : List Op) : World := ops.foldl (fun w op => (step w op).1) w

end MemMap
