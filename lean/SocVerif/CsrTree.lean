import SocVerif.Mux
import SocVerif.Props.C04
import SocVerif.Props.C05
import SocVerif.Decoders
/-!
Trees of CSR decoders over multiplexers as *behaviours* (functions of the whole input stream), so
that "registers spread over a tree of decoders behave exactly like the same registers on one
multiplexer at the addresses the memory map reports" (C06) can be stated as: both meet the same
specification `CsrSpec` — the conjunction of the C04/C05 clauses — for the flattened layout.
-/
namespace CsrT
open Mux Dec

/-- one cycle of CSR bus input, together with the value every register presents -/
structure CIn where
  addr  : Nat
  rstb  : Bool
  wstb  : Bool
  wdata : Nat
  rval  : Reg → Nat

/-- the observable behaviour of a CSR target, as a function of the input stream -/
structure Beh where
  rdata  : (Nat → CIn) → Nat → Nat            -- bus.r_data in cycle t
  rstbE  : (Nat → CIn) → Nat → Reg → Bool     -- element r_stb of a register in cycle t
  wstbE  : (Nat → CIn) → Nat → Reg → Bool     -- element w_stb in cycle t
  wdataE : (Nat → CIn) → Nat → Reg → Nat      -- element w_data in cycle t

def toR (x : CIn) : RIn := ⟨x.addr, x.rstb, x.rval⟩
def toW (x : CIn) : WIn := ⟨x.addr, x.wstb, x.wdata⟩

/-- a multiplexer (chunk width `W`, shadow size `S`) over `regs` -/
def muxBeh (W S : Nat) (regs : List Reg) : Beh :=
  { rdata  := fun inp t => busR S regs (rst W S regs (fun u => toR (inp u)) t)
    rstbE  := fun inp t r => elemRstb S regs (toR (inp t)) r
    wstbE  := fun inp t r => (wst S regs (fun u => toW (inp u)) t).estb r
    wdataE := fun inp t r => elemWdata W S (wst S regs (fun u => toW (inp u)) t) r }

/-- a register seen through a window at `s` -/
def shift (s : Nat) (r : Reg) : Reg := { r with start := r.start + s }

/-- what the subordinate behind the window `[s, s + 2^aw)` sees: `addr[:aw]`, the write data, the
    strobes only when the window's pattern matches, and the values of its own registers -/
def proj (s aw : Nat) (inp : Nat → CIn) : Nat → CIn := fun t =>
  let x := inp t
  let sel := (windowPat s aw).matches x.addr
  ⟨x.addr % 2 ^ aw, sel && x.rstb, sel && x.wstb, x.wdata, fun q => x.rval (shift s q)⟩

structure Sub where
  start : Nat
  aw : Nat
  beh : Beh

/-- a decoder over subordinates: read data is the OR of the subordinates' read data; the element
    signals of a register at absolute position `R` are those of the subordinate whose window
    contains it, at the register's local position -/
def decBeh (subs : List Sub) : Beh :=
  let pick (R : Reg) : Option Sub := subs.find? fun sb => decide (sb.start ≤ R.start ∧ R.start < sb.start + 2 ^ sb.aw)
  let unshift (sb : Sub) (R : Reg) : Reg := { R with start := R.start - sb.start }
  { rdata  := fun inp t => subs.foldl (fun acc sb => acc ||| sb.beh.rdata (proj sb.start sb.aw inp) t) 0
    rstbE  := fun inp t R => match pick R with
      | some sb => sb.beh.rstbE (proj sb.start sb.aw inp) t (unshift sb R) | none => false
    wstbE  := fun inp t R => match pick R with
      | some sb => sb.beh.wstbE (proj sb.start sb.aw inp) t (unshift sb R) | none => false
    wdataE := fun inp t R => match pick R with
      | some sb => sb.beh.wdataE (proj sb.start sb.aw inp) t (unshift sb R) | none => 0 }

/-- the specification every CSR target must meet for its register layout: the clauses of C04 and
    C05 (strobe exactness for all inputs; zero read data unless a readable chunk was read; atomic
    read snapshot and atomic write concatenation under the bus protocol) -/
structure CsrSpec (W : Nat) (layout : List Reg) (B : Beh) : Prop where
  rstb_exact : ∀ inp t r, r ∈ layout →
    B.rstbE inp t r = (r.rd && (inp t).rstb && ((inp t).addr == r.start))
  rdata_zero0 : ∀ inp, B.rdata inp 0 = 0
  rdata_zero_unless : ∀ inp t, B.rdata inp (t + 1) ≠ 0 →
    (inp t).rstb = true ∧ ∃ r ∈ layout, r.rd = true ∧ r.start ≤ (inp t).addr ∧ (inp t).addr < r.stop
  snapshot : ∀ inp r, r ∈ layout → r.rd = true → ∀ t0 t1, t0 ≤ t1 →
    ((inp t0).rstb = true ∧ (inp t0).addr = r.start) →
    ((inp t1).rstb = true ∧ r.start ≤ (inp t1).addr ∧ (inp t1).addr < r.stop) →
    (∀ t, t0 < t → t ≤ t1 → (inp t).rstb = true → ∀ q ∈ layout, q.rd = true → (inp t).addr ≠ q.start) →
    B.rdata inp (t1 + 1) = slice W ((inp t0).rval r) ((inp t1).addr - r.start)
  wstb0 : ∀ inp r, r ∈ layout → B.wstbE inp 0 r = false
  wstb_exact : ∀ inp t r, r ∈ layout →
    B.wstbE inp (t + 1) r = (r.wr && (inp t).wstb && ((inp t).addr == r.stop - 1))
  write_concat : ∀ inp r, r ∈ layout → r.wr = true → ∀ (τ v : Nat → Nat),
    (∀ k, k + 1 < r.len → τ k < τ (k + 1)) →
    (∀ k, k < r.len → (inp (τ k)).wstb = true ∧ (inp (τ k)).addr = r.start + k ∧ (inp (τ k)).wdata = v k) →
    (∀ t, τ 0 ≤ t → t ≤ τ (r.len - 1) → (∀ k, k < r.len → t ≠ τ k) → (inp t).wstb = false) →
    B.wdataE inp (τ (r.len - 1) + 1) r = Mux.concat W v r.len % 2 ^ r.width

/-- the flattened layout of a decoder: every subordinate's registers at their absolute addresses -/
def flatLayout (subs : List (Sub × List Reg)) : List Reg :=
  subs.flatMap fun p => p.2.map (shift p.1.start)

end CsrT
