import SocVerif.Driver.MuxD
import SocVerif.Driver.MemMapD
import SocVerif.Driver.TreeD
import SocVerif.Driver.ActD
import SocVerif.Driver.EvD
import SocVerif.Driver.RegD
import SocVerif.Driver.SramD
import SocVerif.Driver.ArbD
import SocVerif.Driver.BridgeD
import SocVerif.Driver.BuilderD
import SocVerif.Driver.DecD
import SocVerif.Driver.CsrMonD
import SocVerif.Driver.GpioD
import SocVerif.Driver.E2ED
import SocVerif.Driver.RootD

def main (args : List String) : IO UInt32 := do
  match args with
  | ["mux"] => MuxD.main; return 0
  | ["mmap"] => MemMapD.main; return 0
  | ["tree"] => TreeD.main; return 0
  | ["action"] => ActD.main; return 0
  | ["monitor"] => EvD.mainMon; return 0
  | ["evmap"] => EvD.mainMap; return 0
  | ["reg"] => RegD.main; return 0
  | ["sram"] => SramD.main; return 0
  | ["arbiter"] => ArbD.main; return 0
  | ["bridge"] => BridgeD.main; return 0
  | ["builder"] => BuilderD.main; return 0
  | ["csrdec"] => DecD.mainCsr; return 0
  | ["wbdec"] => DecD.mainWb; return 0
  | ["csrmon"] => CsrMonD.main; return 0
  | ["gpio"] => GpioD.main; return 0
  | ["e2e"] => E2ED.main; return 0
  | ["root"] => RootD.main; return 0
  | _ => IO.eprintln "usage: driver <mux|mmap|...>"; return 2
