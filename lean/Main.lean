import SocVerif.Driver.MuxD
import SocVerif.Driver.MemMapD
import SocVerif.Driver.TreeD

def main (args : List String) : IO UInt32 := do
  match args with
  | ["mux"] => MuxD.main; return 0
  | ["mmap"] => MemMapD.main; return 0
  | ["tree"] => TreeD.main; return 0
  | _ => IO.eprintln "usage: driver <mux|mmap|...>"; return 2
