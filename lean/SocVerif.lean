import SocVerif.Mux
import SocVerif.RangeMap
import SocVerif.Names
import SocVerif.Arbiter
import SocVerif.Bridge
import SocVerif.MapTree
