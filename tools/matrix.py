#!/usr/bin/env python3
"""mutation matrix: every seeded change × every check (quick tier), on scratch worktrees of /repo
(VERIF_REPO) so that /repo itself is never touched; C20 (which regenerates Lean facts inside the
harness directory) is run one at a time. Run it from a snapshot copy of /verif (VERIF_DIR) so that
neither edits nor the regenerated facts disturb the live tree. Writes seeded/matrix.json."""
import json, os, subprocess, sys, shutil, concurrent.futures as cf
V = os.environ.get("VERIF_DIR", "/verif")   # a snapshot copy may be used so that edits in /verif do not disturb a running matrix
OUTV = "/verif"
PROPS = [f"C{n:02d}" for n in range(1, 21)]
PAR = [p for p in PROPS if p != "C20"]
import threading
C20_LOCK = threading.Lock()


def sh(cmd, cwd=None, env=None, timeout=3600):
    p = subprocess.run(cmd, cwd=cwd, shell=True, capture_output=True, text=True, timeout=timeout, env=env)
    return p.returncode, p.stdout + p.stderr


OWN_ONLY = bool(os.environ.get("MATRIX_OWN_ONLY"))
D_OWN = {"D4": "C20", "D9": "C20", "D12": "C06", "D14": "C20", "D16": "C17"}


def own_of(mid):
    return D_OWN.get(mid, "C19") if mid.startswith("D") else mid[:3]


def run_mutant(mid, slot):
    wt = f"/tmp/wt/m{slot}"
    out = f"/tmp/wt/out{slot}"
    if not os.path.exists(wt):
        sh(f"git -C /repo worktree add -q --detach {wt} HEAD")
    sh("git checkout -q -- . && git clean -fdq", cwd=wt)
    rc, o = sh(f"git apply {V}/seeded/{mid}/patch.diff", cwd=wt)
    if rc != 0:
        return mid, {"error": "patch does not apply: " + o[-200:]}
    shutil.rmtree(out, ignore_errors=True)
    res = {}
    env = dict(os.environ, VERIF_REPO=wt, VERIF_OUT=out, VERIF_JOBS="4", VERIF_SKIP_BUILD="1")
    for p in ([q for q in PAR if q == own_of(mid)] if OWN_ONLY else PAR):
        rc, o = sh(f"./check {p} quick", cwd=V, env=env, timeout=1200)
        v = [l for l in o.splitlines() if l.startswith("VIOLATION")]
        res[p] = {"rc": rc, "violations": len(v), "with_failing_input": sum("no-failing-input-found" not in l for l in v)}
        if rc == 2:
            res[p]["log"] = o[-300:]
    # C20 regenerates Lean facts inside V/lean (shared), so one at a time; still on the scratch worktree
    if OWN_ONLY and own_of(mid) != "C20":
        sh("git checkout -q -- .", cwd=wt)
        res["own_only"] = True
        return mid, res
    with C20_LOCK:
        env20 = dict(os.environ, VERIF_REPO=wt, VERIF_OUT=out, VERIF_JOBS="4")
        rc, o = sh("./check C20 quick", cwd=V, env=env20, timeout=1800)
        v = [l for l in o.splitlines() if l.startswith("VIOLATION")]
        res["C20"] = {"rc": rc, "violations": len(v), "with_failing_input": sum("no-failing-input-found" not in l for l in v)}
        if rc == 2:
            res["C20"]["log"] = o[-300:]
    sh("git checkout -q -- .", cwd=wt)
    return mid, res


def main():
    mids = sorted(d for d in os.listdir(f"{V}/seeded") if os.path.exists(f"{V}/seeded/{d}/patch.diff"))
    if len(sys.argv) > 1:
        mids = [m for m in mids if m in sys.argv[1:]]
    results = {}
    for w in range(0, len(mids), 4):
        wave = mids[w:w + 4]
        with cf.ThreadPoolExecutor(4) as ex:
            for mid, res in ex.map(lambda t: run_mutant(*t), [(m, i) for i, m in enumerate(wave)]):
                results[mid] = res
                caught = [p for p, r in res.items() if isinstance(r, dict) and r.get("rc") == 1]
                print(mid, "caught by", caught, flush=True)
    old = {}
    if len(sys.argv) > 1 and os.path.exists(f"{OUTV}/seeded/matrix.json"):
        old = json.load(open(f"{OUTV}/seeded/matrix.json"))
    old.update(results)
    json.dump(old, open(f"{OUTV}/seeded/matrix.json", "w"), indent=1, sort_keys=True)
    for i in range(4):
        sh(f"git -C /repo worktree remove --force /tmp/wt/m{i}")


main()
