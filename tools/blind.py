#!/usr/bin/env python3
"""how good are the generators on changes they were NOT tuned on? every seeded change × the check of
its own property, with the corpus switched off (VERIF_NO_CORPUS=1) and seeds the harvest never used;
prints the changes a seed misses. Scratch worktrees only (VERIF_REPO)."""
import json, os, subprocess, sys, shutil, concurrent.futures as cf
V = os.environ.get("VERIF_DIR", "/verif")
SEEDS = [int(x) for x in os.environ.get("BLIND_SEEDS", "5,6").split(",")]


def sh(cmd, cwd=None, env=None):
    p = subprocess.run(cmd, cwd=cwd, shell=True, capture_output=True, text=True, timeout=3600, env=env)
    return p.returncode, p.stdout + p.stderr


def one(args):
    mid, slot = args
    prop = mid[:3]
    wt, out = f"/tmp/wt/b{slot}", f"/tmp/wt/outb{slot}"
    if not os.path.exists(wt):
        sh(f"git -C /repo worktree add -q --detach {wt} HEAD")
    sh("git checkout -q -- . && git clean -fdq", cwd=wt)
    if sh(f"git apply {V}/seeded/{mid}/patch.diff", cwd=wt)[0] != 0:
        return mid, None
    res = {}
    for sd in SEEDS:
        env = dict(os.environ, VERIF_REPO=wt, VERIF_OUT=out, VERIF_JOBS="4", VERIF_SKIP_BUILD="1", VERIF_NO_CORPUS="1", VERIF_SEED=str(sd))
        rc, o = sh(f"./check {prop} quick", cwd=V, env=env)
        res[sd] = rc
    sh("git checkout -q -- .", cwd=wt)
    return mid, res


def main():
    mids = sorted(d for d in os.listdir(f"{V}/seeded") if d[0] == "C" and d[:3] != "C20" and os.path.exists(f"{V}/seeded/{d}/patch.diff"))
    if len(sys.argv) > 1:
        mids = [m for m in mids if m in sys.argv[1:]]
    allres = {}
    for w in range(0, len(mids), 4):
        with cf.ThreadPoolExecutor(4) as ex:
            for mid, res in ex.map(one, [(m, i) for i, m in enumerate(mids[w:w + 4])]):
                allres[mid] = res
                if res is None or any(rc != 1 for rc in res.values()):
                    print(mid, res, flush=True)
    json.dump(allres, open("/tmp/blind.json", "w"), indent=1)
    n = sum(1 for r in allres.values() if r and all(rc == 1 for rc in r.values()))
    print(f"caught with every seed: {n} of {len(allres)}")
    for i in range(4):
        sh(f"git -C /repo worktree remove --force /tmp/wt/b{i}")


main()
