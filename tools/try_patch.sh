#!/bin/sh
# usage: tools/try_patch.sh <patch.diff> <Cxx> [Cyy ...]  — applies to /repo, runs quick checks, reverts
P="$1"; shift
git -C /repo apply "$(realpath "$P")" || { echo "patch does not apply"; exit 3; }
for c in "$@"; do
  out=$(cd /verif && ./check "$c" quick 2>&1); rc=$?
  echo "[$c rc=$rc] $(echo "$out" | grep -E 'VIOLATION|KNOWN|OK|INFRA' | head -3)"
done
git -C /repo checkout -- . ; git -C /repo status --short | head -3
