#!/usr/bin/env python3
"""which checks (C01..C19) can be affected by a patch at all: those whose harness exercises a file the patch touches
(the patch's own property is always included). Used by tools/harmless.sh to skip checks that cannot see the change."""
import re, sys
DEP = {
    "amaranth_soc/memory.py": "01 02 03 04 05 06 07 10 14 15 16 17 18 19",
    "amaranth_soc/csr/bus.py": "01 02 04 05 06 10 11 12 14 16 17 19",
    "amaranth_soc/csr/reg.py": "01 02 11 12 14 16 17 19",
    "amaranth_soc/csr/action.py": "01 11 12 16 19",
    "amaranth_soc/csr/event.py": "01 14 19",
    "amaranth_soc/csr/wishbone.py": "01 10 19",
    "amaranth_soc/wishbone/bus.py": "01 07 08 09 10 15 19",
    "amaranth_soc/wishbone/sram.py": "01 15 19",
    "amaranth_soc/event.py": "01 13 14 19",
    "amaranth_soc/gpio.py": "01 16 19",
    "amaranth_soc/periph.py": "02 19",
}
path = sys.argv[1]
files = set(re.findall(r"^\+\+\+ b/(\S+)", open(path).read(), re.M))
sel = set()
for f in files:
    sel |= set(DEP.get(f, "01 02 03 04 05 06 07 08 09 10 11 12 13 14 15 16 17 18 19").split())
m = re.search(r"_C(\d\d)", path)
if m and m.group(1) != "20":
    sel.add(m.group(1))
print(" ".join(sorted(sel)))
